package main

// A small intra-procedural, flow-insensitive, field-sensitive dependence ("taint") engine over go/ssa.
// Labels are bit sets; the analysis over-approximates dependence (a value is labelled when it MAY depend on a source).
// Used by C01.R2/C13.R2 (relocation completeness), C03.R2, C05.R2.

import (
	"go/token"
	"go/types"

	"golang.org/x/tools/go/ssa"
)

type Label uint64

type locKey struct {
	base  ssa.Value // Alloc / MakeSlice / MakeMap / opaque reference value
	field int       // -1: whole object
}

type Taint struct {
	fn *ssa.Function
	// Source labels of a value; for struct-typed parameters fieldSrc may give per-field labels.
	src      func(v ssa.Value) Label
	fieldSrc func(v ssa.Value, field int) (Label, bool)
	val      map[ssa.Value]Label
	loc      map[locKey]Label
	// callLabel, when set, gives the label of a call result from its argument labels (default: union of arguments)
	callLabel func(call *ssa.Call, args []Label) (Label, bool)
}

func NewTaint(fn *ssa.Function, src func(ssa.Value) Label) *Taint {
	return &Taint{fn: fn, src: src, val: map[ssa.Value]Label{}, loc: map[locKey]Label{}}
}

// objOf resolves an address or reference value to the abstract object (and field, for struct allocations) it designates.
func (t *Taint) objOf(addr ssa.Value) locKey {
	switch x := addr.(type) {
	case *ssa.FieldAddr:
		base := t.objOf(x.X)
		if base.field == -1 {
			// one level of field sensitivity below any base pointer (local allocation, parameter, call result)
			if _, isStruct := deref(x.X.Type()).Underlying().(*types.Struct); isStruct && x.X == base.base {
				return locKey{base.base, x.Field}
			}
		}
		return locKey{base.base, base.field}
	case *ssa.IndexAddr:
		return t.objOf(x.X)
	case *ssa.Slice:
		return t.objOf(x.X)
	case *ssa.ChangeType:
		return t.objOf(x.X)
	case *ssa.UnOp:
		if x.Op == token.MUL {
			// a reference loaded from memory: the object is "whatever is stored there"; approximated by the location itself
			return t.objOf(x.X)
		}
	case *ssa.Phi:
		// merge: use the phi itself as the object; Run links it with its operands
		return locKey{x, -1}
	}
	return locKey{addr, -1}
}

func (t *Taint) get(v ssa.Value) Label {
	if v == nil {
		return 0
	}
	l := t.val[v]
	if t.src != nil {
		l |= t.src(v)
	}
	return l
}

// FieldLabel returns the label of field k of a struct-typed value.
func (t *Taint) FieldLabel(v ssa.Value, k int) Label {
	if t.fieldSrc != nil {
		if _, isParam := v.(*ssa.Parameter); !isParam {
			if l, ok := t.fieldSrc(v, k); ok {
				return l | t.val[v]
			}
		}
	}
	switch x := v.(type) {
	case *ssa.UnOp:
		if x.Op == token.MUL {
			o := t.objOf(x.X)
			if o.field == -1 {
				if _, ok := o.base.(*ssa.Alloc); ok && x.X == o.base {
					return t.loc[locKey{o.base, k}] | t.loc[locKey{o.base, -1}]
				}
			}
		}
	case *ssa.Parameter, *ssa.FreeVar:
		if t.fieldSrc != nil {
			if l, ok := t.fieldSrc(v, k); ok {
				return l | t.val[v]
			}
		}
	case *ssa.Phi:
		var l Label
		for _, e := range x.Edges {
			l |= t.FieldLabel(e, k)
		}
		return l
	case *ssa.MakeInterface:
		return t.FieldLabel(x.X, k)
	case *ssa.ChangeType:
		return t.FieldLabel(x.X, k)
	}
	return t.get(v)
}

func structFields(tp types.Type) int {
	if s, ok := tp.Underlying().(*types.Struct); ok {
		return s.NumFields()
	}
	return 0
}

func (t *Taint) Run() {
	for iter := 0; iter < 50; iter++ {
		changed := false
		setVal := func(v ssa.Value, l Label) {
			if l&^t.val[v] != 0 {
				t.val[v] |= l
				changed = true
			}
		}
		setLoc := func(k locKey, l Label) {
			if l&^t.loc[k] != 0 {
				t.loc[k] |= l
				changed = true
			}
		}
		for _, b := range t.fn.Blocks {
			for _, in := range b.Instrs {
				switch x := in.(type) {
				case *ssa.Store:
					o := t.objOf(x.Addr)
					l := t.get(x.Val)
					// whole-struct store into a struct alloc: per field
					if a, ok := x.Addr.(*ssa.Alloc); ok && o.field == -1 && structFields(deref(a.Type())) > 0 {
						n := structFields(deref(a.Type()))
						for k := 0; k < n; k++ {
							setLoc(locKey{a, k}, t.FieldLabel(x.Val, k))
						}
					} else {
						setLoc(o, l)
						if ia, ok := x.Addr.(*ssa.IndexAddr); ok {
							setLoc(o, t.get(ia.Index)&0) // index does not taint contents
						}
					}
					// storing a reference links the stored object's label into the location (contents flow)
					if isRefType(x.Val.Type()) {
						setLoc(o, t.loc[t.objOf(x.Val)])
					}
				case *ssa.MapUpdate:
					o := t.objOf(x.Map)
					setLoc(o, t.get(x.Value)|t.get(x.Key))
				case *ssa.UnOp:
					if x.Op == token.MUL {
						o := t.objOf(x.X)
						l := t.loc[o]
						if o.field >= 0 {
							l |= t.loc[locKey{o.base, -1}]
						} else if a, ok := o.base.(*ssa.Alloc); ok {
							n := structFields(deref(a.Type()))
							for k := 0; k < n; k++ {
								l |= t.loc[locKey{a, k}]
							}
						}
						// contents of an opaque object (parameter etc.) carry the label of the reference itself
						l |= t.get(o.base)
						setVal(x, l)
					} else {
						setVal(x, t.get(x.X))
					}
				case *ssa.BinOp:
					setVal(x, t.get(x.X)|t.get(x.Y))
				case *ssa.Phi:
					var l Label
					for _, e := range x.Edges {
						l |= t.get(e)
						if isRefType(x.Type()) {
							l |= t.loc[t.objOf(e)]
							setLoc(t.objOf(e), t.loc[locKey{x, -1}])
						}
					}
					setVal(x, l)
					if isRefType(x.Type()) {
						setLoc(locKey{x, -1}, l)
					}
				case *ssa.Convert:
					setVal(x, t.get(x.X))
				case *ssa.ChangeType:
					setVal(x, t.get(x.X))
				case *ssa.ChangeInterface:
					setVal(x, t.get(x.X))
				case *ssa.MakeInterface:
					setVal(x, t.get(x.X))
				case *ssa.TypeAssert:
					setVal(x, t.get(x.X))
				case *ssa.Extract:
					setVal(x, t.get(x.Tuple))
				case *ssa.Field:
					setVal(x, t.FieldLabel(x.X, x.Field))
				case *ssa.FieldAddr:
					// address values carry no label of their own
				case *ssa.Index:
					setVal(x, t.get(x.X))
				case *ssa.Lookup:
					setVal(x, t.get(x.X)|t.loc[t.objOf(x.X)])
				case *ssa.Slice:
					setVal(x, t.get(x.X)|t.loc[t.objOf(x.X)])
				case *ssa.Range:
					setVal(x, t.get(x.X)|t.loc[t.objOf(x.X)])
				case *ssa.Next:
					setVal(x, t.get(x.Iter))
				case *ssa.MakeSlice, *ssa.MakeMap, *ssa.Alloc:
					// objects: label lives in loc
					if v, ok := in.(ssa.Value); ok {
						setVal(v, t.loc[locKey{v, -1}])
					}
				case *ssa.Call:
					var args []Label
					var l Label
					for _, a := range x.Call.Args {
						al := t.get(a)
						if isRefType(a.Type()) {
							al |= t.loc[t.objOf(a)]
						}
						args = append(args, al)
						l |= al
					}
					if x.Call.IsInvoke() {
						l |= t.get(x.Call.Value)
					}
					if t.callLabel != nil {
						if cl, ok := t.callLabel(x, args); ok {
							l = cl
						}
					}
					setVal(x, l)
					if isRefType(x.Type()) {
						setLoc(locKey{x, -1}, l)
					}
				}
			}
		}
		if !changed {
			return
		}
	}
}
