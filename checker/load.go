package main

// Loading of /repo's current working tree: go/packages (type-checked syntax), go/ssa, VTA call graph.

import (
	"fmt"
	"go/ast"
	"go/token"
	"go/types"
	"os"
	"sort"
	"strings"

	"golang.org/x/tools/go/callgraph"
	"golang.org/x/tools/go/callgraph/cha"
	"golang.org/x/tools/go/callgraph/vta"
	"golang.org/x/tools/go/packages"
	"golang.org/x/tools/go/ssa"
	"golang.org/x/tools/go/ssa/ssautil"
)

const modRoot = "github.com/jmeaster30/vore"

var rootPkgPaths = []string{
	modRoot,
	modRoot + "/libvore",
	modRoot + "/libvore/algo",
	modRoot + "/libvore/ast",
	modRoot + "/libvore/bytecode",
	modRoot + "/libvore/ds",
	modRoot + "/libvore/engine",
	modRoot + "/libvore/files",
	modRoot + "/libvore/testutils",
}

type Ctx struct {
	Repo    string
	Fset    *token.FileSet
	Pkgs    map[string]*packages.Package // by short name: main, libvore, algo, ast, bytecode, ds, engine, files, testutils
	AllPkgs []*packages.Package
	Prog    *ssa.Program
	SSA     map[string]*ssa.Package // by short name
	cg      *callgraph.Graph
	R       *Report
	Info    map[string]any
	allFns  map[*ssa.Function]bool
}

func shortName(path string) string {
	if path == modRoot {
		return "main"
	}
	return path[strings.LastIndex(path, "/")+1:]
}

func cleanEnv() []string {
	var env []string
	for _, e := range os.Environ() {
		if strings.HasPrefix(e, "GOFLAGS=") || strings.HasPrefix(e, "GOWORK=") || strings.HasPrefix(e, "GOPROXY=") ||
			strings.HasPrefix(e, "GOTOOLCHAIN=") || strings.HasPrefix(e, "GOSUMDB=") || strings.HasPrefix(e, "GOOS=") || strings.HasPrefix(e, "GOARCH=") {
			continue
		}
		env = append(env, e)
	}
	// workspace mode (go.work in the repository) rejects -mod=mod, so GOFLAGS must be empty
	return append(env, "GOFLAGS=", "GOPROXY=off", "GOSUMDB=off", "GOTOOLCHAIN=local")
}

func Load(repo string) (*Ctx, error) {
	cfg := &packages.Config{
		Mode:  packages.LoadAllSyntax,
		Dir:   repo,
		Env:   cleanEnv(),
		Tests: false,
	}
	pkgs, err := packages.Load(cfg, modRoot, modRoot+"/libvore/...")
	if err != nil {
		return nil, fmt.Errorf("packages.Load: %v", err)
	}
	if len(pkgs) == 0 {
		return nil, fmt.Errorf("no packages loaded from %s", repo)
	}
	c := &Ctx{Repo: repo, Pkgs: map[string]*packages.Package{}, SSA: map[string]*ssa.Package{}, Info: map[string]any{}}
	var errs []string
	packages.Visit(pkgs, nil, func(p *packages.Package) {
		for _, e := range p.Errors {
			errs = append(errs, fmt.Sprintf("%s: %s", p.PkgPath, e.Msg))
		}
	})
	if len(errs) > 0 {
		return nil, fmt.Errorf("type-check/load errors (the tree must build): %s", strings.Join(errs, "; "))
	}
	for _, p := range pkgs {
		if p.Fset != nil {
			c.Fset = p.Fset
		}
		c.Pkgs[shortName(p.PkgPath)] = p
		c.AllPkgs = append(c.AllPkgs, p)
	}
	var missing []string
	for _, want := range rootPkgPaths {
		if c.Pkgs[shortName(want)] == nil || c.Pkgs[shortName(want)].PkgPath != want {
			missing = append(missing, want)
		}
	}
	if len(missing) > 0 {
		return nil, fmt.Errorf("expected packages not loaded: %v", missing)
	}
	prog, ssaPkgs := ssautil.AllPackages(pkgs, ssa.InstantiateGenerics)
	prog.Build()
	c.Prog = prog
	for i, p := range pkgs {
		if ssaPkgs[i] == nil {
			return nil, fmt.Errorf("no SSA for %s", p.PkgPath)
		}
		c.SSA[shortName(p.PkgPath)] = ssaPkgs[i]
	}
	// measured facts about what was analysed
	names := []string{}
	nfn, ninstr, nfiles, nlines := 0, 0, 0, 0
	for _, p := range pkgs {
		names = append(names, p.PkgPath)
		nfiles += len(p.Syntax)
		for _, f := range p.Syntax {
			nlines += c.Fset.Position(f.End()).Line
		}
	}
	c.allFns = ssautil.AllFunctions(prog)
	for fn := range c.allFns {
		if fn.Pkg != nil && c.isRepoPkg(fn.Pkg.Pkg) {
			nfn++
			for _, b := range fn.Blocks {
				ninstr += len(b.Instrs)
			}
		}
	}
	sort.Strings(names)
	c.Info["packages"] = names
	c.Info["package_count"] = len(names)
	c.Info["files"] = nfiles
	c.Info["source_lines"] = nlines
	c.Info["repo_functions_ssa"] = nfn
	c.Info["repo_ssa_instructions"] = ninstr
	c.Info["not_analysed"] = "libvorejs/src (package vorejs, GOOS=js): does not type-check on the pinned tree and is outside the baseline build"
	return c, nil
}

func (c *Ctx) isRepoPkg(p *types.Package) bool {
	return p != nil && (p.Path() == modRoot || strings.HasPrefix(p.Path(), modRoot+"/"))
}

func (c *Ctx) isRepoFn(fn *ssa.Function) bool {
	if fn == nil {
		return false
	}
	if fn.Pkg != nil {
		return c.isRepoPkg(fn.Pkg.Pkg)
	}
	// instantiated generics and wrappers have no Pkg; use the origin / object
	if o := fn.Origin(); o != nil && o.Pkg != nil {
		return c.isRepoPkg(o.Pkg.Pkg)
	}
	if fn.Object() != nil {
		return c.isRepoPkg(fn.Object().Pkg())
	}
	return false
}

// CG builds the VTA call graph (seeded by CHA) on first use.
func (c *Ctx) CG() *callgraph.Graph {
	if c.cg == nil {
		c.cg = vta.CallGraph(c.allFns, cha.CallGraph(c.Prog))
		c.Info["callgraph"] = "VTA seeded by CHA"
		c.Info["callgraph_nodes"] = len(c.cg.Nodes)
	}
	return c.cg
}

func (c *Ctx) pos(p token.Pos) string { return posStr(c.Fset, p, c.Repo) }

// Fn finds a package-level function by short package name and function name.
func (c *Ctx) Fn(pkg, name string) *ssa.Function {
	p := c.SSA[pkg]
	if p == nil {
		return nil
	}
	return p.Func(name)
}

// Method finds a declared method (value or pointer receiver) of a named type.
func (c *Ctx) Method(pkg, typ, name string) *ssa.Function {
	p := c.SSA[pkg]
	if p == nil {
		return nil
	}
	t := p.Type(typ)
	if t == nil {
		return nil
	}
	named, ok := t.Type().(*types.Named)
	if !ok {
		return nil
	}
	for i := 0; i < named.NumMethods(); i++ {
		m := named.Method(i)
		if m.Name() == name {
			return c.Prog.FuncValue(m)
		}
	}
	return nil
}

// FuncDecl returns the syntax of a function (nil for synthetic ones).
func (c *Ctx) FuncDecl(fn *ssa.Function) *ast.FuncDecl {
	if fn == nil {
		return nil
	}
	if d, ok := fn.Syntax().(*ast.FuncDecl); ok {
		return d
	}
	return nil
}

// TypesInfo returns the types.Info for the package that declares fn.
func (c *Ctx) TypesInfo(fn *ssa.Function) *types.Info {
	if fn == nil || fn.Pkg == nil {
		return nil
	}
	for _, p := range c.AllPkgs {
		if p.Types == fn.Pkg.Pkg {
			return p.TypesInfo
		}
	}
	return nil
}

// NamedType looks a named type up by short package name.
func (c *Ctx) NamedType(pkg, name string) *types.Named {
	p := c.Pkgs[pkg]
	if p == nil {
		return nil
	}
	o := p.Types.Scope().Lookup(name)
	if o == nil {
		return nil
	}
	n, _ := o.Type().(*types.Named)
	return n
}

// SrcFuncs lists every source-level function (including methods and anonymous functions) of a package, sorted.
func (c *Ctx) SrcFuncs(pkg string) []*ssa.Function {
	p := c.SSA[pkg]
	if p == nil {
		return nil
	}
	var out []*ssa.Function
	for fn := range c.allFns {
		if fn.Pkg == p && fn.Syntax() != nil && fn.Synthetic == "" {
			out = append(out, fn)
		}
	}
	sort.Slice(out, func(i, j int) bool { return out[i].Pos() < out[j].Pos() })
	return out
}

// Reachable returns the set of functions reachable from roots in the call graph.
func (c *Ctx) Reachable(roots ...*ssa.Function) map[*ssa.Function]bool {
	g := c.CG()
	seen := map[*ssa.Function]bool{}
	var work []*ssa.Function
	for _, r := range roots {
		if r != nil && !seen[r] {
			seen[r] = true
			work = append(work, r)
		}
	}
	for len(work) > 0 {
		f := work[len(work)-1]
		work = work[:len(work)-1]
		n := g.Nodes[f]
		if n == nil {
			continue
		}
		for _, e := range n.Out {
			if t := e.Callee.Func; t != nil && !seen[t] {
				seen[t] = true
				work = append(work, t)
			}
		}
	}
	return seen
}

func fnName(fn *ssa.Function) string {
	if fn == nil {
		return "<nil>"
	}
	s := fn.RelString(nil)
	s = strings.ReplaceAll(s, modRoot+"/libvore/", "")
	s = strings.ReplaceAll(s, modRoot+"/", "")
	s = strings.ReplaceAll(s, modRoot, "main")
	return s
}
