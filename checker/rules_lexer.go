package main

// Lexer rules: C16 (string literals), C15.R3 (keyword case), parts of C08 (EOF-world lives in rules_total.go).

import (
	"bytes"
	"fmt"
	"go/ast"
	"go/constant"
	"go/printer"
	"go/token"
	"go/types"
	"path/filepath"
	"sort"
	"strings"
	"unicode"

	"golang.org/x/tools/go/ssa"
)

// ruleUnreadDepth implements C16.R1: the lexer's push-back relies on bufio.Reader.UnreadRune, which supports one level only.
func ruleUnreadDepth(c *Ctx, rule string) {
	r := c.R
	un := c.Method("ast", "Lexer", "unread")
	if un == nil {
		// no unread primitive at all: nothing can be pushed back too far
		r.Ob(rule, "ast.(*Lexer).unread capacity", "").OK("the lexer has no unread(n) primitive")
		return
	}
	usesBufio := false
	instrsOf(un, func(in ssa.Instruction) {
		if sc := staticCallee(in); sc != nil && sc.Pkg != nil && sc.Pkg.Pkg.Path() == "bufio" && (sc.Name() == "UnreadRune" || sc.Name() == "UnreadByte") {
			usesBufio = true
		}
	})
	capacity := int64(1 << 30)
	if usesBufio {
		capacity = 1
	}
	r.Note("C16.R1: (*Lexer).unread pushes back through bufio.Reader.UnreadRune=%t, so its capacity is %d rune(s) (bufio documents that only the most recently read rune can be unread)", usesBufio, capacity)
	n := 0
	for _, fn := range c.SrcFuncs("ast") {
		k := 0
		instrsOf(fn, func(in ssa.Instruction) {
			if staticCallee(in) != un {
				return
			}
			n++
			k++
			args := in.(ssa.CallInstruction).Common().Args
			ob := r.Ob(rule, fmt.Sprintf("%s: unread call #%d stays within the push-back capacity", fnName(fn), k), c.pos(in.Pos()))
			amt, ok := constInt(args[len(args)-1])
			if !ok {
				ob.Bad("unread is called with a non-constant amount; bufio supports exactly one level")
				return
			}
			if amt > capacity {
				ob.Bad(fmt.Sprintf("unread(%d) over bufio.Reader, which can push back only one rune: the second UnreadRune fails silently, so a character is lost and positions drift (an incomplete \\x escape loses one of its following characters)", amt))
			} else {
				ob.OKnt(fmt.Sprintf("constant amount %d <= capacity %d", amt, capacity))
			}
		})
	}
	r.Floor(rule, "unread call sites", n, 1)
}

// ruleEscapeTable implements C16.R2 and C16.R4 by folding getEscapedRune / IsHex over every ASCII rune.
func ruleEscapeTable(c *Ctx, rule string) {
	r := c.R
	esc := c.Fn("ast", "getEscapedRune")
	if esc == nil {
		r.Ob(rule, "anchor ast.getEscapedRune", "").Und("not found")
	} else {
		want := map[rune]rune{'n': 10, 't': 9, 'r': 13, 'a': 7, 'b': 8, 'f': 12, 'v': 11}
		bad := []string{}
		for ch := rune(1); ch < 128; ch++ {
			pe := &PEval{Interpret: c.repoInterp}
			res := pe.Run(esc, []PVal{PConst{constant.MakeInt64(int64(ch)), types.Typ[types.Rune]}})
			if res.Err != "" || res.Panic || len(res.Results) != 1 {
				r.Ob(rule, fmt.Sprintf("getEscapedRune(%q)", ch), c.pos(esc.Pos())).Und("cannot fold: " + res.Err)
				return
			}
			got, ok := pint(res.Results[0])
			w, special := want[ch]
			if !special {
				w = ch
			}
			if !ok || rune(got) != w {
				bad = append(bad, fmt.Sprintf("\\%c -> %d (documented: %d)", ch, got, w))
			}
		}
		ob := r.Ob(rule, "getEscapedRune: escape table over all ASCII runes", c.pos(esc.Pos()))
		if len(bad) == 0 {
			ob.OKnt("folded for 0x01..0x7f: n t r a b f v map to 10 9 13 7 8 12 11, every other character to itself")
		} else {
			ob.Bad("escape table differs from the documented one: " + strings.Join(bad, "; "))
		}
	}
	hex := c.Fn("ast", "IsHex")
	if hex == nil {
		r.Ob(rule, "anchor ast.IsHex", "").Und("not found")
	} else {
		bad := []string{}
		for ch := rune(0); ch < 256; ch++ {
			pe := &PEval{Interpret: c.repoInterp}
			res := pe.Run(hex, []PVal{PConst{constant.MakeInt64(int64(ch)), types.Typ[types.Rune]}})
			if res.Err != "" || len(res.Results) != 1 {
				r.Ob(rule, "IsHex", c.pos(hex.Pos())).Und("cannot fold: " + res.Err)
				return
			}
			k, ok := res.Results[0].(PConst)
			want := (ch >= '0' && ch <= '9') || (ch >= 'a' && ch <= 'f') || (ch >= 'A' && ch <= 'F')
			if !ok || k.V == nil {
				// the test is delegated to something the folding does not enter (unicode.Is with a range table)
				r.Ob(rule, "IsHex accepts exactly 0-9A-Fa-f", c.pos(hex.Pos())).Und(fmt.Sprintf("IsHex(%q) does not fold to a constant", ch))
				return
			}
			if constant.BoolVal(k.V) != want {
				bad = append(bad, fmt.Sprintf("%q", ch))
			}
		}
		ob := r.Ob(rule, "IsHex accepts exactly 0-9A-Fa-f", c.pos(hex.Pos()))
		if len(bad) == 0 {
			ob.OKnt("folded for runes 0..255")
		} else {
			ob.Bad("IsHex is wrong for " + strings.Join(bad, " "))
		}
	}
	h2a := c.Fn("ast", "HexToAscii")
	if h2a == nil {
		r.Ob(rule, "anchor ast.HexToAscii", "").Und("not found")
	} else {
		ob := r.Ob(rule, "HexToAscii parses base 16", c.pos(h2a.Pos()))
		base := int64(-1)
		instrsOf(h2a, func(in ssa.Instruction) {
			if isCallTo(in, "strconv", "ParseInt", "ParseUint") {
				if b, ok := constInt(in.(ssa.CallInstruction).Common().Args[1]); ok {
					base = b
				}
			}
		})
		ob.Check(base == 16, "strconv.ParseInt(..., 16, ...)", fmt.Sprintf("expected a base-16 parse, found base %d", base))
	}
}

// ruleReadVerbatim: (*Lexer).read hands out exactly the rune it got from one ReadRune call, or 0 at end of input (axiom A3).
func ruleReadVerbatim(c *Ctx, rule string) {
	r := c.R
	rd := c.Method("ast", "Lexer", "read")
	if rd == nil {
		r.Ob(rule, "anchor ast.(*Lexer).read", "").Und("not found")
		return
	}
	ob := r.Ob(rule, "(*Lexer).read returns the rune of exactly one ReadRune, or 0 on error", c.pos(rd.Pos()))
	var reads []*ssa.Call
	consumers := 0
	instrsOf(rd, func(in ssa.Instruction) {
		if sc := staticCallee(in); sc != nil && sc.Pkg != nil && (sc.Pkg.Pkg.Path() == "bufio" || sc.Pkg.Pkg.Path() == "io") {
			switch sc.Name() {
			case "ReadRune":
				reads = append(reads, in.(*ssa.Call))
				consumers++
			case "ReadByte", "Read", "ReadString", "ReadLine", "ReadBytes", "Discard", "ReadSlice":
				consumers++
			}
		}
	})
	if len(reads) != 1 || consumers != 1 {
		ob.Bad(fmt.Sprintf("read() consumes input through %d call(s) (%d ReadRune): a single call to read must consume exactly one rune, otherwise source characters are dropped or merged", consumers, len(reads)))
		return
	}
	bad := ""
	instrsOf(rd, func(in ssa.Instruction) {
		ret, ok := in.(*ssa.Return)
		if !ok || len(ret.Results) != 1 {
			return
		}
		v := ret.Results[0]
		if k, ok := constInt(v); ok && k == 0 {
			return
		}
		for {
			if cv, ok := v.(*ssa.Convert); ok {
				v = cv.X
				continue
			}
			if ct, ok := v.(*ssa.ChangeType); ok {
				v = ct.X
				continue
			}
			break
		}
		if ex, ok := v.(*ssa.Extract); ok && ex.Tuple == ssa.Value(reads[0]) && ex.Index == 0 {
			return
		}
		bad = "a return of read() hands out " + v.String() + " instead of the rune from ReadRune [" + c.pos(ret.Pos()) + "]"
	})
	if bad != "" {
		ob.Bad(bad)
	} else {
		ob.OKnt("one ReadRune call; every return is its rune or the constant 0")
	}
}

// getNextTokenArms returns the arms of the big if/else-if chain inside the main loop of getNextToken.
func (c *Ctx) getNextTokenArms() ([]Arm, *ast.FuncDecl) {
	fd := c.findFuncDecl("ast", "Lexer", "getNextToken")
	if fd == nil {
		return nil, nil
	}
	var best []Arm
	ast.Inspect(fd.Body, func(n ast.Node) bool {
		if fs, ok := n.(*ast.ForStmt); ok {
			for _, s := range fs.Body.List {
				if is, ok := s.(*ast.IfStmt); ok {
					arms := ifChain(is)
					if len(arms) > len(best) {
						best = arms
					}
				}
			}
		}
		return true
	})
	return best, fd
}

func nodeString(fset *token.FileSet, n ast.Node) string {
	var buf bytes.Buffer
	_ = printer.Fprint(&buf, fset, n)
	return buf.String()
}

// ruleQuoteSiblings implements C16.R3: the double- and single-quote branches are the same code up to the state constants and the quote.
func ruleQuoteSiblings(c *Ctx, rule string) {
	r := c.R
	arms, fd := c.getNextTokenArms()
	if fd == nil || len(arms) < 10 {
		r.Ob(rule, "anchor ast.(*Lexer).getNextToken if-chain", "").Und("main loop if-chain not found")
		return
	}
	norm := func(s string, d bool) string {
		if d {
			s = strings.ReplaceAll(s, "SSTRING_DOUBLE", "§Q")
			s = strings.ReplaceAll(s, "SSTRING_D_ESCAPE", "§E")
			s = strings.ReplaceAll(s, `'"'`, "§C")
		} else {
			s = strings.ReplaceAll(s, "SSTRING_SINGLE", "§Q")
			s = strings.ReplaceAll(s, "SSTRING_S_ESCAPE", "§E")
			s = strings.ReplaceAll(s, `'\''`, "§C")
		}
		return s
	}
	var dArms, sArms []string
	for _, a := range arms {
		if a.Cond == nil {
			continue
		}
		txt := nodeString(c.Fset, a.Cond) + " " + nodeString(c.Fset, a.Body)
		isD := strings.Contains(txt, "SSTRING_DOUBLE") || strings.Contains(txt, "SSTRING_D_ESCAPE")
		isS := strings.Contains(txt, "SSTRING_SINGLE") || strings.Contains(txt, "SSTRING_S_ESCAPE")
		if isD && isS {
			continue // shared arm
		}
		if isD {
			dArms = append(dArms, norm(txt, true))
		}
		if isS {
			sArms = append(sArms, norm(txt, false))
		}
	}
	r.Floor(rule, "arms of getNextToken handling double-quoted strings", len(dArms), 3)
	sort.Strings(dArms)
	sort.Strings(sArms)
	ob := r.Ob(rule, "getNextToken: double- and single-quote arms are siblings", c.pos(fd.Pos()))
	if len(dArms) != len(sArms) {
		ob.Bad(fmt.Sprintf("%d arms handle double-quoted strings but %d handle single-quoted ones", len(dArms), len(sArms)))
		return
	}
	for i := range dArms {
		if oneLine(dArms[i]) != oneLine(sArms[i]) { // layout (a comment in one arm leaves a blank line behind) is not a difference
			ob.Bad("after renaming the state constants and the quote character, the two quote styles differ:\n  double: " + oneLine(dArms[i]) + "\n  single: " + oneLine(sArms[i]))
			return
		}
	}
	ob.OKnt(fmt.Sprintf("%d arms each; identical after swapping SSTRING_DOUBLE/SSTRING_D_ESCAPE/'\"' with SSTRING_SINGLE/SSTRING_S_ESCAPE/'\\''", len(dArms)))
}

func oneLine(s string) string {
	return strings.Join(strings.Fields(s), " ")
}

// ruleKeywordCase implements C15.R3: keywords are recognised on the lower-cased lexeme and every keyword spelling is lower case.
// The keyword table may be a string switch or a package-level map literal; both are recognised.
func ruleKeywordCase(c *Ctx, rule string) {
	r := c.R
	fd := c.findFuncDecl("ast", "Lexer", "getNextToken")
	fn := c.ssaFuncFor("ast", fd)
	tokT := c.NamedType("ast", "TokenType")
	if fd == nil || fn == nil || tokT == nil {
		r.Ob(rule, "anchor getNextToken", "").Und("not found")
		return
	}
	// the value that is looked up / compared: results of strings.ToLower in getNextToken and the repository functions it calls
	var lowers []*ssa.Call
	fns := []*ssa.Function{fn}
	instrsOf(fn, func(in ssa.Instruction) {
		if sc := staticCallee(in); sc != nil && c.isRepoFn(sc) && sc.Pkg == fn.Pkg && sc.Name() != "read" {
			fns = append(fns, sc)
		}
	})
	for _, f := range fns {
		instrsOf(f, func(in ssa.Instruction) {
			if call, ok := in.(*ssa.Call); ok && isCallTo(in, "strings", "ToLower") {
				lowers = append(lowers, call)
			}
		})
	}
	// the keyword subject: the value compared with the spelling "find", or used to index a map that has the key "find"
	mapKeys := func(g *ssa.Global) map[string]bool {
		keys := map[string]bool{}
		if init := g.Pkg.Func("init"); init != nil {
			var mv ssa.Value
			instrsOf(init, func(y ssa.Instruction) {
				if st, ok := y.(*ssa.Store); ok && st.Addr == ssa.Value(g) {
					mv = st.Val
				}
			})
			instrsOf(init, func(y ssa.Instruction) {
				if mu, ok := y.(*ssa.MapUpdate); ok && mu.Map == mv {
					if k, ok := mu.Key.(*ssa.Const); ok && k.Value != nil && k.Value.Kind() == constant.String {
						keys[constant.StringVal(k.Value)] = true
					}
				}
			})
		}
		return keys
	}
	subjects := map[ssa.Value]bool{}
	spell := map[string]bool{}
	var tablePos token.Pos
	// a value compared with at least 20 distinct string constants is the subject of the keyword switch
	cmp := map[ssa.Value]map[string]bool{}
	cmpPos := map[ssa.Value]token.Pos{}
	for _, f := range fns {
		instrsOf(f, func(in ssa.Instruction) {
			switch x := in.(type) {
			case *ssa.BinOp:
				if k, ok := x.Y.(*ssa.Const); ok && x.Op == token.EQL && k.Value != nil && k.Value.Kind() == constant.String {
					if cmp[x.X] == nil {
						cmp[x.X] = map[string]bool{}
						cmpPos[x.X] = x.Pos()
					}
					cmp[x.X][constant.StringVal(k.Value)] = true
				}
			case *ssa.Lookup:
				if ld, ok := x.X.(*ssa.UnOp); ok {
					if g, ok := ld.X.(*ssa.Global); ok {
						if mt, ok := deref(g.Type()).Underlying().(*types.Map); ok && types.Identical(mt.Elem(), tokT) {
							if keys := mapKeys(g); len(keys) >= 20 {
								subjects[x.Index] = true
								tablePos = x.Pos()
								for k := range keys {
									spell[k] = true
								}
							}
						}
					}
				}
			}
		})
	}
	for v, ks := range cmp {
		if len(ks) >= 20 {
			subjects[v] = true
			tablePos = cmpPos[v]
			for k := range ks {
				spell[k] = true
			}
		}
	}
	usedLowered := len(subjects) > 0
	for v := range subjects {
		if call, ok := v.(*ssa.Call); !ok || !isCallTo(call, "strings", "ToLower") {
			spell["\x00unlowered:"+exprStr(v)] = true
		}
	}
	var words, notLower, unlowered []string
	for w := range spell {
		if strings.HasPrefix(w, "\x00unlowered:") {
			unlowered = append(unlowered, strings.TrimPrefix(w, "\x00unlowered:"))
			continue
		}
		words = append(words, w)
		if w != strings.ToLower(w) {
			notLower = append(notLower, w)
		}
	}
	sort.Strings(notLower)
	r.Floor(rule, "keyword spellings in the lexer's keyword table", len(words), 45)
	if len(words) == 0 {
		r.Ob(rule, "keyword table of the lexer", c.pos(fn.Pos())).Und("no keyword table (string switch or map[string]TokenType) found in getNextToken or its helpers")
		return
	}
	ob := r.Ob(rule, "keyword spellings are lower case", c.pos(tablePos))
	ob.Check(len(notLower) == 0, fmt.Sprintf("%d spellings, each equal to its own lower-casing", len(words)), "keyword spellings that can never match a lower-cased lexeme: "+strings.Join(notLower, ", "))
	ob2 := r.Ob(rule, "keywords are looked up with strings.ToLower of the whole lexeme on every path", c.pos(tablePos))
	switch {
	case len(unlowered) > 0:
		sort.Strings(unlowered)
		ob2.Bad("the keyword table is consulted with " + strings.Join(unlowered, ", ") + ", which is not a direct result of strings.ToLower: some lexemes are matched case-sensitively")
	case !usedLowered || len(lowers) == 0:
		ob2.Bad("the keyword table is not consulted with strings.ToLower of the lexeme")
	default:
		whole := true
		for _, l := range lowers {
			a := l.Call.Args[0]
			// the witness of "not the whole lexeme" is a piece cut out of it; a parameter, a field of a record or the buffer's String()
			// is the lexeme as a whole
			for _, leaf := range phiLeaves(a, nil) {
				switch x := leaf.(type) {
				case *ssa.Slice:
					whole = false
				case *ssa.Lookup:
					// a word that was looked up in a table (of aliases) before it was lower-cased: the table saw the raw spelling
					whole = false
				case *ssa.Extract:
					if _, isLookup := x.Tuple.(*ssa.Lookup); isLookup {
						whole = false
					}
				}
			}
		}
		ob2.Check(whole, "lookup key = strings.ToLower(buf.String())", "strings.ToLower is not applied to the whole lexeme as it was read (a piece of it, or a word that a table was already asked about in its raw spelling)")
		ob2.Nontrivial = true
	}
}

// ruleLexerTokenMemory implements C15.R4: the lexer may decide on the characters of the current token only. If it keeps a memory of
// tokens it already produced (a field of token type that it reads again), that memory must skip whitespace and comments, or the
// presence of trivia before a token changes how the token is read.
func ruleLexerTokenMemory(c *Ctx, rule string) {
	r := c.R
	lexT := c.NamedType("ast", "Lexer")
	tokT := c.NamedType("ast", "TokenType")
	tokenT := c.NamedType("ast", "Token")
	if lexT == nil || tokT == nil {
		r.Ob(rule, "anchor ast.Lexer / TokenType", "").Und("not found")
		return
	}
	st := lexT.Underlying().(*types.Struct)
	isTokenish := func(t types.Type) bool {
		for {
			switch u := t.(type) {
			case *types.Pointer:
				t = u.Elem()
				continue
			case *types.Slice:
				t = u.Elem()
				continue
			}
			break
		}
		return types.Identical(t, tokT) || (tokenT != nil && types.Identical(t, tokenT))
	}
	wsVals := map[string]string{}
	for _, n := range []string{"WS", "COMMENT"} {
		if k := c.constByName("ast", n); k != nil {
			wsVals[k.Val().ExactString()] = n
		}
	}
	nfields := 0
	for i := 0; i < st.NumFields(); i++ {
		f := st.Field(i)
		if !isTokenish(f.Type()) {
			continue
		}
		nfields++
		// reads and writes of the field in package ast
		var reads, writes []ssa.Instruction
		for _, fn := range c.SrcFuncs("ast") {
			instrsOf(fn, func(in ssa.Instruction) {
				fa, ok := in.(*ssa.FieldAddr)
				if !ok || fa.Field != i || !types.Identical(deref(fa.X.Type()), lexT) {
					return
				}
				if _, isLocal := fa.X.(*ssa.Alloc); isLocal {
					return // the composite literal that creates the lexer
				}
				for _, ref := range *fa.Referrers() {
					switch x := ref.(type) {
					case *ssa.Store:
						if x.Addr == ssa.Value(fa) {
							writes = append(writes, x)
						}
					case *ssa.UnOp:
						reads = append(reads, x)
					}
				}
			})
		}
		ob := r.Ob(rule, "ast.Lexer."+f.Name()+": a remembered token is never whitespace or a comment", "")
		if len(reads) == 0 {
			ob.OKnt("the field is never read back")
			continue
		}
		var bad []string
		for _, w := range writes {
			fn := w.Parent()
			cds := NewPostDom(fn).ControlDeps()
			seen := map[string]bool{}
			for _, l := range condsOf(cds, w.Block()) {
				if b, ok := l.Cond.(*ssa.BinOp); ok {
					for _, side := range []ssa.Value{b.X, b.Y} {
						if k, ok := side.(*ssa.Const); ok && k.Value != nil && types.Identical(k.Type(), tokT) {
							if n, is := wsVals[k.Value.ExactString()]; is {
								seen[n] = true
							}
						}
					}
				}
			}
			if !seen["WS"] || !seen["COMMENT"] {
				bad = append(bad, c.pos(w.Pos()))
			}
		}
		ob.Pos = c.pos(reads[0].Pos())
		if len(bad) == 0 {
			ob.OKnt(fmt.Sprintf("%d store(s), each control-dependent on tests that exclude WS and COMMENT", len(writes)))
		} else {
			ob.Bad("the lexer reads this field back to decide how to read the next token, and the store at " + strings.Join(bad, ", ") + " also records whitespace and comment tokens: the same token is read differently depending on whether trivia precedes it")
		}
	}
	if nfields == 0 {
		r.Ob(rule, "ast.Lexer keeps no memory of the tokens it produced", c.pos(lexT.Obj().Pos())).OKnt("no field of token type: each token is read from the characters alone")
	}
}

// ruleEscapeStateOneChar implements C16.R6: an escape state of the string lexer lasts for exactly one decision. Every path through
// the arm guarded by `state == <escape state>` hands the loop the string state the escape was entered from; a path that keeps the
// escape state treats the next character of the literal as another escape.
func ruleEscapeStateOneChar(c *Ctx, rule string) {
	r := c.R
	fn := c.Method("ast", "Lexer", "getNextToken")
	// the state type and its constants are declared inside getNextToken
	names := map[string]string{}
	var stateT types.Type
	if p := c.Pkgs["ast"]; p != nil {
		for _, obj := range p.TypesInfo.Defs {
			if cst, ok := obj.(*types.Const); ok {
				if nt, ok := cst.Type().(*types.Named); ok && nt.Obj().Name() == "TokenState" {
					stateT = nt
					names[cst.Val().ExactString()] = cst.Name()
				}
			}
		}
	}
	if fn == nil || stateT == nil {
		r.Ob(rule, "anchor ast.(*Lexer).getNextToken / TokenState", "").Und("not found")
		return
	}
	constName := func(k *ssa.Const) string {
		if n, ok := names[k.Value.ExactString()]; ok {
			return n
		}
		return k.Value.ExactString()
	}
	isState := func(v ssa.Value) (*ssa.Const, bool) {
		k, ok := v.(*ssa.Const)
		if ok && k.Value != nil && types.Identical(k.Type(), stateT) {
			return k, true
		}
		return nil, false
	}
	// escape states: state constants whose name says ESCAPE
	type esc struct {
		k      *ssa.Const
		name   string
		from   map[string]bool // string states it is entered from
		region map[*ssa.BasicBlock]bool
		pos    token.Pos
	}
	escs := map[string]*esc{}
	// exits: If (state == K)
	instrsOf(fn, func(in ssa.Instruction) {
		iff, ok := in.(*ssa.If)
		if !ok {
			return
		}
		b, ok := iff.Cond.(*ssa.BinOp)
		if !ok || b.Op != token.EQL {
			return
		}
		k, ok := isState(b.Y)
		if !ok {
			return
		}
		name := constName(k)
		if !strings.Contains(name, "ESCAPE") {
			return
		}
		t := iff.Block().Succs[0]
		if len(t.Preds) != 1 {
			return
		}
		e := escs[name]
		if e == nil {
			e = &esc{k: k, name: name, from: map[string]bool{}, region: map[*ssa.BasicBlock]bool{}, pos: b.Pos()}
			escs[name] = e
		}
		for _, blk := range fn.Blocks {
			if t == blk || t.Dominates(blk) {
				e.region[blk] = true
			}
		}
	})
	// entries: phi edges carrying the escape constant; the string state is the state tested positively on the way there
	instrsOf(fn, func(in ssa.Instruction) {
		phi, ok := in.(*ssa.Phi)
		if !ok || !types.Identical(phi.Type(), stateT) {
			return
		}
		for i, ev := range phi.Edges {
			k, ok := isState(ev)
			if !ok {
				continue
			}
			e := escs[constName(k)]
			if e == nil {
				continue
			}
			for _, l := range domConds(fn, phi.Block().Preds[i]) {
				if b, ok := l.Cond.(*ssa.BinOp); ok && b.Op == token.EQL && l.Pol {
					if k2, ok := isState(b.Y); ok {
						e.from[constName(k2)] = true
					}
				}
			}
		}
	})
	n := 0
	for _, name := range sortedKeys(escs) {
		e := escs[name]
		n++
		ob := r.Ob(rule, "getNextToken: "+name+" lasts for one decision", c.pos(e.pos))
		if len(e.from) != 1 {
			ob.Und(fmt.Sprintf("the state is entered from %v; expected exactly one string state", sortedKeys(e.from)))
			continue
		}
		want := sortedKeys(e.from)[0]
		var bad []string
		edges := 0
		instrsOf(fn, func(in ssa.Instruction) {
			phi, ok := in.(*ssa.Phi)
			if !ok || !types.Identical(phi.Type(), stateT) || e.region[phi.Block()] {
				return
			}
			for i, ev := range phi.Edges {
				if !e.region[phi.Block().Preds[i]] {
					continue
				}
				edges++
				if k, ok := isState(ev); ok && constName(k) == want {
					continue
				}
				bad = append(bad, exprStr(ev))
			}
		})
		switch {
		case edges == 0:
			ob.Und("no path from the arm back to the loop was found")
		case len(bad) == 0:
			ob.OKnt(fmt.Sprintf("all %d path(s) out of the arm continue in %s", edges, want))
		default:
			ob.Bad(fmt.Sprintf("a path out of the arm continues in state %s instead of %s: the character after an incomplete escape is decoded as another escape (and a closing quote can be swallowed)", strings.Join(uniq(bad), ", "), want))
		}
	}
	r.Floor(rule, "escape states of the string lexer", n, 2)
}

// domConds: the branch decisions that hold whenever block b executes, read off the dominator tree: for every If whose block
// dominates b, the successor (entered only through that edge) that dominates b.
func domConds(fn *ssa.Function, b *ssa.BasicBlock) []CondLit {
	var out []CondLit
	for _, d := range fn.Blocks {
		if d == b || !d.Dominates(b) {
			continue
		}
		iff, ok := d.Instrs[len(d.Instrs)-1].(*ssa.If)
		if !ok {
			continue
		}
		for i, s := range d.Succs {
			if len(s.Preds) == 1 && (s == b || s.Dominates(b)) {
				out = append(out, CondLit{iff.Cond, i == 0, iff})
			}
		}
	}
	return out
}

// ruleHexGuard implements C08.R9: HexToAscii panics on characters that are not hex digits, so every call is dominated by the true
// edges of IsHex tests for both characters.
func ruleHexGuard(c *Ctx, rule string) {
	r := c.R
	h2a := c.Fn("ast", "HexToAscii")
	isHex := c.Fn("ast", "IsHex")
	if h2a == nil || isHex == nil {
		r.Ob(rule, "anchor ast.HexToAscii / IsHex", "").Und("not found")
		return
	}
	n := 0
	for fn := range c.allFns {
		if !c.isRepoFn(fn) || len(fn.Blocks) == 0 {
			continue
		}
		k := 0
		for _, call := range callsTo(fn, h2a) {
			n++
			k++
			ob := r.Ob(rule, fmt.Sprintf("%s: HexToAscii #%d is reached only with two hex digits", fnName(fn), k), c.pos(call.Pos()))
			tests := 0
			for _, l := range domConds(fn, call.Block()) {
				v := l.Cond
				pol := l.Pol
				if u, ok := v.(*ssa.UnOp); ok && u.Op == token.NOT {
					v, pol = u.X, !pol
				}
				if cl, ok := v.(*ssa.Call); ok && cl.Call.StaticCallee() == isHex && pol {
					tests++
				}
				// a predicate helper that itself tests both characters (`peekHexPair()`): it answers true only after two IsHex calls
				hv := v
				if ex, ok := hv.(*ssa.Extract); ok {
					hv = ex.Tuple // `high, low, ok := s.peekHexDigits()`: the flag of a helper that hands the digits back as well
				}
				if cl, ok := hv.(*ssa.Call); ok && pol {
					if g := cl.Call.StaticCallee(); g != nil && g != isHex && c.isRepoFn(g) && len(g.Blocks) > 0 {
						if n := len(callsTo(g, isHex)); n >= 2 {
							tests += n
						}
					}
				}
			}
			if tests >= 2 {
				ob.OKnt(fmt.Sprintf("dominated by the true edges of %d IsHex tests", tests))
			} else {
				ob.Bad(fmt.Sprintf("only %d IsHex test(s) dominate the call: HexToAscii panics (\"COULDN'T CONVERT\") on a character that is not a hex digit, so some source text makes Compile panic", tests))
			}
		}
	}
	r.Floor(rule, "call sites of HexToAscii", n, 1)
}

// ruleLexemeComparedRaw implements C15.R5: a token's Lexeme keeps the spelling of the source, so for keyword tokens (matched in any
// case by the lexer) the parser may decide on the token kind only: a comparison of the raw Lexeme with a string constant accepts
// `TRUE` as the keyword and then treats it differently from `true`.
func ruleLexemeComparedRaw(c *Ctx, rule string) {
	r := c.R
	tokenT := c.NamedType("ast", "Token")
	if tokenT == nil {
		r.Ob(rule, "anchor ast.Token", "").Und("not found")
		return
	}
	st := tokenT.Underlying().(*types.Struct)
	lexIdx := -1
	for i := 0; i < st.NumFields(); i++ {
		if st.Field(i).Name() == "Lexeme" {
			lexIdx = i
		}
	}
	isLexeme := func(v ssa.Value) bool {
		u, ok := v.(*ssa.UnOp)
		if !ok || u.Op != token.MUL {
			return false
		}
		fa, ok := u.X.(*ssa.FieldAddr)
		return ok && fa.Field == lexIdx && types.Identical(deref(fa.X.Type()), tokenT)
	}
	var bad []string
	first := ""
	nreads := 0
	for _, fn := range c.SrcFuncs("ast") {
		if filepath.Base(c.Fset.Position(fn.Pos()).Filename) == "lexer.go" {
			continue // the lexer builds the lexeme; its own comparisons are on the lower-cased text (C15.R3)
		}
		instrsOf(fn, func(in ssa.Instruction) {
			if v, ok := in.(ssa.Value); ok && isLexeme(v) {
				nreads++
			}
			b, ok := in.(*ssa.BinOp)
			if !ok || (b.Op != token.EQL && b.Op != token.NEQ) {
				return
			}
			for _, pair := range [][2]ssa.Value{{b.X, b.Y}, {b.Y, b.X}} {
				k, ok := pair[1].(*ssa.Const)
				if !ok || k.Value == nil || k.Value.Kind() != constant.String || !isLexeme(pair[0]) {
					continue
				}
				word := constant.StringVal(k.Value)
				letters := false
				for _, ch := range word {
					if unicode.IsLetter(ch) {
						letters = true
					}
				}
				if letters {
					bad = append(bad, fmt.Sprintf("%s compares Lexeme with %q [%s]", fnName(fn), word, c.pos(b.Pos())))
					if first == "" {
						first = c.pos(b.Pos())
					}
				}
			}
		})
	}
	r.Stats["lexeme_reads_in_the_parser"] = nreads
	ob := r.Ob(rule, "the parser never compares a token's raw spelling with a word", first)
	if len(bad) == 0 {
		ob.OKnt(fmt.Sprintf("%d reads of Token.Lexeme outside the lexer (numbers, strings, identifiers); none is compared with a word constant", nreads))
	} else {
		ob.Bad(strings.Join(bad, "; ") + ": the lexer accepts the keyword in any case but keeps the source spelling, so `TRUE` and `true` are the same token and would be treated differently here")
	}
}
