package main

import (
	"fmt"
	"go/constant"
	"go/token"
	"go/types"
	"os"
	"sort"
	"strings"

	"golang.org/x/tools/go/ssa"
)

// ---------------------------------------------------------------------------------------------
// C01.R8 / C10.R9: at the end of the input no consuming primitive succeeds.
//
// World: every read at the current offset returns "" and `offset == reader.Size()` holds. In that world a primitive of the VM must
// not reach CONSUME: a class (negated or not) that "matches" there matches the empty string, which is a match the backtracking
// semantics does not have (C01) and makes a subroutine that consumes before it recurses recurse without consuming (C10).
// Exempt: CONSUME(reader.Size()) (the whole input of an empty input is the empty match) and a CONSUME whose effect is tested
// (offset before != offset after) before the state moves on.
func ruleNothingConsumedAtEnd(c *Ctx, rule string) {
	r := c.R
	consume := c.Method("engine", "SearchEngineState", "CONSUME")
	read := c.Method("engine", "SearchEngineState", "READ")
	readAt := c.Method("engine", "SearchEngineState", "READAT")
	size := c.Method("files", "Reader", "Size")
	if consume == nil || read == nil || size == nil {
		r.Ob(rule, "anchor engine.(*SearchEngineState).CONSUME/READ, files.(*Reader).Size", "").Und("not found")
		return
	}
	// the offset field: the int field CONSUME advances by the length of what it read
	offField := -1
	var offStruct types.Type // the struct that declares the field (the state itself, or a struct embedded in it)
	instrsOf(consume, func(in ssa.Instruction) {
		st, ok := in.(*ssa.Store)
		if !ok {
			return
		}
		fa, ok := st.Addr.(*ssa.FieldAddr)
		if !ok {
			return
		}
		if b, ok := st.Val.(*ssa.BinOp); ok && b.Op == token.ADD {
			if call, ok := b.Y.(*ssa.Call); ok {
				if bi, ok := call.Call.Value.(*ssa.Builtin); ok && bi.Name() == "len" {
					offField = fa.Field
					offStruct = deref(fa.X.Type())
				}
			}
		}
	})
	if offField < 0 {
		r.Ob(rule, "anchor: the offset field advanced by CONSUME", c.pos(consume.Pos())).Und("CONSUME has no store `field += len(value)`")
		return
	}
	isOffLoad := func(v ssa.Value) bool {
		u, ok := v.(*ssa.UnOp)
		if !ok || u.Op != token.MUL {
			return false
		}
		fa, ok := u.X.(*ssa.FieldAddr)
		return ok && fa.Field == offField && offStruct != nil && types.Identical(deref(fa.X.Type()), offStruct)
	}
	isSizeCall := func(v ssa.Value) bool {
		call, ok := v.(*ssa.Call)
		return ok && call.Call.StaticCallee() == size
	}
	seed := func(v ssa.Value) (constant.Value, bool) {
		call, ok := v.(*ssa.Call)
		if !ok {
			return nil, false
		}
		switch sc := call.Call.StaticCallee(); {
		case sc == nil:
		case sc == read:
			return constant.MakeString(""), true
		case sc == readAt && readAt != nil && len(call.Call.Args) == 3 && isOffLoad(call.Call.Args[1]):
			return constant.MakeString(""), true
		}
		return nil, false
	}
	bin := func(b *ssa.BinOp, get func(ssa.Value) wLat) (wLat, bool) {
		x, y, op := b.X, b.Y, b.Op
		if isSizeCall(x) && isOffLoad(y) {
			x, y = y, x
			switch op {
			case token.LSS:
				op = token.GTR
			case token.GTR:
				op = token.LSS
			case token.LEQ:
				op = token.GEQ
			case token.GEQ:
				op = token.LEQ
			}
		}
		if isOffLoad(x) && isSizeCall(y) {
			switch op {
			case token.EQL, token.GEQ, token.LEQ:
				return wBool(true), true
			case token.NEQ, token.LSS, token.GTR:
				return wBool(false), true
			}
		}
		return wLat{}, false
	}
	interp := func(fn *ssa.Function) bool {
		return fn.Pkg != nil && fn.Pkg.Pkg.Path() == modRoot+"/libvore/engine" && pureFunc(fn, 0)
	}
	nfn, nsite := 0, 0
	// helpers that consume without reading (consumeIf(cond, not), consumeAndAdvance(n)) hand the obligation to their call sites
	consumers := map[*ssa.Function]bool{consume: true}
	hasRead := func(fn *ssa.Function) bool {
		found := false
		instrsOf(fn, func(in ssa.Instruction) {
			if v, ok := in.(ssa.Value); ok {
				if _, ok := seed(v); ok {
					found = true
				}
			}
		})
		return found
	}
	// a helper is called by primitives only; a primitive is called by an instruction handler (a function that takes a bytecode
	// instruction) and keeps its own obligation
	isHandler := func(g *ssa.Function) bool {
		for _, p := range g.Params {
			if nt, ok := deref(p.Type()).(*types.Named); ok && nt.Obj().Pkg() != nil && nt.Obj().Pkg().Path() == modRoot+"/libvore/bytecode" {
				return true
			}
		}
		return false
	}
	calledByPrimitivesOnly := func(fn *ssa.Function) bool {
		n := 0
		ok := true
		for _, g := range c.SrcFuncs("engine") {
			calls := false
			instrsOf(g, func(in ssa.Instruction) {
				if staticCallee(in) == fn {
					calls = true
				}
			})
			if calls {
				n++
				if isHandler(g) {
					ok = false
				}
			}
		}
		return ok && n > 0
	}
	type result struct {
		fn    *ssa.Function
		site  *ssa.Call
		k     int
		state string // ok-unreachable, ok-size, ok-progress, bad
		conds string
	}
	var results []result
	for round := 0; round < 4; round++ {
		results = nil
		grew := false
		for _, fn := range c.SrcFuncs("engine") {
			if consumers[fn] {
				continue
			}
			var sites []*ssa.Call
			instrsOf(fn, func(in ssa.Instruction) {
				if call, ok := in.(*ssa.Call); ok && consumers[call.Call.StaticCallee()] {
					sites = append(sites, call)
				}
			})
			if len(sites) == 0 {
				continue
			}
			w := &World{Fn: fn, Seed: seed, Bin: bin, Interp: interp}
			w.Run()
			for k, site := range sites {
				res := result{fn: fn, site: site, k: k + 1}
				switch {
				case !w.Reach[site.Block()]:
					res.state = "ok-unreachable"
				case len(site.Call.Args) >= 2 && isSizeCall(site.Call.Args[len(site.Call.Args)-1]):
					res.state = "ok-size"
				case progressTested(fn, site, isOffLoad):
					res.state = "ok-progress"
				default:
					res.state = "bad"
					var conds []string
					for _, l := range domConds(fn, site.Block()) {
						conds = append(conds, l.String())
						// a decision on the way that this world would settle, were it not taken inside a function the folding cannot
						// enter (`here.last()` on a record that holds the state): no witness
						if w.get(l.Cond).k != 1 && dependsOnWorldThroughCall(c, l.Cond, w, []*ssa.Function{read, readAt, size}) {
							res.state = "opaque"
						}
					}
					res.conds = strings.Join(conds, " && ")
				}
				if res.state == "bad" && !hasRead(fn) && calledByPrimitivesOnly(fn) {
					// consumes on behalf of callers that did the reading: the obligation is theirs
					consumers[fn] = true
					grew = true
				}
				results = append(results, res)
			}
		}
		if !grew {
			break
		}
	}
	seenFn := map[*ssa.Function]bool{}
	for _, res := range results {
		if consumers[res.fn] {
			continue
		}
		if !seenFn[res.fn] {
			seenFn[res.fn] = true
			nfn++
		}
		nsite++
		what := "CONSUME"
		if sc := res.site.Call.StaticCallee(); sc != consume {
			what = sc.Name() + " (consumes for its caller)"
		}
		ob := r.Ob(rule, fmt.Sprintf("%s: %s #%d is not reached at the end of the input", fnName(res.fn), what, res.k), c.pos(res.site.Pos()))
		switch res.state {
		case "ok-unreachable":
			ob.OKnt("with every read returning \"\" and offset == reader.Size() the branch conditions fold and the call is unreachable")
		case "ok-size":
			ob.OKnt("consumes reader.Size() bytes: the whole of an empty input is the empty match")
		case "ok-progress":
			ob.OKnt("the state only moves on when the offset changed across the call (progress test)")
		case "opaque":
			ob.Und(fmt.Sprintf("a decision in front of the call asks the reader through a function the folding cannot enter [path conditions: %s]", res.conds))
		default:
			ob.Bad(fmt.Sprintf("at the end of the input (every read returns \"\") the call is still reachable [path conditions: %s]: the primitive succeeds without consuming a byte, so a class matches the empty string there", res.conds))
		}
	}
	r.Floor(rule, "primitives that consume input", nfn, 4)
	r.Floor(rule, "CONSUME call sites", nsite, 5)
}

// progressMeaning reads a comparison as a statement about `offset after the site - offset before the site`:
// returns (true means the offset changed, ok).
func progressMeaning(bo *ssa.BinOp, site ssa.Instruction, isOffLoad func(ssa.Value) bool) (bool, bool) {
	coefAfter, coefBefore, konst := 0, 0, 0
	okLin := true
	var walk func(v ssa.Value, sign, depth int)
	walk = func(v ssa.Value, sign, depth int) {
		if depth > 8 {
			okLin = false
			return
		}
		if k, ok := constInt(v); ok {
			konst += sign * int(k)
			return
		}
		if isOffLoad(v) {
			ld := v.(ssa.Instruction)
			switch {
			case instrDominates(ld, site):
				coefBefore += sign
			case instrDominates(site, ld):
				coefAfter += sign
			default:
				okLin = false
			}
			return
		}
		if x, ok := v.(*ssa.BinOp); ok && (x.Op == token.ADD || x.Op == token.SUB) {
			walk(x.X, sign, depth+1)
			if x.Op == token.ADD {
				walk(x.Y, sign, depth+1)
			} else {
				walk(x.Y, -sign, depth+1)
			}
			return
		}
		okLin = false
	}
	walk(bo.X, 1, 0)
	walk(bo.Y, -1, 0)
	if !okLin || konst != 0 || coefAfter == 0 || coefAfter != -coefBefore || (coefAfter != 1 && coefAfter != -1) {
		return false, false
	}
	switch {
	case bo.Op == token.NEQ:
		return true, true
	case bo.Op == token.EQL:
		return false, true
	case (bo.Op == token.GTR && coefAfter == 1) || (bo.Op == token.LSS && coefAfter == -1):
		return true, true
	case (bo.Op == token.LEQ && coefAfter == 1) || (bo.Op == token.GEQ && coefAfter == -1):
		return false, true
	}
	return false, false
}

// progressTested: every call that moves the state on (NEXT/JUMP) after the CONSUME site is control-dependent on a comparison that
// says the offset changed across the site; or the function hands that comparison back and every caller branches on it.
func progressTested(fn *ssa.Function, site *ssa.Call, isOffLoad func(ssa.Value) bool) bool {
	tests := map[ssa.Value]bool{} // comparison -> "true means changed"
	instrsOf(fn, func(in ssa.Instruction) {
		if bo, ok := in.(*ssa.BinOp); ok {
			if m, ok := progressMeaning(bo, site, isOffLoad); ok {
				tests[bo] = m
			}
		}
	})
	if len(tests) == 0 {
		return false
	}
	ok := true
	found := false
	for _, b := range fn.Blocks {
		if !site.Block().Dominates(b) {
			continue
		}
		for _, in := range b.Instrs {
			switch x := in.(type) {
			case *ssa.Call:
				if x == site {
					continue
				}
				sc := x.Call.StaticCallee()
				if sc == nil || (sc.Name() != "NEXT" && sc.Name() != "JUMP") {
					continue
				}
				found = true
				guarded := false
				for _, l := range domConds(fn, b) {
					if m, isT := tests[l.Cond]; isT && l.Pol == m {
						guarded = true
					}
				}
				if !guarded {
					ok = false
				}
			case *ssa.Return:
				// the verdict is handed to the caller
				for _, res := range x.Results {
					if _, isT := tests[res]; isT {
						found = true
						for _, ref := range callersOf(fn) {
							usedInIf := false
							for _, r2 := range *ref.Referrers() {
								if _, isIf := r2.(*ssa.If); isIf {
									usedInIf = true
								}
							}
							if !usedInIf {
								ok = false
							}
						}
					}
				}
			}
		}
	}
	return ok && found
}

// callersOf: the static call instructions of fn inside its own package.
func callersOf(fn *ssa.Function) []*ssa.Call {
	var out []*ssa.Call
	if fn.Pkg == nil {
		return out
	}
	for _, m := range fn.Pkg.Members {
		g, ok := m.(*ssa.Function)
		if !ok {
			continue
		}
		out = append(out, callsTo(g, fn)...)
		for _, an := range g.AnonFuncs {
			out = append(out, callsTo(an, fn)...)
		}
	}
	return out
}

// ---------------------------------------------------------------------------------------------
// C16.R7: in a string state every character except the end of the input is handled by an arm of that state.
//
// World: the lexer's state variable equals S at the head of the scanning loop. The arms that stay reachable must all be arms that
// test `state == S` (or the end-of-input arms): a character-only test that comes before the state's own arm takes characters away
// from the string (a backslash before a blank used to end the literal).
func ruleStringStatesOwnTheirCharacters(c *Ctx, rule string) {
	ruleContentStatesOwnTheirCharacters(c, rule, "STRING", 4, "a character of the literal (after a backslash: `backslash before any other character means that character`) is handled as if it stood outside the string")
}

// ruleCommentStatesOwnTheirCharacters: the same for the comment states (C15: what stands inside a comment never reaches a token arm).
func ruleCommentStatesOwnTheirCharacters(c *Ctx, rule string) {
	ruleContentStatesOwnTheirCharacters(c, rule, "COMMENT", 2, "a character inside a comment is handled as if it stood outside the comment, so the text of a comment can change the token stream")
}

func ruleContentStatesOwnTheirCharacters(c *Ctx, rule string, nameHas string, floor int, consequence string) {
	r := c.R
	fn := c.Method("ast", "Lexer", "getNextToken")
	names := map[string]string{}
	var stateT types.Type
	if p := c.Pkgs["ast"]; p != nil {
		for _, obj := range p.TypesInfo.Defs {
			if cst, ok := obj.(*types.Const); ok {
				if nt, ok := cst.Type().(*types.Named); ok && nt.Obj().Name() == "TokenState" {
					stateT = nt
					names[cst.Val().ExactString()] = cst.Name()
				}
			}
		}
	}
	if fn == nil || stateT == nil {
		r.Ob(rule, "anchor ast.(*Lexer).getNextToken / TokenState", "").Und("not found")
		return
	}
	// the state variable: the phi of the state type with the most edges (the loop head)
	var statePhi *ssa.Phi
	uses := func(p *ssa.Phi) int {
		n := 0
		for _, ref := range *p.Referrers() {
			if b, ok := ref.(*ssa.BinOp); ok && (b.Op == token.EQL || b.Op == token.NEQ) {
				n++
			}
		}
		return n
	}
	instrsOf(fn, func(in ssa.Instruction) {
		if p, ok := in.(*ssa.Phi); ok && types.Identical(p.Type(), stateT) {
			if statePhi == nil || uses(p) > uses(statePhi) {
				statePhi = p
			}
		}
	})
	if statePhi == nil {
		r.Ob(rule, "anchor: the lexer's state variable", c.pos(fn.Pos())).Und("no loop-carried variable of type TokenState in getNextToken")
		return
	}
	loop := innermostLoop(fn, statePhi.Block())
	if loop == nil {
		r.Ob(rule, "anchor: the lexer's scanning loop", c.pos(fn.Pos())).Und("the state variable is not merged at a loop head")
		return
	}
	// string states: every state constant whose name says STRING (raw and escape states of both quote styles)
	var states []string
	for val, n := range names {
		// SCOMMENTSTART ("a dash was seen") is not inside a comment yet: what follows may be any token
		if strings.Contains(n, nameHas) && !strings.HasSuffix(n, "START") {
			states = append(states, val)
		}
	}
	sort.Strings(states)
	pure := func(f *ssa.Function) bool { return false }
	_ = pure
	// the world of "no particular state": a value that equals none of the state constants. An arm that is reachable there as well
	// does not depend on the state.
	other := &World{Fn: fn, Seed: func(v ssa.Value) (constant.Value, bool) {
		if v == ssa.Value(statePhi) {
			return constant.MakeInt64(-1), true
		}
		return nil, false
	}}
	other.Run()
	n := 0
	for _, sv := range states {
		name := names[sv]
		kv := constant.MakeFromLiteral(sv, token.INT, 0)
		w := &World{Fn: fn, Seed: func(v ssa.Value) (constant.Value, bool) {
			if v == ssa.Value(statePhi) {
				return kv, true
			}
			return nil, false
		}}
		w.Run()
		isStateTest := func(l CondLit) bool {
			b, ok := l.Cond.(*ssa.BinOp)
			if !ok {
				return false
			}
			for _, pair := range [][2]ssa.Value{{b.X, b.Y}, {b.Y, b.X}} {
				if pair[0] != ssa.Value(statePhi) {
					continue
				}
				k, ok := pair[1].(*ssa.Const)
				if !ok || k.Value == nil || k.Value.ExactString() != sv {
					continue
				}
				if b.Op == token.EQL && l.Pol || b.Op == token.NEQ && !l.Pol {
					return true
				}
			}
			return false
		}
		isEOFTest := func(l CondLit) bool {
			b, ok := l.Cond.(*ssa.BinOp)
			if !ok || b.Op != token.EQL || !l.Pol {
				return false
			}
			if k, ok := constInt(b.Y); ok && k == 0 {
				if bt, ok := b.X.Type().Underlying().(*types.Basic); ok && bt.Kind() == types.Int32 {
					return true
				}
			}
			return false
		}
		// blocks that every iteration runs before the first decision (they dominate all state tests) are not arms
		own := 0
		var bad []string
		for _, b := range fn.Blocks {
			// an arm that breaks out of the loop is a block outside the loop entered from one block inside it
			stub := !loop[b] && len(b.Preds) == 1 && loop[b.Preds[0]]
			if !(loop[b] || stub) || !w.Reach[b] {
				continue
			}
			effect := stub
			for _, in := range b.Instrs {
				switch x := in.(type) {
				case *ssa.Store, *ssa.MapUpdate, *ssa.Return:
					effect = true
				case *ssa.Call:
					if _, isB := x.Call.Value.(*ssa.Builtin); !isB {
						// character predicates (unicode.IsSpace, a table lookup of the repository's own) only compute a condition
						if sc := x.Call.StaticCallee(); sc == nil || sc.Pkg == nil || !(sc.Pkg.Pkg.Path() == "unicode" || pureFunc(sc, 0)) {
							effect = true
						}
					}
				}
			}
			if !effect {
				continue
			}
			conds := domConds(fn, b)
			inLoopCond := false
			mine, eof := false, false
			for _, l := range conds {
				if !loop[l.If.Block()] {
					continue
				}
				inLoopCond = true
				if isStateTest(l) {
					mine = true
				}
				if isEOFTest(l) {
					eof = true
				}
			}
			if !inLoopCond {
				continue // runs on every iteration before any decision (the read of the next character)
			}
			if mine || !other.Reach[b] {
				own++ // reached because of the state: a test of the state (alone, in a disjunction, a switch) lies on the way
				continue
			}
			if eof {
				continue
			}
			var cs []string
			for _, l := range conds {
				if loop[l.If.Block()] && w.val[l.Cond].k != 1 {
					cs = append(cs, l.String())
				}
			}
			pos := ""
			for _, in := range b.Instrs {
				if in.Pos().IsValid() {
					pos = c.pos(in.Pos())
					break
				}
			}
			if os.Getenv("VDEBUG") != "" {
				fmt.Fprintf(os.Stderr, "DEBUG %s block %d %s preds=%v\n", name, b.Index, b.Comment, b.Preds)
			}
			bad = append(bad, fmt.Sprintf("%s under [%s]", pos, strings.Join(cs, " && ")))
		}
		if own == 0 {
			continue // not a scanning state (a marker set when the token is complete): the loop never runs in it
		}
		n++
		ob := r.Ob(rule, "getNextToken: in state "+name+" only the state's own arms take a character", c.pos(statePhi.Pos()))
		switch {
		case len(bad) == 0:
			ob.OKnt(fmt.Sprintf("with the state fixed to %s every reachable arm (%d) tests the state or the end of the input", name, own))
		default:
			sort.Strings(bad)
			ob.Bad(fmt.Sprintf("with the state fixed to %s an arm that does not test the state takes the character: %s — %s", name, strings.Join(uniq(bad), "; "), consequence))
		}
	}
	r.Floor(rule, strings.ToLower(nameHas)+" states of the lexer", n, floor)
}

// ---------------------------------------------------------------------------------------------
// C10.R10: the interpreter's loop statement ends when its body returned or broke.
//
// World: every status the body hands back is K (K = the status set by `return`, then the one set by `break`). In that world the Go
// loop that runs the body must have no feasible cycle left (range loops over the statements excepted).
func ruleProcessLoopEnds(c *Ctx, rule string) {
	r := c.R
	psT := c.NamedType("engine", "ProcessState")
	loopT := c.NamedType("ast", "AstProcessLoop")
	if psT == nil || loopT == nil {
		r.Ob(rule, "anchor engine.ProcessState / ast.AstProcessLoop", "").Und("not found")
		return
	}
	st, _ := psT.Underlying().(*types.Struct)
	statusIdx := -1
	var statusT types.Type
	for i := 0; st != nil && i < st.NumFields(); i++ {
		if nt, ok := st.Field(i).Type().(*types.Named); ok {
			if b, ok := nt.Underlying().(*types.Basic); ok && b.Info()&types.IsInteger != 0 && strings.Contains(strings.ToLower(st.Field(i).Name()), "status") {
				statusIdx, statusT = i, nt
			}
		}
	}
	if statusIdx < 0 {
		r.Ob(rule, "anchor: status field of engine.ProcessState", "").Und("not found")
		return
	}
	// status constants by the statement that sets them
	consts := map[string]constant.Value{}
	if p := c.Pkgs["engine"]; p != nil {
		for _, obj := range p.TypesInfo.Defs {
			if cst, ok := obj.(*types.Const); ok && types.Identical(cst.Type(), statusT) {
				consts[cst.Name()] = cst.Val()
			}
		}
	}
	var must []string
	for n := range consts {
		up := strings.ToUpper(n)
		if strings.Contains(up, "RETURN") || strings.Contains(up, "BREAK") {
			must = append(must, n)
		}
	}
	sort.Strings(must)
	if len(must) < 2 {
		r.Ob(rule, "anchor: the statuses set by `return` and `break`", "").Und(fmt.Sprintf("status constants found: %v", sortedKeys(consts)))
		return
	}
	// the functions that execute a loop statement
	var fns []*ssa.Function
	for _, fn := range c.SrcFuncs("engine") {
		for _, p := range fn.Params {
			if types.Identical(deref(p.Type()), loopT) {
				fns = append(fns, fn)
			}
		}
	}
	n := 0
	for _, fn := range fns {
		all := sccs(fn, func(a, b *ssa.BasicBlock) bool { return true })
		if len(all) == 0 {
			continue
		}
		for _, name := range must {
			kv := consts[name]
			n++
			ob := r.Ob(rule, fmt.Sprintf("%s: the loop ends once the body's status is %s", fnName(fn), name), c.pos(fn.Pos()))
			w := &World{Fn: fn,
				Seed: func(v ssa.Value) (constant.Value, bool) {
					if statusReadOf(v, psT, statusIdx) {
						return kv, true
					}
					return nil, false
				},
				CellDefault: func(a *ssa.Alloc, path string, t types.Type) wLat {
					if types.Identical(t, statusT) && types.Identical(deref(a.Type()), psT) && path == fmt.Sprintf(".%d", statusIdx) {
						return wConst(kv)
					}
					return wTop
				}}
			w.Run()
			rem := sccs(fn, func(a, b *ssa.BasicBlock) bool {
				return w.Reach[a] && w.Reach[b] && w.Edge[[2]*ssa.BasicBlock{a, b}]
			})
			var bad []string
			for _, comp := range rem {
				if countingExit(comp) {
					continue
				}
				// the cycle may be an artefact of joining the first round with the later ones at the loop head (a flag that is
				// false on entry and true after the body): start behind each call of the cycle instead and ask whether that call
				// can be reached again
				again := false
				ncalls := 0
				for _, b := range comp {
					for idx, in := range b.Instrs {
						call, ok := in.(*ssa.Call)
						if !ok {
							continue
						}
						sc := call.Call.StaticCallee()
						if sc == nil || !c.isRepoFn(sc) {
							continue
						}
						ncalls++
						w2 := &World{Fn: fn, StartBlock: b, StartIndex: idx + 1, Seed: w.Seed, CellDefault: w.CellDefault}
						w2.Run()
						if w2.Reentered {
							again = true
						}
					}
				}
				if ncalls > 0 && !again {
					continue
				}
				for _, b := range comp {
					for _, in := range b.Instrs {
						if in.Pos().IsValid() {
							bad = append(bad, c.pos(in.Pos()))
							break
						}
					}
				}
			}
			if len(bad) == 0 {
				ob.OKnt("with every status read fixed to " + name + " the branch conditions fold and no cycle of the executor's loop stays feasible")
			} else {
				sort.Strings(bad)
				ob.Bad(fmt.Sprintf("with the body's status fixed to %s a cycle stays feasible through %s: a `%s` inside a process loop does not end it and Run never comes back", name, strings.Join(uniq(bad), ", "), strings.ToLower(strings.TrimSuffix(strings.TrimSuffix(name, "ING"), "LOOP"))))
			}
		}
	}
	r.Floor(rule, "loop executors x terminal statuses", n, 2)
}

// ---------------------------------------------------------------------------------------------
// Comparisons of the iteration number with the loop's minimum.

// stepMinForm reads a branch literal as `step - MinLoops + k >= 0` ("ge") or `step - MinLoops + k < 0` ("lt"), where step is a
// result of GETITERATIONSTEP and MinLoops a load of the instruction's MinLoops field. ok=false: the literal is not of that shape.
func stepMinForm(l CondLit, isStep, isMin func(ssa.Value) bool) (kind string, k int64, ok bool) {
	v, pol := l.Cond, l.Pol
	for {
		u, isU := v.(*ssa.UnOp)
		if !isU || u.Op != token.NOT {
			break
		}
		v, pol = u.X, !pol
	}
	b, isB := v.(*ssa.BinOp)
	if !isB {
		return "", 0, false
	}
	var lin func(v ssa.Value, depth int) (cs, cm, k int64, ok bool)
	lin = func(v ssa.Value, depth int) (int64, int64, int64, bool) {
		if depth > 4 {
			return 0, 0, 0, false
		}
		if isStep(v) {
			return 1, 0, 0, true
		}
		if isMin(v) {
			return 0, 1, 0, true
		}
		if n, ok := constInt(v); ok {
			return 0, 0, n, true
		}
		if x, ok := v.(*ssa.BinOp); ok && (x.Op == token.ADD || x.Op == token.SUB) {
			a1, b1, k1, ok1 := lin(x.X, depth+1)
			a2, b2, k2, ok2 := lin(x.Y, depth+1)
			if ok1 && ok2 {
				if x.Op == token.ADD {
					return a1 + a2, b1 + b2, k1 + k2, true
				}
				return a1 - a2, b1 - b2, k1 - k2, true
			}
		}
		return 0, 0, 0, false
	}
	a1, b1, k1, ok1 := lin(b.X, 0)
	a2, b2, k2, ok2 := lin(b.Y, 0)
	if !ok1 || !ok2 {
		return "", 0, false
	}
	a, m, kk := a1-a2, b1-b2, k1-k2 // diff = a*step + m*Min + kk
	// the literal as `diff >= 0` (ge) or `diff < 0` (lt), integers
	op := b.Op
	if !pol {
		op = map[token.Token]token.Token{token.LSS: token.GEQ, token.GEQ: token.LSS, token.GTR: token.LEQ, token.LEQ: token.GTR, token.EQL: token.NEQ, token.NEQ: token.EQL}[op]
	}
	switch op {
	case token.GEQ:
		kind = "ge"
	case token.GTR: // diff > 0 == diff-1 >= 0
		kind, kk = "ge", kk-1
	case token.LSS:
		kind = "lt"
	case token.LEQ: // diff <= 0 == diff-1 < 0
		kind, kk = "lt", kk-1
	default:
		return "", 0, false
	}
	switch {
	case a == 1 && m == -1:
		return kind, kk, true
	case a == -1 && m == 1:
		// -(step - Min) + kk >= 0  ==  step - Min - kk <= 0  ==  step - Min - kk - 1 < 0 ; and the negation
		if kind == "ge" {
			return "lt", -kk - 1, true
		}
		return "ge", -kk - 1, true
	}
	return "", 0, false
}

func (c *Ctx) loopMinAnchors(fn *ssa.Function) (isStep, isMin func(ssa.Value) bool, nMin int) {
	stepF := c.stateMethod("GETITERATIONSTEP")
	isStep = func(v ssa.Value) bool {
		call, ok := v.(*ssa.Call)
		return ok && stepF != nil && call.Call.StaticCallee() == stepF
	}
	isMin = func(v ssa.Value) bool {
		switch x := v.(type) {
		case *ssa.Field:
			return fieldName(x.X.Type(), x.Field) == "MinLoops"
		case *ssa.UnOp:
			if fa, ok := x.X.(*ssa.FieldAddr); ok && x.Op == token.MUL {
				return fieldName(deref(fa.X.Type()), fa.Field) == "MinLoops"
			}
		}
		return false
	}
	instrsOf(fn, func(in ssa.Instruction) {
		if v, ok := in.(ssa.Value); ok && isMin(v) {
			nMin++
		}
	})
	return
}

// C01.R9: the zero-width cut does not remove a mandatory iteration.
//
// The loop handler runs the body without an exit checkpoint while the iteration number is below MinLoops. An iteration that
// consumed nothing may only be abandoned (BACKTRACK) when an exit checkpoint exists, i.e. when the iteration that just ended was
// not a mandatory one: the BACKTRACK under the zero-width test must also be under `step >= MinLoops`. Otherwise
// `at least 2 (maybe 'a') named x 'b'` finds nothing in "ab" although the second iteration can be empty.
func ruleZeroWidthCutRespectsMinimum(c *Ctx, rule string) {
	r := c.R
	fn := c.Fn("engine", "matchStartLoop")
	chkF, btF := c.stateMethod("CHECKZEROMATCHLOOP"), c.stateMethod("BACKTRACK")
	if fn == nil || chkF == nil || btF == nil {
		r.Ob(rule, "anchor engine.matchStartLoop / CHECKZEROMATCHLOOP / BACKTRACK", "").Und("not found")
		return
	}
	isStep, isMin, nMin := c.loopMinAnchors(fn)
	ob := r.Ob(rule, "matchStartLoop: an empty iteration is abandoned only when it was not a mandatory one", c.pos(fn.Pos()))
	if nMin == 0 {
		ob.OKnt("the handler never reads MinLoops: mandatory iterations are not counted at run time")
		return
	}
	n := 0
	var bad, und []string
	for _, chk := range callsTo(fn, chkF) {
		for _, bt := range callsTo(fn, btF) {
			zero := false
			var form []string
			okForm := false
			for _, l := range domConds(fn, bt.Block()) {
				if l.Cond == ssa.Value(chk) && l.Pol {
					zero = true
				}
				if kind, k, ok := stepMinForm(l, isStep, isMin); ok {
					form = append(form, fmt.Sprintf("%s(k=%d)", kind, k))
					if kind == "ge" && k <= 0 {
						okForm = true
					}
				}
			}
			if !zero {
				continue
			}
			n++
			early := false
			for _, f := range form {
				if strings.HasPrefix(f, "ge(k=") && !strings.HasPrefix(f, "ge(k=-") && f != "ge(k=0)" {
					early = true // step + k >= MinLoops with k > 0: the last mandatory iteration(s) are still cut
				}
			}
			switch {
			case okForm:
			case len(form) == 0:
				bad = append(bad, c.pos(bt.Pos()))
			case early:
				bad = append(bad, c.pos(bt.Pos())+fmt.Sprintf(" (limited by %v, which still admits an iteration below the minimum)", form))
			default:
				und = append(und, fmt.Sprintf("%s under %v", c.pos(bt.Pos()), form))
			}
		}
	}
	switch {
	case n == 0:
		ob.Und("no BACKTRACK under a true CHECKZEROMATCHLOOP found")
	case len(bad) > 0:
		ob.Bad(fmt.Sprintf("the handler counts mandatory iterations (it reads MinLoops) but the BACKTRACK at %s after an empty iteration is not limited to iterations at or above the minimum: a loop with a minimum whose body can match the empty string fails as soon as one mandatory iteration is empty (`at least 2 (maybe 'a') named x 'b'` on \"ab\")", strings.Join(uniq(bad), ", ")))
	case len(und) > 0:
		ob.Und("the cut is limited by a comparison with MinLoops that is not `step >= MinLoops`: " + strings.Join(und, "; "))
	default:
		ob.OKnt("the BACKTRACK after an empty iteration is control-dependent on `step >= MinLoops`")
	}
}

// ---------------------------------------------------------------------------------------------
// C05.R11 / C11.R6: `return` ends the process code.
//
// World: every status read back from a statement is the one set by `return`. In that world no loop that runs process statements
// (the bodies of if and loop statements, a transform, a subroutine's predicate) may go round again: the statements after a `return`
// must not run, or the value of a transform is no longer the value that was returned.
func ruleReturnStopsStatements(c *Ctx, rule string) {
	r := c.R
	psT := c.NamedType("engine", "ProcessState")
	stmtT := c.NamedType("ast", "AstProcessStatement")
	if psT == nil || stmtT == nil {
		r.Ob(rule, "anchor engine.ProcessState / ast.AstProcessStatement", "").Und("not found")
		return
	}
	st, _ := psT.Underlying().(*types.Struct)
	statusIdx := -1
	var statusT types.Type
	for i := 0; st != nil && i < st.NumFields(); i++ {
		if nt, ok := st.Field(i).Type().(*types.Named); ok {
			if b, ok := nt.Underlying().(*types.Basic); ok && b.Info()&types.IsInteger != 0 && strings.Contains(strings.ToLower(st.Field(i).Name()), "status") {
				statusIdx, statusT = i, nt
			}
		}
	}
	var kv constant.Value
	kname := ""
	if p := c.Pkgs["engine"]; p != nil && statusT != nil {
		for _, obj := range p.TypesInfo.Defs {
			if cst, ok := obj.(*types.Const); ok && types.Identical(cst.Type(), statusT) && strings.Contains(strings.ToUpper(cst.Name()), "RETURN") {
				kv, kname = cst.Val(), cst.Name()
			}
		}
	}
	if statusIdx < 0 || kv == nil {
		r.Ob(rule, "anchor: status field of engine.ProcessState and the status set by `return`", "").Und("not found")
		return
	}
	// the statement executor: takes a statement (pointer) and a state, returns a state
	isExec := func(sc *ssa.Function) bool {
		if sc == nil || sc.Signature.Results().Len() != 1 || !types.Identical(sc.Signature.Results().At(0).Type(), psT) {
			return false
		}
		for i := 0; i < sc.Signature.Params().Len(); i++ {
			if types.Identical(deref(sc.Signature.Params().At(i).Type()), stmtT) {
				return true
			}
		}
		return false
	}
	n := 0
	for _, fn := range c.SrcFuncs("engine") {
		var calls []*ssa.Call
		instrsOf(fn, func(in ssa.Instruction) {
			if call, ok := in.(*ssa.Call); ok && isExec(call.Call.StaticCallee()) {
				if innermostLoop(fn, call.Block()) != nil {
					calls = append(calls, call)
				}
			}
		})
		if len(calls) == 0 {
			continue
		}
		mkWorld := func(call *ssa.Call) *World {
			idx := 0
			for i, x := range call.Block().Instrs {
				if x == ssa.Instruction(call) {
					idx = i
				}
			}
			// the analysis begins right behind the statement: can the same call be reached again?
			return &World{Fn: fn, StartBlock: call.Block(), StartIndex: idx + 1,
				Seed: func(v ssa.Value) (constant.Value, bool) {
					if statusReadOf(v, psT, statusIdx) {
						return kv, true
					}
					return nil, false
				},
				CellDefault: func(a *ssa.Alloc, path string, t types.Type) wLat {
					if types.Identical(t, statusT) && types.Identical(deref(a.Type()), psT) && path == fmt.Sprintf(".%d", statusIdx) {
						return wConst(kv)
					}
					return wTop
				}}
		}
		for k, call := range calls {
			n++
			ob := r.Ob(rule, fmt.Sprintf("%s: statement loop #%d stops once a statement returned", fnName(fn), k+1), c.pos(call.Pos()))
			w := mkWorld(call)
			w.Run()
			cyc := w.Reentered
			forced := false
			if cyc {
				// is the call reached again without relying on a decision the analysis could not make? Unknown ordering comparisons
				// (the bound of a counting loop) are let through, unknown equalities (`k == 0 || ...`) are not.
				seenB := map[*ssa.BasicBlock]bool{}
				work := append([]*ssa.BasicBlock{}, call.Block().Succs...)
				if len(call.Block().Succs) == 2 {
					work = nil
					for si, sb := range call.Block().Succs {
						if w.Edge[[2]*ssa.BasicBlock{call.Block(), call.Block().Succs[si]}] {
							work = append(work, sb)
						}
					}
				}
				for len(work) > 0 && !forced {
					b := work[len(work)-1]
					work = work[:len(work)-1]
					if seenB[b] {
						continue
					}
					seenB[b] = true
					if b == call.Block() {
						forced = true
						break
					}
					iff, _ := b.Instrs[len(b.Instrs)-1].(*ssa.If)
					for _, sb := range b.Succs {
						if !w.Edge[[2]*ssa.BasicBlock{b, sb}] {
							continue
						}
						if iff != nil && w.get(iff.Cond).k != 1 {
							cmp, isCmp := iff.Cond.(*ssa.BinOp)
							if !isCmp || cmp.Op == token.EQL || cmp.Op == token.NEQ {
								continue
							}
						}
						work = append(work, sb)
					}
				}
			}
			if cyc && forced {
				ob.Bad("with every status read fixed to " + kname + " the loop around this call goes round again (every decision on the way folds, or is the bound of the loop): the statements after a `return` run as well, and the value handed back is no longer the returned one")
			} else if cyc {
				// does anything in the loop look at the status at all?
				loop := innermostLoop(fn, call.Block())
				looks := false
				statusReads := map[ssa.Value]bool{}
				instrsOf(fn, func(in ssa.Instruction) {
					switch x := in.(type) {
					case *ssa.Field:
						if x.Field == statusIdx && types.Identical(x.X.Type(), psT) {
							statusReads[x] = true
						}
					case *ssa.UnOp:
						if fa, ok := x.X.(*ssa.FieldAddr); ok && x.Op == token.MUL && fa.Field == statusIdx && types.Identical(deref(fa.X.Type()), psT) {
							statusReads[x] = true
						}
					}
				})
				deps := dataDeps(fn, statusReads)
				for b := range loop {
					if iff, ok := b.Instrs[len(b.Instrs)-1].(*ssa.If); ok && deps[iff.Cond] {
						looks = true
					}
				}
				if !looks {
					ob.Bad("no branch of the loop around this call looks at the status a statement hands back: the statements after a `return` run as well, and the value handed back is no longer the returned one")
				} else {
					ob.Und("with every status read fixed to " + kname + " the loop around this call can still go round, although a branch of the loop tests the status (the test is combined with something that does not fold, or has the wrong sense)")
				}
			} else {
				ob.OKnt("with every status read fixed to " + kname + " the loop's back edge is infeasible")
			}
		}
	}
	r.Floor(rule, "loops that run process statements", n, 1)
}

// statusReadOf: v reads the status field of a process state - of a state held by value, or (methods on *ProcessState) of the state
// behind a pointer that is not a local of the function.
func statusReadOf(v ssa.Value, psT types.Type, statusIdx int) bool {
	switch x := v.(type) {
	case *ssa.Field:
		return x.Field == statusIdx && types.Identical(x.X.Type(), psT)
	case *ssa.UnOp:
		if x.Op != token.MUL {
			return false
		}
		if fa, ok := x.X.(*ssa.FieldAddr); ok && fa.Field == statusIdx && types.Identical(deref(fa.X.Type()), psT) {
			_, isLocal := fa.X.(*ssa.Alloc)
			return !isLocal
		}
	}
	return false
}

// dependsOnWorldThroughCall: the value depends on the result of a repository call that did not fold in the world and from which one
// of the functions the world fixes (the reads, Size) is reachable.
func dependsOnWorldThroughCall(c *Ctx, v ssa.Value, w *World, fixed []*ssa.Function) bool {
	seen := map[ssa.Value]bool{}
	found := false
	var walk func(v ssa.Value, d int)
	walk = func(v ssa.Value, d int) {
		if v == nil || seen[v] || d > 10 || found {
			return
		}
		seen[v] = true
		if call, ok := v.(*ssa.Call); ok {
			if sc := call.Call.StaticCallee(); sc != nil && c.isRepoFn(sc) && w.get(v).k != 1 {
				direct := false
				for _, f := range fixed {
					if f != nil && sc == f {
						direct = true
					}
				}
				if !direct {
					reach := c.Reachable(sc)
					for _, f := range fixed {
						if f != nil && reach[f] {
							found = true
							return
						}
					}
				}
			}
		}
		if in, ok := v.(ssa.Instruction); ok {
			for _, op := range in.Operands(nil) {
				if *op != nil {
					walk(*op, d+1)
				}
			}
		}
	}
	walk(v, 0)
	return found
}
