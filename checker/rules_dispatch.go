package main

// TYSW and ENUM: dispatch completeness (C01.R1, C05.R1, C08.R6, C08.R7, C09.R1, C12.R5).

import (
	"fmt"
	"go/ast"
	"go/types"
	"sort"
	"strings"

	"golang.org/x/tools/go/ssa"
)

// producersOf collects, for every interface type declared in the given packages, the concrete types converted to it
// (SSA MakeInterface) anywhere in the repository's non-test code.
func (c *Ctx) producersOf() map[*types.Named]map[string][]string {
	out := map[*types.Named]map[string][]string{}
	for fn := range c.allFns {
		if !c.isRepoFn(fn) {
			continue
		}
		instrsOf(fn, func(in ssa.Instruction) {
			mi, ok := in.(*ssa.MakeInterface)
			if !ok {
				return
			}
			n, ok := mi.Type().(*types.Named)
			if !ok || n.Obj().Pkg() == nil || !c.isRepoPkg(n.Obj().Pkg()) {
				return
			}
			if out[n] == nil {
				out[n] = map[string][]string{}
			}
			ts := types.TypeString(mi.X.Type(), shortQual)
			out[n][ts] = append(out[n][ts], fnName(fn))
		})
	}
	return out
}

type tySwitch struct {
	pkg      string
	fd       *ast.FuncDecl
	sw       *ast.TypeSwitchStmt
	iface    *types.Named
	cases    map[string]bool
	hasDef   bool
	defPanic bool
	after    string // "panic", "return-error", "return-other", "fallthrough"
}

// typeSwitches discovers every function of the given packages whose body contains a type switch over a value derived from a
// parameter of (pointer to) an interface type declared in the repository.
func (c *Ctx) typeSwitches(pkgs ...string) []*tySwitch {
	var out []*tySwitch
	for _, pkg := range pkgs {
		info := c.info(pkg)
		c.allFuncDecls(pkg, func(fd *ast.FuncDecl) {
			var iface *types.Named
			if fd.Type.Params != nil {
				for _, p := range fd.Type.Params.List {
					t := info.TypeOf(p.Type)
					if t == nil {
						continue
					}
					if n, ok := deref(t).(*types.Named); ok && types.IsInterface(n) && n.Obj().Pkg() != nil && c.isRepoPkg(n.Obj().Pkg()) {
						iface = n
						break
					}
				}
			}
			if iface == nil {
				return
			}
			for _, s := range fd.Body.List {
				sw, ok := s.(*ast.TypeSwitchStmt)
				if !ok {
					continue
				}
				ts := &tySwitch{pkg: pkg, fd: fd, sw: sw, iface: iface, cases: map[string]bool{}}
				for _, cc := range sw.Body.List {
					cl := cc.(*ast.CaseClause)
					if cl.List == nil {
						ts.hasDef = true
						ts.defPanic = blockPanics(info, cl.Body)
					}
					for _, e := range cl.List {
						if t := info.TypeOf(e); t != nil {
							ts.cases[types.TypeString(t, shortQual)] = true
						}
					}
				}
				// what follows the switch
				ts.after = "fallthrough"
				if next := stmtAfter(fd.Body, sw); next != nil {
					if isPanicStmt(info, next) {
						ts.after = "panic"
					} else if ret, ok := next.(*ast.ReturnStmt); ok {
						ts.after = "return-other"
						if len(ret.Results) > 0 {
							last := ret.Results[len(ret.Results)-1]
							if t := info.TypeOf(last); t != nil && !isNilIdent(last) && types.Implements(t, errorIface()) {
								ts.after = "return-error"
							}
						}
						// `return nil, false`: a probe ("is this node a loop?") says no for every other type
						if last := ret.Results[len(ret.Results)-1]; len(ret.Results) > 0 {
							if id, ok := unparen(last).(*ast.Ident); ok && id.Name == "false" && fd.Type.Results != nil {
								rl := fd.Type.Results.List
								if rt := info.TypeOf(rl[len(rl)-1].Type); rt != nil && types.Identical(rt.Underlying(), types.Typ[types.Bool]) {
									ts.after = "return-no"
								}
							}
							// `return nil` of a pointer: "the loop this node is, or none"
							if len(ret.Results) == 1 && isNilIdent(last) && fd.Type.Results != nil && len(fd.Type.Results.List) == 1 {
								if rt := info.TypeOf(fd.Type.Results.List[0].Type); rt != nil {
									if _, isPtr := rt.Underlying().(*types.Pointer); isPtr {
										ts.after = "return-no"
									}
								}
							}
						}
						// `return inst`: the function hands the switched value back unchanged (a transformer, not a consumer)
						if len(ret.Results) == 1 && fd.Type.Results != nil && len(fd.Type.Results.List) == 1 {
							if id, ok := unparen(ret.Results[0]).(*ast.Ident); ok && switchSubjectIs(info, sw, id) {
								if rt := info.TypeOf(fd.Type.Results.List[0].Type); rt != nil && types.Identical(rt, info.TypeOf(id)) {
									ts.after = "return-same"
								}
							}
						}
					} else {
						ts.after = "statements"
						c.chainedCases(pkg, info, fd, sw, ts)
					}
				}
				out = append(out, ts)
			}
		})
	}
	return out
}

// switchSubjectIs: the type switch `switch x := id.(type)` / `switch id.(type)` is over the variable id names.
func switchSubjectIs(info *types.Info, sw *ast.TypeSwitchStmt, id *ast.Ident) bool {
	var x ast.Expr
	switch a := sw.Assign.(type) {
	case *ast.AssignStmt:
		if len(a.Rhs) == 1 {
			x = a.Rhs[0]
		}
	case *ast.ExprStmt:
		x = a.X
	}
	if x == nil {
		return false
	}
	ta, ok := unparen(x).(*ast.TypeAssertExpr)
	if !ok {
		return false
	}
	subj, ok := unparen(ta.X).(*ast.Ident)
	return ok && info.ObjectOf(subj) != nil && info.ObjectOf(subj) == info.ObjectOf(id)
}

func isNilIdent(e ast.Expr) bool {
	id, ok := unparen(e).(*ast.Ident)
	return ok && id.Name == "nil"
}

func errorIface() *types.Interface {
	return types.Universe.Lookup("error").Type().Underlying().(*types.Interface)
}

// ruleTypeSwitchComplete: every produced concrete type has a case. filter selects the consumers (by package) relevant to the property.
func ruleTypeSwitchComplete(c *Ctx, rule string, pkgs []string, ifaceFilter func(n *types.Named) bool, floor int) {
	r := c.R
	prods := c.producersOf()
	sws := c.typeSwitches(pkgs...)
	n := 0
	for _, ts := range sws {
		if ifaceFilter != nil && !ifaceFilter(ts.iface) {
			continue
		}
		n++
		name := ts.pkg + "." + funcDeclName(ts.fd)
		ifn := ts.iface.Obj().Pkg().Name() + "." + ts.iface.Obj().Name()
		p := prods[ts.iface]
		var pts []string
		for t := range p {
			pts = append(pts, t)
		}
		sort.Strings(pts)
		if len(pts) == 0 {
			r.Ob(rule, fmt.Sprintf("%s: producers of %s", name, ifn), c.pos(ts.sw.Pos())).Und("no concrete type is ever converted to " + ifn + " (producer inventory empty)")
			continue
		}
		for _, t := range pts {
			ob := r.Ob(rule, fmt.Sprintf("%s: case for %s as %s", name, t, ifn), c.pos(ts.sw.Pos()))
			if ts.cases[t] {
				ob.OKnt("produced in " + strings.Join(uniq(p[t]), ", ") + "; handled by a case of the same pointer-ness")
			} else if !ts.hasDef && ts.after == "return-same" {
				ob.OK("no case: the function hands such a value back unchanged (it transforms some types and passes the others through)")
			} else if !ts.hasDef && ts.after == "return-no" {
				ob.OK("no case: the function is a probe that answers false for the types it does not ask about")
			} else {
				alt := strings.TrimPrefix(t, "*")
				if !strings.HasPrefix(t, "*") {
					alt = "*" + t
				}
				hint := ""
				if ts.cases[alt] {
					hint = " (the switch has a case for " + alt + ": pointer-ness mismatch)"
				}
				ob.Bad(fmt.Sprintf("%s is converted to %s in %s but %s has no case for it%s; such a value falls to the default (%s)",
					t, ifn, strings.Join(uniq(p[t]), ", "), name, hint, ts.fallDesc()))
			}
		}
	}
	r.Floor(rule, "type-switch consumers over repository interfaces", n, floor)
}

func (ts *tySwitch) fallDesc() string {
	if ts.hasDef {
		if ts.defPanic {
			return "default panics"
		}
		return "default"
	}
	return "after the switch: " + ts.after
}

// ruleTypeSwitchTotal (C08.R7): the generator's and the checker's type switches never panic or fall through to success:
// a value that matches no case (including a nil interface left by a failed parse) becomes an error.
func ruleTypeSwitchTotal(c *Ctx, rule string) {
	r := c.R
	n := 0
	for _, ts := range c.typeSwitches("bytecode") {
		n++
		name := ts.pkg + "." + funcDeclName(ts.fd)
		ob := r.Ob(rule, name+": unmatched value becomes an error", c.pos(ts.sw.Pos()))
		info := c.info("bytecode")
		if !ts.hasDef && ts.after == "return-same" {
			ob.OK("the function hands an unmatched value back unchanged: it transforms, it does not accept or reject")
			continue
		}
		if !ts.hasDef && ts.after == "return-no" {
			ob.OK("the function is a probe that answers false for an unmatched value: it does not accept or reject")
			continue
		}
		// semantic decision first: fold the function with a nil node (a nil interface matches no case)
		if verdict, detail, ok := c.foldWithNilNode(ts); ok {
			if verdict {
				ob.OKnt(detail)
			} else {
				ob.Bad(detail)
			}
			continue
		}
		switch {
		case ts.hasDef && ts.defPanic, ts.after == "panic":
			ob.Bad("an unmatched (or nil) " + ts.iface.Obj().Name() + " reaches a panic during Compile")
		case ts.after == "return-error":
			ob.OK("the statement after the switch returns a non-nil error value")
		case ts.after == "statements":
			// the semantic checker's shape: assigns PTERROR to info.currentType and returns info
			if setsPTERROR(info, ts.fd, ts.sw) {
				ob.OK("the statements after the switch set currentType = PTERROR before returning")
			} else {
				ob.Bad("the code after the switch neither returns an error nor sets PTERROR: an unmatched value would be accepted silently")
			}
		default:
			ob.Bad("after the switch: " + ts.after + " — an unmatched value is not turned into an error")
		}
	}
	r.Floor(rule, "type switches in package bytecode", n, 5)
}

func setsPTERROR(info *types.Info, fd *ast.FuncDecl, sw ast.Stmt) bool {
	found := false
	past := false
	for _, s := range fd.Body.List {
		if s == sw {
			past = true
			continue
		}
		if !past {
			continue
		}
		if as, ok := s.(*ast.AssignStmt); ok && len(as.Rhs) == 1 {
			if id, ok := as.Rhs[0].(*ast.Ident); ok && id.Name == "PTERROR" {
				if sel, ok := as.Lhs[0].(*ast.SelectorExpr); ok && sel.Sel.Name == "currentType" {
					found = true
				}
			}
		}
	}
	return found
}

// ---------------------------------------------------------------------------------------------
// ENUM

type enumSwitch struct {
	pkg     string
	fd      *ast.FuncDecl
	sw      *ast.SwitchStmt
	typ     types.Type
	covered map[string]bool
	all     []*types.Const
	panics  bool // default panics, or the statement after the switch panics (and there is no default)
	hasDef  bool
}

// enumSwitches finds every expression switch whose tag has a named constant type declared in the repository (or locally).
func (c *Ctx) enumSwitches(pkgs ...string) []*enumSwitch {
	var out []*enumSwitch
	for _, pkg := range pkgs {
		info := c.info(pkg)
		c.allFuncDecls(pkg, func(fd *ast.FuncDecl) {
			ast.Inspect(fd.Body, func(n ast.Node) bool {
				sw, ok := n.(*ast.SwitchStmt)
				if !ok || sw.Tag == nil {
					return true
				}
				t := info.TypeOf(sw.Tag)
				named, ok := t.(*types.Named)
				if !ok {
					return true
				}
				if b, ok := named.Underlying().(*types.Basic); !ok || b.Info()&types.IsInteger == 0 {
					return true
				}
				if named.Obj().Pkg() == nil || !c.isRepoPkg(named.Obj().Pkg()) {
					return true
				}
				var declInfo *types.Info
				for _, p := range c.AllPkgs {
					if p.Types == named.Obj().Pkg() {
						declInfo = p.TypesInfo
					}
				}
				es := &enumSwitch{pkg: pkg, fd: fd, sw: sw, typ: named, covered: map[string]bool{}}
				es.all = constsOfType(declInfo, named.Obj().Pkg(), named)
				if len(es.all) < 2 {
					return true
				}
				for _, cc := range sw.Body.List {
					cl := cc.(*ast.CaseClause)
					if cl.List == nil {
						es.hasDef = true
						if blockPanics(info, cl.Body) {
							es.panics = true
						}
					}
					for _, e := range cl.List {
						if tv, ok := info.Types[e]; ok && tv.Value != nil {
							es.covered[tv.Value.ExactString()] = true
						}
					}
				}
				if !es.hasDef {
					if next := stmtAfter(fd.Body, sw); next != nil && isPanicStmt(info, next) {
						es.panics = true
					}
				}
				out = append(out, es)
				return true
			})
		})
	}
	return out
}

// ruleEnumExhaustive: a switch over a constant type whose default (or fall-out) panics must list every declared constant.
// only(fn) restricts to switches relevant to the property.
func ruleEnumExhaustive(c *Ctx, rule string, pkgs []string, only func(es *enumSwitch) bool, floor int) {
	r := c.R
	n := 0
	for _, es := range c.enumSwitches(pkgs...) {
		if !es.panics || (only != nil && !only(es)) {
			continue
		}
		n++
		name := es.pkg + "." + funcDeclName(es.fd)
		tn := types.TypeString(es.typ, shortQual)
		var missing []string
		for _, k := range es.all {
			if !es.covered[k.Val().ExactString()] {
				missing = append(missing, k.Name())
			}
		}
		sort.Strings(missing)
		ob := r.Ob(rule, fmt.Sprintf("%s: switch over %s is exhaustive", name, tn), c.pos(es.sw.Pos()))
		if len(missing) == 0 {
			ob.OKnt(fmt.Sprintf("all %d constants of %s have a case; the panicking default is unreachable", len(es.all), tn))
		} else {
			ob.Bad(fmt.Sprintf("constants without a case reach the panic: %s", strings.Join(missing, ", ")))
		}
	}
	r.Floor(rule, "panicking enum switches", n, floor)
}

// foldWithNilNode partially evaluates a dispatch function of package bytecode with a nil node: the type switch matches no case, and
// whatever follows must produce an error (a non-nil error result, or currentType == PTERROR for the checker).
func (c *Ctx) foldWithNilNode(ts *tySwitch) (verdict bool, detail string, ok bool) {
	fn := c.ssaFuncFor(ts.pkg, ts.fd)
	infoT := c.NamedType("bytecode", "ProcessTypeInfo")
	if fn == nil {
		return false, "", false
	}
	var args []PVal
	for _, p := range fn.Params {
		t := p.Type()
		switch {
		case types.Identical(deref(t), ts.iface) && t != deref(t):
			args = append(args, PPtr{&PObj{PConst{nil, ts.iface}}, nil})
		case types.Identical(t, ts.iface):
			args = append(args, PConst{nil, ts.iface})
		case infoT != nil && types.Identical(t, infoT):
			args = append(args, c.mkTypeInfo("PTOK", "", false))
		default:
			args = append(args, PSym{p.Name()})
		}
	}
	pe := &PEval{Interpret: c.repoInterp}
	res := pe.Run(fn, args)
	if res.Err != "" {
		return false, "", false
	}
	if res.Panic {
		return false, "a nil (or unmatched) " + ts.iface.Obj().Name() + " makes " + fn.Name() + " panic during Compile", true
	}
	n := len(res.Results)
	if n == 0 {
		return false, "", false
	}
	last := res.Results[n-1]
	if infoT != nil && n == 1 {
		if st, isStruct := last.(PStruct); isStruct && types.Identical(st.T, infoT) {
			got := c.ptName(pfield(last, "currentType"))
			if got == "PTERROR" {
				return true, "folded with a nil node: the result has currentType == PTERROR", true
			}
			return false, "folded with a nil node: the result has currentType == " + got + ", so an unmatched statement or expression is accepted silently", true
		}
	}
	if k, isConst := last.(PConst); isConst && k.V == nil {
		return false, "folded with a nil node: the error result is nil, so an unmatched node is accepted silently", true
	}
	return true, "folded with a nil node: returns a non-nil error (" + pstring(last) + ")", true
}

// chainedCases: a dispatcher split in two - the switch handles the composite nodes and what falls out of it is handed, as the very
// value that was switched on, to a function of the same package that switches on it again (`value, isLeaf := leafValue(si, ...)`).
// The cases of that second switch are cases of the dispatcher.
func (c *Ctx) chainedCases(pkg string, info *types.Info, fd *ast.FuncDecl, sw *ast.TypeSwitchStmt, ts *tySwitch) {
	// only the statement that follows the switch directly: everything that falls out passes through it
	for _, s := range []ast.Stmt{stmtAfter(fd.Body, sw)} {
		if s == nil {
			continue
		}
		if _, isIf := s.(*ast.IfStmt); isIf {
			continue // a call under a condition does not see every value
		}
		ast.Inspect(s, func(n ast.Node) bool {
			call, ok := n.(*ast.CallExpr)
			if !ok {
				return true
			}
			var callee *types.Func
			switch f := unparen(call.Fun).(type) {
			case *ast.Ident:
				callee, _ = info.Uses[f].(*types.Func)
			case *ast.SelectorExpr:
				callee, _ = info.Uses[f.Sel].(*types.Func)
			}
			if callee == nil || callee.Pkg() == nil || !c.isRepoPkg(callee.Pkg()) {
				return true
			}
			argIdx := -1
			for i, a := range call.Args {
				if id, ok := unparen(a).(*ast.Ident); ok && switchSubjectIs(info, sw, id) {
					argIdx = i
				}
			}
			if argIdx < 0 {
				return true
			}
			c.allFuncDecls(pkg, func(g *ast.FuncDecl) {
				if info.Defs[g.Name] != types.Object(callee) || g.Body == nil || g.Type.Params == nil {
					return
				}
				// the name of parameter argIdx
				var param *ast.Ident
				k := 0
				for _, f := range g.Type.Params.List {
					for _, nm := range f.Names {
						if k == argIdx {
							param = nm
						}
						k++
					}
				}
				if param == nil {
					return
				}
				for _, gs := range g.Body.List {
					gsw, ok := gs.(*ast.TypeSwitchStmt)
					if !ok || !switchSubjectIs(info, gsw, param) {
						continue
					}
					for _, cc := range gsw.Body.List {
						for _, e := range cc.(*ast.CaseClause).List {
							if t := info.TypeOf(e); t != nil {
								ts.cases[types.TypeString(t, shortQual)] = true
							}
						}
					}
				}
			})
			return true
		})
	}
}
