package main

// Core of vorecheck: obligations, verdicts, known findings, evidence and replay files.
//
// Every rule produces obligations keyed by property/rule/construct, where construct is built
// from resolved names only (never a line number). See /verif/DESIGN.md section 2.3.

import (
	"encoding/json"
	"fmt"
	"go/token"
	"os"
	"path/filepath"
	"sort"
	"strings"
	"time"
)

type Verdict string

const (
	Discharged Verdict = "discharged"
	Violated   Verdict = "violated"
	Excepted   Verdict = "excepted"
	Undecided  Verdict = "undecided"
)

type Obligation struct {
	Property   string  `json:"property"`
	Rule       string  `json:"rule"`
	Construct  string  `json:"construct"`
	Pos        string  `json:"pos,omitempty"`
	Verdict    Verdict `json:"verdict"`
	Detail     string  `json:"detail,omitempty"`
	Nontrivial bool    `json:"nontrivial,omitempty"`
	Known      bool    `json:"known_finding,omitempty"`
}

func (o *Obligation) Key() string { return o.Property + "/" + o.Rule + "/" + o.Construct }

type KnownFinding struct {
	Property  string `json:"property"`
	Rule      string `json:"rule"`
	Construct string `json:"construct"`
	Status    string `json:"status"` // "known" or "fixed"
	Commit    string `json:"commit,omitempty"`
	What      string `json:"what"`
}

type FloorCheck struct {
	Rule string `json:"rule"`
	What string `json:"what"`
	Got  int    `json:"got"`
	Want int    `json:"floor"`
}

type Report struct {
	Property string
	Tier     string
	Obls     []*Obligation
	Floors   []FloorCheck
	Notes    []string       // free text printed in the evidence (exceptions tables, scope statements)
	Stats    map[string]int // measured counts (packages, functions, instructions, ...)
	Tables   map[string]any // extracted tables, for the reader of the evidence
	seen     map[string]*Obligation
}

func NewReport(property, tier string) *Report {
	return &Report{Property: property, Tier: tier, Stats: map[string]int{}, Tables: map[string]any{}, seen: map[string]*Obligation{}}
}

// Ob registers an obligation. A second registration with the same key gets a numeric suffix so that
// keys stay unique but independent of source positions.
func (r *Report) Ob(rule, construct string, pos string) *Obligation {
	o := &Obligation{Property: r.Property, Rule: rule, Construct: construct, Pos: pos, Verdict: Undecided, Detail: "no verdict assigned"}
	base := o.Key()
	if _, dup := r.seen[base]; dup {
		for i := 2; ; i++ {
			c := fmt.Sprintf("%s#%d", construct, i)
			o.Construct = c
			if _, d := r.seen[o.Key()]; !d {
				break
			}
		}
	}
	r.seen[o.Key()] = o
	r.Obls = append(r.Obls, o)
	return o
}

func (o *Obligation) OK(detail string) *Obligation {
	o.Verdict, o.Detail = Discharged, detail
	return o
}

func (o *Obligation) OKnt(detail string) *Obligation {
	o.Verdict, o.Detail, o.Nontrivial = Discharged, detail, true
	return o
}

func (o *Obligation) Bad(detail string) *Obligation {
	o.Verdict, o.Detail, o.Nontrivial = Violated, detail, true
	return o
}

func (o *Obligation) Exc(reason string) *Obligation {
	o.Verdict, o.Detail = Excepted, reason
	return o
}

func (o *Obligation) Und(why string) *Obligation {
	o.Verdict, o.Detail = Undecided, why
	return o
}

// Check is a convenience: discharged when cond holds, violated otherwise.
func (o *Obligation) Check(cond bool, okDetail, badDetail string) *Obligation {
	if cond {
		return o.OK(okDetail)
	}
	return o.Bad(badDetail)
}

func (r *Report) Floor(rule, what string, got, want int) {
	r.Floors = append(r.Floors, FloorCheck{rule, what, got, want})
}

func (r *Report) Note(format string, a ...any) { r.Notes = append(r.Notes, fmt.Sprintf(format, a...)) }

func posStr(fset *token.FileSet, p token.Pos, repo string) string {
	if !p.IsValid() {
		return ""
	}
	pp := fset.Position(p)
	f := pp.Filename
	if rel, err := filepath.Rel(repo, f); err == nil && !strings.HasPrefix(rel, "..") {
		f = rel
	}
	return fmt.Sprintf("%s:%d", f, pp.Line)
}

func loadKnown(path string) ([]KnownFinding, error) {
	b, err := os.ReadFile(path)
	if err != nil {
		if os.IsNotExist(err) {
			return nil, nil
		}
		return nil, err
	}
	var k []KnownFinding
	if err := json.Unmarshal(b, &k); err != nil {
		return nil, fmt.Errorf("%s: %v", path, err)
	}
	return k, nil
}

// Finish prints the outcome, writes evidence and (on violation) the replay file, and returns the exit code.
func (r *Report) Finish(verifDir string, seed int64, start time.Time, explanation string, assumptions []string, loadInfo map[string]any) int {
	known, kerr := loadKnown(filepath.Join(verifDir, "known_findings.json"))
	if kerr != nil {
		fmt.Printf("ERROR: %v\n", kerr)
		return 2
	}
	knownIdx := map[string]KnownFinding{}
	for _, k := range known {
		if k.Status == "known" {
			knownIdx[k.Property+"/"+k.Rule+"/"+k.Construct] = k
		}
	}

	var violated, undecided, knownHit []*Obligation
	counts := map[Verdict]int{}
	perRule := map[string]map[Verdict]int{}
	nontrivial := 0
	for _, o := range r.Obls {
		if o.Verdict == Violated {
			if _, ok := knownIdx[o.Key()]; ok {
				o.Known = true
				knownHit = append(knownHit, o)
			} else {
				violated = append(violated, o)
			}
		}
		if o.Verdict == Undecided {
			undecided = append(undecided, o)
		}
		counts[o.Verdict]++
		if perRule[o.Rule] == nil {
			perRule[o.Rule] = map[Verdict]int{}
		}
		perRule[o.Rule][o.Verdict]++
		if o.Nontrivial {
			nontrivial++
		}
	}
	var floorFail []FloorCheck
	for _, f := range r.Floors {
		if f.Got < f.Want {
			floorFail = append(floorFail, f)
		}
	}

	// ---- stdout
	rules := make([]string, 0, len(perRule))
	for k := range perRule {
		rules = append(rules, k)
	}
	sort.Strings(rules)
	fmt.Printf("vorecheck property=%s tier=%s obligations=%d discharged=%d excepted=%d violated=%d (known %d) undecided=%d\n",
		r.Property, r.Tier, len(r.Obls), counts[Discharged], counts[Excepted], counts[Violated], len(knownHit), counts[Undecided])
	for _, k := range rules {
		m := perRule[k]
		fmt.Printf("  rule %-10s obligations=%-4d discharged=%-4d excepted=%-3d violated=%-3d undecided=%d\n", k,
			m[Discharged]+m[Excepted]+m[Violated]+m[Undecided], m[Discharged], m[Excepted], m[Violated], m[Undecided])
	}
	for _, f := range r.Floors {
		st := "ok"
		if f.Got < f.Want {
			st = "BELOW FLOOR"
		}
		fmt.Printf("  floor %-10s %-50s got=%d floor=%d %s\n", f.Rule, f.What, f.Got, f.Want, st)
	}
	for _, o := range r.Obls {
		if o.Verdict == Excepted {
			fmt.Printf("  EXCEPTED %s [%s]: %s\n", o.Key(), o.Pos, o.Detail)
		}
	}
	// A known finding that no longer fires is reported for information (the file is never edited at run time).
	for key, k := range knownIdx {
		if k.Property != r.Property {
			continue
		}
		hit := false
		for _, o := range knownHit {
			if o.Key() == key {
				hit = true
			}
		}
		if !hit {
			fmt.Printf("  note: known finding %s no longer reported by this run\n", key)
		}
	}
	sort.Slice(knownHit, func(i, j int) bool { return knownHit[i].Key() < knownHit[j].Key() })
	for _, o := range knownHit {
		k := knownIdx[o.Key()]
		fmt.Printf("KNOWN-FINDING: property=%s rule=%s construct=%q at %s: %s\n", o.Property, o.Rule, o.Construct, o.Pos, k.What)
	}

	exit := 0
	replayPath := ""
	if len(undecided) > 0 || len(floorFail) > 0 {
		exit = 2
		for _, o := range undecided {
			fmt.Printf("UNDECIDED %s [%s]: %s\n", o.Key(), o.Pos, o.Detail)
		}
		for _, f := range floorFail {
			fmt.Printf("UNDECIDED %s/%s: anchor shrank: %s got=%d floor=%d\n", r.Property, f.Rule, f.What, f.Got, f.Want)
		}
	}
	if len(violated) > 0 {
		exit = 1
		for _, o := range violated {
			fmt.Printf("violated %s [%s]: %s\n", o.Key(), o.Pos, o.Detail)
		}
		replayDir := filepath.Join(verifDir, "replay")
		_ = os.MkdirAll(replayDir, 0o755)
		replayPath = filepath.Join(replayDir, r.Property+".json")
		b, _ := json.MarshalIndent(map[string]any{"property": r.Property, "tier": r.Tier, "violated": violated}, "", " ")
		_ = os.WriteFile(replayPath, b, 0o644)
		fmt.Printf("VIOLATION property=%s replay=%s\n", r.Property, replayPath)
	}
	if exit == 2 {
		fmt.Printf("RESULT property=%s: UNDECIDED (the analysis could not decide every obligation; this is not a property verdict)\n", r.Property)
	} else if exit == 0 {
		fmt.Printf("RESULT property=%s: holds on every obligation explored (%d known finding(s) listed above)\n", r.Property, len(knownHit))
	}

	// ---- evidence
	samples := sampleObligations(r.Obls, 40)
	ruleCounts := map[string]any{}
	for _, k := range rules {
		m := perRule[k]
		ruleCounts[k] = map[string]int{"discharged": m[Discharged], "excepted": m[Excepted], "violated": m[Violated], "undecided": m[Undecided]}
	}
	cov := map[string]any{
		"explanation":         explanation,
		"evaluations":         len(r.Obls),
		"distinct_nontrivial": nontrivial,
		"rule":                "one case = one obligation keyed property/rule/construct (resolved names, never line numbers); non-trivial = discharged or violated through a dataflow, dominance, call-graph or table-comparison argument rather than a purely syntactic presence test; keys are unique so every case is distinct",
		"obligations":         len(r.Obls),
		"discharged":          counts[Discharged],
		"excepted":            counts[Excepted],
		"violated":            counts[Violated],
		"violated_known":      len(knownHit),
		"undecided":           counts[Undecided],
		"per_rule":            ruleCounts,
		"floors":              r.Floors,
		"samples":             samples,
		"notes":               r.Notes,
		"stats":               r.Stats,
		"analysed":            loadInfo,
		"exhaustive":          true,
	}
	if len(r.Tables) > 0 {
		cov["tables"] = r.Tables
	}
	ev := map[string]any{
		"property_id": r.Property,
		"tier":        r.Tier,
		"seed":        seed,
		"level":       "other",
		"coverage":    cov,
		"assumptions": assumptions,
		"wall_s":      time.Since(start).Seconds(),
		"violations":  len(violated),
	}
	evDir := filepath.Join(verifDir, "evidence")
	_ = os.MkdirAll(evDir, 0o755)
	b, _ := json.MarshalIndent(ev, "", " ")
	if err := os.WriteFile(filepath.Join(evDir, r.Property+".json"), b, 0o644); err != nil {
		fmt.Printf("ERROR: cannot write evidence: %v\n", err)
		if exit == 0 {
			exit = 2
		}
	}
	return exit
}

func sampleObligations(obls []*Obligation, max int) []*Obligation {
	// every non-discharged obligation first, then a spread over the rules
	var out []*Obligation
	for _, o := range obls {
		if o.Verdict != Discharged {
			out = append(out, o)
		}
	}
	perRule := map[string]int{}
	for _, o := range obls {
		if o.Verdict == Discharged && perRule[o.Rule] < 4 && len(out) < max+len(out)*0 {
			perRule[o.Rule]++
			out = append(out, o)
		}
	}
	if len(out) > max*3 {
		out = out[:max*3]
	}
	if len(out) == 0 && len(obls) > 0 {
		out = obls[:1]
	}
	return out
}
