package main

// AST helpers: decision-chain extraction (if / else-if / switch), constant tests, statement search.

import (
	"go/ast"
	"go/constant"
	"go/token"
	"go/types"
	"strings"

	"golang.org/x/tools/go/ssa"
)

// unparen strips parentheses.
func unparen(e ast.Expr) ast.Expr {
	for {
		p, ok := e.(*ast.ParenExpr)
		if !ok {
			return e
		}
		e = p.X
	}
}

func splitBin(e ast.Expr, op token.Token) []ast.Expr {
	e = unparen(e)
	if b, ok := e.(*ast.BinaryExpr); ok && b.Op == op {
		return append(splitBin(b.X, op), splitBin(b.Y, op)...)
	}
	return []ast.Expr{e}
}

func splitOr(e ast.Expr) []ast.Expr  { return splitBin(e, token.LOR) }
func splitAnd(e ast.Expr) []ast.Expr { return splitBin(e, token.LAND) }

// ConstTest is `subject OP constant`.
type ConstTest struct {
	Subject string // printed form of the non-constant side
	SubjExp ast.Expr
	Op      token.Token
	Const   string         // name of the constant (identifier or selector), or the literal text
	Obj     types.Object   // the constant object when named
	Val     constant.Value // its value
}

func exprString(e ast.Expr) string { return types.ExprString(e) }

// constTest recognises `x == C`, `C == x`, `x != C`, `x < C` ... where C is a compile-time constant.
func constTest(info *types.Info, e ast.Expr) (ConstTest, bool) {
	b, ok := unparen(e).(*ast.BinaryExpr)
	if !ok {
		return ConstTest{}, false
	}
	switch b.Op {
	case token.EQL, token.NEQ, token.LSS, token.GTR, token.LEQ, token.GEQ:
	default:
		return ConstTest{}, false
	}
	xv, yv := info.Types[b.X], info.Types[b.Y]
	mk := func(subj, c ast.Expr, v constant.Value, op token.Token) ConstTest {
		ct := ConstTest{Subject: exprString(subj), SubjExp: subj, Op: op, Val: v, Const: exprString(c)}
		switch id := unparen(c).(type) {
		case *ast.Ident:
			ct.Obj = info.Uses[id]
			ct.Const = id.Name
		case *ast.SelectorExpr:
			ct.Obj = info.Uses[id.Sel]
			ct.Const = id.Sel.Name
		}
		return ct
	}
	if yv.Value != nil && xv.Value == nil {
		return mk(b.X, b.Y, yv.Value, b.Op), true
	}
	if xv.Value != nil && yv.Value == nil {
		op := b.Op
		switch op {
		case token.LSS:
			op = token.GTR
		case token.GTR:
			op = token.LSS
		case token.LEQ:
			op = token.GEQ
		case token.GEQ:
			op = token.LEQ
		}
		return mk(b.Y, b.X, xv.Value, op), true
	}
	return ConstTest{}, false
}

// Arm is one branch of an if / else-if chain.
type Arm struct {
	Cond ast.Expr // nil for the final else
	Body *ast.BlockStmt
}

// ifChain flattens `if c1 {..} else if c2 {..} else {..}`.
func ifChain(s *ast.IfStmt) []Arm {
	var arms []Arm
	for s != nil {
		arms = append(arms, Arm{s.Cond, s.Body})
		switch e := s.Else.(type) {
		case *ast.IfStmt:
			s = e
		case *ast.BlockStmt:
			arms = append(arms, Arm{nil, e})
			s = nil
		default:
			s = nil
		}
	}
	return arms
}

// findFuncDecl finds a function or method declaration in a package's syntax.
func (c *Ctx) findFuncDecl(pkg, recv, name string) *ast.FuncDecl {
	p := c.Pkgs[pkg]
	if p == nil {
		return nil
	}
	for _, f := range p.Syntax {
		for _, d := range f.Decls {
			fd, ok := d.(*ast.FuncDecl)
			if !ok || fd.Name.Name != name {
				continue
			}
			if recv == "" && fd.Recv == nil {
				return fd
			}
			if recv != "" && fd.Recv != nil && len(fd.Recv.List) == 1 {
				t := fd.Recv.List[0].Type
				if s, ok := t.(*ast.StarExpr); ok {
					t = s.X
				}
				if ix, ok := t.(*ast.IndexExpr); ok {
					t = ix.X
				}
				if id, ok := t.(*ast.Ident); ok && id.Name == recv {
					return fd
				}
			}
		}
	}
	return nil
}

func (c *Ctx) info(pkg string) *types.Info {
	if p := c.Pkgs[pkg]; p != nil {
		return p.TypesInfo
	}
	return nil
}

// isPanicStmt reports whether a statement is a call to the builtin panic.
func isPanicStmt(info *types.Info, s ast.Stmt) bool {
	es, ok := s.(*ast.ExprStmt)
	if !ok {
		return false
	}
	call, ok := es.X.(*ast.CallExpr)
	if !ok {
		return false
	}
	id, ok := call.Fun.(*ast.Ident)
	if !ok {
		return false
	}
	_, isBuiltin := info.Uses[id].(*types.Builtin)
	return isBuiltin && id.Name == "panic"
}

func blockPanics(info *types.Info, stmts []ast.Stmt) bool {
	for _, s := range stmts {
		if isPanicStmt(info, s) {
			return true
		}
	}
	return false
}

// stmtAfter returns the statement following s in the block list that directly contains it (nil if none).
func stmtAfter(root ast.Node, s ast.Stmt) ast.Stmt {
	var res ast.Stmt
	ast.Inspect(root, func(n ast.Node) bool {
		var list []ast.Stmt
		switch b := n.(type) {
		case *ast.BlockStmt:
			list = b.List
		case *ast.CaseClause:
			list = b.Body
		}
		for i, x := range list {
			if x == s && i+1 < len(list) {
				res = list[i+1]
			}
		}
		return true
	})
	return res
}

// constsOfType lists the constants declared with the given named type (package scope, or any scope when local).
func constsOfType(info *types.Info, pkg *types.Package, t types.Type) []*types.Const {
	var out []*types.Const
	seen := map[*types.Const]bool{}
	if n, ok := t.(*types.Named); ok && n.Obj().Pkg() != nil && n.Obj().Parent() == n.Obj().Pkg().Scope() {
		sc := n.Obj().Pkg().Scope()
		for _, name := range sc.Names() {
			if cst, ok := sc.Lookup(name).(*types.Const); ok && types.Identical(cst.Type(), t) {
				out = append(out, cst)
			}
		}
		return out
	}
	for _, obj := range info.Defs {
		if cst, ok := obj.(*types.Const); ok && types.Identical(cst.Type(), t) && !seen[cst] {
			seen[cst] = true
			out = append(out, cst)
		}
	}
	return out
}

// enclosingFuncName gives "pkg.Func" / "pkg.(T).M" for a position inside a package.
func (c *Ctx) enclosingFunc(pkg string, pos token.Pos) (*ast.FuncDecl, string) {
	p := c.Pkgs[pkg]
	for _, f := range p.Syntax {
		if pos < f.Pos() || pos > f.End() {
			continue
		}
		for _, d := range f.Decls {
			if fd, ok := d.(*ast.FuncDecl); ok && fd.Pos() <= pos && pos <= fd.End() {
				name := fd.Name.Name
				if fd.Recv != nil && len(fd.Recv.List) == 1 {
					name = "(" + strings.TrimPrefix(exprString(fd.Recv.List[0].Type), "*") + ")." + name
				}
				return fd, pkg + "." + name
			}
		}
	}
	return nil, pkg + ".?"
}

// ssaFuncFor maps a FuncDecl to its ssa.Function.
func (c *Ctx) ssaFuncFor(pkg string, fd *ast.FuncDecl) *ssa.Function {
	info := c.info(pkg)
	if info == nil || fd == nil {
		return nil
	}
	if obj, ok := info.Defs[fd.Name].(*types.Func); ok {
		return c.Prog.FuncValue(obj)
	}
	return nil
}

// allFuncDecls iterates over function declarations of a package, in source order.
func (c *Ctx) allFuncDecls(pkg string, f func(*ast.FuncDecl)) {
	p := c.Pkgs[pkg]
	if p == nil {
		return
	}
	for _, file := range p.Syntax {
		for _, d := range file.Decls {
			if fd, ok := d.(*ast.FuncDecl); ok && fd.Body != nil {
				f(fd)
			}
		}
	}
}

func funcDeclName(fd *ast.FuncDecl) string {
	name := fd.Name.Name
	if fd.Recv != nil && len(fd.Recv.List) == 1 {
		name = "(" + strings.TrimPrefix(exprString(fd.Recv.List[0].Type), "*") + ")." + name
	}
	return name
}
