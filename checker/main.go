package main

import (
	"encoding/json"
	"flag"
	"fmt"
	"os"
	"path/filepath"
	"runtime/debug"
	"sort"
	"strconv"
	"time"
)

type Property struct {
	ID          string
	Explanation string   // what the check decides and what it does not
	Assumptions []string // trusted base
	Rules       []RuleFn
}

type RuleFn struct {
	Name     string
	Thorough bool // only run in the thorough tier
	Run      func(c *Ctx)
}

var registry = map[string]*Property{}

func register(p *Property) { registry[p.ID] = p }

func main() {
	prop := flag.String("property", "", "property id (C01..C20)")
	tier := flag.String("tier", "", "quick or thorough (default: $VERIF_TIER or quick)")
	repo := flag.String("repo", "/repo", "repository working tree to analyse")
	verif := flag.String("verif", "", "verification directory (default: parent of the binary's directory)")
	replay := flag.String("replay", "", "replay file: re-run the property and show the obligations listed in it")
	list := flag.Bool("list", false, "list properties and rules")
	flag.Parse()

	if *list {
		ids := []string{}
		for id := range registry {
			ids = append(ids, id)
		}
		sort.Strings(ids)
		for _, id := range ids {
			fmt.Printf("%s:", id)
			for _, r := range registry[id].Rules {
				fmt.Printf(" %s", r.Name)
			}
			fmt.Println()
		}
		return
	}
	if *tier == "" {
		*tier = os.Getenv("VERIF_TIER")
	}
	if *tier != "thorough" {
		*tier = "quick"
	}
	if *verif == "" {
		exe, err := os.Executable()
		if err == nil {
			*verif = filepath.Dir(filepath.Dir(exe))
		} else {
			*verif = "/verif"
		}
	}
	var seed int64
	if s := os.Getenv("VERIF_SEED"); s != "" {
		seed, _ = strconv.ParseInt(s, 10, 64)
	}
	if *replay != "" {
		b, err := os.ReadFile(*replay)
		if err != nil {
			fmt.Println("ERROR:", err)
			os.Exit(2)
		}
		var rf struct {
			Property string        `json:"property"`
			Violated []*Obligation `json:"violated"`
		}
		if err := json.Unmarshal(b, &rf); err != nil {
			fmt.Println("ERROR:", err)
			os.Exit(2)
		}
		if *prop == "" {
			*prop = rf.Property
		}
		fmt.Printf("replaying %d recorded violation(s) of %s against the current tree:\n", len(rf.Violated), rf.Property)
		for _, o := range rf.Violated {
			fmt.Printf("  recorded: %s [%s]: %s\n", o.Key(), o.Pos, o.Detail)
		}
	}
	p := registry[*prop]
	if p == nil {
		fmt.Printf("ERROR: unknown property %q\n", *prop)
		os.Exit(2)
	}
	os.Exit(run(p, *tier, *repo, *verif, seed))
}

func run(p *Property, tier, repo, verif string, seed int64) (exit int) {
	start := time.Now()
	rep := NewReport(p.ID, tier)
	defer func() {
		if e := recover(); e != nil {
			fmt.Printf("ERROR: analyser panic: %v\n%s\n", e, debug.Stack())
			fmt.Printf("RESULT property=%s: UNDECIDED (analyser failure)\n", p.ID)
			exit = 2
		}
	}()
	c, err := Load(repo)
	if err != nil {
		fmt.Printf("ERROR: cannot analyse %s: %v\n", repo, err)
		fmt.Printf("RESULT property=%s: UNDECIDED (no verdict: the tree could not be loaded)\n", p.ID)
		return 2
	}
	c.R = rep
	rep.Stats["load_ms"] = int(time.Since(start).Milliseconds())
	for _, r := range p.Rules {
		if r.Thorough && tier != "thorough" {
			continue
		}
		t0 := time.Now()
		r.Run(c)
		rep.Stats["ms_"+r.Name] = int(time.Since(t0).Milliseconds())
	}
	if tier == "thorough" {
		thoroughSelfValidation(p, rep, repo, verif)
	}
	return rep.Finish(verif, seed, start, p.Explanation, p.Assumptions, c.Info)
}

// thoroughSelfValidation adds the checker's self-validation to the evidence of a thorough run: semantic mutants of the current tree
// (each must be reported), the independent seeded changes of this property (each should be reported) and the corpus of
// behaviour-preserving refactorings (each must stay silent). None of this changes the property verdict.
func thoroughSelfValidation(p *Property, rep *Report, repo, verif string) {
	t0 := time.Now()
	mut := runMutants(p.ID, repo, verif)
	killed, applicable := 0, 0
	for _, m := range mut {
		if m.Outcome == "not-applicable" {
			continue
		}
		applicable++
		if m.Outcome == "killed" {
			killed++
		} else {
			rep.Note("SELF-VALIDATION WARNING: mutant %q was not reported (%s): this is a defect of the checker, not of vore", m.Name, m.Outcome)
			fmt.Printf("  self-validation WARNING: mutant %q %s %s\n", m.Name, m.Outcome, m.Detail)
		}
	}
	rep.Tables["self_validation_mutants"] = mut
	rep.Stats["mutants_applicable"] = applicable
	rep.Stats["mutants_killed"] = killed
	seeds := runPatchCorpus(p.ID, repo, verif, filepath.Join(verif, "seeded"), p.ID)
	rep.Tables["seeded_changes_of_this_property"] = seeds
	refs := runPatchCorpus(p.ID, repo, verif, filepath.Join(verif, "refactors"), "R")
	alarms := 0
	for _, r := range refs {
		if r.Outcome == "reported" {
			alarms++
			rep.Note("SELF-VALIDATION WARNING: behaviour-preserving refactoring %s is reported by %s: a false alarm of the checker", r.Name, r.Detail)
			fmt.Printf("  self-validation WARNING: refactoring %s reported by %s\n", r.Name, r.Detail)
		}
	}
	rep.Tables["behaviour_preserving_refactorings"] = refs
	rep.Stats["refactorings_checked"] = len(refs)
	rep.Stats["refactorings_falsely_reported"] = alarms
	rep.Stats["ms_self_validation"] = int(time.Since(t0).Milliseconds())
	fmt.Printf("  self-validation: %d/%d mutants reported; %d seeded changes examined; %d/%d refactorings silent or undecided\n", killed, applicable, len(seeds), len(refs)-alarms, len(refs))
}
