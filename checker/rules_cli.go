package main

// C18: the CLI.

import (
	"fmt"
	"go/constant"
	"go/token"
	"go/types"
	"sort"
	"strings"

	"golang.org/x/tools/go/ssa"
)

func isCallTo(in ssa.Instruction, pkg string, names ...string) bool {
	sc := staticCallee(in)
	if sc == nil || sc.Pkg == nil || sc.Pkg.Pkg.Path() != pkg {
		return false
	}
	for _, n := range names {
		if sc.Name() == n {
			return true
		}
	}
	return false
}

// noReturnFns: repository functions none of whose paths returns (every path ends in os.Exit, log.Fatal, panic or a call to another such
// function). Computed on demand as a least fixpoint.
var noReturnFns = map[*ssa.Function]bool{}

func computeNoReturn(fns []*ssa.Function) {
	for changed := true; changed; {
		changed = false
		for _, fn := range fns {
			if noReturnFns[fn] || len(fn.Blocks) == 0 {
				continue
			}
			// can a Return be reached from the entry when control stops at no-return calls?
			seen := map[*ssa.BasicBlock]bool{}
			work := []*ssa.BasicBlock{fn.Blocks[0]}
			returns := false
			for len(work) > 0 {
				b := work[len(work)-1]
				work = work[:len(work)-1]
				if seen[b] {
					continue
				}
				seen[b] = true
				cut := false
				for _, in := range b.Instrs {
					if isNoReturnCall(in) {
						cut = true
						break
					}
					if _, ok := in.(*ssa.Return); ok {
						returns = true
					}
				}
				if !cut {
					work = append(work, b.Succs...)
				}
			}
			if !returns {
				noReturnFns[fn] = true
				changed = true
			}
		}
	}
}

// noReturn: calls after which control does not continue.
func isNoReturnCall(in ssa.Instruction) bool {
	if isCallTo(in, "os", "Exit") || isCallTo(in, "log", "Fatal", "Fatalf", "Fatalln", "Panic", "Panicf", "Panicln") {
		return true
	}
	if sc := staticCallee(in); sc != nil && noReturnFns[sc] {
		return true
	}
	return false
}

// liveReach computes, for main-like functions, which instructions can execute before `target` on some path, treating
// os.Exit/log.Fatal as terminators. It returns reach(a, b): b is reachable after a.
type liveCFG struct {
	fn   *ssa.Function
	cut  map[*ssa.BasicBlock]int // index of the first no-return call in the block (or -1)
	succ map[*ssa.BasicBlock][]*ssa.BasicBlock
}

func newLiveCFG(fn *ssa.Function) *liveCFG {
	l := &liveCFG{fn: fn, cut: map[*ssa.BasicBlock]int{}, succ: map[*ssa.BasicBlock][]*ssa.BasicBlock{}}
	for _, b := range fn.Blocks {
		l.cut[b] = -1
		for i, in := range b.Instrs {
			if isNoReturnCall(in) {
				l.cut[b] = i
				break
			}
		}
		if l.cut[b] < 0 {
			l.succ[b] = b.Succs
		}
	}
	return l
}

// after reports whether instruction b can execute after instruction a.
func (l *liveCFG) after(a, b ssa.Instruction) bool {
	ba, bb := a.Block(), b.Block()
	ia, ib := instrIndex(a), instrIndex(b)
	if ba == bb && ia < ib && (l.cut[ba] < 0 || l.cut[ba] >= ib || l.cut[ba] < ia) {
		if l.cut[ba] >= 0 && l.cut[ba] > ia && l.cut[ba] < ib {
			return false
		}
		return true
	}
	if l.cut[ba] >= 0 && l.cut[ba] >= ia {
		return false // a is followed by a no-return call in its block
	}
	seen := map[*ssa.BasicBlock]bool{}
	work := append([]*ssa.BasicBlock{}, l.succ[ba]...)
	for len(work) > 0 {
		x := work[len(work)-1]
		work = work[:len(work)-1]
		if seen[x] {
			continue
		}
		seen[x] = true
		if x == bb {
			if l.cut[x] < 0 || l.cut[x] >= ib {
				return true
			}
			continue
		}
		work = append(work, l.succ[x]...)
	}
	return false
}

// condLiterals returns the transitive control-dependence literals of a block: cond value -> polarity (true edge / false edge).
func condLiterals(fn *ssa.Function, cds map[*ssa.BasicBlock][]CtrlEdge, b *ssa.BasicBlock) map[ssa.Value]map[bool]bool {
	out := map[ssa.Value]map[bool]bool{}
	seen := map[*ssa.BasicBlock]bool{}
	var walk func(b *ssa.BasicBlock)
	walk = func(b *ssa.BasicBlock) {
		if seen[b] {
			return
		}
		seen[b] = true
		for _, ce := range cds[b] {
			if iff, ok := ce.Branch.Instrs[len(ce.Branch.Instrs)-1].(*ssa.If); ok {
				v := iff.Cond
				pol := ce.Succ == 0
				if u, ok := v.(*ssa.UnOp); ok && u.Op == token.NOT {
					v, pol = u.X, !pol
				}
				if out[v] == nil {
					out[v] = map[bool]bool{}
				}
				out[v][pol] = true
			}
			walk(ce.Branch)
		}
	}
	walk(b)
	return out
}

// flagReadKey: two reads of the same flag variable or options field are the same condition even though they are different loads.
func flagReadKey(v ssa.Value) string {
	switch x := v.(type) {
	case *ssa.Field:
		return "field:" + exprStr(x)
	case *ssa.UnOp:
		if x.Op == token.MUL {
			switch x.X.(type) {
			case *ssa.FieldAddr, *ssa.Global, *ssa.Call:
				return "load:" + exprStr(x)
			}
		}
	case *ssa.BinOp:
		if _, ok := x.Y.(*ssa.Const); ok {
			if k := flagReadKey(x.X); k != "" {
				return k + " " + x.Op.String() + " " + exprStr(x.Y)
			}
		}
	}
	return ""
}

func conflicting(a, b map[ssa.Value]map[bool]bool) bool {
	// reads of one flag through different loads
	ka := map[string]map[bool]bool{}
	for v, pa := range a {
		if k := flagReadKey(v); k != "" {
			if ka[k] == nil {
				ka[k] = map[bool]bool{}
			}
			for p := range pa {
				ka[k][p] = true
			}
		}
	}
	for v, pb := range b {
		if k := flagReadKey(v); k != "" {
			if pa, ok := ka[k]; ok && len(pa) == 1 && len(pb) == 1 {
				for p := range pa {
					if pb[!p] {
						return true
					}
				}
			}
		}
	}
	for v, pa := range a {
		if pb, ok := b[v]; ok {
			// a requires only one polarity and b only the opposite one
			if len(pa) == 1 && len(pb) == 1 {
				for p := range pa {
					if pb[!p] {
						return true
					}
				}
			}
		}
	}
	return false
}

// stdoutWriters computes the repository functions that may write to standard output (transitively), except through `skip`.
func (c *Ctx) stdoutWriters(skip map[*ssa.Function]bool) map[*ssa.Function]string {
	direct := map[*ssa.Function]string{}
	for fn := range c.allFns {
		if !c.isRepoFn(fn) || skip[fn] {
			continue
		}
		instrsOf(fn, func(in ssa.Instruction) {
			if isCallTo(in, "fmt", "Print", "Printf", "Println") && !inDebugStatementArm(in) {
				direct[fn] = "calls fmt." + staticCallee(in).Name() + " [" + c.pos(in.Pos()) + "]"
			}
			// os.Stdout used as a value
			for _, op := range in.Operands(nil) {
				if g, ok := (*op).(*ssa.Global); ok && g.Pkg != nil && g.Pkg.Pkg.Path() == "os" && g.Name() == "Stdout" {
					direct[fn] = "uses os.Stdout [" + c.pos(in.Pos()) + "]"
				}
			}
		})
	}
	// propagate to callers over the call graph
	g := c.CG()
	out := map[*ssa.Function]string{}
	for f, why := range direct {
		out[f] = why
	}
	changed := true
	for changed {
		changed = false
		for fn, node := range g.Nodes {
			if fn == nil || !c.isRepoFn(fn) || skip[fn] {
				continue
			}
			if _, ok := out[fn]; ok {
				continue
			}
			for _, e := range node.Out {
				if why, ok := out[e.Callee.Func]; ok {
					out[fn] = "calls " + fnName(e.Callee.Func) + ", which " + why
					changed = true
					break
				}
			}
		}
	}
	return out
}

func ruleCLIStdout(c *Ctx, rule string) {
	r := c.R
	computeNoReturn(c.SrcFuncs("main"))
	mainFn := c.Fn("main", "main")
	if mainFn == nil {
		r.Ob(rule, "anchor main.main", "").Und("not found")
		return
	}
	skip := map[*ssa.Function]bool{}
	if f := c.Fn("engine", "executeDebug"); f != nil {
		skip[f] = true
		r.Note("C18.R2 frozen exception: engine.executeDebug prints the user-requested `debug` statement of process code")
	}
	writers := c.stdoutWriters(skip)
	r.Stats["stdout_writing_functions"] = len(writers)
	derivesFromJSON := func(v ssa.Value) bool {
		seen := map[ssa.Value]bool{}
		var w func(v ssa.Value) bool
		w = func(v ssa.Value) bool {
			if v == nil || seen[v] {
				return false
			}
			seen[v] = true
			switch x := v.(type) {
			case *ssa.Call:
				if sc := x.Call.StaticCallee(); sc != nil && (sc.Name() == "Json" || sc.Name() == "FormattedJson") {
					return true
				}
			case *ssa.MakeInterface:
				return w(x.X)
			case *ssa.Slice:
				return w(x.X)
			case *ssa.Phi:
				for _, e := range x.Edges {
					if w(e) {
						return true
					}
				}
			case *ssa.Alloc:
				for _, ref := range *x.Referrers() {
					if st, ok := ref.(*ssa.Store); ok && w(st.Val) {
						return true
					}
					if ia, ok := ref.(*ssa.IndexAddr); ok {
						for _, r2 := range *ia.Referrers() {
							if st, ok := r2.(*ssa.Store); ok && w(st.Val) {
								return true
							}
						}
					}
				}
			}
			return false
		}
		return w(v)
	}
	// print points per function of package main: direct JSON prints, and calls to functions that contain print points
	points := map[*ssa.Function][]ssa.Instruction{}
	mainFns := c.SrcFuncs("main")
	for _, fn := range mainFns {
		instrsOf(fn, func(in ssa.Instruction) {
			if isCallTo(in, "fmt", "Print", "Printf", "Println") {
				for _, a := range in.(ssa.CallInstruction).Common().Args {
					if derivesFromJSON(a) {
						points[fn] = append(points[fn], in)
					}
				}
			}
		})
	}
	direct := 0
	for _, p := range points {
		direct += len(p)
	}
	r.Floor(rule, "statements in package main that print the JSON document", direct, 1)
	for changed := true; changed; {
		changed = false
		for _, fn := range mainFns {
			instrsOf(fn, func(in ssa.Instruction) {
				if sc := staticCallee(in); sc != nil && len(points[sc]) > 0 && sc != fn {
					for _, p := range points[fn] {
						if p == in {
							return
						}
					}
					points[fn] = append(points[fn], in)
					changed = true
				}
			})
		}
	}
	if len(points[mainFn]) == 0 {
		r.Ob(rule, "main.main reaches a statement that prints the JSON document", c.pos(mainFn.Pos())).Und("no JSON-printing statement is reachable from main.main through package main")
		return
	}
	// the -debug flag value: a load of the pointer returned by flag.Bool("debug", ...)
	debugVals := map[ssa.Value]bool{}
	for _, fn := range mainFns {
		instrsOf(fn, func(in ssa.Instruction) {
			if call, ok := in.(*ssa.Call); ok && isCallTo(in, "flag", "Bool") && len(call.Call.Args) > 0 {
				if k, ok := call.Call.Args[0].(*ssa.Const); ok && k.Value != nil && constant.StringVal(k.Value) == "debug" {
					for _, ref := range *call.Referrers() {
						if u, ok := ref.(*ssa.UnOp); ok && u.Op == token.MUL {
							debugVals[u] = true
						}
					}
				}
			}
		})
	}
	// ... or a field/variable registered with flag.BoolVar(&x, "debug", ...): every read of that field or variable
	type fieldKey struct {
		t   string
		idx int
	}
	debugFields := map[fieldKey]bool{}
	debugGlobals := map[*ssa.Global]bool{}
	for _, fn := range mainFns {
		instrsOf(fn, func(in ssa.Instruction) {
			call, ok := in.(*ssa.Call)
			if !ok || !isCallTo(in, "flag", "BoolVar") || len(call.Call.Args) < 2 {
				return
			}
			k, ok := call.Call.Args[1].(*ssa.Const)
			if !ok || k.Value == nil || constant.StringVal(k.Value) != "debug" {
				return
			}
			switch a := call.Call.Args[0].(type) {
			case *ssa.FieldAddr:
				debugFields[fieldKey{types.TypeString(deref(a.X.Type()), nil), a.Field}] = true
			case *ssa.Global:
				debugGlobals[a] = true
			}
		})
	}
	isDebugVal := func(v ssa.Value) bool {
		if debugVals[v] {
			return true
		}
		switch x := v.(type) {
		case *ssa.Field:
			return debugFields[fieldKey{types.TypeString(x.X.Type(), nil), x.Field}]
		case *ssa.UnOp:
			if x.Op != token.MUL {
				return false
			}
			switch a := x.X.(type) {
			case *ssa.FieldAddr:
				return debugFields[fieldKey{types.TypeString(deref(a.X.Type()), nil), a.Field}]
			case *ssa.Global:
				return debugGlobals[a]
			}
		}
		return false
	}
	// ... or a field of an options record that only ever receives the flag's value (opts := options{debug: *debugArg})
	for changed := true; changed; {
		changed = false
		stored := map[fieldKey][2]int{} // stores of the flag's value, other stores
		for _, fn := range mainFns {
			instrsOf(fn, func(in ssa.Instruction) {
				st, ok := in.(*ssa.Store)
				if !ok {
					return
				}
				fa, ok := st.Addr.(*ssa.FieldAddr)
				if !ok {
					return
				}
				k := fieldKey{types.TypeString(deref(fa.X.Type()), nil), fa.Field}
				n := stored[k]
				if isDebugVal(st.Val) {
					n[0]++
				} else {
					n[1]++
				}
				stored[k] = n
			})
		}
		for k, n := range stored {
			if n[0] > 0 && n[1] == 0 && !debugFields[k] {
				debugFields[k] = true
				changed = true
			}
		}
	}
	// functions of package main that can write to standard output and then return to their caller
	writeReturn := map[*ssa.Function]bool{}
	for changed := true; changed; {
		changed = false
		for _, fn := range mainFns {
			if writeReturn[fn] {
				continue
			}
			live := newLiveCFG(fn)
			var rets []ssa.Instruction
			instrsOf(fn, func(in ssa.Instruction) {
				if _, ok := in.(*ssa.Return); ok {
					rets = append(rets, in)
				}
			})
			instrsOf(fn, func(in ssa.Instruction) {
				call, ok := in.(ssa.CallInstruction)
				if !ok || writeReturn[fn] {
					return
				}
				writes := isCallTo(in, "fmt", "Print", "Printf", "Println")
				for _, callee := range c.calleesOf(call) {
					if callee.Pkg == fn.Pkg {
						writes = writes || writeReturn[callee]
					} else if _, ok := writers[callee]; ok {
						writes = true
					}
				}
				if !writes {
					return
				}
				for _, ret := range rets {
					if live.after(in, ret) {
						writeReturn[fn] = true
						changed = true
						return
					}
				}
			})
		}
	}
	var fnsWithPoints []*ssa.Function
	for fn := range points {
		fnsWithPoints = append(fnsWithPoints, fn)
	}
	sort.Slice(fnsWithPoints, func(i, j int) bool { return fnName(fnsWithPoints[i]) < fnName(fnsWithPoints[j]) })
	for _, fn := range fnsWithPoints {
		jsonPrints := points[fn]
		live := newLiveCFG(fn)
		cds := NewPostDom(fn).ControlDeps()
		n := 0
		instrsOf(fn, func(in ssa.Instruction) {
			call, ok := in.(ssa.CallInstruction)
			if !ok {
				return
			}
			for _, jp := range jsonPrints {
				if jp == in {
					return
				}
			}
			why := ""
			if isCallTo(in, "fmt", "Print", "Printf", "Println") {
				why = "fmt." + staticCallee(in).Name()
			} else {
				for _, callee := range c.calleesOf(call) {
					if w, ok := writers[callee]; ok {
						if callee.Pkg == fn.Pkg && !writeReturn[callee] {
							continue // whatever it prints, it does not come back afterwards (usage message followed by exit)
						}
						why = fnName(callee) + " " + w
					}
				}
			}
			if why == "" {
				return
			}
			n++
			ob := r.Ob(rule, fmt.Sprintf("%s: stdout writer #%d (%s)", fnName(fn), n, shortCallee(call)), c.pos(in.Pos()))
			lits := condLiterals(fn, cds, in.Block())
			for v, pol := range lits {
				if isDebugVal(v) && pol[true] && !pol[false] {
					ob.OKnt("control-dependent on the -debug flag")
					return
				}
			}
			var reaches []string
			for _, jp := range jsonPrints {
				if (live.after(in, jp) || live.after(jp, in)) && !conflicting(lits, condLiterals(fn, cds, jp.Block())) {
					reaches = append(reaches, c.pos(jp.Pos()))
				}
			}
			if len(reaches) == 0 {
				ob.OKnt("no JSON-printing statement can execute before or after it on the same path (exit, return, or contradictory flag conditions)")
			} else {
				ob.Bad(fmt.Sprintf("writes to standard output (%s) on a path that also prints the JSON document at %s: the output is no longer one valid JSON document", why, strings.Join(reaches, ", ")))
			}
		})
	}
}

func shortCallee(call ssa.CallInstruction) string {
	cc := call.Common()
	if sc := cc.StaticCallee(); sc != nil {
		return fnName(sc)
	}
	if cc.IsInvoke() {
		return cc.Method.Name()
	}
	return cc.Value.Name()
}

// ruleCLIExits implements C18.R3: exits carry a non-zero status and every validation/compile failure exit precedes RunFiles.
func ruleCLIExits(c *Ctx, rule string) {
	r := c.R
	computeNoReturn(c.SrcFuncs("main"))
	mainFn := c.Fn("main", "main")
	if mainFn == nil {
		r.Ob(rule, "anchor main.main", "").Und("not found")
		return
	}
	var runCalls []ssa.Instruction
	instrsOf(mainFn, func(in ssa.Instruction) {
		if sc := staticCallee(in); sc != nil && (sc.Name() == "RunFiles" || sc.Name() == "Run") && c.isRepoFn(sc) {
			runCalls = append(runCalls, in)
		}
	})
	r.Floor(rule, "calls to RunFiles/Run in main.main", len(runCalls), 1)
	live := newLiveCFG(mainFn)
	n := 0
	// also exits in functions called from main after RunFiles (helpers)
	instrsOf(mainFn, func(in ssa.Instruction) {
		if !isNoReturnCall(in) {
			return
		}
		n++
		ob := r.Ob(rule, fmt.Sprintf("main.main: exit #%d (%s)", n, shortCallee(in.(ssa.CallInstruction))), c.pos(in.Pos()))
		if isCallTo(in, "os", "Exit") {
			arg := in.(ssa.CallInstruction).Common().Args[0]
			if k, ok := constInt(arg); !ok || k == 0 {
				ob.Bad("os.Exit is called with status 0 (or a non-constant) on a failure path")
				return
			}
		} else if sc := staticCallee(in); sc != nil && noReturnFns[sc] {
			// a helper that never returns: every os.Exit in it must carry a non-zero status
			bad := false
			instrsOf(sc, func(x ssa.Instruction) {
				if isCallTo(x, "os", "Exit") {
					if k, ok := constInt(x.(ssa.CallInstruction).Common().Args[0]); !ok || k == 0 {
						bad = true
					}
				}
			})
			if bad {
				ob.Bad("the helper " + fnName(sc) + " exits with status 0 (or a non-constant) on a failure path")
				return
			}
		}
		for _, rc := range runCalls {
			if live.after(rc, in) {
				ob.Bad("this failure exit can execute after RunFiles has already run (files may already have been modified)")
				return
			}
		}
		ob.OKnt("non-zero status and no RunFiles call can precede it")
	})
	r.Floor(rule, "failure exits in main.main", n, 2)
	// helpers called after RunFiles must not contain exits either
	for _, rc := range runCalls {
		instrsOf(mainFn, func(in ssa.Instruction) {
			call, ok := in.(ssa.CallInstruction)
			if !ok || !live.after(rc, in) {
				return
			}
			for _, callee := range c.calleesOf(call) {
				if !c.isRepoFn(callee) || callee.Pkg == nil || callee.Pkg.Pkg.Path() != modRoot {
					continue
				}
				for f := range c.Reachable(callee) {
					if f.Pkg == nil || f.Pkg.Pkg.Path() != modRoot {
						continue
					}
					instrsOf(f, func(x ssa.Instruction) {
						if isCallTo(x, "os", "Exit") {
							r.Ob(rule, "exit in "+fnName(f)+" reached after RunFiles", c.pos(x.Pos())).Bad("a validation exit in a helper that main.main calls after RunFiles: invalid invocations are rejected only after files were processed")
						}
					})
				}
			}
		})
	}
}

// ruleCLIModeTable implements C18.R4.
func ruleCLIModeTable(c *Ctx, rule string) {
	r := c.R
	fn := c.Fn("main", "replaceMode")
	if fn == nil {
		r.Ob(rule, "anchor main.replaceMode", "").Und("not found")
		return
	}
	want := map[string]string{"OVERWRITE": "OVERWRITE", "NOTHING": "NOTHING", "NEW": "NEW", "": "NEW"}
	modeName := func(v PVal) string { return c.constNameOf("engine", "ReplaceMode", v) }
	for _, in := range []string{"OVERWRITE", "NOTHING", "NEW", "", "overwrite", "CONFIRM", "bogus"} {
		ob := r.Ob(rule, fmt.Sprintf("replaceMode(%q)", in), c.pos(fn.Pos()))
		pe := &PEval{Interpret: c.repoInterp}
		res := pe.Run(fn, []PVal{PConst{constant.MakeString(in), nil}})
		if res.Err != "" {
			ob.Und(res.Err)
			continue
		}
		errNil := false
		if len(res.Results) == 1 {
			if k, ok := res.Results[0].(PConst); ok && k.V == nil {
				errNil = true
			}
		}
		var stored []string
		for _, g := range sortedKeys(pe.GlobalStores) {
			stored = append(stored, g+"="+modeName(pe.GlobalStores[g]))
		}
		if w, ok := want[in]; ok {
			ob.Check(errNil && len(stored) == 1 && strings.HasSuffix(stored[0], "="+w), "selects "+w,
				fmt.Sprintf("expected mode %s and no error; got error-nil=%t, stores %v", w, errNil, stored))
		} else if in == "overwrite" {
			// a spelling variant of a documented mode: rejecting it or reading it as that mode are both consistent with the property
			ob.Check((!errNil && len(stored) == 0) || (errNil && len(stored) == 1 && strings.HasSuffix(stored[0], "=OVERWRITE")), "rejected, or read as OVERWRITE",
				fmt.Sprintf("a lower-case spelling must be rejected or select the mode it spells; got error-nil=%t, stores %v", errNil, stored))
		} else {
			ob.Check(!errNil && len(stored) == 0, "rejected with an error, mode unchanged",
				fmt.Sprintf("an unknown mode must be an error and leave the mode unchanged; got error-nil=%t, stores %v", errNil, stored))
		}
		ob.Nontrivial = true
	}
	// default
	ob := r.Ob(rule, "default replace mode is NEW", "")
	def := ""
	if init := c.SSA["main"].Func("init"); init != nil {
		instrsOf(init, func(in ssa.Instruction) {
			if st, ok := in.(*ssa.Store); ok {
				if g, ok := st.Addr.(*ssa.Global); ok && g.Name() == "replaceModeArg" {
					if k, ok := st.Val.(*ssa.Const); ok {
						def = modeName(PConst{k.Value, k.Type()})
					}
				}
			}
		})
	}
	ob.Check(def == "NEW", "package-level default is engine.NEW", "package-level default is "+def+", documented default is NEW")
	// the mode passed to RunFiles is that variable
	mainFn := c.Fn("main", "main")
	ob2 := r.Ob(rule, "RunFiles receives the selected mode", "")
	okMode := false
	if mainFn != nil {
		instrsOf(mainFn, func(in ssa.Instruction) {
			if sc := staticCallee(in); sc != nil && sc.Name() == "RunFiles" {
				for _, a := range in.(ssa.CallInstruction).Common().Args {
					if u, ok := a.(*ssa.UnOp); ok {
						if g, ok := u.X.(*ssa.Global); ok && g.Name() == "replaceModeArg" {
							okMode = true
						}
					}
				}
			}
		})
	}
	ob2.Check(okMode, "RunFiles is called with replaceModeArg", "RunFiles is not called with the mode selected by -replace-mode")
}

// ruleCLIFlags implements C18.R5 and C18.R1.
func ruleCLIFlags(c *Ctx, rule string) {
	r := c.R
	mainFn := c.Fn("main", "main")
	if mainFn == nil {
		r.Ob(rule, "anchor main.main", "").Und("not found")
		return
	}
	got := map[string]string{}
	for fn := range c.Reachable(mainFn) {
		if fn.Pkg != mainFn.Pkg {
			continue
		}
		instrsOf(fn, func(in ssa.Instruction) {
			call, ok := in.(*ssa.Call)
			if !ok || !isCallTo(in, "flag", "String", "Bool", "Func", "Int", "StringVar", "BoolVar") || len(call.Call.Args) == 0 {
				return
			}
			for _, a := range call.Call.Args {
				if k, ok := a.(*ssa.Const); ok && k.Value != nil && k.Value.Kind() == constant.String {
					got[constant.StringVal(k.Value)] = staticCallee(in).Name()
					break
				}
			}
		})
	}
	want := map[string]string{"src": "String", "com": "String", "files": "String", "json": "Bool", "formatted-json": "Bool",
		"json-file": "String", "formatted-json-file": "String", "replace-mode": "Func", "no-output": "Bool"}
	for _, k := range sortedKeys(want) {
		ob := r.Ob(rule, "flag -"+k, c.pos(mainFn.Pos()))
		if got[k] == "" {
			ob.Bad("documented flag -" + k + " is not registered")
		} else if !strings.HasPrefix(got[k], want[k]) {
			ob.Bad(fmt.Sprintf("flag -%s is registered with flag.%s, documented kind is %s", k, got[k], want[k]))
		} else {
			ob.OK("registered with flag." + got[k])
		}
	}
}

func ruleCLIOpenForWriting(c *Ctx, rule string) {
	r := c.R
	var opens []*ssa.Call
	writes := 0
	for _, fn := range c.SrcFuncs("main") {
		instrsOf(fn, func(in ssa.Instruction) {
			if call, ok := in.(*ssa.Call); ok && isCallTo(in, "os", "OpenFile") {
				opens = append(opens, call)
			}
			if sc := staticCallee(in); sc != nil && sc.Pkg != nil && sc.Pkg.Pkg.Path() == "os" && sc.Signature.Recv() != nil {
				switch sc.Name() {
				case "Truncate", "Write", "WriteString", "WriteAt":
					writes++
				}
			}
		})
	}
	r.Stats["main_file_write_calls"] = writes
	if writes == 0 && len(opens) == 0 {
		r.Ob(rule, "package main writes no files through *os.File", "").OK("nothing to check")
		return
	}
	sort.Slice(opens, func(i, j int) bool { return opens[i].Pos() < opens[j].Pos() })
	for i, call := range opens {
		ob := r.Ob(rule, fmt.Sprintf("%s: os.OpenFile #%d opens for writing", fnName(call.Parent()), i+1), c.pos(call.Pos()))
		if len(call.Call.Args) != 3 {
			ob.Und("unexpected arity")
			continue
		}
		flags, ok1 := constInt(call.Call.Args[1])
		perm, ok2 := constInt(call.Call.Args[2])
		if !ok1 || !ok2 {
			ob.Und("flags or permissions are not constants")
			continue
		}
		const oWRONLY, oRDWR, oCREATE = 0x1, 0x2, 0x40
		var bad []string
		if flags&(oWRONLY|oRDWR) == 0 {
			bad = append(bad, fmt.Sprintf("flags %#x contain neither O_WRONLY nor O_RDWR: the file is opened read-only and Truncate/Write fail", flags))
		}
		if flags&oCREATE != 0 && perm&0o777 == 0 {
			bad = append(bad, fmt.Sprintf("permission argument %#o has no permission bits: a newly created output file cannot be reopened", perm))
		}
		if len(bad) > 0 {
			ob.Bad(strings.Join(bad, "; "))
		} else {
			ob.OKnt(fmt.Sprintf("flags %#x include a write access mode, permissions %#o", flags, perm&0o777))
		}
	}
	// every document written to a file replaces what the file held: the file is opened with O_TRUNC or truncated before the write
	const oTRUNC = 0x200
	isFile := func(v ssa.Value) bool {
		p, ok := v.Type().(*types.Pointer)
		if !ok {
			return false
		}
		n, ok := p.Elem().(*types.Named)
		return ok && n.Obj().Name() == "File" && n.Obj().Pkg() != nil && n.Obj().Pkg().Path() == "os"
	}
	// openFlags: the flags of the os.OpenFile call a file value comes from (through one repository helper)
	var openFlags func(v ssa.Value, depth int) (int64, bool)
	openFlags = func(v ssa.Value, depth int) (int64, bool) {
		if depth > 3 {
			return 0, false
		}
		switch x := v.(type) {
		case *ssa.Extract:
			if call, ok := x.Tuple.(*ssa.Call); ok && isCallTo(call, "os", "OpenFile") && len(call.Call.Args) == 3 {
				return constInt(call.Call.Args[1])
			}
		case *ssa.Call:
			if sc := x.Call.StaticCallee(); sc != nil && c.isRepoFn(sc) {
				var fl int64
				found := false
				instrsOf(sc, func(in ssa.Instruction) {
					if ret, ok := in.(*ssa.Return); ok && len(ret.Results) > 0 {
						if f, ok := openFlags(ret.Results[0], depth+1); ok {
							fl, found = f, true
						}
					}
				})
				return fl, found
			}
		}
		return 0, false
	}
	truncates := func(in ssa.Instruction, file ssa.Value) bool {
		call, ok := in.(*ssa.Call)
		if !ok {
			return false
		}
		sc := call.Call.StaticCallee()
		if sc == nil {
			return false
		}
		if sc.Pkg != nil && sc.Pkg.Pkg.Path() == "os" && sc.Name() == "Truncate" && len(call.Call.Args) > 0 && call.Call.Args[0] == file {
			return true
		}
		if c.isRepoFn(sc) {
			for i, a := range call.Call.Args {
				if a != file || i >= len(sc.Params) {
					continue
				}
				param := sc.Params[i]
				found := false
				instrsOf(sc, func(y ssa.Instruction) {
					if c2, ok := y.(*ssa.Call); ok {
						if s2 := c2.Call.StaticCallee(); s2 != nil && s2.Pkg != nil && s2.Pkg.Pkg.Path() == "os" && s2.Name() == "Truncate" && len(c2.Call.Args) > 0 && c2.Call.Args[0] == ssa.Value(param) {
							found = true
						}
					}
				})
				if found {
					return true
				}
			}
		}
		return false
	}
	nw := 0
	for _, fn := range c.SrcFuncs("main") {
		k := 0
		instrsOf(fn, func(in ssa.Instruction) {
			call, ok := in.(*ssa.Call)
			if !ok {
				return
			}
			sc := call.Call.StaticCallee()
			if sc == nil || sc.Pkg == nil || sc.Pkg.Pkg.Path() != "os" || sc.Signature.Recv() == nil || len(call.Call.Args) == 0 || !isFile(call.Call.Args[0]) {
				return
			}
			if sc.Name() != "Write" && sc.Name() != "WriteString" {
				return
			}
			file := call.Call.Args[0]
			if u, ok := file.(*ssa.UnOp); ok {
				if _, isGlobal := u.X.(*ssa.Global); isGlobal {
					return // os.Stdout / os.Stderr
				}
			}
			nw++
			k++
			ob := r.Ob(rule, fmt.Sprintf("%s: file write #%d replaces the file's old contents", fnName(fn), k), c.pos(call.Pos()))
			if fl, ok := openFlags(file, 0); ok && fl&oTRUNC != 0 {
				ob.OKnt("the file is opened with O_TRUNC")
				return
			}
			done := false
			instrsOf(fn, func(y ssa.Instruction) {
				if truncates(y, file) && instrDominates(y, call) {
					done = true
				}
			})
			// the file comes from a helper that truncates what it returns
			if fc, ok := file.(*ssa.Call); ok && !done {
				if h := fc.Call.StaticCallee(); h != nil && c.isRepoFn(h) && len(h.Blocks) > 0 {
					all, nret := true, 0
					instrsOf(h, func(y ssa.Instruction) {
						ret, ok := y.(*ssa.Return)
						if !ok || len(ret.Results) == 0 {
							return
						}
						nret++
						okRet := false
						var cuts []ssa.Instruction
						instrsOf(h, func(z ssa.Instruction) {
							if truncates(z, ret.Results[0]) {
								cuts = append(cuts, z)
								if instrDominates(z, ret) {
									okRet = true
								}
							}
						})
						if !okRet && len(cuts) > 0 {
							// no single Truncate dominates the return: is there a feasible path to it that executes none of them?
							if feasible, decided := feasibleAvoiding(h, cuts, ret); decided && !feasible {
								okRet = true
							}
						}
						if fl, ok := openFlags(ret.Results[0], 0); ok && fl&oTRUNC != 0 {
							okRet = true
						}
						if !okRet {
							all = false
						}
					})
					if all && nret > 0 {
						done = true
					}
				}
			}
			if done {
				ob.OKnt("a Truncate of the same file dominates the write")
			} else {
				ob.Bad("the file is neither opened with O_TRUNC nor truncated before the write: when the new document is shorter than what the file held, the old tail stays and the file is not one valid JSON document")
			}
		})
	}
	r.Stats["main_output_file_writes"] = nw
}

// inDebugStatementArm: the instruction executes only in the arm of a type switch (or behind a type assertion) that has found the
// `debug` statement of the process language: its print is what the program asked for (the same frozen exception as executeDebug,
// by role instead of by name).
func inDebugStatementArm(in ssa.Instruction) bool {
	b := in.Block()
	for _, d := range b.Parent().Blocks {
		if d != b && !d.Dominates(b) {
			continue
		}
		for _, x := range d.Instrs {
			ta, ok := x.(*ssa.TypeAssert)
			if !ok {
				continue
			}
			nt, ok := deref(ta.AssertedType).(*types.Named)
			if !ok || nt.Obj().Name() != "AstProcessDebug" {
				continue
			}
			if !ta.CommaOk {
				if d != b || instrIndex(ta) < instrIndex(in) {
					return true
				}
				continue
			}
			// the arm taken when the assertion succeeded
			for _, ref := range *ta.Referrers() {
				ex, ok := ref.(*ssa.Extract)
				if !ok || ex.Index != 1 {
					continue
				}
				for _, r2 := range *ex.Referrers() {
					if iff, ok := r2.(*ssa.If); ok {
						arm := iff.Block().Succs[0]
						if arm == b || arm.Dominates(b) {
							return true
						}
					}
				}
			}
		}
	}
	return false
}
