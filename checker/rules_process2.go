package main

// C11.R3 (precedence), C12.R3 (statement rules), C12.R4 (checker always run).

import (
	"fmt"
	"go/constant"
	"go/token"
	"go/types"
	"strings"

	"golang.org/x/tools/go/ssa"
)

// evalSSAExpr evaluates the defining expression of an SSA value with every non-constant value of type tagType bound to tag.
func (c *Ctx) evalSSAExpr(v ssa.Value, tagType types.Type, tag PVal, depth int) (PVal, string) {
	if depth > 12 {
		return nil, "expression too deep"
	}
	if k, ok := v.(*ssa.Const); ok {
		return PConst{k.Value, k.Type()}, ""
	}
	if types.Identical(v.Type(), tagType) {
		return tag, ""
	}
	switch x := v.(type) {
	case *ssa.BinOp:
		a, e := c.evalSSAExpr(x.X, tagType, tag, depth+1)
		if e != "" {
			return nil, e
		}
		b, e := c.evalSSAExpr(x.Y, tagType, tag, depth+1)
		if e != "" {
			return nil, e
		}
		return pbinop(x.Op, a, b, x.Type()), ""
	case *ssa.Extract:
		t, e := c.evalSSAExpr(x.Tuple, tagType, tag, depth+1)
		if e != "" {
			return nil, e
		}
		if tu, ok := t.(PTuple); ok && x.Index < len(tu.Vals) {
			return tu.Vals[x.Index], ""
		}
		return nil, "extract from non-tuple"
	case *ssa.Call:
		callee := x.Call.StaticCallee()
		if callee == nil || !c.isRepoFn(callee) {
			return nil, "call to " + callName(&x.Call) + " cannot be folded"
		}
		var args []PVal
		for _, a := range x.Call.Args {
			av, e := c.evalSSAExpr(a, tagType, tag, depth+1)
			if e != "" {
				return nil, e
			}
			args = append(args, av)
		}
		pe := &PEval{Interpret: c.repoInterp}
		res := pe.Run(callee, args)
		if res.Err != "" {
			return nil, res.Err
		}
		if res.Panic {
			return nil, "panics"
		}
		if len(res.Results) == 1 {
			return res.Results[0], ""
		}
		return PTuple{res.Results}, ""
	case *ssa.Phi:
		// a phi of identical foldable operands
		var first PVal
		for _, e := range x.Edges {
			ev, er := c.evalSSAExpr(e, tagType, tag, depth+1)
			if er != "" {
				return nil, er
			}
			if first == nil {
				first = ev
			} else if pstring(first) != pstring(ev) {
				return nil, "phi of different values"
			}
		}
		return first, ""
	}
	return nil, fmt.Sprintf("value %s (%T) cannot be folded", v.Name(), v)
}

func pint(v PVal) (int64, bool) {
	k, ok := v.(PConst)
	if !ok || k.V == nil || k.V.Kind() != constant.Int {
		return 0, false
	}
	return constant.Int64Val(k.V)
}

// rulePrecedence implements C11.R3.
func rulePrecedence(c *Ctx, rule string) {
	r := c.R
	fn := c.Fn("ast", "parse_expr_pratt")
	tokT := c.NamedType("ast", "TokenType")
	if fn == nil || tokT == nil || len(fn.Params) != 3 {
		r.Ob(rule, "anchor ast.parse_expr_pratt", "").Und("function not found or signature changed")
		return
	}
	minP := fn.Params[2]
	// the infix recursion: a recursive call whose third argument is not constant and that sits in a loop (its block reaches itself)
	var infixArg ssa.Value
	var infixCall *ssa.Call
	instrsOf(fn, func(in ssa.Instruction) {
		call, ok := in.(*ssa.Call)
		if !ok || call.Call.StaticCallee() != fn || len(call.Call.Args) != 3 {
			return
		}
		if _, isConst := call.Call.Args[2].(*ssa.Const); isConst {
			return
		}
		inLoop := false
		for _, s := range call.Block().Succs {
			if blockReaches(s, call.Block()) {
				inLoop = true
			}
		}
		if inLoop || blockReaches2(call.Block()) {
			infixArg, infixCall = call.Call.Args[2], call
		}
	})
	if infixCall == nil {
		r.Ob(rule, "parse_expr_pratt: infix recursion", c.pos(fn.Pos())).Und("no recursive call with a computed binding power found inside a loop")
		return
	}
	// the break test: an If whose condition compares something with minPrecedence and that dominates the infix recursion
	var leftVal ssa.Value
	var brk *ssa.If
	breakWhenLess := false
	instrsOf(fn, func(in ssa.Instruction) {
		iff, ok := in.(*ssa.If)
		if !ok {
			return
		}
		b, ok := iff.Cond.(*ssa.BinOp)
		if !ok || !iff.Block().Dominates(infixCall.Block()) {
			return
		}
		var other ssa.Value
		op := b.Op
		if b.Y == ssa.Value(minP) {
			other = b.X
		} else if b.X == ssa.Value(minP) {
			other = b.Y
			switch op {
			case token.LSS:
				op = token.GTR
			case token.GTR:
				op = token.LSS
			case token.LEQ:
				op = token.GEQ
			case token.GEQ:
				op = token.LEQ
			}
		} else {
			return
		}
		// which successor leads to the recursion?
		contIdx := -1
		for i, s := range iff.Block().Succs {
			if s == infixCall.Block() || s.Dominates(infixCall.Block()) {
				contIdx = i
			}
		}
		if contIdx < 0 {
			return
		}
		// continue iff other >= min  <=>  (op LSS, continue on false) or (op GEQ, continue on true)
		if (op == token.LSS && contIdx == 1) || (op == token.GEQ && contIdx == 0) {
			leftVal, brk, breakWhenLess = other, iff, true
		} else if (op == token.LEQ && contIdx == 1) || (op == token.GTR && contIdx == 0) {
			leftVal, brk, breakWhenLess = other, iff, false // continue iff other > min
		}
	})
	if brk == nil {
		r.Ob(rule, "parse_expr_pratt: loop exit test", c.pos(fn.Pos())).Und("no comparison of a binding power with minPrecedence dominates the infix recursion")
		return
	}
	L, R := map[string]int64{}, map[string]int64{}
	for _, op := range binOps {
		tag := c.pconst("ast", op)
		lv, e1 := c.evalSSAExpr(leftVal, tokT, tag, 0)
		rv, e2 := c.evalSSAExpr(infixArg, tokT, tag, 0)
		if e1 != "" || e2 != "" {
			r.Ob(rule, "binding powers of "+op, c.pos(brk.Pos())).Und("cannot fold the binding power: " + e1 + " " + e2)
			return
		}
		li, ok1 := pint(lv)
		ri, ok2 := pint(rv)
		if !ok1 || !ok2 {
			r.Ob(rule, "binding powers of "+op, c.pos(brk.Pos())).Und("binding power is not an integer constant: " + pstring(lv) + ", " + pstring(rv))
			return
		}
		if !breakWhenLess {
			li-- // continue iff l > min  <=>  (l-1) >= min
		}
		L[op], R[op] = li, ri
	}
	r.Tables["binding_powers_left"] = L
	r.Tables["binding_powers_right"] = R
	groups := [][]string{{"MULT", "DIV", "MOD"}, {"PLUS", "MINUS"}, {"LESS", "GREATER", "LESSEQ", "GREATEREQ"}, {"DEQUAL", "NEQUAL"}, {"AND", "OR"}}
	pos := c.pos(brk.Pos())
	// left associativity inside each documented level: after X, an operator Y of the same level must stop the recursion: L(Y) < R(X)
	for _, g := range groups {
		for _, x := range g {
			for _, y := range g {
				ob := r.Ob(rule, fmt.Sprintf("left-assoc %s then %s", x, y), pos)
				if L[y] < R[x] {
					ob.OKnt(fmt.Sprintf("left power of %s (%d) < right power passed after %s (%d): a %s b %s c groups as (a %s b) %s c", y, L[y], x, R[x], x, y, x, y))
				} else {
					ob.Bad(fmt.Sprintf("left power of %s (%d) >= right power passed after %s (%d): operators of one level associate to the right", y, L[y], x, R[x]))
				}
			}
		}
	}
	// levels: tighter A, looser B
	tighter := [][2]int{{0, 1}, {0, 2}, {0, 3}, {0, 4}, {1, 2}, {1, 3}, {1, 4}, {2, 4}, {3, 4}}
	for _, p := range tighter {
		for _, a := range groups[p[0]] {
			for _, b := range groups[p[1]] {
				ob := r.Ob(rule, fmt.Sprintf("%s binds tighter than %s", a, b), pos)
				if L[a] >= R[b] && L[b] < R[a] {
					ob.OKnt(fmt.Sprintf("L(%s)=%d >= R(%s)=%d and L(%s)=%d < R(%s)=%d", a, L[a], b, R[b], b, L[b], a, R[a]))
				} else {
					ob.Bad(fmt.Sprintf("documented precedence violated: L(%s)=%d R(%s)=%d L(%s)=%d R(%s)=%d", a, L[a], a, R[a], b, L[b], b, R[b]))
				}
			}
		}
	}
}

func blockReaches2(b *ssa.BasicBlock) bool {
	for _, s := range b.Succs {
		if blockReaches(s, b) {
			return true
		}
	}
	return false
}

// ---------------------------------------------------------------------------------------------
// C12.R3 statement rules

func (c *Ctx) mkTypeInfo(cur string, context string, inLoop bool) PVal {
	infoT := c.NamedType("bytecode", "ProcessTypeInfo")
	v := pzero(infoT)
	v = pwith(v, "currentType", c.pconst("bytecode", cur))
	v = pwith(v, "environment", PSym{"env"})
	if context != "" {
		v = pwith(v, "context", c.pconst("bytecode", context))
	}
	v = pwith(v, "inLoop", PConst{constant.MakeBool(inLoop), types.Typ[types.Bool]})
	return v
}

func ruleStatementRules(c *Ctx, rule string) {
	r := c.R
	chkE := c.Fn("bytecode", "checkExpression")
	chkS := c.Fn("bytecode", "checkStatement")
	if chkE == nil || chkS == nil || c.NamedType("bytecode", "ProcessTypeInfo") == nil {
		r.Ob(rule, "anchors", "").Und("bytecode.checkExpression/checkStatement/ProcessTypeInfo not found")
		return
	}
	types4 := []string{"PTSTRING", "PTNUMBER", "PTBOOLEAN", "PTERROR"}
	// generic runner: exprTag = type given to any checked expression; returns result struct
	run := func(fn *ssa.Function, args []PVal, exprTag string, stmtHook func(info PVal) PVal) (PVal, string) {
		pe := &PEval{Interpret: c.repoInterp}
		pe.Hook = func(pe *PEval, cc *ssa.CallCommon, a []PVal) (PVal, bool) {
			if cc.StaticCallee() == chkE && len(a) == 2 {
				return pwith(a[1], "currentType", c.pconst("bytecode", exprTag)), true
			}
			if cc.StaticCallee() == chkS && len(a) == 2 {
				if stmtHook != nil {
					return stmtHook(a[1]), true
				}
				return a[1], true
			}
			return nil, false
		}
		res := pe.Run(fn, args)
		if res.Err != "" {
			return nil, res.Err
		}
		if res.Panic {
			return nil, "panics"
		}
		if len(res.Results) != 1 {
			return nil, "unexpected result count"
		}
		return res.Results[0], ""
	}
	node := func(pkg, typ string) PVal {
		t := c.NamedType(pkg, typ)
		if t == nil {
			return PTop{"missing type " + typ}
		}
		return PPtr{&PObj{pzero(t)}, nil}
	}
	// --- if
	if fn := c.Fn("bytecode", "checkIf"); fn == nil {
		r.Ob(rule, "checkIf", "").Und("not found")
	} else {
		for _, t := range types4 {
			ob := r.Ob(rule, "checkIf: condition of type "+t, c.pos(fn.Pos()))
			res, err := run(fn, []PVal{node("ast", "AstProcessIf"), c.mkTypeInfo("PTOK", "", false)}, t, nil)
			if err != "" {
				ob.Und(err)
				continue
			}
			got := c.ptName(pfield(res, "currentType"))
			if t == "PTBOOLEAN" {
				ob.Check(got != "PTERROR", "accepted", "a boolean condition is rejected")
			} else {
				ob.Check(got == "PTERROR", "rejected with PTERROR", "an `if` whose condition has type "+t+" is accepted (result "+got+"); the documented rule requires a boolean")
			}
			ob.Nontrivial = true
		}
	}
	// --- return
	if fn := c.Fn("bytecode", "checkReturn"); fn == nil {
		r.Ob(rule, "checkReturn", "").Und("not found")
	} else {
		for _, ctx := range []string{"PREDICATE", "TRANSFORMATION"} {
			for _, t := range types4 {
				ob := r.Ob(rule, fmt.Sprintf("checkReturn: %s returns %s", ctx, t), c.pos(fn.Pos()))
				res, err := run(fn, []PVal{node("ast", "AstProcessReturn"), c.mkTypeInfo("PTOK", ctx, false)}, t, nil)
				if err != "" {
					ob.Und(err)
					continue
				}
				got := c.ptName(pfield(res, "currentType"))
				wantOK := (ctx == "PREDICATE" && t == "PTBOOLEAN") || (ctx == "TRANSFORMATION" && (t == "PTSTRING" || t == "PTNUMBER"))
				if wantOK {
					ob.Check(got != "PTERROR", "accepted", "rejected although the documented rule allows it")
				} else {
					ob.Check(got == "PTERROR", "rejected with PTERROR", "accepted (result "+got+") although the documented rule forbids it")
				}
				ob.Nontrivial = true
			}
		}
	}
	// --- break / continue
	for _, name := range []string{"checkBreak", "checkContinue"} {
		fn := c.Fn("bytecode", name)
		if fn == nil {
			r.Ob(rule, name, "").Und("not found")
			continue
		}
		for _, in := range []bool{false, true} {
			ob := r.Ob(rule, fmt.Sprintf("%s with inLoop=%t", name, in), c.pos(fn.Pos()))
			res, err := run(fn, []PVal{c.mkTypeInfo("PTOK", "", in)}, "PTOK", nil)
			if err != "" {
				ob.Und(err)
				continue
			}
			got := c.ptName(pfield(res, "currentType"))
			if in {
				ob.Check(got != "PTERROR", "accepted inside a loop", "rejected inside a loop")
			} else {
				ob.Check(got == "PTERROR", "rejected outside a loop", "accepted outside a loop (result "+got+")")
			}
			ob.Nontrivial = true
		}
	}
	// --- loop: body sees inLoop=true; the flag is restored to its entry value on the normal return
	if fn := c.Fn("bytecode", "checkLoop"); fn == nil {
		r.Ob(rule, "checkLoop", "").Und("not found")
	} else {
		loopT := c.NamedType("ast", "AstProcessLoop")
		for _, entry := range []bool{false, true} {
			var seen []string
			body := PSlice{[]*PObj{{PSym{"stmt1"}}, {PSym{"stmt2"}}}}
			n := pwith(pzero(loopT), "Body", body)
			res, err := run(fn, []PVal{PPtr{&PObj{n}, nil}, c.mkTypeInfo("PTOK", "", entry)}, "PTOK", func(info PVal) PVal {
				seen = append(seen, pstring(pfield(info, "inLoop")))
				return info
			})
			ob1 := r.Ob(rule, fmt.Sprintf("checkLoop(entry inLoop=%t): body is checked with inLoop=true", entry), c.pos(fn.Pos()))
			ob2 := r.Ob(rule, fmt.Sprintf("checkLoop(entry inLoop=%t): inLoop restored on return", entry), c.pos(fn.Pos()))
			if err != "" {
				ob1.Und(err)
				ob2.Und(err)
				continue
			}
			ob1.Check(len(seen) == 2 && seen[0] == "true" && seen[1] == "true", "both body statements were checked with inLoop=true",
				fmt.Sprintf("body statements were checked with inLoop=%v", seen))
			ob1.Nontrivial = true
			got := pstring(pfield(res, "inLoop"))
			ob2.Check(got == fmt.Sprint(entry), "returned inLoop equals the entry value",
				fmt.Sprintf("checkLoop returns inLoop=%s for entry value %t: after a loop nested in a loop `break`/`continue` are wrongly rejected, or after any loop wrongly accepted", got, entry))
			ob2.Nontrivial = true
		}
	}
}

// ruleCheckerAlwaysRun implements C12.R4.
func ruleCheckerAlwaysRun(c *Ctx, rule string) {
	r := c.R
	chkS := c.Fn("bytecode", "checkStatement")
	type gen struct {
		name, argType, stmtField, ctx string
	}
	for _, g := range []gen{{"generateSetTransform", "AstSetTransform", "Statements", "TRANSFORMATION"}, {"generateSetPattern", "AstSetPattern", "Body", "PREDICATE"}} {
		fn := c.Fn("bytecode", g.name)
		at := c.NamedType("ast", g.argType)
		if fn == nil || at == nil || chkS == nil {
			r.Ob(rule, g.name, "").Und("anchor not found")
			continue
		}
		for _, failAt := range []int{-1, 0, 1} {
			calls := 0
			var ctxSeen, envSeen []string
			pe := &PEval{Interpret: c.repoInterp}
			pe.Hook = func(pe *PEval, cc *ssa.CallCommon, a []PVal) (PVal, bool) {
				if cc.StaticCallee() == chkS && len(a) == 2 {
					ctxSeen = append(ctxSeen, c.constNameOf("bytecode", "ProcessContext", pfield(a[1], "context")))
					envSeen = append(envSeen, pstring(pfield(a[1], "inLoop")))
					k := calls
					calls++
					if k == failAt {
						return pwith(pwith(a[1], "currentType", c.pconst("bytecode", "PTERROR")), "errorMessage", PSym{"msg"}), true
					}
					return pwith(a[1], "currentType", c.pconst("bytecode", "PTOK")), true
				}
				return nil, false
			}
			arg := pwith(pzero(at), g.stmtField, PSlice{[]*PObj{{PSym{"s1"}}, {PSym{"s2"}}}})
			res := pe.Run(fn, []PVal{arg, PSym{"state"}, PSym{"id"}})
			ob := r.Ob(rule, fmt.Sprintf("%s: statement %d fails the check", g.name, failAt), c.pos(fn.Pos()))
			if failAt == -1 {
				ob.Construct = g.name + ": all statements pass the check"
			}
			if res.Err != "" {
				ob.Und(res.Err)
				continue
			}
			if res.Panic || len(res.Results) != 2 {
				ob.Bad("generator panics or has an unexpected result shape")
				continue
			}
			errNil := false
			if k, ok := res.Results[1].(PConst); ok && k.V == nil {
				errNil = true
			}
			ctxOK := true
			for _, cs := range ctxSeen {
				if cs != g.ctx {
					ctxOK = false
				}
			}
			switch {
			case !ctxOK:
				ob.Bad(fmt.Sprintf("statements are checked in context %v, expected %s", ctxSeen, g.ctx))
			case failAt == -1:
				ob.Check(calls == 2 && errNil, "both statements checked, success returned", fmt.Sprintf("checkStatement called %d time(s) for 2 statements, error nil=%t", calls, errNil))
			default:
				ob.Check(calls == failAt+1 && !errNil, "a GenError is returned as soon as a statement fails the check",
					fmt.Sprintf("checkStatement called %d time(s), error nil=%t: a definition whose statement %d is ill-typed is accepted", calls, errNil, failAt))
			}
			ob.Nontrivial = true
		}
	}
	// initial environment agrees with what the engine binds at run time
	genEnv := c.constMapUpdates("bytecode", []string{"generateSetTransform", "generateSetPattern"})
	engEnv := c.constMapUpdates("engine", []string{"executeReplaceProcess", "matchEndSubroutine"})
	want := map[string]string{"PTSTRING": "ProcessValueString", "PTNUMBER": "ProcessValueNumber", "PTBOOLEAN": "ProcessValueBoolean"}
	pairs := [][2]string{{"generateSetTransform", "executeReplaceProcess"}, {"generateSetPattern", "matchEndSubroutine"}}
	for _, p := range pairs {
		for _, key := range sortedKeys(genEnv[p[0]]) {
			ob := r.Ob(rule, fmt.Sprintf("environment of %s: %q has the type %s binds", p[0], key, p[1]), "")
			gt := genEnv[p[0]][key]
			et, ok := engEnv[p[1]][key]
			if !ok {
				ob.Bad(fmt.Sprintf("the checker assumes %q : %s but %s never binds it", key, gt, p[1]))
			} else if want[gt] != et {
				ob.Bad(fmt.Sprintf("the checker assumes %q : %s but %s binds a %s", key, gt, p[1], et))
			} else {
				ob.OKnt(fmt.Sprintf("%s at check time, %s at run time", gt, et))
			}
		}
		if len(genEnv[p[0]]) == 0 {
			r.Ob(rule, "environment of "+p[0], "").Und("no constant-key map updates found")
		}
	}
}

func (c *Ctx) constNameOf(pkg, typ string, v PVal) string {
	k, ok := v.(PConst)
	if !ok || k.V == nil {
		return pstring(v)
	}
	sc := c.Pkgs[pkg].Types.Scope()
	for _, n := range sc.Names() {
		if cst, ok := sc.Lookup(n).(*types.Const); ok {
			if nt, ok := cst.Type().(*types.Named); ok && nt.Obj().Name() == typ && constant.Compare(cst.Val(), token.EQL, k.V) {
				return n
			}
		}
	}
	return k.V.ExactString()
}

// constMapUpdates collects `m["key"] = value` updates with constant string keys per function; the value is described by its
// constant name (for ProcessType constants) or by the concrete type converted to an interface.
func (c *Ctx) constMapUpdates(pkg string, fns []string) map[string]map[string]string {
	out := map[string]map[string]string{}
	for _, name := range fns {
		fn := c.Fn(pkg, name)
		out[name] = map[string]string{}
		if fn == nil && name == "executeReplaceProcess" {
			// the handler of a transform item may have been folded into the dispatcher of the replacer (or into a method of its
			// state that the dispatcher calls): start from the dispatcher
			fn = c.Fn(pkg, "executeReplace")
		}
		if fn == nil {
			continue
		}
		// the function and the helpers of its package it calls (three levels), except the statement/expression checkers and generators
		scan := []*ssa.Function{fn}
		seenFn := map[*ssa.Function]bool{fn: true}
		frontier := []*ssa.Function{fn}
		for depth := 0; depth < 3; depth++ {
			var next []*ssa.Function
			// a function's closures are part of it
			for i := 0; i < len(frontier); i++ {
				frontier = append(frontier, frontier[i].AnonFuncs...)
			}
			for _, f := range frontier {
				instrsOf(f, func(in ssa.Instruction) {
					sc := staticCallee(in)
					if sc == nil || !c.isRepoFn(sc) || sc.Pkg != fn.Pkg || seenFn[sc] {
						return
					}
					if depth > 0 && (strings.HasPrefix(sc.Name(), "check") || strings.HasPrefix(sc.Name(), "generate") || strings.HasPrefix(sc.Name(), "execute") || strings.HasPrefix(sc.Name(), "match")) {
						return
					}
					seenFn[sc] = true
					scan = append(scan, sc)
					next = append(next, sc)
				})
			}
			frontier = next
		}
		// closures defined in those functions belong to them
		for i := 0; i < len(scan); i++ {
			scan = append(scan, scan[i].AnonFuncs...)
		}
		for _, f := range scan {
			instrsOf(f, func(in ssa.Instruction) {
				mu, ok := in.(*ssa.MapUpdate)
				if !ok {
					return
				}
				k, ok := mu.Key.(*ssa.Const)
				if !ok || k.Value == nil || k.Value.Kind() != constant.String {
					return
				}
				key := constant.StringVal(k.Value)
				switch v := mu.Value.(type) {
				case *ssa.Const:
					out[name][key] = c.ptName(PConst{v.Value, v.Type()})
				case *ssa.MakeInterface:
					out[name][key] = strings.TrimPrefix(types.TypeString(v.X.Type(), shortQual), "engine.")
				default:
					out[name][key] = "?"
				}
			})
		}
	}
	return out
}

// ruleCheckErrorsPropagate implements C12.R6: the verdict of one checker call is never overwritten unseen. The result of a call
// of a check function (one that takes and returns ProcessTypeInfo) must not be handed to the next check call, or be dropped,
// before its currentType has been compared with PTERROR: the callee starts from the info it is given and replaces currentType.
func ruleCheckErrorsPropagate(c *Ctx, rule string) {
	r := c.R
	tiT := c.NamedType("bytecode", "ProcessTypeInfo")
	ptErr := c.constByName("bytecode", "PTERROR")
	if tiT == nil || ptErr == nil {
		r.Ob(rule, "anchor bytecode.ProcessTypeInfo / PTERROR", "").Und("not found")
		return
	}
	st := tiT.Underlying().(*types.Struct)
	ctIdx := -1
	for i := 0; i < st.NumFields(); i++ {
		if st.Field(i).Name() == "currentType" {
			ctIdx = i
		}
	}
	isCheckFn := func(f *ssa.Function) bool {
		if f == nil || !c.isRepoFn(f) || f.Signature.Results().Len() != 1 || !types.Identical(f.Signature.Results().At(0).Type(), tiT) {
			return false
		}
		// a check function looks at a piece of the syntax tree; helpers that only rewrite the info they are given are not checks
		hasInfo, hasNode := false, false
		for i := 0; i < f.Signature.Params().Len(); i++ {
			pt := f.Signature.Params().At(i).Type()
			if types.Identical(pt, tiT) {
				hasInfo = true
			}
			for {
				switch u := pt.(type) {
				case *types.Pointer:
					pt = u.Elem()
					continue
				case *types.Slice:
					pt = u.Elem()
					continue
				}
				break
			}
			if n, ok := pt.(*types.Named); ok && n.Obj().Pkg() != nil && n.Obj().Pkg().Name() == "ast" {
				hasNode = true
			}
		}
		return hasInfo && hasNode
	}
	isErrConst := func(v ssa.Value) bool {
		k, ok := v.(*ssa.Const)
		return ok && k.Value != nil && types.Identical(k.Type(), ptErr.Type()) && constant.Compare(k.Value, token.EQL, ptErr.Val())
	}
	// a callee whose entry block compares the currentType of the info it is given with PTERROR
	calleeTestsInput := func(f *ssa.Function) bool {
		if f == nil || len(f.Blocks) == 0 {
			return false
		}
		b := f.Blocks[0]
		iff, ok := b.Instrs[len(b.Instrs)-1].(*ssa.If)
		if !ok {
			return false
		}
		bo, ok := iff.Cond.(*ssa.BinOp)
		if !ok || (bo.Op != token.EQL && bo.Op != token.NEQ) {
			return false
		}
		for _, pair := range [][2]ssa.Value{{bo.X, bo.Y}, {bo.Y, bo.X}} {
			if !isErrConst(pair[1]) {
				continue
			}
			s := exprStr(pair[0])
			for _, p := range f.Params {
				if types.Identical(p.Type(), tiT) && s == p.Name()+".currentType" {
					return true
				}
			}
		}
		return false
	}
	ncalls := 0
	for _, fn := range c.SrcFuncs("bytecode") {
		k := 0
		instrsOf(fn, func(in ssa.Instruction) {
			call, ok := in.(*ssa.Call)
			if !ok || !isCheckFn(call.Call.StaticCallee()) {
				return
			}
			ncalls++
			k++
			// holders of the result: the value, phis containing it, locals it is stored into
			vals := map[ssa.Value]bool{call: true}
			allocs := map[*ssa.Alloc]bool{}
			for changed := true; changed; {
				changed = false
				instrsOf(fn, func(x ssa.Instruction) {
					switch y := x.(type) {
					case *ssa.Phi:
						if !vals[y] {
							for _, e := range y.Edges {
								if vals[e] {
									vals[y] = true
									changed = true
								}
							}
						}
					case *ssa.Store:
						if a, ok := y.Addr.(*ssa.Alloc); ok && vals[y.Val] && !allocs[a] {
							allocs[a] = true
							changed = true
						}
					}
				})
			}
			holds := func(v ssa.Value) bool {
				if vals[v] {
					return true
				}
				if u, ok := v.(*ssa.UnOp); ok && u.Op == token.MUL {
					if a, ok := u.X.(*ssa.Alloc); ok && allocs[a] {
						return true
					}
				}
				return false
			}
			isTestOfResult := func(iff *ssa.If) bool {
				b, ok := iff.Cond.(*ssa.BinOp)
				if !ok || (b.Op != token.EQL && b.Op != token.NEQ) {
					return false
				}
				for _, pair := range [][2]ssa.Value{{b.X, b.Y}, {b.Y, b.X}} {
					if !isErrConst(pair[1]) {
						continue
					}
					switch x := pair[0].(type) {
					case *ssa.Field:
						if x.Field == ctIdx && holds(x.X) {
							return true
						}
					case *ssa.UnOp:
						if fa, ok := x.X.(*ssa.FieldAddr); ok && fa.Field == ctIdx {
							if a, ok := fa.X.(*ssa.Alloc); ok && allocs[a] {
								return true
							}
						}
					}
				}
				return false
			}
			ob := r.Ob(rule, fmt.Sprintf("%s: verdict of check call #%d (%s) is looked at before it is replaced", fnName(fn), k, call.Call.StaticCallee().Name()), c.pos(call.Pos()))
			problem := ""
			seen := map[*ssa.BasicBlock]bool{}
			var walk func(b *ssa.BasicBlock, from int)
			walk = func(b *ssa.BasicBlock, from int) {
				for i := from; i < len(b.Instrs) && problem == ""; i++ {
					switch x := b.Instrs[i].(type) {
					case *ssa.If:
						if isTestOfResult(x) {
							return
						}
					case *ssa.Return:
						for _, res := range x.Results {
							if holds(res) {
								return // handed to the caller, who is held to the same rule
							}
						}
						return // another verdict takes precedence on this path (error propagation from several operands is C12.R1's table)
					case *ssa.Store:
						if a, ok := x.Addr.(*ssa.Alloc); ok && allocs[a] && !vals[x.Val] {
							// the local is overwritten with something else
							if oc, ok := x.Val.(*ssa.Call); ok && isCheckFn(oc.Call.StaticCallee()) {
								continue // reported at the call below
							}
						}
					case *ssa.Call:
						if x != call && isCheckFn(x.Call.StaticCallee()) {
							for _, a := range x.Call.Args {
								if types.Identical(a.Type(), tiT) && holds(a) {
									if calleeTestsInput(x.Call.StaticCallee()) {
										return // the callee looks at the verdict it is given before doing anything else
									}
									problem = "it is passed on to " + x.Call.StaticCallee().Name() + " [" + c.pos(x.Pos()) + "] untested: the callee replaces currentType, so an error found by the earlier call is masked by whatever the later statements check to"
									return
								}
							}
						}
					}
				}
				if problem != "" {
					return
				}
				for _, s := range b.Succs {
					if !seen[s] {
						seen[s] = true
						walk(s, 0)
					}
				}
			}
			idx := 0
			for i, x := range call.Block().Instrs {
				if x == ssa.Instruction(call) {
					idx = i + 1
				}
			}
			walk(call.Block(), idx)
			used := false
			for _, ref := range *call.Referrers() {
				if _, dbg := ref.(*ssa.DebugRef); !dbg {
					used = true
				}
			}
			if !used {
				problem = "the result is never used: an error found here is dropped"
			}
			if problem == "" {
				ob.OKnt("every path from the call reaches a comparison of its currentType with PTERROR, or returns it, before another check call receives it")
			} else {
				ob.Bad(problem)
			}
		})
	}
	r.Floor(rule, "calls of check functions", ncalls, 12)
}

// ruleNoExpressionRewrites implements C11.R5: between the parser and the evaluator nobody builds process statements or expressions.
// The generator stores the parsed statements as they are; a pass that constructs new nodes (constant folding, algebraic
// simplification) decides, outside the evaluator, what an operator applied to typed operands means, and the documented coercions
// (`'7' * 1` is the number 7) are lost with the node that was dropped.
func ruleNoExpressionRewrites(c *Ctx, rule string) {
	r := c.R
	var built []string
	first := ""
	n := 0
	isProcessNode := func(t types.Type) bool {
		n, ok := deref(t).(*types.Named)
		return ok && n.Obj().Pkg() != nil && n.Obj().Pkg().Name() == "ast" && strings.HasPrefix(n.Obj().Name(), "AstProcess")
	}
	for _, pkg := range []string{"bytecode", "engine"} {
		for _, fn := range c.SrcFuncs(pkg) {
			instrsOf(fn, func(in ssa.Instruction) {
				a, ok := in.(*ssa.Alloc)
				if !ok || !isProcessNode(a.Type()) {
					return
				}
				if _, isStruct := deref(a.Type()).Underlying().(*types.Struct); !isStruct {
					return
				}
				n++
				// a literal: some field of the allocation is stored in this function
				lit := false
				for _, ref := range *a.Referrers() {
					if fa, ok := ref.(*ssa.FieldAddr); ok {
						for _, r2 := range *fa.Referrers() {
							if st, ok := r2.(*ssa.Store); ok && st.Addr == ssa.Value(fa) {
								lit = true
							}
						}
					}
				}
				if lit {
					built = append(built, fmt.Sprintf("%s builds a %s [%s]", fnName(fn), types.TypeString(deref(a.Type()), shortQual), c.pos(a.Pos())))
					if first == "" {
						first = c.pos(a.Pos())
					}
				}
			})
		}
	}
	r.Stats["process_node_locals_outside_the_parser"] = n
	ob := r.Ob(rule, "no process statement or expression is built outside the parser", first)
	if len(built) == 0 {
		ob.OKnt("packages bytecode and engine construct no AstProcess* node: the evaluator sees the expression the parser produced")
	} else {
		ob.Bad(strings.Join(uniq(built), "; ") + ": the tree the evaluator runs is no longer the tree that was written, so the documented result of an operator on given operand types can change")
	}
}
