package main

// C04.R3 (amount clause table of parse_amount) and C04.R4 (plumbing of All/Skip/Take/Last).

import (
	"fmt"
	"go/token"
	"go/types"
	"sort"
	"strings"

	"golang.org/x/tools/go/ssa"
)

// kindLiterals: the positive token-kind tests an instruction is transitively control-dependent on.
func (c *Ctx) kindLiterals(fn *ssa.Function, cds map[*ssa.BasicBlock][]CtrlEdge, b *ssa.BasicBlock) (pos []string, neg []string) {
	tokT := c.NamedType("ast", "TokenType")
	for _, l := range condsOf(cds, b) {
		bo, ok := l.Cond.(*ssa.BinOp)
		if !ok || (bo.Op != token.EQL && bo.Op != token.NEQ) {
			continue
		}
		k, ok := bo.Y.(*ssa.Const)
		if !ok || !types.Identical(k.Type(), tokT) {
			continue
		}
		name := c.constNameOf("ast", "TokenType", PConst{k.Value, k.Type()})
		p := l.Pol
		if bo.Op == token.NEQ {
			p = !p
		}
		if p {
			pos = append(pos, name)
		} else {
			neg = append(neg, name)
		}
	}
	sort.Strings(pos)
	sort.Strings(neg)
	return uniq(pos), uniq(neg)
}

func ruleAmountTable(c *Ctx, rule string) {
	r := c.R
	fn := c.Fn("ast", "parse_amount")
	if fn == nil {
		r.Ob(rule, "anchor ast.parse_amount", "").Und("not found")
		return
	}
	cds := NewPostDom(fn).ControlDeps()
	atoi := map[ssa.Value]int{}
	n := 0
	instrsOf(fn, func(in ssa.Instruction) {
		if call, ok := in.(*ssa.Call); ok && isCallTo(in, "strconv", "Atoi") {
			n++
			atoi[call] = n
		}
	})
	desc := func(v ssa.Value, at ssa.Instruction) string {
		if k, ok := v.(*ssa.Const); ok && k.Value != nil {
			return k.Value.ExactString()
		}
		if ex, ok := v.(*ssa.Extract); ok && ex.Index == 0 {
			if _, ok := atoi[ex.Tuple]; ok {
				// number the Atoi calls in dominance order relative to this return
				rank := 1
				for call := range atoi {
					if call != ex.Tuple && instrDominates(call.(ssa.Instruction), ex.Tuple.(ssa.Instruction)) && instrDominates(call.(ssa.Instruction), at) {
						rank++
					}
				}
				return fmt.Sprintf("N%d", rank)
			}
		}
		return "?" + exprStr(v)
	}
	got := map[string]string{}
	gotPos := map[string]string{}
	instrsOf(fn, func(in ssa.Instruction) {
		ret, ok := in.(*ssa.Return)
		if !ok || len(ret.Results) != 6 || !isNilConst(ret.Results[5]) {
			return
		}
		pos, neg := c.kindLiterals(fn, cds, ret.Block())
		key := strings.Join(pos, ",")
		if contains(neg, "TAKE") && contains(pos, "SKIP") {
			key += " (no TAKE)"
		}
		got[key] = fmt.Sprintf("(all=%s, skip=%s, take=%s, last=%s)", desc(ret.Results[0], ret), desc(ret.Results[1], ret), desc(ret.Results[2], ret), desc(ret.Results[3], ret))
		gotPos[key] = c.pos(ret.Pos())
	})
	r.Tables["amount_clauses"] = got
	want := map[string][2]string{
		"ALL":                   {"`all`", "(all=true, skip=0, take=0, last=0)"},
		"NUMBER,SKIP (no TAKE)": {"`skip s`", "(all=true, skip=N1, take=0, last=0)"},
		"NUMBER,SKIP,TAKE":      {"`skip s take t`", "(all=false, skip=N1, take=N2, last=0)"},
		"NUMBER,TAKE,TOP":       {"`take t` / `top t`", "(all=false, skip=0, take=N1, last=0)"},
		"LAST,NUMBER":           {"`last n`", "(all=true, skip=0, take=0, last=N1)"},
	}
	for _, k := range sortedKeys(want) {
		ob := r.Ob(rule, "parse_amount: clause "+want[k][0], gotPos[k])
		g, ok := got[k]
		if !ok {
			ob.Und(fmt.Sprintf("no success return found under the token tests {%s}; found clauses: %v", k, sortedKeys(got)))
			continue
		}
		if g == want[k][1] {
			ob.OKnt("returns " + g)
		} else {
			ob.Bad(fmt.Sprintf("%s returns %s; the window semantics requires %s", want[k][0], g, want[k][1]))
		}
	}
}

// rulePlumbing implements C04.R4: the four window values keep their identity from the parser to findMatches, for find and replace.
func rulePlumbing(c *Ctx, rule string) {
	r := c.R
	fields := []string{"All", "Skip", "Take", "Last"}
	// 1. parse_find / parse_replace: AstFind{All: r0, Skip: r1, Take: r2, Last: r3} from parse_amount's results
	pa := c.Fn("ast", "parse_amount")
	for _, name := range []string{"parse_find", "parse_replace"} {
		fn := c.Fn("ast", name)
		ob := r.Ob(rule, name+": amount results go to the like-named AST fields", "")
		if fn == nil || pa == nil {
			ob.Und("function not found")
			continue
		}
		ob.Pos = c.pos(fn.Pos())
		got := map[string]string{}
		instrsOf(fn, func(in ssa.Instruction) {
			st, ok := in.(*ssa.Store)
			if !ok {
				return
			}
			fa, ok := st.Addr.(*ssa.FieldAddr)
			if !ok {
				return
			}
			fname := fieldName(deref(fa.X.Type()), fa.Field)
			if ex, ok := st.Val.(*ssa.Extract); ok {
				if call, ok := ex.Tuple.(*ssa.Call); ok && call.Call.StaticCallee() == pa {
					got[fname] = fmt.Sprintf("#%d", ex.Index)
				}
			}
		})
		var bad []string
		for i, f := range fields {
			if got[f] != fmt.Sprintf("#%d", i) {
				bad = append(bad, fmt.Sprintf("%s <- result %s (expected #%d)", f, got[f], i))
			}
		}
		if len(bad) == 0 {
			ob.OKnt("All, Skip, Take, Last <- results #0..#3 of parse_amount")
		} else {
			ob.Bad(strings.Join(bad, "; "))
		}
	}
	// 2. generators copy like-named fields
	for _, name := range []string{"generateFindCommand", "generateReplaceCommand"} {
		fn := c.Fn("bytecode", name)
		ob := r.Ob(rule, name+": command fields are copied from the like-named AST fields", "")
		if fn == nil {
			ob.Und("function not found")
			continue
		}
		ob.Pos = c.pos(fn.Pos())
		got := map[string]string{}
		instrsOf(fn, func(in ssa.Instruction) {
			st, ok := in.(*ssa.Store)
			if !ok {
				return
			}
			fa, ok := st.Addr.(*ssa.FieldAddr)
			if !ok {
				return
			}
			if u, ok := st.Val.(*ssa.UnOp); ok {
				if src, ok := u.X.(*ssa.FieldAddr); ok {
					got[fieldName(deref(fa.X.Type()), fa.Field)] = fieldName(deref(src.X.Type()), src.Field)
				}
			}
		})
		var bad []string
		for _, f := range fields {
			if got[f] != f {
				bad = append(bad, fmt.Sprintf("%s <- %s", f, got[f]))
			}
		}
		if len(bad) == 0 {
			ob.OKnt("All<-All, Skip<-Skip, Take<-Take, Last<-Last")
		} else {
			ob.Bad("field mix-up: " + strings.Join(bad, "; "))
		}
	}
	// 3. searchFind and searchReplace call findMatches with the same argument shape
	fm := c.Fn("engine", "findMatches")
	var shapes []string
	for _, name := range []string{"searchFind", "searchReplace"} {
		fn := c.Fn("engine", name)
		ob := r.Ob(rule, name+": findMatches receives Body, All, Skip, Take, Last in parameter order", "")
		if fn == nil || fm == nil {
			ob.Und("function not found")
			continue
		}
		ob.Pos = c.pos(fn.Pos())
		shape := ""
		instrsOf(fn, func(in ssa.Instruction) {
			if call, ok := in.(*ssa.Call); ok && call.Call.StaticCallee() == fm {
				var as []string
				for _, a := range call.Call.Args {
					s := exprStr(a)
					if i := strings.LastIndex(s, "."); i >= 0 {
						s = s[i+1:]
					}
					as = append(as, s)
				}
				shape = strings.Join(as, ", ")
			}
		})
		shapes = append(shapes, shape)
		var pn []string
		for _, p := range fm.Params {
			pn = append(pn, p.Name())
		}
		want := "Body, All, Skip, Take, Last, filename, reader"
		if shape == want {
			ob.OKnt("findMatches(" + shape + ") for parameters (" + strings.Join(pn, ", ") + ")")
		} else {
			ob.Bad("findMatches is called with (" + shape + "), expected (" + want + ")")
		}
	}
}
