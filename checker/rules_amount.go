package main

// C04.R3 (amount clause table of parse_amount) and C04.R4 (plumbing of All/Skip/Take/Last).

import (
	"fmt"
	"go/token"
	"go/types"
	"sort"
	"strings"

	"golang.org/x/tools/go/ssa"
)

// kindLiterals: the positive token-kind tests an instruction is transitively control-dependent on.
func (c *Ctx) kindLiterals(fn *ssa.Function, cds map[*ssa.BasicBlock][]CtrlEdge, b *ssa.BasicBlock) (pos []string, neg []string) {
	tokT := c.NamedType("ast", "TokenType")
	for _, l := range condsOf(cds, b) {
		bo, ok := l.Cond.(*ssa.BinOp)
		if !ok || (bo.Op != token.EQL && bo.Op != token.NEQ) {
			continue
		}
		k, ok := bo.Y.(*ssa.Const)
		if !ok || !types.Identical(k.Type(), tokT) {
			continue
		}
		name := c.constNameOf("ast", "TokenType", PConst{k.Value, k.Type()})
		p := l.Pol
		if bo.Op == token.NEQ {
			p = !p
		}
		if p {
			pos = append(pos, name)
		} else {
			neg = append(neg, name)
		}
	}
	sort.Strings(pos)
	sort.Strings(neg)
	return uniq(pos), uniq(neg)
}

func ruleAmountTable(c *Ctx, rule string) {
	r := c.R
	fn := c.Fn("ast", "parse_amount")
	if fn == nil {
		r.Ob(rule, "anchor ast.parse_amount", "").Und("not found")
		return
	}
	cds := NewPostDom(fn).ControlDeps()
	atoi := map[ssa.Value]int{}
	n := 0
	instrsOf(fn, func(in ssa.Instruction) {
		if call, ok := in.(*ssa.Call); ok && isCallTo(in, "strconv", "Atoi") {
			n++
			atoi[call] = n
		}
	})
	// a non-constant result is "the k-th number read": distinct values are ranked by dominance order
	desc := func(v ssa.Value, at ssa.Instruction) string {
		if k, ok := v.(*ssa.Const); ok && k.Value != nil {
			return k.Value.ExactString()
		}
		ret := at.(*ssa.Return)
		var others []ssa.Value
		for _, o := range ret.Results[:4] {
			if _, isConst := o.(*ssa.Const); !isConst && o != v {
				others = append(others, o)
			}
		}
		rank := 1
		vi, ok := v.(ssa.Instruction)
		if !ok {
			return "?" + exprStr(v)
		}
		for _, o := range others {
			if oi, ok := o.(ssa.Instruction); ok && instrDominates(oi, vi) {
				rank++
			}
		}
		return fmt.Sprintf("N%d", rank)
	}
	type retInfo struct {
		pos, neg []string
		tuple    string
		at       string
	}
	var rets []retInfo
	instrsOf(fn, func(in ssa.Instruction) {
		ret, ok := in.(*ssa.Return)
		if !ok || len(ret.Results) != 6 || !isNilConst(ret.Results[5]) {
			return
		}
		pos, neg := c.kindLiterals(fn, cds, ret.Block())
		rets = append(rets, retInfo{pos, neg,
			fmt.Sprintf("(all=%s, skip=%s, take=%s, last=%s)", desc(ret.Results[0], ret), desc(ret.Results[1], ret), desc(ret.Results[2], ret), desc(ret.Results[3], ret)),
			c.pos(ret.Pos())})
	})
	got := map[string]string{}
	for _, ri := range rets {
		got[strings.Join(ri.pos, ",")+" !"+strings.Join(ri.neg, ",")] = ri.tuple
	}
	r.Tables["amount_clauses"] = got
	// a clause is identified by the clause keywords it requires and excludes; aliases (an extra keyword that selects the same
	// return) do not change its identity
	type clause struct {
		name         string
		need, forbid []string
		want         string
	}
	clauses := []clause{
		{"`all`", []string{"ALL"}, nil, "(all=true, skip=0, take=0, last=0)"},
		{"`skip s`", []string{"SKIP"}, []string{"TAKE"}, "(all=true, skip=N1, take=0, last=0)"},
		{"`skip s take t`", []string{"SKIP", "TAKE"}, nil, "(all=false, skip=N1, take=N2, last=0)"},
		{"`take t`", []string{"TAKE"}, []string{"SKIP"}, "(all=false, skip=0, take=N1, last=0)"},
		{"`top t`", []string{"TOP"}, []string{"SKIP"}, "(all=false, skip=0, take=N1, last=0)"},
		{"`last n`", []string{"LAST"}, nil, "(all=true, skip=0, take=0, last=N1)"},
	}
	for _, cl := range clauses {
		ob := r.Ob(rule, "parse_amount: clause "+cl.name, c.pos(fn.Pos()))
		var matches []retInfo
		for _, ri := range rets {
			ok := true
			for _, k := range cl.need {
				if !contains(ri.pos, k) {
					ok = false
				}
			}
			for _, k := range cl.forbid {
				// excluded either by a negative test or by not being required positively on this path
				if contains(ri.pos, k) && !contains(ri.neg, k) {
					// `TAKE || TOP` makes both positive on the shared return: accept when the clause's own keyword is there too
					if !(k == "SKIP") && contains(cl.need, "TAKE") || contains(cl.need, "TOP") {
						continue
					}
					ok = false
				}
			}
			if cl.name == "`skip s`" && !contains(ri.neg, "TAKE") {
				ok = false
			}
			if ok {
				matches = append(matches, ri)
			}
		}
		if len(matches) == 0 {
			ob.Und(fmt.Sprintf("no success return of parse_amount is controlled by the token tests %v; extracted: %v", cl.need, sortedKeys(got)))
			continue
		}
		bad := ""
		for _, m := range matches {
			ob.Pos = m.at
			if m.tuple != cl.want {
				bad = m.tuple
			}
		}
		if bad == "" {
			ob.OKnt("returns " + cl.want)
		} else {
			ob.Bad(fmt.Sprintf("%s returns %s; the window semantics requires %s", cl.name, bad, cl.want))
		}
	}
}

// rulePlumbing implements C04.R4: the four window values keep their identity from the parser to findMatches, for find and replace.
func rulePlumbing(c *Ctx, rule string) {
	r := c.R
	fields := []string{"All", "Skip", "Take", "Last"}
	// 1. parse_find / parse_replace: AstFind{All: r0, Skip: r1, Take: r2, Last: r3} from parse_amount's results
	pa := c.Fn("ast", "parse_amount")
	for _, name := range []string{"parse_find", "parse_replace"} {
		fn := c.Fn("ast", name)
		ob := r.Ob(rule, name+": amount results go to the like-named AST fields", "")
		if fn == nil || pa == nil {
			ob.Und("function not found")
			continue
		}
		ob.Pos = c.pos(fn.Pos())
		got := map[string]string{}
		instrsOf(fn, func(in ssa.Instruction) {
			st, ok := in.(*ssa.Store)
			if !ok {
				return
			}
			fa, ok := st.Addr.(*ssa.FieldAddr)
			if !ok {
				return
			}
			fname := fieldName(deref(fa.X.Type()), fa.Field)
			if ex, ok := st.Val.(*ssa.Extract); ok {
				if call, ok := ex.Tuple.(*ssa.Call); ok && call.Call.StaticCallee() == pa {
					got[fname] = fmt.Sprintf("#%d", ex.Index)
				}
			}
			// parse_amount answers one record: its like-named field
			var rec ssa.Value
			recField := ""
			switch x := st.Val.(type) {
			case *ssa.Field:
				rec, recField = x.X, fieldName(x.X.Type(), x.Field)
			case *ssa.UnOp:
				if src, ok := x.X.(*ssa.FieldAddr); ok {
					recField = fieldName(deref(src.X.Type()), src.Field)
					if a, ok := src.X.(*ssa.Alloc); ok {
						for _, ref := range *a.Referrers() {
							if s2, ok := ref.(*ssa.Store); ok && s2.Addr == ssa.Value(a) {
								rec = s2.Val
							}
						}
					}
				}
			}
			if ex, ok := rec.(*ssa.Extract); ok && ex.Index == 0 {
				if call, ok := ex.Tuple.(*ssa.Call); ok && call.Call.StaticCallee() == pa {
					got[fname] = "field " + strings.ToLower(recField)
				}
			}
		})
		var bad []string
		byField := false
		for i, f := range fields {
			if got[f] == "field "+strings.ToLower(f) {
				byField = true
				continue
			}
			if got[f] != fmt.Sprintf("#%d", i) {
				bad = append(bad, fmt.Sprintf("%s <- result %s (expected #%d)", f, got[f], i))
			}
		}
		switch {
		case len(bad) == 0 && byField:
			ob.OKnt("All, Skip, Take, Last <- the like-named fields of the record parse_amount answers")
		case len(bad) == 0:
			ob.OKnt("All, Skip, Take, Last <- results #0..#3 of parse_amount")
		case len(got) == 0:
			ob.Und("no result of parse_amount is stored into an AST field in a form this rule reads")
		default:
			ob.Bad(strings.Join(bad, "; "))
		}
	}
	// 2. generators copy like-named fields
	for _, name := range []string{"generateFindCommand", "generateReplaceCommand"} {
		fn := c.Fn("bytecode", name)
		ob := r.Ob(rule, name+": command fields are copied from the like-named AST fields", "")
		if fn == nil {
			ob.Und("function not found")
			continue
		}
		ob.Pos = c.pos(fn.Pos())
		got := map[string]string{}
		instrsOf(fn, func(in ssa.Instruction) {
			st, ok := in.(*ssa.Store)
			if !ok {
				return
			}
			fa, ok := st.Addr.(*ssa.FieldAddr)
			if !ok {
				return
			}
			if u, ok := st.Val.(*ssa.UnOp); ok {
				if src, ok := u.X.(*ssa.FieldAddr); ok {
					got[fieldName(deref(fa.X.Type()), fa.Field)] = fieldName(deref(src.X.Type()), src.Field)
				}
			}
		})
		var bad []string
		for _, f := range fields {
			if got[f] != f {
				bad = append(bad, fmt.Sprintf("%s <- %s", f, got[f]))
			}
		}
		if len(bad) == 0 {
			ob.OKnt("All<-All, Skip<-Skip, Take<-Take, Last<-Last")
		} else {
			ob.Bad("field mix-up: " + strings.Join(bad, "; "))
		}
	}
	// 3. searchFind and searchReplace call findMatches with the same argument shape
	fm := c.Fn("engine", "findMatches")
	for _, name := range []string{"searchFind", "searchReplace"} {
		fn := c.Fn("engine", name)
		ob := r.Ob(rule, name+": findMatches receives Body, All, Skip, Take, Last in parameter order", "")
		if fn == nil || fm == nil {
			ob.Und("function not found")
			continue
		}
		ob.Pos = c.pos(fn.Pos())
		// every argument that is a field of the command must arrive in the parameter of the same name; a struct that bundles the four
		// values must be filled field by field from the like-named command fields
		var call *ssa.Call
		instrsOf(fn, func(in ssa.Instruction) {
			if cl, ok := in.(*ssa.Call); ok && cl.Call.StaticCallee() == fm {
				call = cl
			}
		})
		if call == nil {
			ob.Und("no call to findMatches")
			continue
		}
		cmdField := func(v ssa.Value) string {
			if u, ok := v.(*ssa.UnOp); ok && u.Op == token.MUL {
				if fa, ok := u.X.(*ssa.FieldAddr); ok {
					return fieldName(deref(fa.X.Type()), fa.Field)
				}
			}
			if f, ok := v.(*ssa.Field); ok {
				return fieldName(f.X.Type(), f.Field)
			}
			return ""
		}
		window := map[string]bool{"all": true, "skip": true, "take": true, "last": true}
		var bad, und, okd []string
		seen := map[string]bool{}
		for i, a := range call.Call.Args {
			if i >= len(fm.Params) {
				break
			}
			pname := strings.ToLower(fm.Params[i].Name())
			if f := cmdField(a); f != "" {
				lf := strings.ToLower(f)
				if window[lf] || window[pname] {
					seen[lf] = true
					if lf == pname {
						okd = append(okd, f+"->"+fm.Params[i].Name())
					} else {
						bad = append(bad, fmt.Sprintf("the command's %s arrives in parameter %s", f, fm.Params[i].Name()))
					}
				}
				continue
			}
			// a struct built here: its fields, by name
			var lit *ssa.Alloc
			if u, ok := a.(*ssa.UnOp); ok && u.Op == token.MUL {
				lit, _ = u.X.(*ssa.Alloc)
			}
			if lit != nil {
				for _, ref := range *lit.Referrers() {
					fa, ok := ref.(*ssa.FieldAddr)
					if !ok {
						continue
					}
					dst := strings.ToLower(fieldName(deref(fa.X.Type()), fa.Field))
					for _, r2 := range *fa.Referrers() {
						if st, ok := r2.(*ssa.Store); ok && st.Addr == ssa.Value(fa) {
							src := strings.ToLower(cmdField(st.Val))
							if !window[dst] && !window[src] {
								continue
							}
							seen[src] = true
							if src == dst {
								okd = append(okd, src+"->"+fm.Params[i].Name()+"."+dst)
							} else if src == "" {
								und = append(und, "field "+dst+" is not filled from a field of the command")
							} else {
								bad = append(bad, fmt.Sprintf("the command's %s is stored into field %s of the window handed to findMatches", src, dst))
							}
						}
					}
				}
				continue
			}
			if window[pname] {
				und = append(und, "parameter "+fm.Params[i].Name()+" receives "+exprStr(a))
			}
		}
		for w := range window {
			if !seen[w] {
				und = append(und, "the command's "+w+" was not found among the arguments")
			}
		}
		sort.Strings(und)
		switch {
		case len(bad) > 0:
			ob.Bad("window values change their role between the command and findMatches: " + strings.Join(bad, "; "))
		case len(und) > 0:
			ob.Und(strings.Join(uniq(und), "; "))
		default:
			sort.Strings(okd)
			ob.OKnt("findMatches receives " + strings.Join(okd, ", "))
		}
	}
}
