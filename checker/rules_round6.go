package main

import (
	"fmt"
	"go/constant"
	"go/token"
	"go/types"
	"sort"
	"strings"
	"unicode/utf8"

	"golang.org/x/tools/go/ssa"
)

// Round 6 rules.

// ---------------------------------------------------------------------------------------------
// C01.R15 (also C09, C10, C13): instructions that only steer the machine cannot fail.
//
// Of the VM's instructions, some compare the input or a counter with something and may give up (literals, classes, ranges,
// back-references, loop bounds, predicates, the end markers of `not in`); the others only move the machine: a call pushes a frame
// and jumps, a jump jumps, a branch saves alternatives, the markers of a capture and of a subroutine record positions. For the
// second kind nothing in the input can make them fail; a handler of one of them from which BACKTRACK is reachable has grown a
// reason to fail that no program expresses (a depth limit, a quota), and the matches that needed the instruction are lost.
//
// The table is the reading of today's handlers, one line of reason each; an instruction type that is not found answers UNDECIDED.
var steeringInstructions = []struct{ typ, why string }{
	{"CallSubroutine", "a call records where to come back to and jumps to the body"},
	{"Jump", "a jump sets the program counter"},
	{"Branch", "a branch saves a checkpoint per alternative and enters the first"},
	{"StartNotIn", "the start of a `not in` list saves the checkpoint its end returns to"},
	{"StartVarDec", "the start of a capture records the length of the text matched so far"},
	{"EndVarDec", "the end of a capture binds the text matched since its start"},
	{"StartSubroutine", "falling into a definition enters it like a call"},
}

func ruleSteeringInstructionsCannotFail(c *Ctx, rule string) {
	r := c.R
	bt := c.Method("engine", "SearchEngineState", "BACKTRACK")
	if bt == nil {
		r.Ob(rule, "anchor (*SearchEngineState).BACKTRACK", "").Und("not found")
		return
	}
	// handlers by the instruction type they take
	handlers := map[string][]*ssa.Function{}
	for _, fn := range c.SrcFuncs("engine") {
		if fn.Signature.Recv() != nil || len(fn.Params) < 2 {
			continue
		}
		nt, ok := deref(fn.Params[0].Type()).(*types.Named)
		if !ok || nt.Obj().Pkg() == nil || nt.Obj().Pkg().Path() != modRoot+"/libvore/bytecode" {
			continue
		}
		handlers[nt.Obj().Name()] = append(handlers[nt.Obj().Name()], fn)
	}
	n := 0
	for _, si := range steeringInstructions {
		ob := r.Ob(rule, "the handler of bytecode."+si.typ+" cannot fail", "")
		hs := handlers[si.typ]
		if len(hs) == 0 {
			ob.Und("no function of package engine takes a bytecode." + si.typ + " (handlers inlined into the dispatcher are not read)")
			continue
		}
		n++
		ob.Pos = c.pos(hs[0].Pos())
		// reachability of BACKTRACK through functions of package engine, with the path as the witness
		var witness []string
		for _, h := range hs {
			if path := c.reachesInPkg(h, bt); path != "" {
				witness = append(witness, path)
			}
		}
		sort.Strings(witness)
		if len(witness) > 0 {
			ob.Bad(fmt.Sprintf("%s, yet its handler can give up: %s. Nothing in the program or the input asks for that failure; the matches that needed this instruction are lost (or, when a caller goes on as if it had succeeded, the machine runs on from a restored state)", si.why, strings.Join(witness, "; ")))
		} else {
			ob.OKnt(si.why + "; BACKTRACK is not reachable from " + fnName(hs[0]))
		}
	}
	r.Floor(rule, "handlers of steering instructions found", n, 5)
}

// ---------------------------------------------------------------------------------------------
// C02.R11 (also C13): what a command declares wins over a stored definition of the same name.
//
// A reference `x` means the command's own `= x` (a back-reference to the captured text) or its own subroutine when there is one,
// and a `set x to pattern ...` only otherwise. In the generator that is an order of two lookups: the stored definitions
// (GenState.globalSubroutines) may be consulted for a name only where the lookup of that name in the command's scope
// (GenState.variables) has missed. A function that reads a stored definition without having looked in the scope hands the
// obligation to its call sites.
func ruleScopeBeforeDefinitions(c *Ctx, rule string) {
	r := c.R
	gs := c.NamedType("bytecode", "GenState")
	if gs == nil {
		r.Ob(rule, "anchor bytecode.GenState", "").Und("not found")
		return
	}
	tableOfLookup := func(lk *ssa.Lookup) string {
		for _, s := range traceAddr(lk.X).Steps {
			if s.Kind == "field" && types.Identical(s.Struct, gs) {
				return s.Field
			}
		}
		return ""
	}
	// does block b lie behind a miss of a scope lookup of `key` (printed) in fn?
	behindMiss := func(fn *ssa.Function, b *ssa.BasicBlock, key string) (bool, bool) {
		cds := NewPostDom(fn).ControlDeps()
		sawScope := false
		instrsOf(fn, func(in ssa.Instruction) {
			if lk, ok := in.(*ssa.Lookup); ok && lk.CommaOk && tableOfLookup(lk) == "variables" {
				sawScope = true
			}
		})
		for _, l := range condsOf(cds, b) {
			v, pol := l.Cond, l.Pol
			for {
				u, isNot := v.(*ssa.UnOp)
				if !isNot || u.Op != token.NOT {
					break
				}
				v, pol = u.X, !pol
			}
			ex, ok := v.(*ssa.Extract)
			if !ok || ex.Index != 1 || pol {
				continue
			}
			lk, ok := ex.Tuple.(*ssa.Lookup)
			if !ok || tableOfLookup(lk) != "variables" {
				continue
			}
			if key == "" || exprStr(lk.Index) == key {
				return true, sawScope
			}
		}
		return false, sawScope
	}
	n := 0
	for _, fn := range c.SrcFuncs("bytecode") {
		instrsOf(fn, func(in ssa.Instruction) {
			lk, ok := in.(*ssa.Lookup)
			if !ok || tableOfLookup(lk) != "globalSubroutines" {
				return
			}
			n++
			ob := r.Ob(rule, fnName(fn)+": a stored definition is read only for a name the command does not declare", c.pos(lk.Pos()))
			key := exprStr(lk.Index)
			if ok, _ := behindMiss(fn, lk.Block(), key); ok {
				ob.OKnt("globalSubroutines[" + key + "] is read behind a miss of variables[" + key + "]")
				return
			}
			if _, saw := behindMiss(fn, lk.Block(), key); saw {
				ob.Bad("globalSubroutines[" + key + "] is read on a path on which variables[" + key + "] has not missed: a `set " + "x to pattern` takes a reference away from the command's own capture or subroutine `x`, so the back-reference matches whatever the pattern matches instead of the captured text")
				return
			}
			// the function does not look into the scope itself: its call sites must
			var prm *ssa.Parameter
			if root, ok := traceAddr(lk.Index).Root.(*ssa.Parameter); ok {
				prm = root
			}
			callers := c.callersIn("bytecode", fn)
			if len(callers) == 0 {
				ob.Und("the scope is not consulted here and the function has no caller in the package")
				return
			}
			for _, caller := range callers {
				for _, cl := range callsTo(caller, fn) {
					k := ""
					if prm != nil {
						for i, p := range fn.Params {
							if p == prm && i < len(cl.Call.Args) {
								k = exprStr(cl.Call.Args[i])
							}
						}
					}
					okSite, saw := behindMiss(caller, cl.Block(), k)
					if okSite {
						continue
					}
					if saw {
						ob.Bad("the stored definition is read in " + fnName(fn) + ", which " + fnName(caller) + " calls at " + c.pos(cl.Pos()) + " on a path on which the lookup in the command's scope has not missed: a `set x to pattern` takes a reference away from the command's own `x`")
					} else {
						ob.Und("neither " + fnName(fn) + " nor its caller " + fnName(caller) + " looks the name up in the command's scope")
					}
					return
				}
			}
			ob.OKnt("read in a helper whose call sites all lie behind a miss of the lookup in the command's scope")
		})
	}
	r.Floor(rule, "reads of stored definitions in the generator", n, 1)
}

// ---------------------------------------------------------------------------------------------
// C15.R10 / C16.R10: the lexer looks ahead by a fixed, small number of bytes and never asks how much is buffered.
//
// The source reaches the lexer through a bufio.Reader. How many bytes it holds at a time (Buffered) is an accident of the reads
// that filled it, not a property of the program text: a decision taken from it - "no newline in what is buffered, so the comment
// runs to the end", "no closing quote in sight" - changes where a token ends when the source is longer than one buffer. A Peek of
// a constant few bytes (at most bufio's minimum buffer, 16) is answered the same wherever the buffer boundary falls.
func ruleLexerLookaheadFixed(c *Ctx, rule string) {
	r := c.R
	n := 0
	for _, fn := range c.SrcFuncs("ast") {
		instrsOf(fn, func(in ssa.Instruction) {
			call, ok := in.(ssa.CallInstruction)
			if !ok {
				return
			}
			sc := call.Common().StaticCallee()
			if sc == nil || sc.Pkg == nil || sc.Pkg.Pkg.Path() != "bufio" || sc.Signature.Recv() == nil {
				return
			}
			switch sc.Name() {
			case "Buffered", "Size", "Discard", "ReadSlice", "ReadLine", "ReadString", "ReadBytes", "WriteTo":
				n++
				ob := r.Ob(rule, fmt.Sprintf("%s: the lexer does not depend on how the source is buffered (%s)", fnName(fn), sc.Name()), c.pos(in.Pos()))
				if sc.Name() == "Buffered" || sc.Name() == "Size" || sc.Name() == "ReadSlice" || sc.Name() == "ReadLine" {
					ob.Bad("bufio.Reader." + sc.Name() + " answers in terms of the buffer, whose boundaries fall wherever the reads of the underlying source happened to end: a token that crosses a boundary (a comment or a string in a source longer than one buffer) is cut there")
				} else {
					ob.OKnt("works across buffer boundaries")
				}
			case "Peek":
				n++
				ob := r.Ob(rule, fmt.Sprintf("%s: look-ahead of a fixed, small number of bytes", fnName(fn)), c.pos(in.Pos()))
				args := call.Common().Args
				if k, ok := constInt(args[len(args)-1]); ok && k >= 0 && k <= 16 {
					ob.OKnt(fmt.Sprintf("Peek(%d)", k))
				} else if ok {
					ob.Bad(fmt.Sprintf("Peek(%d) asks for more than every bufio.Reader can hold (16 bytes)", k))
				} else {
					ob.Bad("Peek(" + exprStr(args[len(args)-1]) + "): the amount looked ahead is computed (from what is buffered, or from the text), so what the lexer sees depends on where the buffer boundary falls")
				}
			}
		})
	}
	r.Floor(rule, "look-ahead sites in the lexer", n, 1)
}

// ---------------------------------------------------------------------------------------------
// C17.R6: rendering does not reorder.
//
// Object i of the JSON array is match i of the list: nothing that renders matches (Json, FormattedJson, MarshalJSON, Print) may
// reach a sorting routine.
func ruleRenderingKeepsOrder(c *Ctx, rule string) {
	r := c.R
	var roots []*ssa.Function
	for _, fn := range c.SrcFuncs("engine") {
		switch fn.Name() {
		case "Json", "FormattedJson", "MarshalJSON", "Print":
			if fn.Signature.Recv() != nil {
				roots = append(roots, fn)
			}
		}
	}
	n := 0
	for _, root := range roots {
		n++
		ob := r.Ob(rule, fnName(root)+": renders in the order of the list", c.pos(root.Pos()))
		prev := map[*ssa.Function]*ssa.Function{root: nil}
		work := []*ssa.Function{root}
		var hit *ssa.Function
		var hitAt string
		for len(work) > 0 && hit == nil {
			f := work[0]
			work = work[1:]
			instrsOf(f, func(in ssa.Instruction) {
				call, ok := in.(ssa.CallInstruction)
				if !ok || hit != nil {
					return
				}
				for _, callee := range c.calleesOf(call) {
					if callee.Pkg != nil {
						p := callee.Pkg.Pkg.Path()
						if p == "sort" || (p == "slices" && strings.HasPrefix(callee.Name(), "Sort")) {
							// encoding/json sorts map keys itself, and a table of variables has no order of its own: what counts is a
							// sort, made by repository code, of a list of matches
							if c.isRepoFn(f) && sortsMatches(call) {
								hit, hitAt = f, c.pos(in.Pos())
								return
							}
						}
					}
					if !c.isRepoFn(callee) {
						continue
					}
					if _, seen := prev[callee]; !seen {
						prev[callee] = f
						work = append(work, callee)
					}
				}
			})
		}
		if hit != nil {
			ob.Bad("a sorting routine is called at " + hitAt + " (in " + fnName(hit) + "), reachable from this rendering: the rendered list is in a different order from the list the program holds, and from the other renderings that do not pass there")
		} else {
			ob.OKnt(fmt.Sprintf("no call into sort/slices.Sort* from the %d repository function(s) reachable", len(prev)))
		}
	}
	r.Floor(rule, "rendering methods of package engine", n, 4)
}

// ---------------------------------------------------------------------------------------------
// C19.R7: the parser's lock is not held while the source is read.
//
// The lock that serialises the group counter is process-wide. A region that holds it must not wait for anything outside the
// process: no read from the caller's io.Reader (a pipe, standard input) may happen between Lock and Unlock, or one slow source
// stalls every Compile of the process and two compilations that feed each other deadlock.
func ruleLockNotHeldAcrossReads(c *Ctx, rule string) {
	r := c.R
	n := 0
	isLock := func(in ssa.Instruction) bool {
		call, ok := in.(ssa.CallInstruction)
		if !ok {
			return false
		}
		sc := call.Common().StaticCallee()
		return sc != nil && sc.Pkg != nil && sc.Pkg.Pkg.Path() == "sync" && (sc.Name() == "Lock" || sc.Name() == "RLock")
	}
	readsSource := func(in ssa.Instruction) string {
		call, ok := in.(ssa.CallInstruction)
		if !ok {
			return ""
		}
		cc := call.Common()
		if cc.IsInvoke() {
			if nt, ok := cc.Value.Type().(*types.Named); ok && nt.Obj().Pkg() != nil && nt.Obj().Pkg().Path() == "io" && strings.HasPrefix(cc.Method.Name(), "Read") {
				return "io." + nt.Obj().Name() + "." + cc.Method.Name()
			}
			return ""
		}
		if sc := cc.StaticCallee(); sc != nil && sc.Pkg != nil && sc.Signature.Recv() != nil {
			p := sc.Pkg.Pkg.Path()
			if (p == "bufio" || p == "os") && (strings.HasPrefix(sc.Name(), "Read") || sc.Name() == "Peek") {
				return p + "." + sc.Name()
			}
		}
		if sc := cc.StaticCallee(); sc != nil && sc.Pkg != nil && sc.Pkg.Pkg.Path() == "io" && (sc.Name() == "ReadAll" || sc.Name() == "ReadFull" || sc.Name() == "Copy") {
			return "io." + sc.Name()
		}
		return ""
	}
	for _, pkg := range []string{"ast", "bytecode", "libvore"} {
		for _, fn := range c.SrcFuncs(pkg) {
			var locks []ssa.Instruction
			instrsOf(fn, func(in ssa.Instruction) {
				if isLock(in) {
					locks = append(locks, in)
				}
			})
			if len(locks) == 0 {
				continue
			}
			live := newLiveCFG(fn)
			for _, lk := range locks {
				n++
				ob := r.Ob(rule, fnName(fn)+": nothing read from the source while the lock is held", c.pos(lk.Pos()))
				// conservatively: everything that can execute after the Lock in this function (the unlock is deferred or last)
				witness := ""
				seen := map[*ssa.Function]bool{}
				var reach func(f *ssa.Function, depth int) string
				reach = func(f *ssa.Function, depth int) string {
					if seen[f] || depth > 8 {
						return ""
					}
					seen[f] = true
					out := ""
					instrsOf(f, func(in ssa.Instruction) {
						if out != "" {
							return
						}
						if w := readsSource(in); w != "" {
							out = w + " at " + c.pos(in.Pos()) + " (in " + fnName(f) + ")"
							return
						}
						if call, ok := in.(ssa.CallInstruction); ok {
							for _, callee := range c.calleesOf(call) {
								if c.isRepoFn(callee) {
									if w := reach(callee, depth+1); w != "" {
										out = w
										return
									}
								}
							}
						}
					})
					return out
				}
				instrsOf(fn, func(in ssa.Instruction) {
					if witness != "" || in == lk || !live.after(lk, in) {
						return
					}
					if w := readsSource(in); w != "" {
						witness = w + " at " + c.pos(in.Pos())
						return
					}
					if call, ok := in.(ssa.CallInstruction); ok {
						if _, isDefer := in.(*ssa.Defer); isDefer {
							return
						}
						for _, callee := range c.calleesOf(call) {
							if c.isRepoFn(callee) {
								if w := reach(callee, 0); w != "" {
									witness = w
									return
								}
							}
						}
					}
				})
				if witness != "" {
					ob.Bad("after the lock is taken the function can reach " + witness + ": the process-wide lock is held while the source is read, so a slow source (pipe, standard input) stalls every other compilation and compilations that feed each other deadlock")
				} else {
					ob.OKnt("no read from an io.Reader, bufio.Reader or file is reachable after the Lock")
				}
			}
		}
	}
	r.Floor(rule, "lock acquisitions in the compile path", n, 1)
}

// sortsMatches: one of the call's arguments is a slice of engine.Match (possibly wrapped in an interface, as sort.Slice takes it).
func sortsMatches(call ssa.CallInstruction) bool {
	for _, a := range call.Common().Args {
		if mi, ok := a.(*ssa.MakeInterface); ok {
			a = mi.X
		}
		if sl, ok := a.Type().Underlying().(*types.Slice); ok {
			if nt, ok := sl.Elem().(*types.Named); ok && nt.Obj().Name() == "Match" && nt.Obj().Pkg() != nil && strings.HasSuffix(nt.Obj().Pkg().Path(), "/engine") {
				return true
			}
		}
	}
	return false
}

// ---------------------------------------------------------------------------------------------
// C01.R16 / C16.R11: a literal instruction carries one literal of the program, unchanged.
//
// What MATCH compares the input with, and how many bytes it reads for that, is MatchLiteral.ToFind. Wherever the generator builds
// a MatchLiteral, its text and its two flags must be the Value, Not and Caseless of one and the same AST string node: no case
// mapping, trimming or joining on the way (lower-casing changes the byte length of some characters and is not case folding; a
// joined literal has one pair of flags for two literals).
func ruleLiteralInstructionIsTheLiteral(c *Ctx, rule string) {
	r := c.R
	n := 0
	for _, fn := range c.SrcFuncs("bytecode") {
		got := literalFields(fn, "MatchLiteral")
		if len(got) == 0 {
			continue
		}
		n++
		ob := r.Ob(rule, fnName(fn)+": the MatchLiteral it builds is one AST literal, unchanged", c.pos(fn.Pos()))
		text, not, caseless := got["ToFind"], got["Not"], got["Caseless"]
		// a text chosen among several (a φ): every alternative must be the node's Value; one that is computed is the witness
		if strings.HasPrefix(text, "φ") {
			var val ssa.Value
			instrsOf(fn, func(in ssa.Instruction) {
				if st, ok := in.(*ssa.Store); ok {
					if fa, ok := st.Addr.(*ssa.FieldAddr); ok && fieldName(deref(fa.X.Type()), fa.Field) == "ToFind" {
						val = st.Val
					}
				}
			})
			leafTexts := map[string]bool{}
			computed := ""
			if val != nil {
				for _, leaf := range phiLeaves(val, nil) {
					switch leaf.(type) {
					case *ssa.Call, *ssa.BinOp, *ssa.Slice, *ssa.Convert:
						computed = exprStr(leaf)
					}
					leafTexts[exprStr(leaf)] = true
				}
			}
			switch {
			case computed != "":
				ob.Bad("on some path ToFind is " + computed + ", not the Value of an AST string node as it stands: the instruction compares the input with a different text (or a different number of bytes) than the program spells")
				continue
			case len(leafTexts) == 1:
				for t := range leafTexts {
					text = t
				}
			default:
				ob.Und("ToFind is one of several values (" + strings.Join(sortedKeys(leafTexts), ", ") + ")")
				continue
			}
		}
		node := strings.TrimSuffix(text, ".Value")
		switch {
		case text == "" || !strings.HasSuffix(text, ".Value") || strings.ContainsAny(node, "()+ "):
			ob.Bad("ToFind is built from " + quoteOrEmpty(text) + ", not from the Value of an AST string node as it stands: the instruction compares the input with a different text (or a different number of bytes) than the program spells")
		case (not != node+".Not" && not != "") || (caseless != node+".Caseless" && caseless != ""):
			ob.Bad(fmt.Sprintf("the flags do not come from the node the text comes from: ToFind <- %s, Not <- %s, Caseless <- %s", text, quoteOrEmpty(not), quoteOrEmpty(caseless)))
		case not == "" || caseless == "":
			ob.Bad(fmt.Sprintf("a flag of the literal is dropped: ToFind <- %s, Not <- %s, Caseless <- %s", text, quoteOrEmpty(not), quoteOrEmpty(caseless)))
		default:
			ob.OKnt("ToFind, Not, Caseless <- " + node + ".{Value, Not, Caseless}")
		}
	}
	r.Floor(rule, "functions of the generator that build a MatchLiteral", n, 1)
}

func quoteOrEmpty(s string) string {
	if s == "" {
		return "(nothing)"
	}
	return s
}

// ---------------------------------------------------------------------------------------------
// C05.R13 / C11.R7: a `loop` statement ends only when its body says so.
//
// The process language has no bounded loop: `loop ... end` runs until a `break` or a `return`. In the world where every status
// read back from the body is the one that means "go on" (NEXT) the executor must not be able to
// leave: a feasible way out whose condition does not look at the status at all (an iteration quota, a timer) ends loops that
// the program did not end, and the statements after the loop run on a half-built result.
func ruleProcessLoopEndsOnlyOnRequest(c *Ctx, rule string) {
	r := c.R
	psT := c.NamedType("engine", "ProcessState")
	loopT := c.NamedType("ast", "AstProcessLoop")
	if psT == nil || loopT == nil {
		r.Ob(rule, "anchor engine.ProcessState / ast.AstProcessLoop", "").Und("not found")
		return
	}
	st, _ := psT.Underlying().(*types.Struct)
	statusIdx := -1
	var statusT types.Type
	for i := 0; st != nil && i < st.NumFields(); i++ {
		if nt, ok := st.Field(i).Type().(*types.Named); ok {
			if b, ok := nt.Underlying().(*types.Basic); ok && b.Info()&types.IsInteger != 0 && strings.Contains(strings.ToLower(st.Field(i).Name()), "status") {
				statusIdx, statusT = i, nt
			}
		}
	}
	if statusIdx < 0 {
		r.Ob(rule, "anchor: status field of engine.ProcessState", "").Und("not found")
		return
	}
	consts := map[string]constant.Value{}
	if p := c.Pkgs["engine"]; p != nil {
		for _, obj := range p.TypesInfo.Defs {
			if cst, ok := obj.(*types.Const); ok && types.Identical(cst.Type(), statusT) {
				consts[cst.Name()] = cst.Val()
			}
		}
	}
	var goOn []string
	for n := range consts {
		up := strings.ToUpper(n)
		// (the status `continue` sets is turned into NEXT by the executor itself; a world with two values is beyond the lattice)
		if up == "NEXT" {
			goOn = append(goOn, n)
		}
	}
	sort.Strings(goOn)
	if len(goOn) == 0 {
		r.Ob(rule, "anchor: the statuses that mean go on", "").Und(fmt.Sprintf("status constants found: %v", sortedKeys(consts)))
		return
	}
	isStatusRead := func(v ssa.Value) bool {
		switch x := v.(type) {
		case *ssa.Field:
			return x.Field == statusIdx && types.Identical(x.X.Type(), psT)
		case *ssa.UnOp:
			if fa, ok := x.X.(*ssa.FieldAddr); ok {
				return fa.Field == statusIdx && types.Identical(deref(fa.X.Type()), psT)
			}
		}
		return false
	}
	n := 0
	for _, fn := range c.SrcFuncs("engine") {
		takesLoop := false
		for _, p := range fn.Params {
			if types.Identical(deref(p.Type()), loopT) {
				takesLoop = true
			}
		}
		if !takesLoop || len(sccs(fn, func(a, b *ssa.BasicBlock) bool { return true })) == 0 {
			continue
		}
		for _, name := range goOn {
			kv := consts[name]
			n++
			ob := r.Ob(rule, fmt.Sprintf("%s: the loop cannot end while the body's status is %s", fnName(fn), name), c.pos(fn.Pos()))
			w := &World{Fn: fn,
				Seed: func(v ssa.Value) (constant.Value, bool) {
					if statusReadOf(v, psT, statusIdx) {
						return kv, true
					}
					return nil, false
				},
				CellDefault: func(a *ssa.Alloc, path string, t types.Type) wLat {
					if types.Identical(t, statusT) && types.Identical(deref(a.Type()), psT) && path == fmt.Sprintf(".%d", statusIdx) {
						return wConst(kv)
					}
					return wTop
				}}
			w.Run()
			retReach := false
			for _, b := range fn.Blocks {
				if !w.Reach[b] {
					continue
				}
				if _, ok := b.Instrs[len(b.Instrs)-1].(*ssa.Return); ok {
					retReach = true
				}
			}
			if !retReach {
				ob.OKnt("with every status read fixed to " + name + " no return of the executor stays reachable")
				continue
			}
			// the feasible ways out of the loops: does their condition look at the status?
			var witness, other []string
			for _, comp := range sccs(fn, func(a, b *ssa.BasicBlock) bool { return true }) {
				in := map[*ssa.BasicBlock]bool{}
				for _, b := range comp {
					in[b] = true
				}
				for _, b := range comp {
					if !w.Reach[b] {
						continue
					}
					for _, s := range b.Succs {
						if in[s] || !w.Edge[[2]*ssa.BasicBlock{b, s}] {
							continue
						}
						iff, ok := b.Instrs[len(b.Instrs)-1].(*ssa.If)
						if !ok {
							continue
						}
						// only exits that lead to a return without coming back into a loop of this function matter; a range loop's
						// normal end falls into the enclosing loop and is such an exit only when it can reach a return
						looks := false
						seen := map[ssa.Value]bool{}
						var walk func(v ssa.Value, d int)
						walk = func(v ssa.Value, d int) {
							if v == nil || seen[v] || d > 12 || looks {
								return
							}
							seen[v] = true
							if isStatusRead(v) {
								looks = true
								return
							}
							if x, ok := v.(ssa.Instruction); ok {
								for _, op := range x.Operands(nil) {
									if *op != nil {
										walk(*op, d+1)
									}
								}
							}
						}
						walk(iff.Cond, 0)
						// can this exit reach a return in the world without re-entering the component?
						reachRet := false
						seenB := map[*ssa.BasicBlock]bool{}
						work := []*ssa.BasicBlock{s}
						for len(work) > 0 {
							x := work[len(work)-1]
							work = work[:len(work)-1]
							if seenB[x] || !w.Reach[x] {
								continue
							}
							seenB[x] = true
							if _, ok := x.Instrs[len(x.Instrs)-1].(*ssa.Return); ok {
								reachRet = true
								break
							}
							for _, y := range x.Succs {
								if w.Edge[[2]*ssa.BasicBlock{x, y}] {
									work = append(work, y)
								}
							}
						}
						if !reachRet {
							continue
						}
						desc := CondLit{iff.Cond, s == b.Succs[0], iff}.String() + " [" + c.pos(iff.Cond.Pos()) + "]"
						if looks {
							other = append(other, desc)
						} else {
							witness = append(witness, desc)
						}
					}
				}
			}
			sort.Strings(witness)
			sort.Strings(other)
			switch {
			case len(witness) > 0:
				// an inner range loop whose end falls into an outer loop that cannot be left is filtered by reachRet above
				ob.Bad("the executor leaves the loop under " + strings.Join(uniq(witness), ", ") + ", a condition that does not look at the body's status: a loop the program did not end with `break` or `return` is ended, and the statements after it run on a half-built result")
			case len(other) > 0:
				ob.Und("a return stays reachable through " + strings.Join(uniq(other), ", ") + "; the condition looks at the status but does not fold")
			default:
				ob.Und("a return stays reachable although no loop exit was found")
			}
		}
	}
	r.Floor(rule, "loop executors x go-on statuses", n, 1)
}

// ---------------------------------------------------------------------------------------------
// C10.R15: a loop inside a VM primitive ends when the input does.
//
// The primitives of the VM (the methods of the machine state and the instruction handlers) run once per instruction; the only
// loops they need count something (a range over the text just read, the entries of a table). A loop in a primitive whose end
// depends on what is read from the input must end once the input is exhausted: reads beyond the end return "" (READ is all or
// nothing), so the loop is run again in the world where the read inside it returned "" - if it can come round to that read again,
// it never ends.
func rulePrimitiveLoopsEndWithInput(c *Ctx, rule string) {
	r := c.R
	read := c.Method("engine", "SearchEngineState", "READ")
	readAt := c.Method("engine", "SearchEngineState", "READAT")
	if read == nil {
		r.Ob(rule, "anchor (*SearchEngineState).READ", "").Und("not found")
		return
	}
	isRead := func(in ssa.Instruction) bool {
		sc := staticCallee(in)
		return sc != nil && (sc == read || (readAt != nil && sc == readAt))
	}
	libCall := func(x *ssa.Call, get func(ssa.Value) wLat) (wLat, bool) {
		sc := x.Call.StaticCallee()
		if sc == nil || sc.Pkg == nil || len(x.Call.Args) == 0 {
			return wLat{}, false
		}
		a := get(x.Call.Args[0])
		if a.k != 1 || a.v.Kind() != constant.String {
			return wLat{}, false
		}
		s := constant.StringVal(a.v)
		switch sc.Pkg.Pkg.Path() + "." + sc.Name() {
		case "unicode/utf8.FullRuneInString":
			return wBool(utf8.FullRuneInString(s)), true
		case "unicode/utf8.ValidString":
			return wBool(utf8.ValidString(s)), true
		case "unicode/utf8.RuneCountInString":
			return wConst(constant.MakeInt64(int64(utf8.RuneCountInString(s)))), true
		}
		return wLat{}, false
	}
	nfn, nloop := 0, 0
	for _, fn := range c.SrcFuncs("engine") {
		prim := false
		if recv := fn.Signature.Recv(); recv != nil {
			if nt, ok := deref(recv.Type()).(*types.Named); ok && nt.Obj().Name() == "SearchEngineState" {
				prim = true
			}
		} else if len(fn.Params) >= 2 {
			if nt, ok := deref(fn.Params[0].Type()).(*types.Named); ok && nt.Obj().Pkg() != nil && nt.Obj().Pkg().Path() == modRoot+"/libvore/bytecode" {
				if pt, ok := deref(fn.Params[1].Type()).(*types.Named); ok && pt.Obj().Name() == "SearchEngineState" {
					prim = true
				}
			}
		}
		if !prim {
			continue
		}
		nfn++
		for _, comp := range sccs(fn, func(a, b *ssa.BasicBlock) bool { return true }) {
			var reads []*ssa.Call
			for _, b := range comp {
				for _, in := range b.Instrs {
					if isRead(in) {
						reads = append(reads, in.(*ssa.Call))
					}
				}
			}
			if len(reads) == 0 {
				continue // counts, or ranges over something it already holds; C10.R1-R3 bound the VM's own loops
			}
			nloop++
			ob := r.Ob(rule, fmt.Sprintf("%s: the loop that reads the input ends when the input does", fnName(fn)), c.pos(reads[0].Pos()))
			var cyc []string
			for _, call := range reads {
				w := &World{Fn: fn, StartBlock: call.Block(), StartIndex: instrIndex(call),
					Seed: func(v ssa.Value) (constant.Value, bool) {
						if in, ok := v.(ssa.Instruction); ok && isRead(in) {
							return constant.MakeString(""), true
						}
						return nil, false
					},
					Call:   libCall,
					Interp: func(f *ssa.Function) bool { return f.Pkg == fn.Pkg && pureFunc(f, 0) }}
				w.Run()
				if !w.Reentered {
					continue
				}
				// a witness is a loop that cannot be left any more: no feasible edge leads out of it
				inComp := map[*ssa.BasicBlock]bool{}
				for _, b := range comp {
					inComp[b] = true
				}
				leaves := false
				for _, b := range comp {
					if !w.Reach[b] {
						continue
					}
					if _, ok := b.Instrs[len(b.Instrs)-1].(*ssa.Return); ok {
						leaves = true
					}
					for _, s := range b.Succs {
						if !inComp[s] && w.Edge[[2]*ssa.BasicBlock{b, s}] {
							leaves = true
						}
					}
				}
				if !leaves {
					cyc = append(cyc, c.pos(call.Pos()))
				}
			}
			if len(cyc) == 0 {
				ob.OKnt("with the read inside the loop answered \"\" (end of input) the loop cannot come round to it again, or a way out of the loop stays feasible (a counter, the offset reaching the size)")
			} else {
				sort.Strings(cyc)
				ob.Bad("with the read at " + strings.Join(uniq(cyc), ", ") + " answered \"\" - which is what READ answers once fewer bytes are left than were asked for - the loop comes round to the same read again and no way out of it stays feasible: at the end of the input the primitive never returns and Run hangs inside one instruction")
			}
		}
	}
	ob := r.Ob(rule, "loops in VM primitives that read the input", "")
	ob.OK(fmt.Sprintf("%d primitive(s) examined, %d loop(s) that read the input", nfn, nloop))
	r.Floor(rule, "VM primitives examined for loops", nfn, 40)
}

// ---------------------------------------------------------------------------------------------
// C09.R19: what RunFiles opens after listing a directory is not a directory.
//
// RunFiles expands a directory argument itself (os.ReadDir). An entry of that listing that goes on to be opened as a file must
// have been tested: a subdirectory opened with ReaderFromFile is an "is a directory" read error, and read errors are panics.
// Every use of an entry's Name() in package engine must be control-dependent on the entry's IsDir() being false (or on
// Type().IsRegular() / Info().Mode().IsRegular() being true).
func ruleListedEntriesAreFiles(c *Ctx, rule string) {
	r := c.R
	n := 0
	for _, fn := range c.SrcFuncs("engine") {
		cds := NewPostDom(fn).ControlDeps()
		instrsOf(fn, func(in ssa.Instruction) {
			call, ok := in.(*ssa.Call)
			if !ok || !call.Call.IsInvoke() || call.Call.Method.Name() != "Name" {
				return
			}
			nt, ok := types.Unalias(call.Call.Value.Type()).(*types.Named)
			if !ok || nt.Obj().Name() != "DirEntry" {
				return
			}
			n++
			ob := r.Ob(rule, fmt.Sprintf("%s: a listed entry is used as a file only when it is not a directory", fnName(fn)), c.pos(call.Pos()))
			entry := exprStr(call.Call.Value)
			for _, l := range condsOf(cds, call.Block()) {
				s := l.String()
				if !strings.Contains(s, entry) {
					continue
				}
				if (strings.Contains(s, ".IsDir()") && strings.HasPrefix(s, "!")) || (strings.Contains(s, ".IsRegular()") && !strings.HasPrefix(s, "!")) {
					ob.OKnt("behind " + s)
					return
				}
			}
			ob.Bad("the name of " + entry + " is taken on a path that has not tested the entry: a subdirectory of the directory argument is handed on as a file, opening it is a read error (`is a directory`) and read errors are panics")
		})
	}
	if n == 0 {
		r.Ob(rule, "directory listings in package engine", "").OK("package engine takes no name from a directory listing")
	}
}

// ---------------------------------------------------------------------------------------------
// C09.R20: in every replace mode the replace command has something to write to.
//
// searchReplace picks its writer by the mode. With the mode parameter fixed to each constant of ReplaceMode in turn (conditional
// constant propagation, through the helpers that are handed the mode), a call that creates a writer must stay reachable: a mode
// for which none does leaves the writer nil, and the first WriteAt dereferences it.
func ruleEveryModeHasWriter(c *Ctx, rule string) {
	r := c.R
	fn := c.Fn("engine", "searchReplace")
	if fn == nil {
		r.Ob(rule, "anchor engine.searchReplace", "").Und("not found")
		return
	}
	var modeP *ssa.Parameter
	var modeT types.Type
	for _, p := range fn.Params {
		if n, ok := p.Type().(*types.Named); ok && n.Obj().Name() == "ReplaceMode" {
			modeP, modeT = p, n
		}
	}
	if modeP == nil {
		r.Ob(rule, "anchor: the mode parameter of searchReplace", c.pos(fn.Pos())).Und("searchReplace has no parameter of type ReplaceMode")
		return
	}
	modes := map[string]constant.Value{}
	if p := c.Pkgs["engine"]; p != nil {
		for _, name := range p.Types.Scope().Names() {
			if cst, ok := p.Types.Scope().Lookup(name).(*types.Const); ok && types.Identical(cst.Type(), modeT) {
				modes[cst.Name()] = cst.Val()
			}
		}
	}
	var makesWriter func(f *ssa.Function, args []wLat, depth int) bool
	makesWriter = func(f *ssa.Function, args []wLat, depth int) bool {
		w := &World{Fn: f}
		w.Run(args...)
		found := false
		for _, b := range f.Blocks {
			if !w.Reach[b] || found {
				continue
			}
			for _, in := range b.Instrs {
				call, ok := in.(*ssa.Call)
				if !ok {
					continue
				}
				sc := call.Call.StaticCallee()
				if sc == nil {
					continue
				}
				if sc.Pkg != nil && sc.Pkg.Pkg.Path() == modRoot+"/libvore/files" && strings.HasPrefix(sc.Name(), "WriterFrom") {
					found = true
					break
				}
				if depth >= 2 || sc.Pkg != f.Pkg || len(sc.Blocks) == 0 {
					continue
				}
				var sub []wLat
				gets := false
				for _, a := range call.Call.Args {
					l := w.get(a)
					if l.k == 0 {
						l = wTop
					}
					if l.k == 1 && types.Identical(a.Type(), modeT) {
						gets = true
					}
					sub = append(sub, l)
				}
				if gets && makesWriter(sc, sub, depth+1) {
					found = true
					break
				}
			}
		}
		return found
	}
	n := 0
	for _, name := range sortedKeys(modes) {
		n++
		ob := r.Ob(rule, "searchReplace: mode "+name+" has a writer", c.pos(fn.Pos()))
		args := make([]wLat, len(fn.Params))
		for i, p := range fn.Params {
			args[i] = wTop
			if p == modeP {
				args[i] = wConst(modes[name])
			}
		}
		if makesWriter(fn, args, 0) {
			ob.OKnt("with the mode fixed to " + name + " a call of files.WriterFrom* stays reachable")
		} else if at := dynamicFilesCall(c, fn, args); at != "" {
			ob.Und("with the mode fixed to " + name + " a function value that returns a writer or reader of package files is called at " + at + " (a table of openers): which function that is cannot be followed")
		} else {
			ob.Bad("with the mode fixed to " + name + " no call that creates a writer is reachable: the writer stays nil and the first write of a replace command dereferences it (`RunFiles(files, engine." + name + ", false)` with a replace command panics)")
		}
	}
	r.Floor(rule, "replace modes examined", n, 3)
}

// ---------------------------------------------------------------------------------------------
// C11.R8: a number the parser cannot represent is an error, not another number.
//
// Every conversion of a lexeme to a number in package ast (strconv.Atoi, ParseInt, ParseUint) can fail: the digits do not fit an
// int. Ten of the eleven sites answer with a parse error. On the branch taken when the conversion failed, every return that can
// be reached must carry a non-nil error (or the branch panics): a site that carries on with a default turns `99999999999999999999`
// into 0 and the expression computes with a number the program does not contain.
func ruleNumberConversionErrorsPropagate(c *Ctx, rule string) {
	r := c.R
	n := 0
	computeNoReturn(c.SrcFuncs("ast"))
	for _, fn := range c.SrcFuncs("ast") {
		instrsOf(fn, func(in ssa.Instruction) {
			call, ok := in.(*ssa.Call)
			if !ok {
				return
			}
			sc := call.Call.StaticCallee()
			if sc == nil || sc.Pkg == nil || sc.Pkg.Pkg.Path() != "strconv" || !(sc.Name() == "Atoi" || strings.HasPrefix(sc.Name(), "Parse")) {
				return
			}
			n++
			ob := r.Ob(rule, fmt.Sprintf("%s: a failed %s is a parse error", fnName(fn), sc.Name()), c.pos(call.Pos()))
			// the error result and the branch on it
			var errVal ssa.Value
			for _, ref := range *call.Referrers() {
				if ex, ok := ref.(*ssa.Extract); ok && types.Identical(ex.Type(), types.Universe.Lookup("error").Type()) {
					errVal = ex
				}
			}
			if errVal == nil {
				ob.Bad("the error of the conversion is dropped: digits that do not fit are turned into whatever strconv hands back")
				return
			}
			var failSucc []*ssa.BasicBlock
			for _, ref := range *errVal.Referrers() {
				cmp, ok := ref.(*ssa.BinOp)
				if !ok || (cmp.Op != token.NEQ && cmp.Op != token.EQL) || !(isNilConst(cmp.X) || isNilConst(cmp.Y)) {
					continue
				}
				for _, r2 := range *cmp.Referrers() {
					if iff, ok := r2.(*ssa.If); ok {
						if cmp.Op == token.NEQ {
							failSucc = append(failSucc, iff.Block().Succs[0])
						} else {
							failSucc = append(failSucc, iff.Block().Succs[1])
						}
					}
				}
			}
			if len(failSucc) == 0 {
				// handed on as the function's own error?
				returned := false
				for _, ref := range *errVal.Referrers() {
					if _, ok := ref.(*ssa.Return); ok {
						returned = true
					}
				}
				if returned {
					ob.OKnt("the error is returned as it is")
				} else {
					ob.Und("the error of the conversion is neither tested against nil nor returned")
				}
				return
			}
			var witness string
			for _, s := range failSucc {
				seen := map[*ssa.BasicBlock]bool{}
				work := []*ssa.BasicBlock{s}
				for len(work) > 0 && witness == "" {
					b := work[len(work)-1]
					work = work[:len(work)-1]
					if seen[b] {
						continue
					}
					seen[b] = true
					stop := false
					for _, x := range b.Instrs {
						if isNoReturnCall(x) {
							stop = true
							break
						}
						if _, isPanic := x.(*ssa.Panic); isPanic {
							stop = true
							break
						}
						if ret, ok := x.(*ssa.Return); ok {
							stop = true
							good := false
							if k := len(ret.Results); k > 0 {
								last := ret.Results[k-1]
								if types.Identical(last.Type(), types.Universe.Lookup("error").Type()) && !isNilConst(last) {
									good = true
								}
							}
							if !good {
								witness = c.pos(ret.Pos())
							}
						}
					}
					if !stop {
						work = append(work, b.Succs...)
					}
				}
			}
			if witness == "" {
				ob.OKnt("on the failure branch every return carries an error (or the branch panics)")
			} else {
				ob.Bad("after the conversion failed the function can still return without an error (at " + witness + "): digits that do not fit an int are replaced by a default, so `99999999999999999999` in a process expression is the number 0")
			}
		})
	}
	r.Floor(rule, "number conversions in the parser", n, 8)
}

// ---------------------------------------------------------------------------------------------
// C13.R15: what the VM reads from its records, it has written.
//
// A field of a record of the VM (call records, loop records, the machine state) that some instruction reads but that no code of
// the package ever stores - not in a literal, not by assignment - is always its zero value: the read believes in something that
// nobody does. (The start of a subroutine's text, never recorded, made a predicate's `match` the whole match so far, so a
// definition with a predicate meant something else behind a prefix than alone.)
func ruleRecordFieldsReadAreWritten(c *Ctx, rule string) {
	r := c.R
	type key struct {
		t *types.Named
		i int
	}
	read := map[key][]string{}
	written := map[key]bool{}
	named := func(t types.Type) *types.Named {
		n, ok := deref(t).(*types.Named)
		if !ok || n.Obj().Pkg() == nil || n.Obj().Pkg().Path() != modRoot+"/libvore/engine" {
			return nil
		}
		if _, isStruct := n.Underlying().(*types.Struct); !isStruct {
			return nil
		}
		if n.TypeArgs() != nil && n.TypeArgs().Len() > 0 {
			return nil
		}
		return n
	}
	scan := c.SrcFuncs("engine")
	if p := c.SSA["engine"]; p != nil {
		// package-level tables are filled by the package initialiser
		if init := p.Func("init"); init != nil {
			scan = append(scan, init)
		}
	}
	for _, fn := range scan {
		instrsOf(fn, func(in ssa.Instruction) {
			switch x := in.(type) {
			case *ssa.Field:
				if n := named(x.X.Type()); n != nil {
					read[key{n, x.Field}] = append(read[key{n, x.Field}], c.pos(x.Pos()))
				}
			case *ssa.FieldAddr:
				n := named(x.X.Type())
				if n == nil {
					return
				}
				k := key{n, x.Field}
				for _, ref := range *x.Referrers() {
					switch y := ref.(type) {
					case *ssa.Store:
						if y.Addr == ssa.Value(x) {
							written[k] = true
						} else {
							written[k] = true // the address is stored somewhere: may be written through it
						}
					case *ssa.UnOp:
						read[k] = append(read[k], c.pos(y.Pos()))
					case *ssa.FieldAddr, *ssa.IndexAddr:
						// a nested location: decided for the nested field
					case *ssa.DebugRef:
					default:
						// handed to a call, captured, converted: may be written there
						written[k] = true
					}
				}
			}
		})
	}
	n := 0
	var keys []key
	for k := range read {
		keys = append(keys, k)
	}
	sort.Slice(keys, func(i, j int) bool {
		if keys[i].t.Obj().Name() != keys[j].t.Obj().Name() {
			return keys[i].t.Obj().Name() < keys[j].t.Obj().Name()
		}
		return keys[i].i < keys[j].i
	})
	for _, k := range keys {
		st := k.t.Underlying().(*types.Struct)
		f := st.Field(k.i)
		if f.Embedded() {
			continue
		}
		n++
		if written[k] {
			continue
		}
		ob := r.Ob(rule, "engine."+k.t.Obj().Name()+"."+f.Name()+" is written somewhere", "")
		ps := uniq(read[k])
		sort.Strings(ps)
		ob.Pos = ps[0]
		ob.Bad("the field is read (at " + strings.Join(ps, ", ") + ") but nothing in package engine ever stores it: it is always " + zeroText(f.Type()) + ", whatever the read expects to find there")
	}
	ob := r.Ob(rule, "fields of the VM's records that are read", "")
	ob.OK(fmt.Sprintf("%d field(s) of struct types of package engine are read somewhere; each is also stored somewhere unless reported", n))
	r.Floor(rule, "record fields read in package engine", n, 20)
}

func zeroText(t types.Type) string {
	switch u := t.Underlying().(type) {
	case *types.Basic:
		switch {
		case u.Info()&types.IsNumeric != 0:
			return "0"
		case u.Info()&types.IsString != 0:
			return `""`
		case u.Info()&types.IsBoolean != 0:
			return "false"
		}
	case *types.Pointer, *types.Slice, *types.Map, *types.Interface, *types.Chan, *types.Signature:
		return "nil"
	}
	return "its zero value"
}

// reachesInPkg: a call path from `from` to `target` through functions of from's package, or "". A function value handed to a
// callee as an argument (steer(state, func...)) is followed into the callee: a call through that parameter resolves to the
// function that was handed in, not to every function that any caller hands in (one level of calling context per parameter).
func (c *Ctx) reachesInPkg(from, target *ssa.Function) string {
	type node struct {
		fn   *ssa.Function
		bind string // rendering of the bindings, for the visited set
	}
	type item struct {
		fn    *ssa.Function
		binds map[*ssa.Parameter]*ssa.Function
		path  []string
	}
	key := func(fn *ssa.Function, binds map[*ssa.Parameter]*ssa.Function) node {
		var parts []string
		for p, f := range binds {
			parts = append(parts, p.Name()+"="+f.String())
		}
		sort.Strings(parts)
		return node{fn, strings.Join(parts, ",")}
	}
	fnOf := func(v ssa.Value) *ssa.Function {
		switch x := v.(type) {
		case *ssa.MakeClosure:
			f, _ := x.Fn.(*ssa.Function)
			return f
		case *ssa.Function:
			return x
		}
		return nil
	}
	seen := map[node]bool{}
	work := []item{{from, nil, []string{fnName(from)}}}
	for len(work) > 0 && len(seen) < 5000 {
		it := work[0]
		work = work[1:]
		k := key(it.fn, it.binds)
		if seen[k] {
			continue
		}
		seen[k] = true
		var found []string
		instrsOf(it.fn, func(in ssa.Instruction) {
			call, ok := in.(ssa.CallInstruction)
			if !ok || found != nil {
				return
			}
			cc := call.Common()
			var callees []*ssa.Function
			if sc := cc.StaticCallee(); sc != nil {
				callees = []*ssa.Function{sc}
			} else if p, ok := cc.Value.(*ssa.Parameter); ok && it.binds[p] != nil {
				callees = []*ssa.Function{it.binds[p]}
			} else if fv, ok := cc.Value.(*ssa.FreeVar); ok {
				_ = fv
				callees = c.calleesOf(call)
			} else {
				callees = c.calleesOf(call)
			}
			for _, callee := range callees {
				if callee.Pkg != from.Pkg && !(callee.Parent() != nil && callee.Parent().Pkg == from.Pkg) {
					continue
				}
				step := fnName(callee) + " [called at " + c.pos(in.Pos()) + "]"
				if callee == target {
					found = append(append([]string{}, it.path...), step)
					return
				}
				binds := map[*ssa.Parameter]*ssa.Function{}
				if !cc.IsInvoke() {
					args := cc.Args
					for i, a := range args {
						if f := fnOf(a); f != nil && i < len(callee.Params) {
							binds[callee.Params[i]] = f
						} else if p, ok := a.(*ssa.Parameter); ok && it.binds[p] != nil && i < len(callee.Params) {
							binds[callee.Params[i]] = it.binds[p]
						}
					}
				}
				work = append(work, item{callee, binds, append(append([]string{}, it.path...), step)})
			}
		})
		if found != nil {
			return strings.Join(found, " -> ")
		}
	}
	return ""
}

// ---------------------------------------------------------------------------------------------
// C09.R21: no method is called on an interface value that a helper may have left nil.
//
// The values of the process language travel as an interface (ProcessValue, Value). A helper that answers "nothing" with a nil
// interface (a statement list that ends without `return`) obliges every caller to test before calling a method on the result:
// v.getBoolean() on a nil interface is a nil dereference at run time. Every method call in package engine on the direct result of
// a repository function that has a `return nil` for that result must be dominated by a test of the value against nil.
func ruleNoMethodOnNilResult(c *Ctx, rule string) {
	r := c.R
	// which results of which functions can be a nil interface constant (directly, or by handing on such a result)
	type rk struct {
		fn  *ssa.Function
		idx int
	}
	mayNil := map[rk]string{}
	for changed := true; changed; {
		changed = false
		for _, fn := range c.SrcFuncs("engine") {
			instrsOf(fn, func(in ssa.Instruction) {
				ret, ok := in.(*ssa.Return)
				if !ok {
					return
				}
				for i, v := range ret.Results {
					if _, isIface := v.Type().Underlying().(*types.Interface); !isIface {
						continue
					}
					k := rk{fn, i}
					if _, done := mayNil[k]; done {
						continue
					}
					for _, leaf := range phiLeaves(v, nil) {
						if isNilConst(leaf) {
							mayNil[k] = c.pos(ret.Pos()) + " returns nil"
							changed = true
						}
						if call, ok := leaf.(*ssa.Call); ok {
							if sc := call.Call.StaticCallee(); sc != nil {
								if why, ok := mayNil[rk{sc, 0}]; ok && sc.Signature.Results().Len() == 1 {
									mayNil[k] = why
									changed = true
								}
							}
						}
					}
				}
			})
		}
	}
	n := 0
	for _, fn := range c.SrcFuncs("engine") {
		instrsOf(fn, func(in ssa.Instruction) {
			call, ok := in.(ssa.CallInstruction)
			if !ok || !call.Common().IsInvoke() {
				return
			}
			recv := call.Common().Value
			var why string
			for _, leaf := range phiLeaves(recv, nil) {
				switch x := leaf.(type) {
				case *ssa.Call:
					if sc := x.Call.StaticCallee(); sc != nil && sc.Signature.Results().Len() == 1 {
						if w, ok := mayNil[rk{sc, 0}]; ok {
							why = fnName(sc) + ": " + w
						}
					}
				case *ssa.Extract:
					if cl, ok := x.Tuple.(*ssa.Call); ok {
						if sc := cl.Call.StaticCallee(); sc != nil {
							// a result that comes with a flag (`value, found := table.Get(name)`) has its own protocol: a caller that drops
							// the flag relies on knowing that the name is there (it iterates over the table's keys) - not decided here
							hasFlag := false
							res := sc.Signature.Results()
							for i := 0; i < res.Len(); i++ {
								if b, ok := res.At(i).Type().Underlying().(*types.Basic); ok && b.Kind() == types.Bool {
									hasFlag = true
								}
							}
							if w, ok := mayNil[rk{sc, x.Index}]; ok && !hasFlag {
								why = fnName(sc) + ": " + w
							}
						}
					}
				}
			}
			if why == "" {
				return
			}
			n++
			ob := r.Ob(rule, fmt.Sprintf("%s: %s is called on a value that is not nil", fnName(fn), call.Common().Method.Name()), c.pos(in.Pos()))
			for _, l := range domConds(fn, in.Block()) {
				cmp, ok := l.Cond.(*ssa.BinOp)
				if !ok || (cmp.Op != token.NEQ && cmp.Op != token.EQL) {
					continue
				}
				var other ssa.Value
				if cmp.X == recv {
					other = cmp.Y
				} else if cmp.Y == recv {
					other = cmp.X
				}
				if other != nil && isNilConst(other) && (cmp.Op == token.NEQ) == l.Pol {
					ob.OKnt("behind " + l.String())
					return
				}
			}
			// `value, found := table.Get(name)`: the flag that came with the value was tested
			for _, leaf := range phiLeaves(recv, nil) {
				ex, ok := leaf.(*ssa.Extract)
				if !ok {
					continue
				}
				for _, l := range domConds(fn, in.Block()) {
					v, pol := l.Cond, l.Pol
					for {
						u, isNot := v.(*ssa.UnOp)
						if !isNot || u.Op != token.NOT {
							break
						}
						v, pol = u.X, !pol
					}
					if flag, ok := v.(*ssa.Extract); ok && flag.Tuple == ex.Tuple && flag.Index != ex.Index && pol {
						if b, ok := flag.Type().Underlying().(*types.Basic); ok && b.Kind() == types.Bool {
							ob.OKnt("behind the flag that came with the value: " + l.String())
							return
						}
					}
				}
			}
			ob.Bad("the receiver " + exprStr(recv) + " can be a nil interface (" + why + ") and no test against nil lies on the way: the call dereferences nil and the run panics")
		})
	}
	ob := r.Ob(rule, "method calls on results that may be a nil interface", "")
	ob.OK(fmt.Sprintf("%d function result(s) of package engine can be a nil interface; %d method call(s) on such results examined", len(mayNil), n))
}

// ---------------------------------------------------------------------------------------------
// C08.R16: the generator takes the k-th element of a text or list only after it has seen that there are more than k.
//
// Strings of the program may be empty (`in ” to 'z'`), lists may be empty. In package bytecode every index with a constant k into
// a string or a slice must be dominated by a comparison of that collection's length which implies that it has more than k
// elements; otherwise some source text makes Compile panic with an index out of range.
func ruleConstantIndexesGuarded(c *Ctx, rule string, pkgs []string) {
	r := c.R
	n := 0
	for _, pkg := range pkgs {
		for _, fn := range c.SrcFuncs(pkg) {
			k := 0
			for _, s := range indexSites(fn) {
				idx, ok := constInt(s.idx)
				if !ok {
					continue
				}
				switch s.coll.Type().Underlying().(type) {
				case *types.Slice:
				case *types.Basic:
				default:
					continue // arrays have a static bound
				}
				// a slice literal or a slice of a local array built here has a known length
				if sl, ok := s.coll.(*ssa.Slice); ok {
					if a, ok := sl.X.(*ssa.Alloc); ok {
						if arr, ok := deref(a.Type()).Underlying().(*types.Array); ok && arr.Len() > idx {
							continue
						}
					}
				}
				// only what comes from the program: a text or a list of an AST node, a string handed in. A list the function builds
				// itself (append chains, literals) has the length the function gave it
				if !fromProgramData(s.coll, 0) {
					continue
				}
				n++
				k++
				coll := exprStr(s.coll)
				ob := r.Ob(rule, fmt.Sprintf("%s: constant index #%d %s[%d] is within bounds", fnName(fn), k, coll, idx), c.pos(s.in.Pos()))
				guarded := ""
				for _, l := range domConds(fn, s.in.Block()) {
					cmp, ok := l.Cond.(*ssa.BinOp)
					if !ok {
						continue
					}
					x, y, op := cmp.X, cmp.Y, cmp.Op
					if _, isConst := x.(*ssa.Const); isConst {
						x, y = y, x
						switch op {
						case token.LSS:
							op = token.GTR
						case token.GTR:
							op = token.LSS
						case token.LEQ:
							op = token.GEQ
						case token.GEQ:
							op = token.LEQ
						}
					}
					lc, isCall := x.(*ssa.Call)
					if !isCall {
						continue
					}
					if b, ok := lc.Call.Value.(*ssa.Builtin); !ok || b.Name() != "len" || exprStr(lc.Call.Args[0]) != coll {
						continue
					}
					cv, ok := constInt(y)
					if !ok {
						continue
					}
					// what the literal says about len on the way to the index
					implies := false
					if l.Pol {
						switch op {
						case token.GTR:
							implies = cv >= idx
						case token.GEQ, token.EQL:
							implies = cv > idx
						case token.NEQ:
							implies = cv == 0 && idx == 0
						}
					} else {
						switch op {
						case token.LSS:
							implies = cv > idx
						case token.LEQ:
							implies = cv >= idx
						case token.EQL:
							implies = cv == 0 && idx == 0
						}
					}
					if implies {
						guarded = l.String()
					}
				}
				if guarded != "" {
					ob.OKnt("behind " + guarded)
				} else {
					ob.Bad(fmt.Sprintf("nothing on the way says that %s has more than %d element(s): an empty (or shorter) text or list in the program makes Compile panic with an index out of range", coll, idx))
				}
			}
		}
	}
	ob := r.Ob(rule, "constant indexes into texts and lists in the generator", "")
	ob.OK(fmt.Sprintf("%d site(s) examined", n))
}

// ---------------------------------------------------------------------------------------------
// C19.R8: a lock that is released by a plain Unlock is not held across a call that can panic.
//
// Process code can panic at run time (a division by zero, an operation on a value of an unexpected type), and callers may recover.
// A lock whose Unlock is not deferred stays held when something between Lock and Unlock panics; the next Lock of the same mutex -
// in another goroutine, or in the same one after the recovery - never returns. Between a Lock and a non-deferred Unlock of package
// engine, ast, bytecode or libvore nothing may call into the repository.
func ruleNoPanicUnderPlainLock(c *Ctx, rule string, pkgs []string) {
	r := c.R
	n := 0
	for _, pkg := range pkgs {
		for _, fn := range c.SrcFuncs(pkg) {
			var locks, unlocks []ssa.Instruction
			deferred := map[string]bool{}
			instrsOf(fn, func(in ssa.Instruction) {
				var cc *ssa.CallCommon
				isDefer := false
				switch x := in.(type) {
				case *ssa.Call:
					cc = &x.Call
				case *ssa.Defer:
					cc, isDefer = &x.Call, true
				}
				if cc == nil {
					return
				}
				sc := cc.StaticCallee()
				if sc == nil || sc.Pkg == nil || sc.Pkg.Pkg.Path() != "sync" || len(cc.Args) == 0 {
					return
				}
				switch sc.Name() {
				case "Lock", "RLock":
					if !isDefer {
						locks = append(locks, in)
					}
				case "Unlock", "RUnlock":
					if isDefer {
						deferred[exprStr(cc.Args[0])] = true
					} else {
						unlocks = append(unlocks, in)
					}
				}
			})
			if len(locks) == 0 {
				continue
			}
			live := newLiveCFG(fn)
			for _, lk := range locks {
				mu := exprStr(lk.(*ssa.Call).Call.Args[0])
				n++
				ob := r.Ob(rule, fmt.Sprintf("%s: %s is released also when something panics", fnName(fn), mu), c.pos(lk.Pos()))
				if deferred[mu] {
					ob.OKnt("the Unlock is deferred")
					continue
				}
				witness := ""
				instrsOf(fn, func(in ssa.Instruction) {
					if witness != "" || in == lk || !live.after(lk, in) {
						return
					}
					between := false
					for _, ul := range unlocks {
						if exprStr(ul.(*ssa.Call).Call.Args[0]) == mu && live.after(in, ul) {
							between = true
						}
					}
					if !between {
						return
					}
					call, ok := in.(ssa.CallInstruction)
					if !ok {
						return
					}
					for _, callee := range c.calleesOf(call) {
						if c.isRepoFn(callee) {
							witness = fnName(callee) + " at " + c.pos(in.Pos())
							return
						}
					}
				})
				if witness != "" {
					ob.Bad("between Lock and the plain Unlock the function calls " + witness + ": a panic there (a division by zero in process code, a failed read) leaves " + mu + " held, and every later Lock of it hangs")
				} else {
					ob.OKnt("nothing of the repository is called between Lock and Unlock")
				}
			}
		}
	}
	r.Floor(rule, "lock acquisitions examined", n, 1)
}

// ---------------------------------------------------------------------------------------------
// C19.R9: the library does not write into the slices it is handed.
//
// Run and RunFiles may be called from many goroutines with the same arguments (one list of file names for several programs). A
// function of package engine or libvore that appends to a re-slice of a slice parameter (kept := names[:0]; kept = append(kept, x))
// or stores into an element of a slice parameter writes into the caller's array: two goroutines race on it, and the next call with
// the same list sees a different list.
func ruleNoWriteIntoCallersSlice(c *Ctx, rule string) {
	sliceParamsReadOnly(c, rule, []string{"engine", "libvore"}, nil, "a list handed in by the caller of the library", "the elements are written into the caller's array - goroutines that share the list race on it and a later call with the same list sees it changed", 3)
}

// ruleTokenListReadOnly (C15.R13, C08.R18): after the lexer the token list is only read. A function of package ast that appends to a
// re-slice of a []*Token parameter (the in-place filter idiom `kept := tokens[i:i]`) or stores into one of its elements writes
// into the list the parser goes on reading: a synthetic token appended to such a stretch replaces the real token behind it.
func ruleTokenListReadOnly(c *Ctx, rule string) {
	tokenT := c.NamedType("ast", "Token")
	if tokenT == nil {
		c.R.Ob(rule, "anchor ast.Token", "").Und("not found")
		return
	}
	isTokens := func(p *ssa.Parameter) bool {
		sl, ok := p.Type().Underlying().(*types.Slice)
		return ok && types.Identical(deref(sl.Elem()), tokenT)
	}
	sliceParamsReadOnly(c, rule, []string{"ast"}, isTokens, "the token list the parser is reading", "the tokens behind the stretch are overwritten in the list that the callers go on parsing: blanks and comments that were filtered out decide what the next token is", 3)
}

func sliceParamsReadOnly(c *Ctx, rule string, pkgs []string, alwaysExternal func(*ssa.Parameter) bool, whose, consequence string, floor int) {
	filterOK := alwaysExternal != nil
	r := c.R
	nfn := 0
	var fns []*ssa.Function
	for _, pkg := range pkgs {
		fns = append(fns, c.SrcFuncs(pkg)...)
	}
	// per function: the values that share an array with one of its slice parameters, and which of them were reached through a
	// re-slice (their elements lie inside the list the caller sees)
	type info struct {
		shares   map[ssa.Value]*ssa.Parameter
		resliced map[ssa.Value]bool
	}
	infos := map[*ssa.Function]*info{}
	// summaries: result i of the function lies (re-sliced) in the array of its parameter j
	summary := map[*ssa.Function]map[int]int{}
	paramIndex := func(fn *ssa.Function, p *ssa.Parameter) int {
		for i, q := range fn.Params {
			if q == p {
				return i
			}
		}
		return -1
	}
	for round := 0; round < 4; round++ {
		grew := false
		for _, fn := range fns {
			inf := infos[fn]
			if inf == nil {
				inf = &info{map[ssa.Value]*ssa.Parameter{}, map[ssa.Value]bool{}}
				for _, p := range fn.Params {
					if _, ok := p.Type().Underlying().(*types.Slice); ok {
						inf.shares[p] = p
					}
				}
				if len(inf.shares) == 0 {
					continue
				}
				infos[fn] = inf
			}
			viaSummary := func(call *ssa.Call, idx int) (*ssa.Parameter, bool) {
				sc := call.Call.StaticCallee()
				if sc == nil || summary[sc] == nil {
					return nil, false
				}
				pi, ok := summary[sc][idx]
				if !ok || pi >= len(call.Call.Args) {
					return nil, false
				}
				p, ok := inf.shares[call.Call.Args[pi]]
				return p, ok
			}
			for changed := true; changed; {
				changed = false
				instrsOf(fn, func(in ssa.Instruction) {
					switch x := in.(type) {
					case *ssa.Extract:
						if call, ok := x.Tuple.(*ssa.Call); ok && inf.shares[x] == nil {
							if p, ok := viaSummary(call, x.Index); ok {
								inf.shares[x] = p
								inf.resliced[x] = true
								changed = true
							}
						}
					case *ssa.Slice:
						if p, ok := inf.shares[x.X]; ok && inf.shares[x] == nil {
							inf.shares[x] = p
							inf.resliced[x] = true
							changed = true
						}
					case *ssa.Phi:
						for _, e := range x.Edges {
							if p, ok := inf.shares[e]; ok {
								if inf.shares[x] == nil {
									inf.shares[x] = p
									changed = true
								}
								if inf.resliced[e] && !inf.resliced[x] {
									inf.resliced[x] = true
									changed = true
								}
							}
						}
					case *ssa.Call:
						// the result of an append to such a value still lies in the same array while there is room
						if b, ok := x.Call.Value.(*ssa.Builtin); ok && b.Name() == "append" && len(x.Call.Args) > 0 {
							if p, ok := inf.shares[x.Call.Args[0]]; ok && inf.resliced[x.Call.Args[0]] && inf.shares[x] == nil {
								inf.shares[x] = p
								inf.resliced[x] = true
								changed = true
							}
						} else if inf.shares[x] == nil {
							if p, ok := viaSummary(x, 0); ok && x.Call.Signature().Results().Len() == 1 {
								inf.shares[x] = p
								inf.resliced[x] = true
								changed = true
							}
						}
					}
				})
			}
			for _, b := range fn.Blocks {
				ret, ok := b.Instrs[len(b.Instrs)-1].(*ssa.Return)
				if !ok {
					continue
				}
				for i, res := range ret.Results {
					if p, ok := inf.shares[res]; ok && inf.resliced[res] {
						if summary[fn] == nil {
							summary[fn] = map[int]int{}
						}
						if _, known := summary[fn][i]; !known {
							if pi := paramIndex(fn, p); pi >= 0 {
								summary[fn][i] = pi
								grew = true
							}
						}
					}
				}
			}
		}
		if !grew {
			break
		}
	}
	// whose list is it? the slice parameters of the exported entry points are the callers'; so is a parameter that is handed a
	// value sharing its array with such a parameter
	external := map[*ssa.Parameter]bool{}
	for fn, inf := range infos {
		for _, p := range inf.shares {
			if token.IsExported(fn.Name()) && alwaysExternal == nil {
				external[p] = true
			}
			if alwaysExternal != nil && alwaysExternal(p) {
				external[p] = true
			}
		}
	}
	for changed := true; changed; {
		changed = false
		for fn, inf := range infos {
			instrsOf(fn, func(in ssa.Instruction) {
				call, ok := in.(*ssa.Call)
				if !ok {
					return
				}
				sc := call.Call.StaticCallee()
				if sc == nil || infos[sc] == nil {
					return
				}
				for i, a := range call.Call.Args {
					if p, ok := inf.shares[a]; ok && external[p] && i < len(sc.Params) && !external[sc.Params[i]] {
						if _, isSlice := sc.Params[i].Type().Underlying().(*types.Slice); isSlice {
							external[sc.Params[i]] = true
							changed = true
						}
					}
				}
			})
		}
	}
	for _, fn := range fns {
		inf := infos[fn]
		if inf == nil {
			continue
		}
		nfn++
		k := 0
		instrsOf(fn, func(in ssa.Instruction) {
			switch x := in.(type) {
			case *ssa.Call:
				if b, ok := x.Call.Value.(*ssa.Builtin); ok && b.Name() == "append" && len(x.Call.Args) > 0 {
					if p, ok := inf.shares[x.Call.Args[0]]; ok && external[p] && inf.resliced[x.Call.Args[0]] {
						if filterOK && appendsOwnElements(x, func(v ssa.Value) bool { return inf.shares[v] == p }) {
							// the in-place filter: elements of the list are moved towards its front, one per element visited at most
							return
						}
						k++
						r.Ob(rule, fmt.Sprintf("%s: append #%d does not write into the array of parameter %s", fnName(fn), k, p.Name()), c.pos(x.Pos())).
							Bad("appends to " + exprStr(x.Call.Args[0]) + ", a re-slice of the parameter " + p.Name() + " (" + whose + "): " + consequence)
					}
				}
			case *ssa.Store:
				if ia, ok := x.Addr.(*ssa.IndexAddr); ok {
					if p, ok := inf.shares[ia.X]; ok && external[p] {
						k++
						r.Ob(rule, fmt.Sprintf("%s: store #%d does not write into the array of parameter %s", fnName(fn), k, p.Name()), c.pos(x.Pos())).
							Bad("stores into an element of " + exprStr(ia.X) + ", which shares its array with the parameter " + p.Name() + " (" + whose + "): the list is modified")
					}
				}
			}
		})
	}
	ob := r.Ob(rule, "functions of "+strings.Join(pkgs, " and ")+" that take a slice", "")
	ob.OK(fmt.Sprintf("%d function(s) examined for writes through a slice parameter", nfn))
	r.Floor(rule, "functions with slice parameters examined", nfn, floor)
}

// fromProgramData: the collection is (a conversion or a re-slice of) a field of an AST node or a string parameter.
func fromProgramData(v ssa.Value, d int) bool {
	if d > 6 {
		return false
	}
	isAst := func(t types.Type) bool {
		n, ok := deref(t).(*types.Named)
		return ok && n.Obj().Pkg() != nil && strings.HasSuffix(n.Obj().Pkg().Path(), "/ast")
	}
	switch x := v.(type) {
	case *ssa.Convert:
		return fromProgramData(x.X, d+1)
	case *ssa.ChangeType:
		return fromProgramData(x.X, d+1)
	case *ssa.Slice:
		return fromProgramData(x.X, d+1)
	case *ssa.Field:
		return isAst(x.X.Type()) || fromProgramData(x.X, d+1)
	case *ssa.UnOp:
		if fa, ok := x.X.(*ssa.FieldAddr); ok {
			return isAst(fa.X.Type()) || fromProgramData(fa.X, d+1)
		}
	case *ssa.Parameter:
		b, ok := x.Type().Underlying().(*types.Basic)
		return ok && b.Info()&types.IsString != 0
	case *ssa.Phi:
		for _, e := range x.Edges {
			if e != ssa.Value(x) && fromProgramData(e, d+1) {
				return true
			}
		}
	}
	return false
}

// ---------------------------------------------------------------------------------------------
// C14.R16: a loop body that is generated more than once may declare its captures in every copy.
//
// The generator unrolls the mandatory iterations of an unnamed loop: the body is generated once per iteration (and once more for
// the repeating part). A body that declares a capture - every capturing group of a regexp does - declares it in every copy, and
// the declaration refuses a name that is already there (`name clash`): `@/(a)+/` is rejected although nothing clashes. A function
// that generates the body of a loop node inside a loop of its own must take the captures of the previous copy out of the scope
// again (a `delete` on GenState.variables, or a store that restores the table) before it generates the next one - or the
// declaration must not be reachable from the body generator.
func ruleUnrolledBodiesMayDeclare(c *Ctx, rule string) {
	r := c.R
	gs := c.NamedType("bytecode", "GenState")
	loopT := c.NamedType("ast", "AstLoop")
	if gs == nil || loopT == nil {
		r.Ob(rule, "anchor bytecode.GenState / ast.AstLoop", "").Und("not found")
		return
	}
	onVariables := func(v ssa.Value) bool {
		for _, s := range traceAddr(v).Steps {
			if s.Kind == "field" && s.Field == "variables" && types.Identical(s.Struct, gs) {
				return true
			}
		}
		return false
	}
	// declarers: refuse a name that is present in GenState.variables and enter it as a capture (-1)
	declarer := map[*ssa.Function]bool{}
	for _, fn := range c.SrcFuncs("bytecode") {
		looks, enters := false, false
		instrsOf(fn, func(in ssa.Instruction) {
			switch x := in.(type) {
			case *ssa.Lookup:
				if x.CommaOk && onVariables(x.X) {
					looks = true
				}
			case *ssa.MapUpdate:
				if k, ok := constInt(x.Value); ok && k == -1 && onVariables(x.Map) {
					enters = true
				}
			}
		})
		if looks && enters {
			declarer[fn] = true
		}
	}
	if len(declarer) == 0 {
		r.Ob(rule, "anchor: the function that declares a capture in GenState.variables", "").Und("no function of package bytecode looks a name up in GenState.variables and enters it with -1")
		return
	}
	reachesDeclarer := func(from *ssa.Function) bool {
		for f := range c.Reachable(from) {
			if declarer[f] {
				return true
			}
		}
		return declarer[from]
	}
	n := 0
	for _, fn := range c.SrcFuncs("bytecode") {
		var loopP *ssa.Parameter
		for _, p := range fn.Params {
			if types.Identical(deref(p.Type()), loopT) {
				loopP = p
			}
		}
		if loopP == nil {
			continue
		}
		// calls, inside a loop of this function, that generate a part of the loop node and can reach a declarer
		for _, comp := range sccs(fn, func(a, b *ssa.BasicBlock) bool { return true }) {
			var gen *ssa.Call
			forgets := false
			for _, b := range comp {
				for _, in := range b.Instrs {
					switch x := in.(type) {
					case *ssa.Call:
						if bi, ok := x.Call.Value.(*ssa.Builtin); ok && bi.Name() == "delete" && len(x.Call.Args) > 0 && onVariables(x.Call.Args[0]) {
							forgets = true
						}
						sc := x.Call.StaticCallee()
						if sc == nil || !c.isRepoFn(sc) {
							continue
						}
						fromNode := false
						for _, a := range x.Call.Args {
							if traceAddr(a).Root == ssa.Value(loopP) {
								fromNode = true
							}
						}
						if fromNode && reachesDeclarer(sc) {
							gen = x
						}
						// a closure of the function that generates the body for it (it captures the loop node)
						if sc.Parent() == fn {
							instrsOf(sc, func(y ssa.Instruction) {
								c2, ok := y.(*ssa.Call)
								if !ok {
									return
								}
								if bi, ok := c2.Call.Value.(*ssa.Builtin); ok && bi.Name() == "delete" && len(c2.Call.Args) > 0 && onVariables(c2.Call.Args[0]) {
									forgets = true
								}
								s2 := c2.Call.StaticCallee()
								if s2 == nil || !c.isRepoFn(s2) || !reachesDeclarer(s2) {
									return
								}
								for _, a := range c2.Call.Args {
									if fv, ok := traceAddr(a).Root.(*ssa.FreeVar); ok && fv.Name() == loopP.Name() {
										gen = x
									}
								}
							})
						}
						// a helper of the package that forgets for the function
						if sc.Pkg == fn.Pkg {
							instrsOf(sc, func(y ssa.Instruction) {
								if c2, ok := y.(*ssa.Call); ok {
									if bi, ok := c2.Call.Value.(*ssa.Builtin); ok && bi.Name() == "delete" && len(c2.Call.Args) > 0 && onVariables(c2.Call.Args[0]) {
										forgets = true
									}
								}
							})
						}
					case *ssa.Store:
						if fa, ok := x.Addr.(*ssa.FieldAddr); ok && types.Identical(deref(fa.X.Type()), gs) && fieldName(gs, fa.Field) == "variables" {
							forgets = true
						}
					}
				}
			}
			if gen == nil {
				continue
			}
			n++
			ob := r.Ob(rule, fnName(fn)+": the copies of an unrolled loop body may each declare the body's captures", c.pos(gen.Pos()))
			if forgets {
				ob.OKnt("between the copies the captures of the previous copy are taken out of GenState.variables again")
			} else {
				ob.Bad("the body of the loop is generated once per mandatory iteration (" + shortCallee(gen) + " in a loop), every copy declares the body's captures, and a capture that is already declared is a `name clash`: a capturing group under `+` or `{n}` (`@/(a)+/`, `at least 2 (digit = d)`) is rejected although nothing clashes")
			}
		}
	}
	if n == 0 {
		r.Ob(rule, "loop bodies generated more than once", "").OK("no function of the generator generates a part of a loop node inside a loop of its own")
	}
}

// ---------------------------------------------------------------------------------------------
// C02.R12: a back-reference looks a name up where a capture puts it.
//
// INSERTVARIABLE enters a binding into the environment of the state, or - inside a named loop - into the table of that loop's
// current iteration. MATCHVAR, which matches "the text currently bound to the name", must read from every table the writer can
// write to; a reader that knows the environment only does not see what a capture of the same iteration of a named loop has just
// bound, so naming a loop changes what its body matches.
func ruleBindingReaderCoversWriter(c *Ctx, rule string) {
	r := c.R
	w := c.stateMethod("INSERTVARIABLE")
	rd := c.stateMethod("MATCHVAR")
	ob := r.Ob(rule, "MATCHVAR reads from every table INSERTVARIABLE writes to", "")
	if w == nil || rd == nil {
		ob.Und("INSERTVARIABLE / MATCHVAR not found")
		return
	}
	ob.Pos = c.pos(rd.Pos())
	var tableRoot func(v ssa.Value, d int) string
	tableRoot = func(v ssa.Value, d int) string {
		if v == nil || d > 10 {
			return ""
		}
		switch x := v.(type) {
		case *ssa.UnOp:
			return tableRoot(x.X, d+1)
		case *ssa.FieldAddr:
			if n, ok := deref(x.X.Type()).(*types.Named); ok {
				return n.Obj().Name() + "." + fieldName(n, x.Field)
			}
		case *ssa.Field:
			if n, ok := x.X.Type().(*types.Named); ok {
				return n.Obj().Name() + "." + fieldName(n, x.Field)
			}
		case *ssa.Call:
			if len(x.Call.Args) > 0 && !x.Call.IsInvoke() {
				return tableRoot(x.Call.Args[0], d+1)
			}
			if x.Call.IsInvoke() {
				return tableRoot(x.Call.Value, d+1)
			}
		case *ssa.Extract:
			return tableRoot(x.Tuple, d+1)
		case *ssa.MakeInterface:
			return tableRoot(x.X, d+1)
		case *ssa.ChangeType:
			return tableRoot(x.X, d+1)
		case *ssa.Phi:
			for _, e := range x.Edges {
				if s := tableRoot(e, d+1); s != "" {
					return s
				}
			}
		}
		return ""
	}
	tablesOf := func(fn *ssa.Function, method string) map[string]string {
		out := map[string]string{}
		seen := map[*ssa.Function]bool{}
		var visit func(f *ssa.Function, depth int)
		visit = func(f *ssa.Function, depth int) {
			if seen[f] || depth > 2 {
				return
			}
			seen[f] = true
			instrsOf(f, func(in ssa.Instruction) {
				call, ok := in.(*ssa.Call)
				if !ok {
					return
				}
				sc := call.Call.StaticCallee()
				if sc == nil {
					return
				}
				if sc.Name() == method && sc.Signature.Recv() != nil && len(call.Call.Args) > 0 {
					if root := tableRoot(call.Call.Args[0], 0); root != "" {
						out[root] = c.pos(call.Pos())
					}
				}
				// helpers of the state that do the lookup (or the insertion) for the primitive
				if sc.Pkg == fn.Pkg && sc.Signature.Recv() != nil && sc != fn {
					if nt, ok := deref(sc.Signature.Recv().Type()).(*types.Named); ok && nt.Obj().Name() == "SearchEngineState" {
						visit(sc, depth+1)
					}
				}
			})
		}
		visit(fn, 0)
		return out
	}
	written := tablesOf(w, "Add")
	read := tablesOf(rd, "Get")
	if len(written) == 0 || len(read) == 0 {
		ob.Und(fmt.Sprintf("tables written by INSERTVARIABLE: %v; tables read by MATCHVAR: %v", sortedKeys(written), sortedKeys(read)))
		return
	}
	var missing []string
	for _, t := range sortedKeys(written) {
		if _, ok := read[t]; !ok {
			missing = append(missing, t+" (written at "+written[t]+")")
		}
	}
	// a lookup helper of the state must not report a miss before it has asked the environment: every return is the environment's
	// own answer, or a hit (behind a found-flag that is true)
	var early []string
	for _, f := range c.SrcFuncs("engine") {
		recv := f.Signature.Recv()
		if recv == nil || f == rd || f == w {
			continue
		}
		if nt, ok := deref(recv.Type()).(*types.Named); !ok || nt.Obj().Name() != "SearchEngineState" {
			continue
		}
		if len(callsTo(rd, f)) == 0 || f.Signature.Results().Len() != 2 {
			continue
		}
		cds := NewPostDom(f).ControlDeps()
		instrsOf(f, func(in ssa.Instruction) {
			ret, ok := in.(*ssa.Return)
			if !ok || len(ret.Results) != 2 {
				return
			}
			// the environment's answer handed on
			if ex, ok := ret.Results[1].(*ssa.Extract); ok {
				// (the table of the state that INSERTVARIABLE writes outside named loops, wherever the field lives)
				if root := tableRoot(ex.Tuple, 0); root != "" && !strings.HasPrefix(root, "LoopState.") {
					if _, isWritten := written[root]; isWritten {
						return
					}
				}
			}
			// a hit: the flag is the constant true, or the return lies behind a found-flag
			if k, ok := ret.Results[1].(*ssa.Const); ok && k.Value != nil && k.Value.Kind() == constant.Bool && constant.BoolVal(k.Value) {
				return
			}
			for _, l := range condsOf(cds, ret.Block()) {
				v, pol := l.Cond, l.Pol
				for {
					u, isNot := v.(*ssa.UnOp)
					if !isNot || u.Op != token.NOT {
						break
					}
					v, pol = u.X, !pol
				}
				if ex, ok := v.(*ssa.Extract); ok && ex.Index == 1 && pol && ret.Results[1] == ssa.Value(ex) {
					return
				}
			}
			early = append(early, c.pos(ret.Pos()))
		})
	}
	if len(missing) == 0 && len(early) > 0 {
		sort.Strings(early)
		ob.Bad("the lookup that MATCHVAR uses can answer at " + strings.Join(uniq(early), ", ") + " without having asked the environment: inside a named loop a name that was bound outside it (or in an enclosing named loop) is reported unbound, and the back-reference fails")
		return
	}
	if len(missing) == 0 {
		ob.OKnt("written: " + strings.Join(sortedKeys(written), ", ") + "; read: " + strings.Join(sortedKeys(read), ", "))
	} else {
		ob.Bad("INSERTVARIABLE enters bindings into " + strings.Join(missing, ", ") + ", which MATCHVAR never reads (it reads " + strings.Join(sortedKeys(read), ", ") + "): a back-reference inside a named loop does not see the capture of the same iteration - `at least 1 ((digit = d) d)` finds \"11\", the same loop `named n` finds nothing")
	}
}

// ---------------------------------------------------------------------------------------------
// C02.R13 / C14.R17: a back-reference to a name that is not bound fails.
//
// "A back-reference matches exactly the text currently bound to its name": when nothing is bound (the group took no part in the
// match so far) there is no such text, and a conventional backtracking engine fails the reference. On the branch of MATCHVAR taken
// when the lookup did not find the name, the machine must backtrack and must not match, consume or move on.
func ruleUnboundReferenceFails(c *Ctx, rule string) {
	r := c.R
	fn := c.stateMethod("MATCHVAR")
	ob := r.Ob(rule, "MATCHVAR: a name that is not bound makes the reference fail", "")
	if fn == nil {
		ob.Und("MATCHVAR not found")
		return
	}
	ob.Pos = c.pos(fn.Pos())
	cds := NewPostDom(fn).ControlDeps()
	var notFound []*ssa.BasicBlock
	for _, b := range fn.Blocks {
		for _, l := range condsOf(cds, b) {
			v, pol := l.Cond, l.Pol
			for {
				u, isNot := v.(*ssa.UnOp)
				if !isNot || u.Op != token.NOT {
					break
				}
				v, pol = u.X, !pol
			}
			ex, ok := v.(*ssa.Extract)
			if !ok || ex.Index != 1 || pol {
				continue
			}
			if bt, ok := ex.Type().Underlying().(*types.Basic); ok && bt.Kind() == types.Bool {
				notFound = append(notFound, b)
			}
		}
	}
	if len(notFound) == 0 {
		ob.Und("no branch of MATCHVAR is controlled by the found-flag of a lookup")
		return
	}
	backtracks := false
	var moves []string
	for _, b := range notFound {
		// only the blocks that are reached because the name was not found - not the join after the test
		for _, in := range b.Instrs {
			sc := staticCallee(in)
			if sc == nil || sc.Signature.Recv() == nil {
				continue
			}
			switch sc.Name() {
			case "BACKTRACK":
				backtracks = true
			case "MATCH", "NEXT", "CONSUME", "JUMP":
				moves = append(moves, sc.Name()+" at "+c.pos(in.Pos()))
			}
		}
	}
	switch {
	case len(moves) > 0:
		ob.Bad("on the branch taken when the name is not bound MATCHVAR goes on (" + strings.Join(uniq(moves), ", ") + "): a reference to a group that took no part in the match succeeds, `@/(a)?\\\\1b/` finds a lone \"b\" that no conventional engine reports")
	case backtracks:
		ob.OKnt("the not-found branch backtracks and does nothing else to the machine")
	default:
		ob.Und("the not-found branch neither backtracks nor moves the machine in a way this rule reads")
	}
}

// ---------------------------------------------------------------------------------------------
// C15.R11: the end of the input is not a command, and not an error either.
//
// After the last command a program may go on with blanks and comments. The loop over the commands skips them and then stands on
// the EOF token; the command parser, asked there, must answer "no command" without an error - otherwise a trailing blank or
// comment makes an accepted program unacceptable. With the kind of the token it looks at fixed to EOF, every return of the
// command parser that stays reachable carries a nil error.
func ruleEOFIsNotACommandError(c *Ctx, rule string) {
	r := c.R
	fn := c.Fn("ast", "parse_command")
	ob := r.Ob(rule, "parse_command answers the EOF token without an error", "")
	if fn == nil {
		ob.Und("ast.parse_command not found")
		return
	}
	ob.Pos = c.pos(fn.Pos())
	ttT := c.NamedType("ast", "TokenType")
	var eof constant.Value
	if p := c.Pkgs["ast"]; p != nil && ttT != nil {
		if cst, ok := p.Types.Scope().Lookup("EOF").(*types.Const); ok && types.Identical(cst.Type(), ttT) {
			eof = cst.Val()
		}
	}
	if eof == nil {
		ob.Und("constant ast.EOF of type TokenType not found")
		return
	}
	w := &World{Fn: fn, Seed: func(v ssa.Value) (constant.Value, bool) {
		if u, ok := v.(*ssa.UnOp); ok && u.Op == token.MUL {
			if fa, ok := u.X.(*ssa.FieldAddr); ok && types.Identical(u.Type(), ttT) && fieldName(deref(fa.X.Type()), fa.Field) == "TokenType" {
				return eof, true
			}
		}
		return nil, false
	}}
	w.Run()
	nret := 0
	var bad []string
	for _, b := range fn.Blocks {
		if !w.Reach[b] {
			continue
		}
		ret, ok := b.Instrs[len(b.Instrs)-1].(*ssa.Return)
		if !ok || len(ret.Results) == 0 {
			continue
		}
		nret++
		last := ret.Results[len(ret.Results)-1]
		if !isNilConst(last) {
			bad = append(bad, c.pos(ret.Pos()))
		}
	}
	switch {
	case nret == 0:
		ob.Und("with the token kind fixed to EOF no return of parse_command stays reachable")
	case len(bad) > 0:
		sort.Strings(bad)
		ob.Bad("with the token kind fixed to EOF parse_command returns an error (at " + strings.Join(uniq(bad), ", ") + "): a program that is followed by a blank, a newline or a comment is rejected although the same program without it is accepted")
	default:
		ob.OKnt(fmt.Sprintf("with the token kind fixed to EOF the %d reachable return(s) carry a nil error", nret))
	}
}

// ---------------------------------------------------------------------------------------------
// C13.R17 / C04.R11: the commands of a program are run independently of one another.
//
// "The result of a multi-command source is the concatenation of the results of its commands taken alone": in Run and RunFiles the
// loop over the commands may carry one thing from a command to the next - the list of results it appends to. A text that is
// threaded through the commands (the next command searches what the previous one replaced), or a table that one command fills and
// a later one reads (a memo of scans), makes a command's result depend on its predecessors. Checked on the loop over
// bytecode.Bytecode: every value carried round it is the range index or the result list, every reader constructor inside it is
// handed a parameter of the function (or a value made from one inside the iteration), and no map that lives outside the loop is
// updated inside it.
func ruleCommandsIndependent(c *Ctx, rule string) {
	r := c.R
	mT := c.NamedType("engine", "Match")
	n := 0
	for _, name := range []string{"Run", "RunFiles"} {
		fn := c.Fn("engine", name)
		ob := r.Ob(rule, "engine."+name+": nothing but the result list travels from one command to the next", "")
		if fn == nil {
			ob.Und("not found")
			continue
		}
		ob.Pos = c.pos(fn.Pos())
		// the loop over the commands: the outermost loop that indexes a []bytecode.Command
		var loop []*ssa.BasicBlock
		for _, comp := range sccs(fn, func(a, b *ssa.BasicBlock) bool { return true }) {
			over := false
			for _, b := range comp {
				for _, in := range b.Instrs {
					if ia, ok := in.(*ssa.IndexAddr); ok {
						if sl, ok := ia.X.Type().Underlying().(*types.Slice); ok {
							if nt, ok := sl.Elem().(*types.Named); ok && nt.Obj().Name() == "Command" {
								over = true
							}
						}
					}
				}
			}
			if over && len(comp) > len(loop) {
				loop = comp
			}
		}
		if loop == nil {
			ob.Und("no loop over the commands of the program in this function (the commands are walked elsewhere)")
			continue
		}
		n++
		in := map[*ssa.BasicBlock]bool{}
		for _, b := range loop {
			in[b] = true
		}
		var bad []string
		isResultList := func(t types.Type) bool {
			sl, ok := t.Underlying().(*types.Slice)
			return ok && mT != nil && types.Identical(sl.Elem(), mT)
		}
		// the loops over the files inside the command loop (natural loops whose body indexes a list of names): what a file yields
		// depends on the command and on the file, not on the files before it
		for _, nl := range naturalLoops(fn) {
			if !in[nl.head] || len(nl.blocks) == len(loop) {
				continue
			}
			overNames := false
			for b := range nl.blocks {
				for _, y := range b.Instrs {
					if ia, ok := y.(*ssa.IndexAddr); ok {
						if sl, ok := ia.X.Type().Underlying().(*types.Slice); ok {
							if bt, ok := sl.Elem().Underlying().(*types.Basic); ok && bt.Kind() == types.String {
								overNames = true
							}
						}
					}
				}
			}
			if !overNames {
				continue
			}
			for _, y := range nl.head.Instrs {
				x, ok := y.(*ssa.Phi)
				if !ok {
					continue
				}
				fromOut, fromIn := false, false
				var inEdges []ssa.Value
				for i, p := range nl.head.Preds {
					if i < len(x.Edges) {
						if nl.blocks[p] {
							fromIn = true
							inEdges = append(inEdges, x.Edges[i])
						} else {
							fromOut = true
						}
					}
				}
				if !fromOut || !fromIn || isResultList(x.Type()) {
					continue
				}
				if sl, ok := x.Type().Underlying().(*types.Slice); ok {
					if bt, ok := sl.Elem().Underlying().(*types.Basic); ok && bt.Kind() == types.String {
						continue // the list of names being expanded
					}
				}
				if bt, ok := x.Type().Underlying().(*types.Basic); ok && bt.Info()&types.IsInteger != 0 {
					// a range index steps by one
					step := true
					for _, e := range inEdges {
						bo, ok := e.(*ssa.BinOp)
						if !ok || bo.Op != token.ADD || bo.X != ssa.Value(x) {
							step = false
							continue
						}
						if k, ok := constInt(bo.Y); !ok || k != 1 {
							step = false
						}
					}
					if step {
						continue
					}
				}
				bad = append(bad, fmt.Sprintf("%s (%s) is carried from one file to the next [%s]", exprStr(x), types.TypeString(x.Type(), shortQual), c.pos(x.Pos())))
			}
		}
		for _, b := range loop {
			for _, ins := range b.Instrs {
				switch x := ins.(type) {
				case *ssa.Phi:
					// carried round the command loop: it has an edge from outside the loop and one from inside
					fromOut, fromIn := false, false
					for i, p := range b.Preds {
						if i < len(x.Edges) {
							if in[p] {
								fromIn = true
							} else {
								fromOut = true
							}
						}
					}
					if !fromOut || !fromIn {
						continue
					}
					if bt, ok := x.Type().Underlying().(*types.Basic); ok && bt.Info()&types.IsInteger != 0 {
						continue // a range index
					}
					if isResultList(x.Type()) {
						continue
					}
					// (the phis of inner loops have no edge from outside the command loop and were skipped above)
					bad = append(bad, fmt.Sprintf("%s (%s) is carried from one command to the next [%s]", exprStr(x), types.TypeString(x.Type(), shortQual), c.pos(x.Pos())))
				case *ssa.MapUpdate:
					if def, ok := x.Map.(ssa.Instruction); ok && !in[def.Block()] {
						bad = append(bad, "a table made before the loop is filled inside it ["+c.pos(x.Pos())+"]")
					} else if _, isParam := x.Map.(*ssa.Parameter); isParam {
						bad = append(bad, "a table handed to the function is filled inside the loop ["+c.pos(x.Pos())+"]")
					}
				case *ssa.Call:
					// a helper of the package that is handed a map or a pointer to a struct that was made before the loop
					sc := x.Call.StaticCallee()
					if sc == nil || !c.isRepoFn(sc) {
						continue
					}
					for _, a := range x.Call.Args {
						if _, isMap := a.Type().Underlying().(*types.Map); !isMap {
							continue
						}
						if def, ok := a.(ssa.Instruction); ok && !in[def.Block()] {
							bad = append(bad, "a table made before the loop ("+exprStr(a)+") is handed to "+fnName(sc)+" inside it ["+c.pos(x.Pos())+"]")
						}
					}
				}
			}
		}
		if len(bad) == 0 {
			ob.OKnt("the loop over the commands carries its index and the result list only, and fills no table that outlives an iteration")
		} else {
			sort.Strings(bad)
			ob.Bad(strings.Join(uniq(bad), "; ") + ": what a command finds then depends on the commands before it, and the result of the program is no longer the concatenation of the results of its commands taken alone")
		}
	}
	r.Floor(rule, "command loops examined", n, 1)
}

// ---------------------------------------------------------------------------------------------
// C15.R12 / C16.R13: the matching quote ends a string literal, whatever follows it.
//
// With the lexer's state fixed to a string state and the character to that state's own quote, the scanning loop is left: two
// literals written next to each other ('a”b') are two tokens, as they are with a blank or a comment between them, and a quote
// cannot be spelt by doubling it.
func ruleQuoteEndsString(c *Ctx, rule string) {
	r := c.R
	la := c.lexerAnchors()
	if la.err != "" {
		r.Ob(rule, "anchor: the lexer's scanning loop", "").Und(la.err)
		return
	}
	n := 0
	for _, name := range sortedKeys(la.byName) {
		var quote rune
		switch {
		case strings.Contains(name, "STRING") && strings.Contains(name, "SINGLE") && !strings.Contains(name, "ESCAPE"):
			quote = '\''
		case strings.Contains(name, "STRING") && strings.Contains(name, "DOUBLE") && !strings.Contains(name, "ESCAPE"):
			quote = '"'
		default:
			continue
		}
		n++
		ob := r.Ob(rule, fmt.Sprintf("getNextToken: in state %s the quote %q ends the token", name, string(quote)), c.pos(la.statePhi.Pos()))
		next, leaves, unk := la.world(la.byName[name], quote)
		// what stays undecided in this world: a branch whose condition looks at more input (a peek, a second read) is the witness;
		// one that only could not be folded (a quote kept in a local record, a table) is not
		readsMore := false
		if w := la.lastWorld; w != nil {
			for b := range la.loop {
				if !w.Reach[b] {
					continue
				}
				iff, ok := b.Instrs[len(b.Instrs)-1].(*ssa.If)
				if !ok || w.get(iff.Cond).k == 1 {
					continue
				}
				seen := map[ssa.Value]bool{}
				var walk func(v ssa.Value, d int)
				walk = func(v ssa.Value, d int) {
					if v == nil || seen[v] || d > 10 || readsMore {
						return
					}
					seen[v] = true
					if call, ok := v.(*ssa.Call); ok && v != ssa.Value(la.readCall) {
						if sc := call.Call.StaticCallee(); sc != nil {
							if sc.Pkg != nil && sc.Pkg.Pkg.Path() == "bufio" {
								readsMore = true
								return
							}
							if recv := sc.Signature.Recv(); recv != nil && sc.Pkg == la.fn.Pkg {
								// a method of the lexer that reads or peeks
								for f := range c.Reachable(sc) {
									if f.Pkg != nil && f.Pkg.Pkg.Path() == "bufio" {
										readsMore = true
										return
									}
								}
							}
						}
					}
					if x, ok := v.(ssa.Instruction); ok {
						for _, op := range x.Operands(nil) {
							if *op != nil {
								walk(*op, d+1)
							}
						}
					}
				}
				walk(iff.Cond, 0)
			}
		}
		switch {
		case len(next) == 0 && !unk && leaves:
			ob.OKnt("with the state and the character fixed the loop is left and cannot go round")
		case (len(next) > 0 || unk) && !readsMore && leaves:
			ob.Und(fmt.Sprintf("with the state fixed to %s and the character to its quote a decision of the loop does not fold (the quote is kept in a record or a table); it does not look at further input", name))
		case len(next) > 0 || unk:
			ob.Bad(fmt.Sprintf("with the state fixed to %s and the character to its quote the loop can go on (next state %v, or a decision that depends on what follows): whether the literal ends here depends on the text after it, so 'a''b' is read differently from 'a' 'b'", name, sortedKeys(next)))
		default:
			ob.Und("the loop neither goes on nor is left")
		}
	}
	r.Floor(rule, "string states of the lexer", n, 2)
}

// ---------------------------------------------------------------------------------------------
// C16.R12: the text of a string token is not cut by the parser.
//
// What a literal denotes is decided by the lexer, escape by escape. A library call in package ast that trims or replaces inside
// the text of a token (strings.Trim*, strings.Replace*, strings.Fields, strings.ToLower on a STRING's text ...) changes what was
// decided: strings.Trim(lexeme, "'") removes every quote at both ends, also those the program spelt with an escape.
func ruleTokenTextNotCut(c *Ctx, rule string) {
	r := c.R
	tokenT := c.NamedType("ast", "Token")
	if tokenT == nil {
		r.Ob(rule, "anchor ast.Token", "").Und("not found")
		return
	}
	fromLexeme := func(v ssa.Value) bool {
		seen := map[ssa.Value]bool{}
		var walk func(v ssa.Value, d int) bool
		walk = func(v ssa.Value, d int) bool {
			if v == nil || seen[v] || d > 8 {
				return false
			}
			seen[v] = true
			switch x := v.(type) {
			case *ssa.UnOp:
				if fa, ok := x.X.(*ssa.FieldAddr); ok && types.Identical(deref(fa.X.Type()), tokenT) && fieldName(tokenT, fa.Field) == "Lexeme" {
					return true
				}
				return walk(x.X, d+1)
			case *ssa.Field:
				if types.Identical(x.X.Type(), tokenT) && fieldName(tokenT, x.Field) == "Lexeme" {
					return true
				}
			case *ssa.Phi:
				for _, e := range x.Edges {
					if walk(e, d+1) {
						return true
					}
				}
			case *ssa.Slice:
				return walk(x.X, d+1)
			case *ssa.Convert:
				return walk(x.X, d+1)
			}
			return false
		}
		return walk(v, 0)
	}
	n := 0
	for _, fn := range c.SrcFuncs("ast") {
		instrsOf(fn, func(in ssa.Instruction) {
			call, ok := in.(*ssa.Call)
			if !ok {
				return
			}
			sc := call.Call.StaticCallee()
			if sc == nil || sc.Pkg == nil || sc.Pkg.Pkg.Path() != "strings" || len(call.Call.Args) == 0 {
				return
			}
			if !fromLexeme(call.Call.Args[0]) {
				return
			}
			n++
			ob := r.Ob(rule, fmt.Sprintf("%s: strings.%s on the text of a token", fnName(fn), sc.Name()), c.pos(call.Pos()))
			switch {
			case strings.HasPrefix(sc.Name(), "Trim") || strings.HasPrefix(sc.Name(), "Replace") || sc.Name() == "Fields" || sc.Name() == "Title":
				ob.Bad("strings." + sc.Name() + " cuts into the text of a token: characters that the program spelt (a quote written with an escape at the end of a literal, a blank at its start) are removed from what the literal denotes")
			default:
				ob.OKnt("does not change the text (a comparison, a case mapping of a keyword)")
			}
		})
	}
	ob := r.Ob(rule, "library calls on the text of tokens in package ast", "")
	ob.OK(fmt.Sprintf("%d call(s) into package strings take the text of a token", n))
}

// appendsOwnElements: every value this append adds was loaded from an element of the same list (`kept = append(kept, tokens[i])`,
// `append(kept, tokens[a:b]...)`).
func appendsOwnElements(call *ssa.Call, sameList func(ssa.Value) bool) bool {
	if len(call.Call.Args) != 2 {
		return false
	}
	var own func(v ssa.Value, d int) bool
	own = func(v ssa.Value, d int) bool {
		if d > 6 {
			return false
		}
		switch x := v.(type) {
		case *ssa.UnOp:
			if ia, ok := x.X.(*ssa.IndexAddr); ok && x.Op == token.MUL {
				return sameList(ia.X)
			}
		case *ssa.Phi:
			for _, e := range x.Edges {
				if !own(e, d+1) {
					return false
				}
			}
			return len(x.Edges) > 0
		}
		return false
	}
	arg := call.Call.Args[1]
	if sameList(arg) {
		return true // append(kept, tokens[a:b]...)
	}
	// the variadic argument: a slice made of a fresh array whose elements are stored once each
	sl, ok := arg.(*ssa.Slice)
	if !ok {
		return false
	}
	al, ok := sl.X.(*ssa.Alloc)
	if !ok {
		return false
	}
	n := 0
	for _, ref := range *al.Referrers() {
		ia, ok := ref.(*ssa.IndexAddr)
		if !ok {
			continue
		}
		for _, r2 := range *ia.Referrers() {
			if st, ok := r2.(*ssa.Store); ok {
				n++
				if !own(st.Val, 0) {
					return false
				}
			}
		}
	}
	return n > 0
}

type natLoop struct {
	head   *ssa.BasicBlock
	blocks map[*ssa.BasicBlock]bool
}

// naturalLoops: one per loop header (back edges b -> h with h dominating b; the bodies of several back edges to one header are merged).
func naturalLoops(fn *ssa.Function) []natLoop {
	byHead := map[*ssa.BasicBlock]map[*ssa.BasicBlock]bool{}
	for _, b := range fn.Blocks {
		for _, h := range b.Succs {
			if !h.Dominates(b) {
				continue
			}
			body := byHead[h]
			if body == nil {
				body = map[*ssa.BasicBlock]bool{h: true}
				byHead[h] = body
			}
			work := []*ssa.BasicBlock{b}
			for len(work) > 0 {
				x := work[len(work)-1]
				work = work[:len(work)-1]
				if body[x] {
					continue
				}
				body[x] = true
				work = append(work, x.Preds...)
			}
		}
	}
	var out []natLoop
	for _, b := range fn.Blocks {
		if body := byHead[b]; body != nil {
			out = append(out, natLoop{b, body})
		}
	}
	return out
}

// dynamicFilesCall: in the world of the given arguments the function calls a function *value* whose result is a writer or reader
// of package files (`openers[mode](filename)`): the position of the call, or "".
func dynamicFilesCall(c *Ctx, f *ssa.Function, args []wLat) string {
	w := &World{Fn: f}
	w.Run(args...)
	at := ""
	for _, b := range f.Blocks {
		if !w.Reach[b] {
			continue
		}
		for _, in := range b.Instrs {
			call, ok := in.(*ssa.Call)
			if !ok || call.Call.IsInvoke() || call.Call.StaticCallee() != nil {
				continue
			}
			if _, isBuiltin := call.Call.Value.(*ssa.Builtin); isBuiltin {
				continue
			}
			res := call.Call.Signature().Results()
			for i := 0; i < res.Len(); i++ {
				if nt, ok := deref(res.At(i).Type()).(*types.Named); ok && nt.Obj().Pkg() != nil && strings.HasSuffix(nt.Obj().Pkg().Path(), "/libvore/files") {
					at = c.pos(call.Pos())
				}
			}
		}
	}
	return at
}
