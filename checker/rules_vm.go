package main

// C10 (termination mechanisms) and parts of C09 (nil-returning stack API, division, instruction fetch, reader lifetime).

import (
	"fmt"
	"go/constant"
	"go/token"
	"go/types"
	"sort"
	"strings"

	"golang.org/x/tools/go/ssa"
)

func (c *Ctx) stateMethod(name string) *ssa.Function {
	return c.Method("engine", "SearchEngineState", name)
}

// callersIn: the source functions of a package (other than callee itself) that contain a static call to callee.
func (c *Ctx) callersIn(pkg string, callee *ssa.Function) []*ssa.Function {
	var out []*ssa.Function
	for _, fn := range c.SrcFuncs(pkg) {
		if fn != callee && len(callsTo(fn, callee)) > 0 {
			out = append(out, fn)
		}
	}
	return out
}

func callsTo(fn *ssa.Function, callee *ssa.Function) []*ssa.Call {
	var out []*ssa.Call
	instrsOf(fn, func(in ssa.Instruction) {
		if call, ok := in.(*ssa.Call); ok && callee != nil && call.Call.StaticCallee() == callee {
			out = append(out, call)
		}
	})
	return out
}

// ruleZeroWidthGuard implements C10.R1.
func ruleZeroWidthGuard(c *Ctx, rule string) {
	r := c.R
	fn := c.Fn("engine", "matchStartLoop")
	chkF, incF, btF := c.stateMethod("CHECKZEROMATCHLOOP"), c.stateMethod("INCLOOPSTACK"), c.stateMethod("BACKTRACK")
	if fn == nil || chkF == nil || incF == nil || btF == nil {
		r.Ob(rule, "anchor engine.matchStartLoop / CHECKZEROMATCHLOOP / INCLOOPSTACK / BACKTRACK", "").Und("not found")
		return
	}
	ob := r.Ob(rule, "matchStartLoop: no further iteration is started without the zero-width check", c.pos(fn.Pos()))
	chks, incs := callsTo(fn, chkF), callsTo(fn, incF)
	if len(incs) == 0 {
		ob.Und("matchStartLoop never calls INCLOOPSTACK")
		return
	}
	// every path to an increment passes the check, or an edge on which `step < MinLoops + k` holds (a mandatory iteration: their
	// number is bounded by the minimum, so skipping the check there cannot spin)
	isStep, isMin, _ := c.loopMinAnchors(fn)
	okDom := len(chks) > 0
	chkBlock := map[*ssa.BasicBlock]bool{}
	for _, chk := range chks {
		chkBlock[chk.Block()] = true
	}
	bypass := 0
	for _, inc := range incs {
		d := false
		for _, chk := range chks {
			if instrDominates(chk, inc) {
				d = true
			}
		}
		if d {
			continue
		}
		// search the CFG from the entry without entering a block that makes the check and without crossing a bounded edge
		seen := map[*ssa.BasicBlock]bool{}
		work := []*ssa.BasicBlock{fn.Blocks[0]}
		reached := false
		for len(work) > 0 {
			b := work[len(work)-1]
			work = work[:len(work)-1]
			if seen[b] || chkBlock[b] {
				continue
			}
			seen[b] = true
			if b == inc.Block() {
				reached = true
				break
			}
			iff, _ := b.Instrs[len(b.Instrs)-1].(*ssa.If)
			for si, s := range b.Succs {
				if iff != nil {
					if kind, _, ok := stepMinForm(CondLit{iff.Cond, si == 0, iff}, isStep, isMin); ok && kind == "lt" {
						bypass++
						continue
					}
				}
				work = append(work, s)
			}
		}
		if reached {
			okDom = false
		}
	}
	if !okDom {
		ob.Bad("a path reaches INCLOOPSTACK (start of another iteration) without passing through CHECKZEROMATCHLOOP or a test `step < MinLoops`: a loop whose body matched the empty string iterates forever")
		return
	}
	// the true edge of the check leads to BACKTRACK and a return, with no other state movement
	chk := chks[0]
	var iff *ssa.If
	for _, ref := range *chk.Referrers() {
		if i, ok := ref.(*ssa.If); ok {
			iff = i
		}
	}
	if iff == nil {
		ob.Bad("the result of CHECKZEROMATCHLOOP does not control a branch")
		return
	}
	ob.Pos = c.pos(chk.Pos())
	// walk the region reachable from the true successor
	seen := map[*ssa.BasicBlock]bool{}
	work := []*ssa.BasicBlock{iff.Block().Succs[0]}
	var calls []string
	hasBT, hasRet := false, false
	for len(work) > 0 {
		b := work[len(work)-1]
		work = work[:len(work)-1]
		if seen[b] {
			continue
		}
		seen[b] = true
		for _, in := range b.Instrs {
			if sc := staticCallee(in); sc != nil && sc.Signature.Recv() != nil && c.isRepoFn(sc) {
				if sc == btF {
					hasBT = true
				} else {
					calls = append(calls, sc.Name())
				}
			}
			if _, ok := in.(*ssa.Return); ok {
				hasRet = true
			}
		}
		work = append(work, b.Succs...)
	}
	switch {
	case !hasBT || !hasRet:
		ob.Bad("when the last iteration consumed nothing the handler does not BACKTRACK and return")
	case len(calls) > 0:
		ob.Bad("when the last iteration consumed nothing the handler backtracks but also calls " + strings.Join(uniq(calls), ", ") + ": the empty iteration can be continued instead of abandoned")
	default:
		if bypass > 0 {
			ob.OKnt("every path to INCLOOPSTACK passes CHECKZEROMATCHLOOP or an edge on which `step < MinLoops` holds (bounded mandatory iterations); on a zero-width iteration the only effect is BACKTRACK followed by return")
		} else {
			ob.OKnt("CHECKZEROMATCHLOOP dominates INCLOOPSTACK; on a zero-width iteration the only effect is BACKTRACK followed by return")
		}
	}
	// who writes / compares loopMatchIndexStart
	w := c.fieldWriters("LoopState")
	ob2 := r.Ob(rule, "LoopState.loopMatchIndexStart is set only from len(currentMatch)", "")
	var vals []string
	for _, f := range c.SrcFuncs("engine") {
		instrsOf(f, func(in ssa.Instruction) {
			if st, ok := in.(*ssa.Store); ok {
				if fa, ok := st.Addr.(*ssa.FieldAddr); ok && fieldName(deref(fa.X.Type()), fa.Field) == "loopMatchIndexStart" {
					if n, ok := deref(fa.X.Type()).(*types.Named); ok && n.Obj().Name() == "LoopState" {
						// composite-literal copies (LoopState.Copy) carry the old value
						if prm, isParam := st.Val.(*ssa.Parameter); isParam {
							// a helper that records what it is handed: the value is what its call sites pass
							idx := -1
							for i, q := range f.Params {
								if q == prm {
									idx = i
								}
							}
							allLen, ncs := idx >= 0, 0
							for _, g := range c.SrcFuncs("engine") {
								for _, cs := range callsTo(g, f) {
									ncs++
									a := exprStr(cs.Call.Args[idx])
									if !(strings.HasPrefix(a, "len(") && strings.HasSuffix(a, ".currentMatch)")) {
										allLen = false
										vals = append(vals, a)
									}
								}
							}
							if allLen && ncs > 0 {
								vals = append(vals, "param-ok:"+prm.Name())
							}
							return
						}
						vals = append(vals, exprStr(st.Val))
					}
				}
			}
		})
	}
	bad := []string{}
	for _, v := range vals {
		if v != "len(es.currentMatch)" && v != "ls.loopMatchIndexStart" && !strings.HasPrefix(v, "param-ok:") {
			bad = append(bad, v)
		}
	}
	_ = w
	ob2.Check(len(bad) == 0 && len(vals) > 0, fmt.Sprintf("stored values: %v", uniq(vals)), "loopMatchIndexStart is also set from "+strings.Join(uniq(bad), ", "))
	ob2.Nontrivial = true
	// every increment of the iteration counter re-records where the new iteration starts, on all paths
	isLoopField := func(addr ssa.Value, name string) bool {
		fa, ok := addr.(*ssa.FieldAddr)
		if !ok || fieldName(deref(fa.X.Type()), fa.Field) != name {
			return false
		}
		n, ok := deref(fa.X.Type()).(*types.Named)
		return ok && n.Obj().Name() == "LoopState"
	}
	nInc := 0
	for _, f := range c.SrcFuncs("engine") {
		instrsOf(f, func(in ssa.Instruction) {
			st, ok := in.(*ssa.Store)
			if !ok || !isLoopField(st.Addr, "iterationStep") {
				return
			}
			if b, ok := st.Val.(*ssa.BinOp); !ok || b.Op != token.ADD {
				return
			}
			nInc++
			ob4 := r.Ob(rule, fnName(f)+": an incremented iteration counter comes with a re-recorded iteration start", c.pos(st.Pos()))
			// forward search from the increment for a return that is reached without a store to loopMatchIndexStart
			escaped := ""
			seen := map[*ssa.BasicBlock]bool{}
			var walk func(b *ssa.BasicBlock, from int)
			walk = func(b *ssa.BasicBlock, from int) {
				for i := from; i < len(b.Instrs); i++ {
					switch x := b.Instrs[i].(type) {
					case *ssa.Call:
						// a helper of the record that stores the start on each of its paths (startIteration, openIteration)
						if h := x.Call.StaticCallee(); h != nil && c.isRepoFn(h) && len(h.Blocks) > 0 {
							rec := false
							hpd := NewPostDom(h)
							instrsOf(h, func(y ssa.Instruction) {
								if st2, ok := y.(*ssa.Store); ok && isLoopField(st2.Addr, "loopMatchIndexStart") && hpd.PostDominates(st2.Block(), h.Blocks[0]) {
									rec = true
								}
							})
							if rec {
								return
							}
						}
					case *ssa.Store:
						if isLoopField(x.Addr, "loopMatchIndexStart") {
							return
						}
					case *ssa.Return:
						escaped = c.pos(x.Pos())
						if escaped == "" {
							escaped = "end of " + f.Name()
						}
						return
					}
				}
				for _, s := range b.Succs {
					if !seen[s] {
						seen[s] = true
						walk(s, 0)
					}
				}
			}
			idx := 0
			for i, x := range st.Block().Instrs {
				if x == ssa.Instruction(st) {
					idx = i + 1
				}
			}
			walk(st.Block(), idx)
			if escaped == "" {
				ob4.OKnt("every path from the increment to a return stores loopMatchIndexStart")
			} else {
				ob4.Bad("a path from the increment returns [" + escaped + "] without re-recording loopMatchIndexStart: the zero-width check of the next iteration compares against the start of an earlier iteration and never fires once anything was consumed")
			}
		})
	}
	r.Floor(rule, "increments of LoopState.iterationStep", nInc, 1)
	ob3 := r.Ob(rule, "CHECKZEROMATCHLOOP compares the recorded start with len(currentMatch)", c.pos(chkF.Pos()))
	got := ""
	instrsOf(chkF, func(in ssa.Instruction) {
		if ret, ok := in.(*ssa.Return); ok && len(ret.Results) == 1 {
			got = exprStr(ret.Results[0])
		}
	})
	okCmp := false
	instrsOf(chkF, func(in ssa.Instruction) {
		ret, ok := in.(*ssa.Return)
		if !ok || len(ret.Results) != 1 {
			return
		}
		// `top.consumedNothing(len(es.currentMatch))`: a method of the record that makes the comparison with what it is handed
		if hc, ok := ret.Results[0].(*ssa.Call); ok {
			h := hc.Call.StaticCallee()
			if h != nil && c.isRepoFn(h) && len(h.Params) == 2 && len(hc.Call.Args) == 2 && c.isLoopStackTop(hc.Call.Args[0], 0) {
				a1 := exprStr(hc.Call.Args[1])
				cmpOK := false
				instrsOf(h, func(y ssa.Instruction) {
					r2, ok := y.(*ssa.Return)
					if !ok || len(r2.Results) != 1 {
						return
					}
					hb, ok := r2.Results[0].(*ssa.BinOp)
					if !ok || hb.Op != token.EQL {
						return
					}
					for _, pr := range [][2]ssa.Value{{hb.X, hb.Y}, {hb.Y, hb.X}} {
						if u, ok := pr[0].(*ssa.UnOp); ok {
							if fa, ok := u.X.(*ssa.FieldAddr); ok && isLoopField(fa, "loopMatchIndexStart") && fa.X == ssa.Value(h.Params[0]) && pr[1] == ssa.Value(h.Params[1]) {
								cmpOK = true
							}
						}
					}
				})
				if cmpOK && strings.HasPrefix(a1, "len(") && strings.HasSuffix(a1, ".currentMatch)") {
					okCmp = true
				}
			}
			return
		}
		b, ok := ret.Results[0].(*ssa.BinOp)
		if !ok || b.Op != token.EQL {
			return
		}
		for _, pair := range [][2]ssa.Value{{b.X, b.Y}, {b.Y, b.X}} {
			// one side: the recorded start of the loop on top of the loop stack
			u, ok := pair[0].(*ssa.UnOp)
			if !ok {
				continue
			}
			fa, ok := u.X.(*ssa.FieldAddr)
			if !ok || !isLoopField(fa, "loopMatchIndexStart") || !c.isLoopStackTop(fa.X, 0) {
				continue
			}
			// other side: len(currentMatch) of the receiver
			if call, ok := pair[1].(*ssa.Call); ok {
				if bi, ok := call.Call.Value.(*ssa.Builtin); ok && bi.Name() == "len" && len(call.Call.Args) == 1 && strings.HasSuffix(exprStr(call.Call.Args[0]), ".currentMatch") {
					okCmp = true
				}
			}
		}
	})
	ob3.Check(okCmp, got, "returns "+got+"; expected the recorded start of the innermost loop compared with len(currentMatch)")
	ob3.Nontrivial = true
}

// ruleNotInProgress implements C10.R2.
func ruleNotInProgress(c *Ctx, rule string) {
	r := c.R
	fn := c.Fn("engine", "matchEndNotIn")
	cons, next, bt := c.stateMethod("CONSUME"), c.stateMethod("NEXT"), c.stateMethod("BACKTRACK")
	if fn == nil || cons == nil || next == nil || bt == nil {
		r.Ob(rule, "anchor engine.matchEndNotIn", "").Und("not found")
		return
	}
	ob := r.Ob(rule, "matchEndNotIn advances only when CONSUME made progress", c.pos(fn.Pos()))
	cc := callsTo(fn, cons)
	nn := callsTo(fn, next)
	if len(cc) != 1 || len(nn) == 0 {
		ob.Und(fmt.Sprintf("expected one CONSUME and at least one NEXT call, found %d and %d", len(cc), len(nn)))
		return
	}
	cds := NewPostDom(fn).ControlDeps()
	okAll := true
	why := ""
	for _, n := range nn {
		found := false
		for _, l := range condsOf(cds, n.Block()) {
			bo, ok := l.Cond.(*ssa.BinOp)
			if !ok {
				continue
			}
			// the comparison, brought to the form  c*(after - before) OP 0  over loads of currentFileOffset on either side of CONSUME
			coef := map[*ssa.UnOp]int{}
			konst := 0
			linearOK := true
			var walk func(v ssa.Value, sign int, depth int)
			walk = func(v ssa.Value, sign int, depth int) {
				if depth > 8 {
					linearOK = false
					return
				}
				switch x := v.(type) {
				case *ssa.Const:
					if k, ok := constInt(x); ok {
						konst += sign * int(k)
					} else {
						linearOK = false
					}
				case *ssa.BinOp:
					switch x.Op {
					case token.ADD:
						walk(x.X, sign, depth+1)
						walk(x.Y, sign, depth+1)
					case token.SUB:
						walk(x.X, sign, depth+1)
						walk(x.Y, -sign, depth+1)
					default:
						linearOK = false
					}
				case *ssa.UnOp:
					if x.Op == token.MUL && strings.HasSuffix(exprStr(x), ".currentFileOffset") {
						coef[x] += sign
					} else {
						linearOK = false
					}
				default:
					linearOK = false
				}
			}
			walk(bo.X, 1, 0)
			walk(bo.Y, -1, 0)
			if !linearOK || konst != 0 {
				continue
			}
			cAfter, cBefore, other := 0, 0, false
			for ld, k := range coef {
				switch {
				case k == 0:
				case instrDominates(ld, cc[0]):
					cBefore += k
				case instrDominates(cc[0], ld):
					cAfter += k
				default:
					other = true
				}
			}
			if other || cAfter == 0 || cAfter != -cBefore || (cAfter != 1 && cAfter != -1) {
				continue
			}
			// X - Y == cAfter*(after - before), and after >= before
			trueMeansDiffers, known := false, true
			switch {
			case bo.Op == token.NEQ:
				trueMeansDiffers = true
			case bo.Op == token.EQL:
				trueMeansDiffers = false
			case (bo.Op == token.GTR && cAfter == 1) || (bo.Op == token.LSS && cAfter == -1):
				trueMeansDiffers = true
			case (bo.Op == token.LEQ && cAfter == 1) || (bo.Op == token.GEQ && cAfter == -1):
				trueMeansDiffers = false
			default:
				known = false
			}
			if known && trueMeansDiffers == l.Pol {
				found = true
			}
		}
		if !found {
			okAll = false
			why = "a NEXT call [" + c.pos(n.Pos()) + "] is not control-dependent on `offset before CONSUME != offset after CONSUME`"
		}
	}
	if okAll {
		ob.OKnt("NEXT is control-dependent on the offset having changed across CONSUME; otherwise the handler backtracks")
	} else {
		ob.Bad(why + ": `not in` can succeed with zero width at end of input, and an unbounded loop or recursion around it never ends")
	}
}

// moversAnalysis: which methods of SearchEngineState change the program counter / status on every returning path.
func (c *Ctx) alwaysMoves() (map[*ssa.Function]bool, map[*ssa.Function]string) {
	base := map[string]bool{"NEXT": true, "JUMP": true, "RETURN": true, "BACKTRACK": true, "FAIL": true, "SUCCESS": true}
	stT := c.NamedType("engine", "SearchEngineState")
	moves := map[*ssa.Function]bool{}
	var methods []*ssa.Function
	if stT == nil {
		return moves, nil
	}
	for fn := range c.allFns {
		if c.isRepoFn(fn) && fn.Signature.Recv() != nil && len(fn.Blocks) > 0 {
			if n, ok := deref(fn.Signature.Recv().Type()).(*types.Named); ok && n == stT {
				methods = append(methods, fn)
				moves[fn] = true // optimistic (greatest fixpoint)
			}
		}
		// plain functions that work on the state they are handed as first argument (helpers of the handlers) are treated like methods
		if c.isRepoFn(fn) && fn.Signature.Recv() == nil && len(fn.Blocks) > 0 && len(fn.Params) > 0 && fn.Synthetic == "" {
			if p, ok := fn.Params[0].Type().(*types.Pointer); ok && types.Identical(p.Elem(), stT) {
				methods = append(methods, fn)
				moves[fn] = true
			}
		}
	}
	why := map[*ssa.Function]string{}
	var check func(fn *ssa.Function, stateVal func(ssa.Value) bool) (bool, string)
	closureDepth := 0
	closureMoves := func(cl *ssa.Function) bool {
		if closureDepth > 1 || len(cl.Blocks) == 0 {
			return false
		}
		closureDepth++
		defer func() { closureDepth-- }()
		ok, _ := check(cl, func(v ssa.Value) bool {
			u, isLoad := v.(*ssa.UnOp)
			if !isLoad || u.Op != token.MUL {
				return false
			}
			_, isFree := u.X.(*ssa.FreeVar)
			return isFree && stT != nil && types.Identical(deref(u.Type()), stT)
		})
		return ok
	}
	check = func(fn *ssa.Function, stateVal func(ssa.Value) bool) (bool, string) {
		// must-analysis: moved at every return
		in := map[*ssa.BasicBlock]bool{}
		out := map[*ssa.BasicBlock]bool{}
		for _, b := range fn.Blocks {
			in[b], out[b] = true, true
		}
		in[fn.Blocks[0]] = false
		dead := exhaustedEnumEdges(fn)
		changed := true
		for changed {
			changed = false
			for _, b := range fn.Blocks {
				v := true
				if b == fn.Blocks[0] {
					v = false
				} else {
					for _, p := range b.Preds {
						if dead[[2]*ssa.BasicBlock{p, b}] {
							continue // the fall-out of a switch that has a case for every value its tag can take
						}
						if !out[p] {
							v = false
						}
					}
					if len(b.Preds) == 0 {
						v = true
					}
				}
				o := v
				for _, x := range b.Instrs {
					// a closure of this function that moves the state variable it captured, on each of its paths
					if sc := staticCallee(x); sc != nil && sc.Parent() == fn && closureMoves(sc) {
						o = true
					}
					// `proceed, refuse := es.NEXT, es.BACKTRACK; ...; proceed()`: a call of a method value, every candidate of which is a
					// base mover bound to the state
					if ci, ok := x.(ssa.CallInstruction); ok && ci.Common().StaticCallee() == nil && !ci.Common().IsInvoke() {
						leaves := phiLeaves(ci.Common().Value, nil)
						all := len(leaves) > 0
						for _, l := range leaves {
							mc, ok := l.(*ssa.MakeClosure)
							if !ok {
								all = false
								break
							}
							f, _ := mc.Fn.(*ssa.Function)
							if f == nil || !strings.HasSuffix(f.Name(), "$bound") || !base[strings.TrimSuffix(f.Name(), "$bound")] || len(mc.Bindings) != 1 || !stateVal(mc.Bindings[0]) {
								all = false
								break
							}
						}
						if all {
							o = true
						}
					}
					if sc := staticCallee(x); sc != nil && len(x.(ssa.CallInstruction).Common().Args) > 0 && stateVal(x.(ssa.CallInstruction).Common().Args[0]) {
						if base[sc.Name()] && moves[sc] || (moves[sc] && !base[sc.Name()]) {
							o = true
						}
						if base[sc.Name()] {
							o = true
						}
					}
				}
				if v != in[b] || o != out[b] {
					in[b], out[b] = v, o
					changed = true
				}
			}
		}
		for _, b := range fn.Blocks {
			if _, ok := b.Instrs[len(b.Instrs)-1].(*ssa.Return); ok && !out[b] {
				return false, "a return at " + c.pos(b.Instrs[len(b.Instrs)-1].Pos()) + " is reachable without NEXT/JUMP/RETURN/BACKTRACK/FAIL"
			}
		}
		return true, ""
	}
	for iter := 0; iter < 20; iter++ {
		changed := false
		for _, m := range methods {
			if base[m.Name()] || !moves[m] {
				continue
			}
			recv := m.Params[0]
			ok, w := check(m, func(v ssa.Value) bool { return v == ssa.Value(recv) })
			if !ok {
				moves[m] = false
				why[m] = w
				changed = true
			}
		}
		if !changed {
			break
		}
	}
	movesCheck = check
	return moves, why
}

var movesCheck func(fn *ssa.Function, stateVal func(ssa.Value) bool) (bool, string)

// ruleHandlersMove implements C10.R3.
func ruleHandlersMove(c *Ctx, rule string) {
	r := c.R
	mi := c.Fn("engine", "matchInstruction")
	cp := c.stateMethod("Copy")
	if mi == nil || cp == nil {
		r.Ob(rule, "anchor engine.matchInstruction", "").Und("not found")
		return
	}
	moves, _ := c.alwaysMoves()
	var handlers []*ssa.Function
	instrsOf(mi, func(in ssa.Instruction) {
		if sc := staticCallee(in); sc != nil && c.isRepoFn(sc) && sc.Pkg == mi.Pkg && len(sc.Params) == 2 {
			handlers = append(handlers, sc)
		}
	})
	r.Floor(rule, "instruction handlers", len(handlers), 10)
	for _, h := range handlers {
		ob := r.Ob(rule, fnName(h)+" moves the state it returns on every path", c.pos(h.Pos()))
		var copyVal ssa.Value
		instrsOf(h, func(in ssa.Instruction) {
			if call, ok := in.(*ssa.Call); ok && call.Call.StaticCallee() == cp {
				copyVal = call
			}
		})
		if copyVal == nil {
			// the handler may delegate to a helper that copies the state and moves the copy on every path
			delegated, nret := true, 0
			helper := ""
			instrsOf(h, func(in ssa.Instruction) {
				ret, ok := in.(*ssa.Return)
				if !ok || len(ret.Results) != 1 {
					return
				}
				nret++
				call, ok := ret.Results[0].(*ssa.Call)
				if !ok {
					delegated = false
					return
				}
				g := call.Call.StaticCallee()
				if g == nil || !c.isRepoFn(g) || g.Pkg != h.Pkg || len(g.Blocks) == 0 {
					delegated = false
					return
				}
				var gCopy ssa.Value
				instrsOf(g, func(y ssa.Instruction) {
					if cl, ok := y.(*ssa.Call); ok && cl.Call.StaticCallee() == cp {
						gCopy = cl
					}
				})
				if gCopy == nil {
					delegated = false
					return
				}
				if ok, _ := movesCheck(g, func(v ssa.Value) bool { return v == gCopy }); !ok {
					delegated = false
				}
				helper = g.Name()
			})
			if delegated && nret > 0 {
				ob.OKnt("returns the result of " + helper + ", which copies the state and moves the copy on every path")
			} else {
				ob.Und("the handler does not work on current_state.Copy()")
			}
			continue
		}
		// the variable that holds the copy may live in memory (a closure of the handler captures it)
		holdsCopy := func(v ssa.Value) bool {
			if v == copyVal {
				return true
			}
			u, isLoad := v.(*ssa.UnOp)
			if !isLoad || u.Op != token.MUL {
				return false
			}
			a, isAlloc := u.X.(*ssa.Alloc)
			if !isAlloc {
				return false
			}
			n := 0
			for _, ref := range *a.Referrers() {
				if st, ok := ref.(*ssa.Store); ok && st.Addr == ssa.Value(a) {
					if st.Val != copyVal {
						return false
					}
					n++
				}
			}
			return n > 0
		}
		ok, why := movesCheck(h, holdsCopy)
		if ok {
			ob.OKnt("every return is preceded by NEXT/JUMP/RETURN/BACKTRACK/FAIL (or a MATCH* method that always does one of them) on the returned state")
		} else {
			ob.Bad(why + ": the VM would execute the same instruction again in the same state, forever")
		}
	}
	// the MATCH* primitives used by the handlers
	var ms []*ssa.Function
	for m := range moves {
		if strings.HasPrefix(m.Name(), "MATCH") || m.Name() == "STARTVAR" || m.Name() == "ENDVAR" {
			ms = append(ms, m)
		}
	}
	sort.Slice(ms, func(i, j int) bool { return ms[i].Name() < ms[j].Name() })
	for _, m := range ms {
		ob := r.Ob(rule, fnName(m)+" moves the state on every returning path", c.pos(m.Pos()))
		if moves[m] {
			ob.OKnt("must-analysis over its CFG: every return is preceded by a mover")
		} else {
			recv := m.Params[0]
			_, why := movesCheck(m, func(v ssa.Value) bool { return v == ssa.Value(recv) })
			ob.Bad(why)
		}
	}
}

// ruleLoopIdentity implements C10.R5.
func ruleLoopIdentity(c *Ctx, rule string) {
	r := c.R
	fn := c.stateMethod("INITLOOPSTACK")
	if fn == nil {
		r.Ob(rule, "anchor INITLOOPSTACK", "").Und("not found")
		return
	}
	ob := r.Ob(rule, "INITLOOPSTACK identifies a running loop by loop id and call depth", c.pos(fn.Pos()))
	var conds []string
	instrsOf(fn, func(in ssa.Instruction) {
		if iff, ok := in.(*ssa.If); ok {
			conds = append(conds, exprStr(iff.Cond))
		}
	})
	joined := strings.Join(conds, " ; ")
	hasId := strings.Contains(joined, ".loopId != loopId") || strings.Contains(joined, ".loopId == loopId")
	hasLvl := strings.Contains(joined, ".callLevel != int(es.callStack.Size())") || strings.Contains(joined, ".callLevel == int(es.callStack.Size())")
	if !hasLvl {
		// the call depth may come from an accessor: es.callDepth() { return int(es.callStack.Size()) }
		instrsOf(fn, func(in ssa.Instruction) {
			b, ok := in.(*ssa.BinOp)
			if !ok || (b.Op != token.EQL && b.Op != token.NEQ) {
				return
			}
			for _, pr := range [][2]ssa.Value{{b.X, b.Y}, {b.Y, b.X}} {
				if !strings.HasSuffix(exprStr(pr[0]), ".callLevel") {
					continue
				}
				if call, ok := pr[1].(*ssa.Call); ok {
					if h := call.Call.StaticCallee(); h != nil && c.isRepoFn(h) && len(h.Blocks) > 0 {
						okRet := true
						instrsOf(h, func(y ssa.Instruction) {
							if ret, ok := y.(*ssa.Return); ok {
								if len(ret.Results) != 1 || !strings.Contains(exprStr(ret.Results[0]), "callStack.Size()") {
									okRet = false
								}
							}
						})
						if okRet {
							hasLvl = true
						}
					}
				}
			}
		})
	}
	if !hasId || !hasLvl {
		// the comparison may be made by a method of the loop record that is handed the id and the depth
		instrsOf(fn, func(in ssa.Instruction) {
			call, ok := in.(*ssa.Call)
			if !ok {
				return
			}
			h := call.Call.StaticCallee()
			if h == nil || !c.isRepoFn(h) || len(h.Blocks) == 0 || h.Pkg != fn.Pkg {
				return
			}
			instrsOf(h, func(y ssa.Instruction) {
				b, ok := y.(*ssa.BinOp)
				if !ok || (b.Op != token.EQL && b.Op != token.NEQ) {
					return
				}
				for _, pr := range [][2]ssa.Value{{b.X, b.Y}, {b.Y, b.X}} {
					u, ok := pr[0].(*ssa.UnOp)
					if !ok {
						continue
					}
					fa, ok := u.X.(*ssa.FieldAddr)
					if !ok {
						continue
					}
					prm, ok := pr[1].(*ssa.Parameter)
					if !ok {
						continue
					}
					pi := -1
					for i, q := range h.Params {
						if q == prm {
							pi = i
						}
					}
					if pi < 0 || pi >= len(call.Call.Args) {
						continue
					}
					arg := call.Call.Args[pi]
					switch fieldName(deref(fa.X.Type()), fa.Field) {
					case "loopId":
						if p2, ok := arg.(*ssa.Parameter); ok && p2.Name() == "loopId" {
							hasId = true
						}
					case "callLevel":
						if strings.Contains(exprStr(arg), "callStack.Size()") {
							hasLvl = true
						}
					}
				}
			})
		})
	}
	ob.Check(hasId && hasLvl, "tests: "+joined, "the tests are ["+joined+"]; both the loop id and the call depth must be compared, otherwise a recursive call re-enters the caller's loop state")
	ob.Nontrivial = true
}

// ---------------------------------------------------------------------------------------------
// C09 pieces

// ruleDivision implements C09.R4. Divisions inside the process-expression evaluator (executeBinaryExpr and the helpers reachable only
// through it) are grouped per operator, so that the obligation's key survives a restructuring of the evaluator.
func ruleDivision(c *Ctx, rule string) {
	r := c.R
	reach := c.Reachable(c.runRoots()...)
	ebe := c.Fn("engine", "executeBinaryExpr")
	inEvaluator := func(fn *ssa.Function) bool {
		return ebe != nil && (fn == ebe || (c.Reachable(ebe)[fn] && fn.Pkg == ebe.Pkg && c.onlyThrough(c.runRoots(), ebe, fn)))
	}
	type group struct {
		sites, bad []string
		pos        string
	}
	groups := map[string]*group{}
	n := 0
	for _, fn := range sortedFns(reach) {
		if !c.isRepoFn(fn) {
			continue
		}
		k := 0
		ev := inEvaluator(fn)
		instrsOf(fn, func(in ssa.Instruction) {
			b, ok := in.(*ssa.BinOp)
			if !ok || (b.Op != token.QUO && b.Op != token.REM) {
				return
			}
			if bt, ok := b.Type().Underlying().(*types.Basic); !ok || bt.Info()&types.IsInteger == 0 {
				return
			}
			n++
			k++
			key := fmt.Sprintf("%s: integer %s #%d has a non-zero divisor", fnName(fn), b.Op, k)
			if ev {
				key = fmt.Sprintf("process-expression evaluator: integer %s has a tested divisor", b.Op)
			}
			g := groups[key]
			if g == nil {
				g = &group{pos: c.pos(b.Pos())}
				groups[key] = g
			}
			site := fmt.Sprintf("%s [%s]", fnName(fn), c.pos(b.Pos()))
			g.sites = append(g.sites, site)
			if d, ok := constInt(b.Y); ok {
				if d == 0 {
					g.bad = append(g.bad, site+": division by the constant 0")
				}
				return
			}
			guarded := false
			dv := exprStr(b.Y)
			instrsOf(fn, func(x ssa.Instruction) {
				iff, ok := x.(*ssa.If)
				if !ok {
					return
				}
				cb, ok := iff.Cond.(*ssa.BinOp)
				if !ok {
					return
				}
				if z, ok := constInt(cb.Y); !ok || z != 0 || exprStr(cb.X) != dv {
					return
				}
				var okSucc *ssa.BasicBlock
				switch cb.Op {
				case token.NEQ:
					okSucc = iff.Block().Succs[0]
				case token.EQL:
					okSucc = iff.Block().Succs[1]
				}
				if okSucc != nil && len(okSucc.Preds) == 1 && (okSucc == b.Block() || okSucc.Dominates(b.Block())) {
					guarded = true
				}
			})
			if !guarded {
				g.bad = append(g.bad, site+": divisor "+dv+" is never compared with 0")
			}
		})
	}
	for _, key := range sortedKeys(groups) {
		g := groups[key]
		ob := r.Ob(rule, key, g.pos)
		if len(g.bad) == 0 {
			ob.OKnt(fmt.Sprintf("%d site(s): constant non-zero divisor or dominated by a test against 0", len(g.sites)))
		} else {
			ob.Bad("a run-time divisor can be zero: " + strings.Join(g.bad, "; ") + " — `return 1 / 0` (or `% 0`) in a transform panics with an integer divide by zero")
		}
	}
	r.Floor(rule, "integer divisions reachable from Run", n, 1)
}

// ruleInstructionFetch implements C09.R5. The fetch sites are found by role: the index expression that produces the instruction
// handed to matchInstruction / executeReplace, in whatever function makes that call.
func ruleInstructionFetch(c *Ctx, rule string) {
	r := c.R
	for _, spec := range []struct{ callee, desc string }{
		{"matchInstruction", "search instruction fetch"}, {"executeReplace", "replace instruction fetch"},
	} {
		callee := c.Fn("engine", spec.callee)
		if callee == nil {
			r.Ob(rule, spec.desc, "").Und("engine." + spec.callee + " not found")
			continue
		}
		n := 0
		for _, fn := range c.callersIn("engine", callee) {
			for _, call := range callsTo(fn, callee) {
				inst := call.Call.Args[0]
				var site *indexSite
				for _, s := range indexSites(fn) {
					s := s
					// the loaded element is the instruction passed to the dispatcher
					if ld, ok := inst.(*ssa.UnOp); ok && ld.X == s.in.(ssa.Value) {
						site = &s
					}
				}
				if site == nil {
					continue
				}
				n++
				ob := r.Ob(rule, fmt.Sprintf("%s #%d is inside the program", spec.desc, n), c.pos(site.in.Pos()))
				cs := exprStr(site.coll)
				if guardedByExpr(fn, site.coll, site.idx, site.in) {
					ob.OKnt("in " + fnName(fn) + ": dominated by a comparison of the program counter with len(" + cs + ")")
				} else {
					ob.Bad("in " + fnName(fn) + ": instruction " + cs + "[" + exprStr(site.idx) + "] is fetched without a dominating test of the program counter against len(" + cs + "): an empty body (`find all`) or a jump to the end indexes out of range")
				}
			}
		}
		if n == 0 {
			r.Ob(rule, spec.desc, c.pos(callee.Pos())).Und("no indexed fetch feeding " + spec.callee + " found")
		}
	}
}

// guardedByExpr is guardedBy with expression-level matching of index and collection (loads of the same field are distinct SSA values).
func guardedByExpr(fn *ssa.Function, coll ssa.Value, idx ssa.Value, at ssa.Instruction) bool {
	want := exprStr(idx)
	wantColl := exprStr(coll)
	found := false
	for _, b := range fn.Blocks {
		iff, ok := b.Instrs[len(b.Instrs)-1].(*ssa.If)
		if !ok {
			continue
		}
		bo, ok := iff.Cond.(*ssa.BinOp)
		if !ok {
			continue
		}
		x, y := exprStr(bo.X), exprStr(bo.Y)
		op := bo.Op
		if x == "len("+wantColl+")" {
			x, y = y, x
			switch op {
			case token.LSS:
				op = token.GTR
			case token.GTR:
				op = token.LSS
			case token.LEQ:
				op = token.GEQ
			case token.GEQ:
				op = token.LEQ
			}
		}
		if x != want || y != "len("+wantColl+")" {
			continue
		}
		var okSucc *ssa.BasicBlock
		switch op {
		case token.LSS:
			okSucc = b.Succs[0]
		case token.GEQ:
			okSucc = b.Succs[1]
		}
		if okSucc == nil || len(okSucc.Preds) != 1 {
			continue
		}
		if okSucc != at.Block() && !okSucc.Dominates(at.Block()) {
			continue
		}
		// no call that may change the index between the guard and the use: the state may only be replaced after the fetch
		found = true
	}
	return found
}

// ruleStackAPI implements C09.R8.
func ruleStackAPI(c *Ctx, rule string, trusted map[string]string) {
	r := c.R
	reach := c.Reachable(append(c.runRoots(), c.compileRoots()...)...)
	n := 0
	for _, fn := range sortedFns(reach) {
		if !c.isRepoFn(fn) || fn.Pkg == nil {
			continue
		}
		k := 0
		instrsOf(fn, func(in ssa.Instruction) {
			call, ok := in.(*ssa.Call)
			if !ok {
				return
			}
			sc := call.Call.StaticCallee()
			if sc == nil || sc.Signature.Recv() == nil {
				return
			}
			nm := sc.Name()
			if i := strings.Index(nm, "["); i > 0 {
				nm = nm[:i]
			}
			full := fnName(sc)
			if !(strings.Contains(full, "ds.Stack") || strings.Contains(full, "ds.Queue")) || (nm != "Peek" && nm != "Pop" && nm != "Index") {
				return
			}
			// dereferences of the returned pointer
			var derefs []ssa.Instruction
			for _, ref := range *call.Referrers() {
				switch u := ref.(type) {
				case *ssa.FieldAddr, *ssa.UnOp:
					derefs = append(derefs, u.(ssa.Instruction))
				}
			}
			if len(derefs) == 0 {
				return
			}
			n++
			k++
			ob := r.Ob(rule, fmt.Sprintf("%s: result of %s #%d is not nil when dereferenced", fnName(fn), nm, k), c.pos(call.Pos()))
			recv := exprStr(call.Call.Args[0])
			allOK := true
			for _, d := range derefs {
				if nilChecked(call, d) || emptinessChecked(fn, recv, d) || c.guardedByHelper(fn, recv, d) {
					continue
				}
				// Index(i) under a dominating `i < recv.Size()` test (upward counting loop over the stack)
				if nm == "Index" && len(call.Call.Args) == 2 {
					idx := exprStr(call.Call.Args[1])
					bounded := false
					for _, b := range fn.Blocks {
						if iff, ok := b.Instrs[len(b.Instrs)-1].(*ssa.If); ok {
							cs := exprStr(iff.Cond)
							if (cs == "("+idx+" < int("+recv+".Size()))" || cs == "("+idx+" < "+recv+".Size())") && (b.Succs[0] == call.Block() || b.Succs[0].Dominates(call.Block())) {
								bounded = true
							}
						}
					}
					if bounded {
						continue
					}
					// downward counting loop: i starts at recv.Size()-1, only decreases, and `i >= 0` dominates the call
					if phi, ok := call.Call.Args[1].(*ssa.Phi); ok {
						startsAtTop, onlyDown := false, true
						for _, e := range phi.Edges {
							es := exprStr(e)
							switch {
							case es == "(int("+recv+".Size()) - 1)" || es == "("+recv+".Size() - 1)":
								startsAtTop = true
							case es == "("+exprStr(phi)+" - 1)":
							default:
								onlyDown = false
							}
						}
						nonNeg := false
						for _, b := range fn.Blocks {
							if iff, ok := b.Instrs[len(b.Instrs)-1].(*ssa.If); ok {
								if exprStr(iff.Cond) == "("+exprStr(phi)+" >= 0)" && (b.Succs[0] == call.Block() || b.Succs[0].Dominates(call.Block())) {
									nonNeg = true
								}
							}
						}
						if startsAtTop && onlyDown && nonNeg {
							continue
						}
					}
				}
				allOK = false
			}
			if allOK {
				ob.OKnt("every dereference is dominated by a nil test of the result or an IsEmpty()/Size() test of " + recv)
			} else if why, ok := trusted[fnName(fn)]; ok {
				ob.Exc("trusted (frozen table): " + why)
			} else if why, ok := trustedParent(fn, trusted); ok {
				ob.Exc("trusted (frozen table, a closure of the function): " + why)
			} else if why := c.trustedThroughOwner(fn, trusted); why != "" {
				ob.Exc("trusted (frozen table, through the only function that reaches this helper): " + why)
			} else {
				ob.Bad(nm + "() returns nil on an empty " + recv + " and the result is dereferenced without a test")
			}
		})
	}
	r.Floor(rule, "dereferenced results of Peek/Pop/Index", n, 3)
}

// emptinessChecked: the use is dominated by the non-empty edge of `recv.IsEmpty()` or `recv.Size() == 0` (same receiver expression).
func emptinessChecked(fn *ssa.Function, recv string, use ssa.Instruction) bool {
	ok := false
	for _, b := range fn.Blocks {
		iff, is := b.Instrs[len(b.Instrs)-1].(*ssa.If)
		if !is {
			continue
		}
		s := exprStr(iff.Cond)
		var nonEmpty *ssa.BasicBlock
		switch {
		case s == recv+".IsEmpty()":
			nonEmpty = b.Succs[1]
		case s == "!"+recv+".IsEmpty()":
			nonEmpty = b.Succs[0]
		case s == "("+recv+".Size() == 0)":
			nonEmpty = b.Succs[1]
		case s == "("+recv+".Size() != 0)", s == "("+recv+".Size() > 0)":
			nonEmpty = b.Succs[0]
		}
		if nonEmpty != nil && len(nonEmpty.Preds) == 1 && (nonEmpty == use.Block() || nonEmpty.Dominates(use.Block())) {
			ok = true
		}
		// `if empty { panic }`: the block after the panic branch
		if nonEmpty != nil && (nonEmpty == use.Block() || nonEmpty.Dominates(use.Block())) {
			other := b.Succs[0]
			if other == nonEmpty {
				other = b.Succs[1]
			}
			if _, isPanic := other.Instrs[len(other.Instrs)-1].(*ssa.Panic); isPanic {
				ok = true
			}
		}
	}
	return ok
}

// ruleReaderLifetime implements C09.R9: the function that opens a reader closes it on every path, and nobody else does.
func ruleReaderLifetime(c *Ctx, rule string) {
	r := c.R
	closeF := c.Method("files", "Reader", "Close")
	if closeF == nil {
		r.Ob(rule, "anchor files.(*Reader).Close", "").Und("not found")
		return
	}
	ctors := map[*ssa.Function]bool{}
	for _, n := range []string{"ReaderFromFile", "ReaderFromString", "ReaderFromFileToMemory"} {
		if f := c.Fn("files", n); f != nil {
			ctors[f] = true
		}
	}
	// a function that returns the reader it constructed hands ownership to its caller: it is itself a constructor
	for changed := true; changed; {
		changed = false
		for _, fn := range c.SrcFuncs("engine") {
			if ctors[fn] {
				continue
			}
			instrsOf(fn, func(in ssa.Instruction) {
				ret, ok := in.(*ssa.Return)
				if !ok || len(ret.Results) != 1 {
					return
				}
				var fromCtor func(v ssa.Value, d int) bool
				fromCtor = func(v ssa.Value, d int) bool {
					if d > 4 {
						return false
					}
					switch x := v.(type) {
					case *ssa.Call:
						return ctors[x.Call.StaticCallee()]
					case *ssa.Phi:
						for _, e := range x.Edges {
							if !fromCtor(e, d+1) {
								return false
							}
						}
						return len(x.Edges) > 0
					}
					return false
				}
				if fromCtor(ret.Results[0], 0) && !ctors[fn] {
					ctors[fn] = true
					changed = true
				}
			})
		}
	}
	// a function that answers (reader, opened bool) - a reader it constructed together with true, or one it was handed together with
	// false - leaves the closing to its caller, under that flag
	flagSources := map[*ssa.Function]bool{}
	for _, fn := range c.SrcFuncs("engine") {
		if ctors[fn] || fn.Signature.Results().Len() != 2 {
			continue
		}
		if b, ok := fn.Signature.Results().At(1).Type().Underlying().(*types.Basic); !ok || b.Kind() != types.Bool {
			continue
		}
		nret, okAll, fresh := 0, true, 0
		instrsOf(fn, func(in ssa.Instruction) {
			ret, ok := in.(*ssa.Return)
			if !ok || len(ret.Results) != 2 {
				return
			}
			nret++
			isCtor := false
			if call, ok := ret.Results[0].(*ssa.Call); ok && ctors[call.Call.StaticCallee()] {
				isCtor = true
			}
			k, isConst := ret.Results[1].(*ssa.Const)
			if !isConst || k.Value == nil || k.Value.Kind() != constant.Bool || constant.BoolVal(k.Value) != isCtor {
				okAll = false
			}
			if isCtor {
				fresh++
			}
		})
		if nret > 0 && okAll && fresh > 0 {
			flagSources[fn] = true
		}
	}
	// a function that closes the reader it is handed on every path takes over the duty of closing it: for its callers the call is the
	// Close. closers[f] = index of that parameter.
	closers := map[*ssa.Function]int{}
	for _, fn := range c.SrcFuncs("engine") {
		if len(fn.Blocks) == 0 {
			continue
		}
		fpd := NewPostDom(fn)
		for i, p := range fn.Params {
			isDirect := func(v ssa.Value) bool { return v == ssa.Value(p) }
			done := false
			instrsOf(fn, func(in ssa.Instruction) {
				switch y := in.(type) {
				case *ssa.Call:
					if y.Call.StaticCallee() == closeF && len(y.Call.Args) == 1 && isDirect(y.Call.Args[0]) && fpd.PostDominates(y.Block(), fn.Blocks[0]) {
						done = true
					}
				case *ssa.Defer:
					if y.Call.StaticCallee() == closeF && len(y.Call.Args) == 1 && isDirect(y.Call.Args[0]) && y.Block() == fn.Blocks[0] {
						done = true
					}
				}
			})
			if done {
				closers[fn] = i
			}
		}
	}
	n := 0
	for _, fn := range c.SrcFuncs("engine") {
		if ctors[fn] || flagSources[fn] {
			continue
		}
		pd := NewPostDom(fn)
		k := 0
		// readers obtained together with an `opened` flag: closed under exactly that flag
		instrsOf(fn, func(in ssa.Instruction) {
			call, ok := in.(*ssa.Call)
			if !ok || !flagSources[call.Call.StaticCallee()] {
				return
			}
			n++
			k++
			ob := r.Ob(rule, fmt.Sprintf("%s: reader #%d (from %s, with an `opened` flag) is closed when the flag says it was opened here", fnName(fn), k, call.Call.StaticCallee().Name()), c.pos(call.Pos()))
			var rd, flag ssa.Value
			for _, ref := range *call.Referrers() {
				if ex, ok := ref.(*ssa.Extract); ok {
					if ex.Index == 0 {
						rd = ex
					} else {
						flag = ex
					}
				}
			}
			if rd == nil || flag == nil {
				ob.Bad("the reader or its `opened` flag is dropped: nobody can close the reader")
				return
			}
			base := map[*ssa.If]bool{}
			for _, l := range domConds(fn, call.Block()) {
				base[l.If] = true
			}
			closed := false
			instrsOf(fn, func(x ssa.Instruction) {
				var cc *ssa.CallCommon
				switch y := x.(type) {
				case *ssa.Call:
					cc = &y.Call
				case *ssa.Defer:
					cc = &y.Call
				}
				if cc == nil || cc.StaticCallee() != closeF || len(cc.Args) != 1 || cc.Args[0] != rd {
					return
				}
				var own []CondLit
				for _, l := range domConds(fn, x.Block()) {
					if !base[l.If] {
						own = append(own, l)
					}
				}
				if len(own) == 1 && own[0].Cond == flag && own[0].Pol && pd.PostDominates(own[0].If.Block(), call.Block()) {
					closed = true
				}
			})
			if closed {
				ob.OKnt("Close (or a deferred Close) on the reader is executed exactly when the flag is set, on every path")
			} else {
				ob.Bad("no Close on this reader under exactly its `opened` flag: a reader opened by the helper stays open (or one that belongs to the caller is closed)")
			}
		})
		// values that may hold a reader created here: constructor calls and phis of them
		instrsOf(fn, func(in ssa.Instruction) {
			call, ok := in.(*ssa.Call)
			if !ok || !ctors[call.Call.StaticCallee()] {
				return
			}
			n++
			k++
			ob := r.Ob(rule, fmt.Sprintf("%s: reader #%d (%s) is closed by the function that opened it", fnName(fn), k, call.Call.StaticCallee().Name()), c.pos(call.Pos()))
			// aliases: phis containing the call
			alias := map[ssa.Value]bool{call: true}
			for changed := true; changed; {
				changed = false
				instrsOf(fn, func(x ssa.Instruction) {
					if p, ok := x.(*ssa.Phi); ok && !alias[p] {
						for _, e := range p.Edges {
							if alias[e] {
								alias[p] = true
								changed = true
							}
						}
					}
				})
			}
			// a field of a struct that lives in this function may hold the reader: loads of that field are aliases too
			type lf struct {
				a *ssa.Alloc
				f int
			}
			held := map[lf]bool{}
			instrsOf(fn, func(x ssa.Instruction) {
				if st, ok := x.(*ssa.Store); ok && alias[st.Val] {
					if fa, ok := st.Addr.(*ssa.FieldAddr); ok {
						if a, ok := fa.X.(*ssa.Alloc); ok {
							held[lf{a, fa.Field}] = true
						}
					}
				}
			})
			if len(held) > 0 {
				instrsOf(fn, func(x ssa.Instruction) {
					if u, ok := x.(*ssa.UnOp); ok && u.Op == token.MUL {
						if fa, ok := u.X.(*ssa.FieldAddr); ok {
							if a, ok := fa.X.(*ssa.Alloc); ok && held[lf{a, fa.Field}] {
								alias[u] = true
							}
						}
					}
				})
			}
			// a local that a closure captures lives in memory: right after `original = files.ReaderFrom...(..)` the loads of the
			// local in the same block (`defer original.Close()`) are the reader
			instrsOf(fn, func(x ssa.Instruction) {
				st, ok := x.(*ssa.Store)
				if !ok || !alias[st.Val] {
					return
				}
				al, ok := st.Addr.(*ssa.Alloc)
				if !ok {
					return
				}
				past := false
				for _, y := range st.Block().Instrs {
					if y == ssa.Instruction(st) {
						past = true
						continue
					}
					if !past {
						continue
					}
					if st2, ok := y.(*ssa.Store); ok && st2.Addr == ssa.Value(al) {
						break
					}
					if u, ok := y.(*ssa.UnOp); ok && u.Op == token.MUL && u.X == ssa.Value(al) {
						alias[u] = true
					}
				}
			})
			// the record that holds the reader may itself travel on: returned to the caller, or handed to a function of the repository
			// (which then closes `target.reader`); who closes it is then not decided in this function
			leavesInRecord := ""
			for h := range held {
				for _, ref := range *h.a.Referrers() {
					u, ok := ref.(*ssa.UnOp)
					if !ok || u.Op != token.MUL {
						if cl, isCall := ref.(*ssa.Call); isCall {
							if sc := cl.Call.StaticCallee(); sc != nil && c.isRepoFn(sc) {
								leavesInRecord = "handed to " + fnName(sc)
							}
						}
						continue
					}
					for _, r2 := range *u.Referrers() {
						switch z := r2.(type) {
						case *ssa.Return:
							leavesInRecord = "returned in a " + types.TypeString(u.Type(), shortQual)
						case *ssa.Call:
							if sc := z.Call.StaticCallee(); sc != nil && c.isRepoFn(sc) {
								leavesInRecord = "handed to " + fnName(sc) + " in a " + types.TypeString(u.Type(), shortQual)
							}
						}
					}
				}
			}
			closed := false
			escapes := ""
			instrsOf(fn, func(x ssa.Instruction) {
				switch y := x.(type) {
				case *ssa.Call:
					if y.Call.StaticCallee() == closeF && len(y.Call.Args) == 1 && alias[y.Call.Args[0]] {
						if pd.PostDominates(y.Block(), call.Block()) {
							closed = true
						}
					}
					if idx, isCloser := closers[y.Call.StaticCallee()]; isCloser && idx < len(y.Call.Args) && alias[y.Call.Args[idx]] {
						if pd.PostDominates(y.Block(), call.Block()) {
							closed = true
						}
					}
				case *ssa.Defer:
					if y.Call.StaticCallee() == closeF && len(y.Call.Args) == 1 && alias[y.Call.Args[0]] {
						closed = true
					}
				case *ssa.Store:
					if alias[y.Val] {
						if fa, ok := y.Addr.(*ssa.FieldAddr); ok {
							if a, ok := fa.X.(*ssa.Alloc); ok && held[lf{a, fa.Field}] {
								return // a field of a struct of this function: followed above
							}
						}
						if root, isParam := traceAddr(y.Addr).Root.(*ssa.Parameter); isParam && fn.Signature.Recv() != nil && len(fn.Params) > 0 && root == fn.Params[0] {
							// a method of a record that manages the reader (`out.open()` ... `out.release()`): the record's user closes it
							leavesInRecord = "kept in a field of the receiver, " + exprStr(y.Addr)
							return
						}
						if _, isAlloc := traceAddr(y.Addr).Root.(*ssa.Alloc); !isAlloc || !traceAddr(y.Addr).local() {
							escapes = "stored into " + exprStr(y.Addr) + " [" + c.pos(y.Pos()) + "]"
						}
					}
				case *ssa.MapUpdate:
					if alias[y.Value] {
						escapes = "stored into a map [" + c.pos(y.Pos()) + "]"
					}
				}
			})
			switch {
			case escapes != "":
				ob.Bad("the reader outlives the iteration that opened it (" + escapes + "): a later command can use it after it was closed")
			case !closed && leavesInRecord != "":
				ob.Und("the reader leaves this function inside a record (" + leavesInRecord + "); who closes it is not followed")
			case !closed:
				ob.Bad("no Close call on this reader post-dominates its creation: on this path the descriptor stays open (a long file list exhausts descriptors and os.Open panics)")
			default:
				ob.OKnt("a Close call on the same reader post-dominates the creation (or is deferred)")
			}
		})
		// nobody closes a reader it received as a parameter
		instrsOf(fn, func(in ssa.Instruction) {
			call, ok := in.(*ssa.Call)
			if !ok || call.Call.StaticCallee() != closeF || len(call.Call.Args) != 1 {
				return
			}
			arg := call.Call.Args[0]
			isParam := false
			var walk func(v ssa.Value, d int)
			walk = func(v ssa.Value, d int) {
				if d > 5 {
					return
				}
				switch x := v.(type) {
				case *ssa.Parameter:
					isParam = true
				case *ssa.Phi:
					for _, e := range x.Edges {
						walk(e, d+1)
					}
				}
			}
			walk(arg, 0)
			if _, takesOver := closers[fn]; takesOver && isParam {
				// closes what it is handed on every path: its callers are checked to treat the call as the Close (a second Close or a
				// use after the call would be a use of a closed reader)
				bad := ""
				for _, caller := range c.callersIn("engine", fn) {
					for _, cl := range callsTo(caller, fn) {
						idx := closers[fn]
						if idx >= len(cl.Call.Args) {
							continue
						}
						rd := cl.Call.Args[idx]
						instrsOf(caller, func(z ssa.Instruction) {
							zc, ok := z.(ssa.CallInstruction)
							if !ok || z == ssa.Instruction(cl) {
								return
							}
							for _, a := range zc.Common().Args {
								if a == rd && instrDominates(cl, z) {
									bad = fnName(caller) + " uses the reader after " + fn.Name() + " closed it [" + c.pos(z.Pos()) + "]"
								}
							}
						})
					}
				}
				ob := r.Ob(rule, fnName(fn)+": closes the reader it is handed, on every path", c.pos(call.Pos()))
				if bad == "" {
					ob.OKnt("ownership passes to this function; no caller touches the reader after the call")
				} else {
					ob.Bad(bad)
				}
				return
			}
			if isParam {
				r.Ob(rule, fnName(fn)+": closes a reader it did not open", c.pos(call.Pos())).Bad("Close is called on a reader received as a parameter: the opener closes it again (Close panics on a closed file) or keeps using it")
			}
		})
	}
	r.Floor(rule, "reader constructions in package engine", n, 2)
}

// ruleMonotoneTypes implements C09.R3: the checker's environment is one map per definition (flow-insensitive); an unconditional
// overwrite of a variable's type makes the checked type of a variable differ from its run-time type on paths that skip the overwrite.
func ruleMonotoneTypes(c *Ctx, rule string) {
	r := c.R
	infoT := c.NamedType("bytecode", "ProcessTypeInfo")
	if infoT == nil {
		r.Ob(rule, "anchor bytecode.ProcessTypeInfo", "").Und("not found")
		return
	}
	// premise: the environment map is never copied inside the checker (no MakeMap in check* functions)
	premise := true
	var updates []*ssa.MapUpdate
	for _, fn := range c.SrcFuncs("bytecode") {
		if !strings.HasPrefix(fn.Name(), "check") {
			continue
		}
		instrsOf(fn, func(in ssa.Instruction) {
			if _, ok := in.(*ssa.MakeMap); ok {
				premise = false
			}
			if mu, ok := in.(*ssa.MapUpdate); ok && strings.HasSuffix(exprStr(mu.Map), ".environment") {
				updates = append(updates, mu)
			}
		})
	}
	if !premise {
		r.Ob(rule, "checker environment discipline", "").OK("not applicable - premise changed: the checker creates environments of its own (flow-sensitive typing); this rule does not guess")
		return
	}
	r.Note("C09.R3 premise (checked): no check* function of package bytecode allocates a map, so one environment map serves a whole definition and the checker is flow-insensitive")
	if len(updates) == 0 {
		r.Ob(rule, "checker environment updates", "").Und("no update of ProcessTypeInfo.environment found")
		return
	}
	ob := r.Ob(rule, "process-type checker: the recorded type of a variable is bound monotonically", c.pos(updates[0].Pos()))
	var bad []string
	for _, mu := range updates {
		fn := mu.Parent()
		// the update must be control-dependent on a lookup of the same key in the same map
		cds := NewPostDom(fn).ControlDeps()
		guarded := false
		for _, l := range condsOf(cds, mu.Block()) {
			s := exprStr(l.Cond)
			if strings.Contains(s, exprStr(mu.Map)+"["+exprStr(mu.Key)+"]") {
				guarded = true
			}
		}
		if !guarded {
			bad = append(bad, fmt.Sprintf("%s [%s]", fnName(fn), c.pos(mu.Pos())))
		}
	}
	if len(bad) == 0 {
		ob.OKnt(fmt.Sprintf("%d update(s) of the environment, each conditional on what it already says about the same variable", len(updates)))
	} else {
		ob.Bad("`set` overwrites the recorded type of a variable unconditionally (" + strings.Join(bad, ", ") + ") although the checker is flow-insensitive: after `set x to 'a' if c then set x to true end` the checker believes x is a boolean, accepts `x and true`, and the evaluator panics with SHOULDN'T GET HERE when the branch was not taken")
	}
}

// ruleLoopProtocol (C01.R5): typestate of the loop handler. Along every path through matchStartLoop track (a) whether the loop's
// record is on the loop stack (INIT/INC/PUSH put it there, POP removes it) and (b) where the program counter points (the loop
// body: NEXT or JUMP(GETPC()+1); the exit: JUMP(ExitLoop+1)). Every state that is saved by CHECKPOINT or returned must satisfy
// "continues in the body <=> carries the loop record": a state that re-enters the body without its record restarts the count, a
// state that leaves the loop with the record corrupts the enclosing loop.
func ruleLoopProtocol(c *Ctx, rule string) {
	r := c.R
	fn := c.Fn("engine", "matchStartLoop")
	if fn == nil {
		r.Ob(rule, "anchor engine.matchStartLoop", "").Und("not found")
		return
	}
	type st struct{ onStack, target int } // 0 unknown, 1 yes/body, 2 no/exit
	in := map[*ssa.BasicBlock]st{}
	out := map[*ssa.BasicBlock]st{}
	visited := map[*ssa.BasicBlock]bool{}
	join := func(a, b st) st {
		res := a
		if a.onStack != b.onStack {
			res.onStack = 0
		}
		if a.target != b.target {
			res.target = 0
		}
		return res
	}
	var problems []string
	nchecks := 0
	transfer := func(b *ssa.BasicBlock, s st, report bool) st {
		check := func(what string, pos ssa.Instruction) {
			if !report || s.onStack == 0 || s.target == 0 {
				return
			}
			nchecks++
			if s.target == 1 && s.onStack == 2 {
				problems = append(problems, fmt.Sprintf("%s [%s] continues in the loop body without the loop's record on the loop stack", what, c.pos(pos.Pos())))
			}
			if s.target == 2 && s.onStack == 1 {
				problems = append(problems, fmt.Sprintf("%s [%s] leaves the loop with the loop's record still on the loop stack", what, c.pos(pos.Pos())))
			}
		}
		for _, x := range b.Instrs {
			if ret, ok := x.(*ssa.Return); ok {
				check("the returned state", ret)
				continue
			}
			sc := staticCallee(x)
			if sc == nil || sc.Signature.Recv() == nil {
				continue
			}
			switch sc.Name() {
			case "INITLOOPSTACK", "INCLOOPSTACK", "PUSHLOOPSTACK":
				s.onStack = 1
			case "POPLOOPSTACK":
				s.onStack = 2
			case "NEXT":
				s.target = 1
			case "JUMP":
				args := x.(ssa.CallInstruction).Common().Args
				a := exprStr(args[len(args)-1])
				switch {
				case strings.Contains(a, ".ExitLoop"):
					s.target = 2
				case strings.Contains(a, "GETPC()"):
					s.target = 1
				default:
					s.target = 0
				}
			case "CHECKPOINT":
				check("the state saved by CHECKPOINT", x)
			case "BACKTRACK", "FAIL":
				s = st{}
			}
		}
		return s
	}
	work := []*ssa.BasicBlock{fn.Blocks[0]}
	for len(work) > 0 {
		b := work[0]
		work = work[1:]
		s := in[b]
		o := transfer(b, s, false)
		if visited[b] && o == out[b] {
			continue
		}
		visited[b] = true
		out[b] = o
		for _, succ := range b.Succs {
			ns := o
			if visited[succ] || in[succ] != (st{}) {
				ns = join(in[succ], o)
			}
			if ns != in[succ] || !visited[succ] {
				in[succ] = ns
				work = append(work, succ)
			}
		}
	}
	hasCalls := func(b *ssa.BasicBlock) bool {
		for _, x := range b.Instrs {
			if sc := staticCallee(x); sc != nil && sc.Signature.Recv() != nil {
				return true
			}
		}
		return false
	}
	for _, b := range fn.Blocks {
		if !visited[b] {
			continue
		}
		transfer(b, in[b], true)
		// a return block that only merges the branches: classify the state each branch delivers to it
		if ret, ok := b.Instrs[len(b.Instrs)-1].(*ssa.Return); ok && !hasCalls(b) && len(b.Preds) > 1 {
			for _, p := range b.Preds {
				if !visited[p] {
					continue
				}
				s := out[p]
				if s.onStack == 0 || s.target == 0 {
					continue
				}
				nchecks++
				var at ssa.Instruction = ret
				for _, x := range p.Instrs {
					if x.Pos().IsValid() {
						at = x
					}
				}
				if s.target == 1 && s.onStack == 2 {
					problems = append(problems, fmt.Sprintf("the state returned after [%s] continues in the loop body without the loop's record on the loop stack", c.pos(at.Pos())))
				}
				if s.target == 2 && s.onStack == 1 {
					problems = append(problems, fmt.Sprintf("the state returned after [%s] leaves the loop with the loop's record still on the loop stack", c.pos(at.Pos())))
				}
			}
		}
	}
	ob := r.Ob(rule, "matchStartLoop: a state continues in the loop body exactly when it carries the loop's record", c.pos(fn.Pos()))
	switch {
	case len(problems) > 0:
		ob.Bad(strings.Join(uniq(problems), "; ") + " — backtracking into such a state restarts the iteration count (the loop's maximum is ignored) or corrupts the enclosing loop")
	case nchecks < 3:
		ob.Und(fmt.Sprintf("only %d checkpoint/return states could be classified; the loop handler was restructured", nchecks))
	default:
		ob.OKnt(fmt.Sprintf("%d saved or returned states classified: body-states carry the record, exit-states do not", nchecks))
	}
}

// ruleReaderPerSearch implements C06.R5 / C07.R4: every command searches a file through a reader opened for that command in the
// same loop iteration, i.e. after everything earlier commands wrote to the file. A reader kept from an earlier command serves
// buffered content and a size from before the rewrite.
func ruleReaderPerSearch(c *Ctx, rule string) {
	r := c.R
	ctors := map[*ssa.Function]bool{}
	for _, n := range []string{"ReaderFromFile", "ReaderFromString", "ReaderFromFileToMemory"} {
		if f := c.Fn("files", n); f != nil {
			ctors[f] = true
		}
	}
	var fromCtor func(v ssa.Value, d int, calls *[]*ssa.Call) bool
	fromCtor = func(v ssa.Value, d int, calls *[]*ssa.Call) bool {
		if d > 4 {
			return false
		}
		switch x := v.(type) {
		case *ssa.Call:
			if ctors[x.Call.StaticCallee()] {
				*calls = append(*calls, x)
				return true
			}
			// `open := files.ReaderFromFile; ...; open(target)`: a call through a function value all of whose targets are constructors
			if x.Call.StaticCallee() == nil && !x.Call.IsInvoke() {
				cs := c.calleesOf(x)
				all := len(cs) > 0
				for _, callee := range cs {
					if !ctors[callee] {
						all = false
					}
				}
				if all {
					*calls = append(*calls, x)
					return true
				}
			}
			return false
		case *ssa.Phi:
			for _, e := range x.Edges {
				if !fromCtor(e, d+1, calls) {
					return false
				}
			}
			return len(x.Edges) > 0
		}
		return false
	}
	for changed := true; changed; {
		changed = false
		for _, fn := range c.SrcFuncs("engine") {
			if ctors[fn] {
				continue
			}
			instrsOf(fn, func(in ssa.Instruction) {
				ret, ok := in.(*ssa.Return)
				if !ok || len(ret.Results) != 1 {
					return
				}
				var cs []*ssa.Call
				if fromCtor(ret.Results[0], 0, &cs) && !ctors[fn] {
					ctors[fn] = true
					changed = true
				}
			})
		}
	}
	rdT := c.NamedType("files", "Reader")
	fm := c.Fn("engine", "findMatches")
	n := 0
	for _, fn := range c.SrcFuncs("engine") {
		// the driver: a function that iterates over the commands of a program and hands a reader to a search function
		k := 0
		instrsOf(fn, func(in ssa.Instruction) {
			call, ok := in.(*ssa.Call)
			if !ok {
				return
			}
			sc := call.Call.StaticCallee()
			if sc == nil || !c.isRepoFn(sc) || ctors[sc] {
				return
			}
			loop := loopBlocks(fn, call.Block())
			if loop == nil {
				return
			}
			for _, a := range call.Call.Args {
				p, isPtr := a.Type().(*types.Pointer)
				if !isPtr || rdT == nil || !types.Identical(p.Elem(), rdT) {
					continue
				}
				if _, isParam := a.(*ssa.Parameter); isParam {
					continue // handed down by the caller, which is examined itself
				}
				// only drivers: the callee must be a search function (it reaches the scan loop)
				if fm == nil || !c.Reachable(sc)[fm] {
					continue
				}
				n++
				k++
				ob := r.Ob(rule, fmt.Sprintf("%s: call #%d of %s searches through a reader opened in the same iteration", fnName(fn), k, sc.Name()), c.pos(call.Pos()))
				// a driver that forces the mode that writes nothing cannot make a reader stale
				nothing := false
				if k := c.constByName("engine", "NOTHING"); k != nil {
					for _, a2 := range call.Call.Args {
						if kc, ok := a2.(*ssa.Const); ok && kc.Value != nil && types.Identical(kc.Type(), k.Type()) && constant.Compare(kc.Value, token.EQL, k.Val()) {
							nothing = true
						}
					}
				}
				if nothing {
					ob.OKnt("the search is run in mode NOTHING: no file is rewritten, so a reader cannot go stale")
					continue
				}
				var cs []*ssa.Call
				if !fromCtor(a, 0, &cs) {
					ob.Bad("the reader is " + exprStr(a) + ", not the result of a reader constructor called for this search: a reader kept from an earlier command serves the file as it was before that command rewrote it")
					continue
				}
				bad := ""
				for _, ctor := range cs {
					if !loop[ctor.Block()] {
						bad = callName(&ctor.Call) + " is called outside the loop that runs the searches [" + c.pos(ctor.Pos()) + "]"
					}
				}
				if bad != "" {
					ob.Bad(bad + ": all iterations share one reader")
				} else {
					ob.OKnt(fmt.Sprintf("%d constructor call(s), all inside the innermost loop around the search", len(cs)))
				}
			}
		})
	}
	r.Floor(rule, "searches that are handed a reader by a loop", n, 1)
}

// ruleOptionalGuard implements C09.R11: Optional.GetValue panics on an empty optional, so every call must be dominated by the
// true edge of HasValue() on the same optional.
func ruleOptionalGuard(c *Ctx, rule string) {
	r := c.R
	isOptMethod := func(sc *ssa.Function, name string) bool {
		if sc == nil || sc.Signature.Recv() == nil {
			return false
		}
		base := sc.Name()
		if i := strings.Index(base, "["); i > 0 {
			base = base[:i]
		}
		if base != name {
			return false
		}
		n, ok := deref(sc.Signature.Recv().Type()).(*types.Named)
		return ok && n.Obj().Name() == "Optional" && n.Obj().Pkg() != nil && n.Obj().Pkg().Name() == "ds"
	}
	var fns []*ssa.Function
	for f := range c.allFns {
		if c.isRepoFn(f) && len(f.Blocks) > 0 && f.Synthetic == "" {
			fns = append(fns, f)
		}
	}
	sort.Slice(fns, func(i, j int) bool { return fnName(fns[i]) < fnName(fns[j]) })
	n := 0
	for _, fn := range fns {
		k := 0
		instrsOf(fn, func(in ssa.Instruction) {
			call, ok := in.(*ssa.Call)
			if !ok || !isOptMethod(call.Call.StaticCallee(), "GetValue") || len(call.Call.Args) == 0 {
				return
			}
			n++
			k++
			recv := exprStr(call.Call.Args[0])
			ob := r.Ob(rule, fmt.Sprintf("%s: GetValue #%d on %s is guarded by HasValue", fnName(fn), k, recv), c.pos(call.Pos()))
			guarded := false
			instrsOf(fn, func(y ssa.Instruction) {
				iff, ok := y.(*ssa.If)
				if !ok {
					return
				}
				hc, ok := iff.Cond.(*ssa.Call)
				if !ok || !isOptMethod(hc.Call.StaticCallee(), "HasValue") || len(hc.Call.Args) == 0 || exprStr(hc.Call.Args[0]) != recv {
					return
				}
				t := iff.Block().Succs[0]
				if len(t.Preds) == 1 && (t == call.Block() || t.Dominates(call.Block())) {
					guarded = true
				}
			})
			if guarded {
				ob.OKnt("dominated by the true edge of " + recv + ".HasValue()")
			} else {
				ob.Bad("GetValue panics on an empty optional and no dominating " + recv + ".HasValue() test was found (GetValueOrDefault is the total accessor)")
			}
		})
	}
	r.Stats["optional_getvalue_calls"] = n
}

// ruleConsumingLoopsStopAtEOF implements C10.R6: a loop inside one instruction that consumes input must leave when the offset
// reaches the size of the input, because CONSUME at the end consumes nothing and such a loop would spin.
func ruleConsumingLoopsStopAtEOF(c *Ctx, rule string) {
	r := c.R
	cons := c.stateMethod("CONSUME")
	if cons == nil {
		r.Ob(rule, "anchor (*SearchEngineState).CONSUME", "").Und("not found")
		return
	}
	isEOFTest := func(v ssa.Value) bool {
		b, ok := v.(*ssa.BinOp)
		if !ok || (b.Op != token.EQL && b.Op != token.GEQ && b.Op != token.NEQ && b.Op != token.LSS) {
			return false
		}
		x, y := exprStr(b.X), exprStr(b.Y)
		off := func(s string) bool { return strings.HasSuffix(s, ".currentFileOffset") }
		size := func(s string) bool { return strings.HasSuffix(s, ".reader.Size()") }
		if (off(x) && size(y)) || (off(y) && size(x)) {
			return true
		}
		// a position kept in a record of its own (`s.offset == s.es.reader.Size()`): a comparison of something that is not a
		// constant with the size of the reader
		sizeFn := c.Method("files", "Reader", "Size")
		isSize := func(v ssa.Value) bool {
			call, ok := v.(*ssa.Call)
			return ok && sizeFn != nil && call.Call.StaticCallee() == sizeFn
		}
		isConst := func(v ssa.Value) bool { _, ok := v.(*ssa.Const); return ok }
		return (isSize(b.X) && !isConst(b.Y)) || (isSize(b.Y) && !isConst(b.X))
	}
	var fnHasEOFTestD func(f *ssa.Function, depth int) bool
	fnHasEOFTestD = func(f *ssa.Function, depth int) bool {
		has := false
		instrsOf(f, func(in ssa.Instruction) {
			if v, ok := in.(ssa.Value); ok && isEOFTest(v) {
				has = true
			}
			if sc := staticCallee(in); sc != nil && c.isRepoFn(sc) && depth < 3 && !has && len(sc.Blocks) > 0 && sc != f {
				if fnHasEOFTestD(sc, depth+1) {
					has = true
				}
			}
		})
		return has
	}
	fnHasEOFTest := func(f *ssa.Function) bool { return fnHasEOFTestD(f, 0) }
	cg := c.CG()
	n := 0
	for _, fn := range c.SrcFuncs("engine") {
		if fn == cons {
			continue
		}
		k := 0
		for _, comp := range sccs(fn, func(a, b *ssa.BasicBlock) bool { return true }) {
			if len(comp) == 1 {
				self := false
				for _, s := range comp[0].Succs {
					if s == comp[0] {
						self = true
					}
				}
				if !self {
					continue
				}
			}
			in := map[*ssa.BasicBlock]bool{}
			for _, b := range comp {
				in[b] = true
			}
			var consumeAt ssa.Instruction
			for _, b := range comp {
				for _, x := range b.Instrs {
					if staticCallee(x) == cons {
						consumeAt = x
					}
				}
			}
			if consumeAt == nil {
				continue
			}
			n++
			k++
			ob := r.Ob(rule, fmt.Sprintf("%s: consuming loop #%d leaves at end of input", fnName(fn), k), c.pos(consumeAt.Pos()))
			ok := false
			var unknown []string
			for _, b := range comp {
				iff, isIf := b.Instrs[len(b.Instrs)-1].(*ssa.If)
				if !isIf {
					continue
				}
				exits := !in[b.Succs[0]] || !in[b.Succs[1]]
				if isEOFTest(iff.Cond) {
					// the test itself, or a short-circuit operand of the exit condition
					ok = true
					continue
				}
				if call, isCall := iff.Cond.(*ssa.Call); isCall || exits {
					if !isCall {
						continue
					}
					// the exit predicate (or a short-circuit operand of it) is a call: every function it can resolve to must test for
					// the end of input
					var callees []*ssa.Function
					if sc := call.Call.StaticCallee(); sc != nil {
						callees = append(callees, sc)
					} else if node := cg.Nodes[fn]; node != nil {
						for _, e := range node.Out {
							if e.Site == ssa.CallInstruction(call) {
								callees = append(callees, e.Callee.Func)
							}
						}
					}
					all := len(callees) > 0
					var missing []string
					for _, cal := range callees {
						target := cal
						// bound-method wrappers forward to the method
						if cal.Synthetic != "" {
							instrsOf(cal, func(y ssa.Instruction) {
								if sc := staticCallee(y); sc != nil && c.isRepoFn(sc) {
									target = sc
								}
							})
						}
						if !fnHasEOFTest(target) {
							all = false
							missing = append(missing, fnName(target))
						}
					}
					if all {
						ok = true
					} else if exits {
						unknown = append(unknown, missing...)
					}
				}
			}
			direct := false
			for _, b := range comp {
				if iff, isIf := b.Instrs[len(b.Instrs)-1].(*ssa.If); isIf && isEOFTest(iff.Cond) {
					direct = true
				}
			}
			if direct || ok {
				unknown = nil
			}
			switch {
			case ok && len(unknown) == 0:
				ob.OKnt("an exit of the loop tests currentFileOffset against reader.Size()")
			case len(unknown) > 0:
				ob.Bad("the loop consumes input and leaves on a predicate that can be " + strings.Join(uniq(unknown), ", ") + ", which never looks at the end of the input: at the end CONSUME reads nothing and the loop spins inside one instruction")
			default:
				ob.Bad("the loop consumes input but no exit tests currentFileOffset against reader.Size(): at the end CONSUME reads nothing and the loop spins inside one instruction")
			}
		}
	}
	r.Floor(rule, "consuming loops inside instruction handlers", n, 1)
}

// ruleBacktrackResumesTop implements C01.R6: backtracking resumes exactly the most recently saved state. In every method of the VM
// state that pops the backtrack stack, each popped state is handed to Set on every path before the function returns or pops again;
// a popped checkpoint that is dropped is an alternative that is never explored.
func ruleBacktrackResumesTop(c *Ctx, rule string) {
	r := c.R
	stT := c.NamedType("engine", "SearchEngineState")
	setF := c.stateMethod("Set")
	if stT == nil || setF == nil {
		r.Ob(rule, "anchor engine.SearchEngineState / Set", "").Und("not found")
		return
	}
	isBacktrackPop := func(in ssa.Instruction) *ssa.Call {
		call, ok := in.(*ssa.Call)
		if !ok {
			return nil
		}
		sc := call.Call.StaticCallee()
		if sc == nil || !strings.HasPrefix(sc.Name(), "Pop") || len(call.Call.Args) == 0 {
			return nil
		}
		for _, s := range traceAddr(call.Call.Args[0]).Steps {
			if s.Kind == "field" && s.Field == "backtrack" && s.Struct != nil && types.Identical(s.Struct, stT) {
				return call
			}
		}
		return nil
	}
	n := 0
	for _, fn := range c.SrcFuncs("engine") {
		k := 0
		instrsOf(fn, func(in ssa.Instruction) {
			pop := isBacktrackPop(in)
			if pop == nil {
				return
			}
			n++
			k++
			ob := r.Ob(rule, fmt.Sprintf("%s: checkpoint popped at #%d is resumed", fnName(fn), k), c.pos(pop.Pos()))
			problem := ""
			seen := map[*ssa.BasicBlock]bool{}
			var walk func(b *ssa.BasicBlock, from int)
			walk = func(b *ssa.BasicBlock, from int) {
				for i := from; i < len(b.Instrs) && problem == ""; i++ {
					x := b.Instrs[i]
					if sc := staticCallee(x); sc == setF {
						call := x.(*ssa.Call)
						if len(call.Call.Args) == 2 && (call.Call.Args[1] == ssa.Value(pop) || strings.Contains(exprStr(call.Call.Args[1]), exprStr(pop))) {
							return
						}
					}
					if p2 := isBacktrackPop(x); p2 != nil {
						problem = "another checkpoint is popped [" + c.pos(p2.Pos()) + "] before this one was resumed"
						return
					}
					if ret, ok := x.(*ssa.Return); ok {
						problem = "the function returns [" + c.pos(ret.Pos()) + "] without resuming it"
						return
					}
				}
				if problem != "" {
					return
				}
				for si, s := range b.Succs {
					// the edge on which the popped checkpoint is nil: the stack was empty, nothing was taken off it
					if iff, ok := b.Instrs[len(b.Instrs)-1].(*ssa.If); ok {
						if cmp, ok := iff.Cond.(*ssa.BinOp); ok && (cmp.X == ssa.Value(pop) || cmp.Y == ssa.Value(pop)) {
							other := cmp.Y
							if cmp.X != ssa.Value(pop) {
								other = cmp.X
							}
							if k, isConst := other.(*ssa.Const); isConst && k.IsNil() {
								if cmp.Op == token.EQL && si == 0 || cmp.Op == token.NEQ && si == 1 {
									continue
								}
							}
						}
					}
					if !seen[s] {
						seen[s] = true
						walk(s, 0)
					}
				}
			}
			idx := 0
			for i, x := range pop.Block().Instrs {
				if x == ssa.Instruction(pop) {
					idx = i + 1
				}
			}
			walk(pop.Block(), idx)
			if problem == "" {
				ob.OKnt("every path from the pop reaches Set(popped state)")
			} else {
				ob.Bad(problem + ": a saved alternative is discarded, so the search no longer explores the alternatives in backtracking order and can miss the match the semantics defines")
			}
		})
	}
	r.Floor(rule, "pops of the backtrack stack", n, 1)
}

// guardedByHelper: the use is dominated by a call of a repository helper on the same object that does not return when the stack
// field is empty (its `X.field.IsEmpty()` / `Size() == 0` test leads to a panic on every path).
func (c *Ctx) guardedByHelper(fn *ssa.Function, recv string, use ssa.Instruction) bool {
	i := strings.LastIndex(recv, ".")
	if i < 0 {
		return false
	}
	base, field := recv[:i], recv[i+1:]
	ok := false
	instrsOf(fn, func(in ssa.Instruction) {
		call, is := in.(*ssa.Call)
		if !is || ok {
			return
		}
		h := call.Call.StaticCallee()
		if h == nil || !c.isRepoFn(h) || len(h.Blocks) == 0 || len(call.Call.Args) == 0 || exprStr(call.Call.Args[0]) != base || len(h.Params) == 0 {
			return
		}
		if !instrDominates(call, use) {
			return
		}
		pname := h.Params[0].Name()
		for _, b := range h.Blocks {
			iff, is := b.Instrs[len(b.Instrs)-1].(*ssa.If)
			if !is {
				continue
			}
			cs := exprStr(iff.Cond)
			var emptySucc *ssa.BasicBlock
			switch cs {
			case pname + "." + field + ".IsEmpty()", "(" + pname + "." + field + ".Size() == 0)", "(int(" + pname + "." + field + ".Size()) == 0)":
				emptySucc = b.Succs[0]
			case "(" + pname + "." + field + ".Size() != 0)", "(" + pname + "." + field + ".Size() > 0)":
				emptySucc = b.Succs[1]
			case "(" + pname + "." + field + ".Peek() == nil)":
				emptySucc = b.Succs[0]
			case "(" + pname + "." + field + ".Peek() != nil)":
				emptySucc = b.Succs[1]
			}
			if emptySucc == nil {
				continue
			}
			// no return is reachable from the empty edge
			seen := map[*ssa.BasicBlock]bool{}
			work := []*ssa.BasicBlock{emptySucc}
			returns := false
			for len(work) > 0 {
				x := work[len(work)-1]
				work = work[:len(work)-1]
				if seen[x] {
					continue
				}
				seen[x] = true
				if _, isRet := x.Instrs[len(x.Instrs)-1].(*ssa.Return); isRet {
					returns = true
				}
				work = append(work, x.Succs...)
			}
			// and the test dominates every return of the helper
			domAll := true
			for _, x := range h.Blocks {
				if _, isRet := x.Instrs[len(x.Instrs)-1].(*ssa.Return); isRet && !b.Dominates(x) {
					domAll = false
				}
			}
			if !returns && domAll {
				ok = true
			}
		}
	})
	return ok
}

// isLoopStackTop: v is the element on top of a loopStack field: Peek() on it, or the result of a helper all of whose returns are.
func (c *Ctx) isLoopStackTop(v ssa.Value, depth int) bool {
	call, ok := v.(*ssa.Call)
	if !ok || depth > 2 {
		return false
	}
	sc := call.Call.StaticCallee()
	if sc == nil {
		return false
	}
	if strings.HasPrefix(sc.Name(), "Peek") && len(call.Call.Args) > 0 && strings.HasSuffix(exprStr(call.Call.Args[0]), ".loopStack") {
		return true
	}
	if c.isRepoFn(sc) && len(sc.Blocks) > 0 {
		all, n := true, 0
		instrsOf(sc, func(in ssa.Instruction) {
			if ret, ok := in.(*ssa.Return); ok && len(ret.Results) == 1 {
				n++
				if !c.isLoopStackTop(ret.Results[0], depth+1) {
					all = false
				}
			}
		})
		return all && n > 0
	}
	return false
}

// ruleEveryFileIsSearched implements C07.R5: in the loop that drives the searches, every file that reaches the innermost loop is
// searched: the call of the search function executes on every iteration that does not end in a panic or an exit (it post-dominates
// the entry of the loop body). A pre-filter that skips a file decides "no match here" outside the matcher, from a model of the
// pattern that the matcher does not share.
func ruleEveryFileIsSearched(c *Ctx, rule string) {
	r := c.R
	fm := c.Fn("engine", "findMatches")
	rdT := c.NamedType("files", "Reader")
	if fm == nil || rdT == nil {
		r.Ob(rule, "anchor engine.findMatches / files.Reader", "").Und("not found")
		return
	}
	n := 0
	for _, fn := range c.SrcFuncs("engine") {
		k := 0
		instrsOf(fn, func(in ssa.Instruction) {
			call, ok := in.(*ssa.Call)
			if !ok {
				return
			}
			sc := call.Call.StaticCallee()
			if sc == nil || !c.isRepoFn(sc) || !c.Reachable(sc)[fm] {
				return
			}
			hasReader := false
			for _, a := range call.Call.Args {
				if p, isPtr := a.Type().(*types.Pointer); isPtr && types.Identical(p.Elem(), rdT) {
					if _, isParam := a.(*ssa.Parameter); !isParam {
						hasReader = true
					}
				}
			}
			if !hasReader {
				return
			}
			loop := loopBlocks(fn, call.Block())
			if loop == nil {
				return
			}
			inner := innermostLoop(fn, call.Block())
			if inner == nil {
				return
			}
			n++
			k++
			ob := r.Ob(rule, fmt.Sprintf("%s: search call #%d runs on every iteration of its loop", fnName(fn), k), c.pos(call.Pos()))
			// header of the innermost loop: the block of the loop with a predecessor outside it
			var header *ssa.BasicBlock
			for b := range inner {
				for _, p := range b.Preds {
					if !inner[p] && (header == nil || b.Index < header.Index) {
						header = b
					}
				}
			}
			if header == nil {
				ob.Und("loop header not found")
				return
			}
			pd := NewPostDom(fn)
			// entries of the body: successors of the header inside the loop
			okAll := true
			skipAt := ""
			for _, s := range header.Succs {
				if !inner[s] || pd.PostDominates(call.Block(), s) {
					continue
				}
				okAll = false
				// the first branch of the body (in dominance order) one of whose sides no longer has to pass the call
				for _, b := range fn.Blocks {
					if !inner[b] || skipAt != "" || !(b == s || s.Dominates(b)) || !b.Dominates(call.Block()) {
						continue
					}
					if iff, ok := b.Instrs[len(b.Instrs)-1].(*ssa.If); ok {
						for _, t := range b.Succs {
							if t != call.Block() && !pd.PostDominates(call.Block(), t) {
								skipAt = "`" + exprStr(iff.Cond) + "` [" + c.pos(iff.Cond.Pos()) + "]"
							}
						}
					}
				}
			}
			if okAll {
				ob.OKnt("the call post-dominates the entry of the loop body")
			} else {
				ob.Bad("an iteration can end without the search being run (branch on " + skipAt + "): a file is declared free of matches without being matched")
			}
		})
	}
	r.Floor(rule, "search calls inside driver loops", n, 1)
}

// innermostLoop: the smallest set of blocks that forms a cycle through b (b's strongly connected component after removing, one
// at a time, the back edges of enclosing loops): computed as the blocks that can reach b and are reachable from b without leaving
// the smallest natural loop whose header dominates b.
func innermostLoop(fn *ssa.Function, b *ssa.BasicBlock) map[*ssa.BasicBlock]bool {
	var best map[*ssa.BasicBlock]bool
	for _, h := range fn.Blocks {
		if !h.Dominates(b) && h != b {
			continue
		}
		// natural loop of header h: back edges t->h with h dominating t
		loop := map[*ssa.BasicBlock]bool{}
		var work []*ssa.BasicBlock
		for _, t := range h.Preds {
			if h.Dominates(t) || t == h {
				work = append(work, t)
			}
		}
		if len(work) == 0 {
			continue
		}
		loop[h] = true
		for len(work) > 0 {
			x := work[len(work)-1]
			work = work[:len(work)-1]
			if loop[x] {
				continue
			}
			loop[x] = true
			work = append(work, x.Preds...)
		}
		if loop[b] && (best == nil || len(loop) < len(best)) {
			best = loop
		}
	}
	return best
}

// ruleAlternativeOrder implements C01.R7: the handler of a Branch continues with the first alternative and saves the others so that
// backtracking tries them in written order. The backtrack stack is last-in first-out, so the checkpoints must be pushed from the last
// alternative down to the second. Decided on index expressions: direction of the loop that pushes the checkpoints over the slice it
// reads, composed with the direction in which that slice was filled from Branches.
func ruleAlternativeOrder(c *Ctx, rule string) {
	r := c.R
	brT := c.NamedType("bytecode", "Branch")
	cpF, jumpF := c.stateMethod("CHECKPOINT"), c.stateMethod("JUMP")
	if brT == nil || cpF == nil || jumpF == nil {
		r.Ob(rule, "anchor bytecode.Branch / CHECKPOINT / JUMP", "").Und("not found")
		return
	}
	var h *ssa.Function
	for _, fn := range c.SrcFuncs("engine") {
		for _, p := range fn.Params {
			if types.Identical(p.Type(), brT) && len(callsTo(fn, cpF)) > 0 {
				h = fn
			}
		}
	}
	if h == nil {
		r.Ob(rule, "anchor: the handler of bytecode.Branch", "").Und("no function of package engine takes a Branch and calls CHECKPOINT")
		return
	}
	ob := r.Ob(rule, fnName(h)+": alternatives are saved last-to-second, so that they are retried in written order", c.pos(h.Pos()))
	fromBranches := func(v ssa.Value) bool {
		for _, s := range traceAddr(v).Steps {
			if s.Kind == "field" && s.Field == "Branches" {
				return true
			}
		}
		return strings.Contains(exprStr(v), ".Branches")
	}
	// direction of an index expression inside a loop: sign of d(index)/d(iteration), 0 when unknown
	direction := func(idx ssa.Value) int {
		terms, _ := linearOver(idx)
		dir := 0
		for p, coef := range terms {
			phi, ok := p.(*ssa.Phi)
			if !ok {
				continue
			}
			step := 0
			for _, e := range phi.Edges {
				if b, ok := e.(*ssa.BinOp); ok && (b.X == ssa.Value(phi) || b.Y == ssa.Value(phi)) {
					if k, ok := constInt(b.Y); ok && b.X == ssa.Value(phi) {
						if b.Op == token.ADD {
							step = sign(int(k))
						} else if b.Op == token.SUB {
							step = -sign(int(k))
						}
					}
				}
			}
			if step == 0 {
				return 0
			}
			d := sign(int(coef)) * step
			if dir != 0 && d != dir {
				return 0
			}
			dir = d
		}
		return dir
	}
	var cp *ssa.Call
	for _, call := range callsTo(h, cpF) {
		if innermostLoop(h, call.Block()) != nil {
			cp = call
		}
	}
	if cp == nil {
		ob.Und("CHECKPOINT is not called in a loop (the alternatives are not saved one by one)")
		return
	}
	loop := innermostLoop(h, cp.Block())
	// the jump target that is saved: argument of the JUMP call in the same loop that dominates the checkpoint
	var target ssa.Value
	for _, j := range callsTo(h, jumpF) {
		if loop[j.Block()] && instrDominates(j, cp) && len(j.Call.Args) == 2 {
			target = j.Call.Args[1]
		}
	}
	u, ok := target.(*ssa.UnOp)
	if target == nil || !ok {
		ob.Und("the saved jump target is not an element of a slice")
		return
	}
	ia, ok := u.X.(*ssa.IndexAddr)
	if !ok {
		ob.Und("the saved jump target is not an element of a slice")
		return
	}
	dir1 := direction(ia.Index)
	if dir1 == 0 {
		ob.Und("the direction of the loop that saves the alternatives could not be determined from its index " + exprStr(ia.Index))
		return
	}
	dirS := 0
	src := ia.X
	for {
		if sl, ok := src.(*ssa.Slice); ok {
			src = sl.X
			continue
		}
		break
	}
	if fromBranches(src) {
		dirS = 1
	} else {
		// a local list filled from Branches: appends or element stores in an earlier loop
		instrsOf(h, func(in ssa.Instruction) {
			switch x := in.(type) {
			case *ssa.Call:
				b, ok := x.Call.Value.(*ssa.Builtin)
				if !ok || b.Name() != "append" || len(x.Call.Args) != 2 {
					return
				}
				// append(list, Branches[e]): the appended element
				if sl, ok := x.Call.Args[1].(*ssa.Slice); ok {
					if a, ok := sl.X.(*ssa.Alloc); ok {
						for _, ref := range *a.Referrers() {
							if ia2, ok := ref.(*ssa.IndexAddr); ok {
								for _, r2 := range *ia2.Referrers() {
									if st, ok := r2.(*ssa.Store); ok {
										if ld, ok := st.Val.(*ssa.UnOp); ok {
											if ia3, ok := ld.X.(*ssa.IndexAddr); ok && fromBranches(ia3.X) {
												dirS = direction(ia3.Index)
											}
										}
									}
								}
							}
						}
					}
				}
			case *ssa.Store:
				// list[j] = Branches[e]
				if ia2, ok := x.Addr.(*ssa.IndexAddr); ok && !fromBranches(ia2.X) {
					if ld, ok := x.Val.(*ssa.UnOp); ok {
						if ia3, ok := ld.X.(*ssa.IndexAddr); ok && fromBranches(ia3.X) {
							dj, de := direction(ia2.Index), direction(ia3.Index)
							if dj != 0 && de != 0 {
								dirS = dj * de
							}
						}
					}
				}
			}
		})
	}
	switch dir1 * dirS {
	case -1:
		ob.OKnt("the checkpoints are pushed in descending order of the alternatives (the last-pushed one is the second alternative)")
	case 1:
		ob.Bad("the checkpoints are pushed in ascending order of the alternatives: the backtrack stack returns the last alternative first, so from the third alternative on `in`/`or` lists are retried in reverse order and a different match is reported")
	default:
		ob.Und("the order in which the alternatives are saved could not be determined")
	}
}

func sign(x int) int {
	switch {
	case x > 0:
		return 1
	case x < 0:
		return -1
	}
	return 0
}

// linearOver flattens an integer expression built from + and - into coefficients per non-constant leaf value.
func linearOver(v ssa.Value) (map[ssa.Value]int64, int64) {
	terms := map[ssa.Value]int64{}
	var konst int64
	var walk func(v ssa.Value, s int64, d int)
	walk = func(v ssa.Value, s int64, d int) {
		if k, ok := constInt(v); ok {
			konst += s * k
			return
		}
		if b, ok := v.(*ssa.BinOp); ok && d < 16 {
			switch b.Op {
			case token.ADD:
				walk(b.X, s, d+1)
				walk(b.Y, s, d+1)
				return
			case token.SUB:
				walk(b.X, s, d+1)
				walk(b.Y, -s, d+1)
				return
			}
		}
		if cv, ok := v.(*ssa.Convert); ok {
			walk(cv.X, s, d+1)
			return
		}
		terms[v] += s
	}
	walk(v, 1, 0)
	return terms, konst
}

// ruleEmptyReadsNotIndexed implements C09.R13: READ/READAT/Reader.Read/ReadAt return "" at the end of the input. Such a value, or a
// string parameter that call sites fill with such a value, must not be indexed (s[k]) unless a test of its length dominates the index.
func ruleEmptyReadsNotIndexed(c *Ctx, rule string) {
	r := c.R
	readFns := map[*ssa.Function]bool{}
	for _, n := range []string{"READ", "READAT"} {
		if f := c.stateMethod(n); f != nil {
			readFns[f] = true
		}
	}
	for _, n := range []string{"Read", "ReadAt"} {
		if f := c.Method("files", "Reader", n); f != nil {
			readFns[f] = true
		}
	}
	if len(readFns) == 0 {
		r.Ob(rule, "anchor READ/READAT/Reader.Read", "").Und("not found")
		return
	}
	mayBeEmpty := func(v ssa.Value) bool {
		call, ok := v.(*ssa.Call)
		return ok && readFns[call.Call.StaticCallee()]
	}
	isString := func(v ssa.Value) bool {
		b, ok := v.Type().Underlying().(*types.Basic)
		return ok && b.Info()&types.IsString != 0
	}
	reach := c.Reachable(c.runRoots()...)
	// indexOf: instructions that index a string value
	type site struct {
		in ssa.Instruction
		x  ssa.Value
	}
	stringIndexes := func(fn *ssa.Function) []site {
		var out []site
		instrsOf(fn, func(in ssa.Instruction) {
			switch x := in.(type) {
			case *ssa.Index:
				if isString(x.X) {
					out = append(out, site{in, x.X})
				}
			case *ssa.Lookup:
				if isString(x.X) {
					out = append(out, site{in, x.X})
				}
			}
		})
		return out
	}
	// parameters that are indexed without a length test: the obligation moves to the call sites
	needsNonEmpty := map[*ssa.Function]map[int]ssa.Instruction{}
	n := 0
	for fn := range reach {
		if !c.isRepoFn(fn) || len(fn.Blocks) == 0 {
			continue
		}
		for _, s := range stringIndexes(fn) {
			if lengthPositiveAt(fn, "len("+exprStr(s.x)+")", s.in) || lengthIsAt(fn, "len("+exprStr(s.x)+")", s.in) {
				continue
			}
			if p, ok := s.x.(*ssa.Parameter); ok {
				for i, q := range fn.Params {
					if q == p {
						if needsNonEmpty[fn] == nil {
							needsNonEmpty[fn] = map[int]ssa.Instruction{}
						}
						needsNonEmpty[fn][i] = s.in
					}
				}
				continue
			}
			if mayBeEmpty(s.x) {
				n++
				r.Ob(rule, fmt.Sprintf("%s: %s is indexed only when it is not empty", fnName(fn), exprStr(s.x)), c.pos(s.in.Pos())).Bad(
					"the value read from the input is indexed without a test of its length: at the end of the input it is \"\" and the index panics")
			}
		}
	}
	for _, fn := range sortedFns(reach) {
		if !c.isRepoFn(fn) || len(fn.Blocks) == 0 {
			continue
		}
		k := 0
		instrsOf(fn, func(in ssa.Instruction) {
			call, ok := in.(*ssa.Call)
			if !ok {
				return
			}
			callee := call.Call.StaticCallee()
			need := needsNonEmpty[callee]
			if need == nil {
				return
			}
			for i, at := range need {
				if i >= len(call.Call.Args) || !mayBeEmpty(call.Call.Args[i]) {
					continue
				}
				n++
				k++
				ob := r.Ob(rule, fmt.Sprintf("%s: call #%d of %s passes a non-empty read", fnName(fn), k, callee.Name()), c.pos(call.Pos()))
				a := call.Call.Args[i]
				if lengthPositiveAt(fn, "len("+exprStr(a)+")", call) || lengthIsAt(fn, "len("+exprStr(a)+")", call) {
					ob.OKnt("a test of the length of the value dominates the call")
				} else if positionGuarded(fn, a, call) {
					ob.OKnt("the read is made at a position that a dominating test shows to be inside the input")
				} else {
					ob.Bad(fmt.Sprintf("%s indexes its argument without a length test [%s] and this call passes %s, which is \"\" at the end of the input: the index panics", callee.Name(), c.pos(at.Pos()), exprStr(a)))
				}
			}
		})
	}
	r.Stats["possibly_empty_reads_that_are_indexed"] = n
	if n == 0 {
		r.Ob(rule, "no possibly empty read is indexed", "").OK("no value returned by READ/READAT/Read/ReadAt is indexed, directly or as an argument of a function that indexes its parameter unguarded")
	}
}

// lengthIsAt: a dominating branch establishes len(x) == k for a constant k >= 1 (the other case left, e.g. by a panic).
func lengthIsAt(fn *ssa.Function, lenStr string, at ssa.Instruction) bool {
	for _, b := range fn.Blocks {
		iff, ok := b.Instrs[len(b.Instrs)-1].(*ssa.If)
		if !ok {
			continue
		}
		bo, ok := iff.Cond.(*ssa.BinOp)
		if !ok || exprStr(bo.X) != lenStr {
			continue
		}
		k, isC := constInt(bo.Y)
		if !isC || k < 1 {
			continue
		}
		var okSucc *ssa.BasicBlock
		switch bo.Op {
		case token.EQL:
			okSucc = b.Succs[0]
		case token.NEQ:
			okSucc = b.Succs[1]
		}
		if okSucc != nil && (okSucc == at.Block() || okSucc.Dominates(at.Block())) {
			return true
		}
	}
	return false
}

// positionGuarded: the possibly empty read `a` (READ(1) at the current offset, or READAT(offset-1, 1)) is made under a dominating
// test that the offset is not at the end of the input (resp. not at its start), so it returns one byte.
func positionGuarded(fn *ssa.Function, a ssa.Value, at ssa.Instruction) bool {
	call, ok := a.(*ssa.Call)
	if !ok || call.Call.StaticCallee() == nil {
		return false
	}
	name := call.Call.StaticCallee().Name()
	for _, l := range domConds(fn, at.Block()) {
		b, ok := l.Cond.(*ssa.BinOp)
		if !ok {
			continue
		}
		x, y := exprStr(b.X), exprStr(b.Y)
		off := strings.HasSuffix(x, ".currentFileOffset")
		switch {
		case name == "READ" && off && strings.HasSuffix(y, ".reader.Size()"):
			// not at the end: (off == size) false, (off != size) true, (off < size) true, (off >= size) false
			if (b.Op == token.EQL && !l.Pol) || (b.Op == token.NEQ && l.Pol) || (b.Op == token.LSS && l.Pol) || (b.Op == token.GEQ && !l.Pol) {
				return true
			}
		case name == "READAT" && off:
			if k, isC := constInt(b.Y); isC && k == 0 {
				if (b.Op == token.EQL && !l.Pol) || (b.Op == token.NEQ && l.Pol) || (b.Op == token.GTR && l.Pol) || (b.Op == token.LEQ && !l.Pol) {
					return true
				}
			}
		}
	}
	return false
}

// ruleJumpsGoForward implements C10.R8: outside StartLoop/StopLoop (whose re-entry passes the zero-width guard) the generator emits
// only forward jumps. For every Jump literal appended to an instruction list, the target must be computed from the length of every
// instruction slice that was appended to the list before it in that function: a target that does not depend on code emitted earlier
// lands at or before that code, and a backward jump that bypasses matchStartLoop can spin on a zero-width body.
func ruleJumpsGoForward(c *Ctx, rule string) {
	r := c.R
	jT := c.NamedType("bytecode", "Jump")
	if jT == nil {
		r.Ob(rule, "anchor bytecode.Jump", "").Und("not found")
		return
	}
	n := 0
	for _, fn := range c.SrcFuncs("bytecode") {
		// Jump literals: allocations of Jump whose NewProgramCounter field is stored
		type jl struct {
			target ssa.Value
			at     ssa.Instruction
		}
		var jumps []jl
		instrsOf(fn, func(in ssa.Instruction) {
			st, ok := in.(*ssa.Store)
			if !ok {
				return
			}
			fa, ok := st.Addr.(*ssa.FieldAddr)
			if !ok || !types.Identical(deref(fa.X.Type()), jT) || fieldName(jT, fa.Field) != "NewProgramCounter" {
				return
			}
			if _, isAlloc := fa.X.(*ssa.Alloc); isAlloc {
				jumps = append(jumps, jl{st.Val, st})
			}
		})
		if len(jumps) == 0 {
			continue
		}
		// instruction slices appended with `...` in this function
		type app struct {
			x    ssa.Value
			call *ssa.Call
		}
		var apps []app
		instrsOf(fn, func(in ssa.Instruction) {
			call, ok := in.(*ssa.Call)
			if !ok {
				return
			}
			b, ok := call.Call.Value.(*ssa.Builtin)
			if !ok || b.Name() != "append" || len(call.Call.Args) != 2 {
				return
			}
			x := call.Call.Args[1]
			if sl, isSlice := x.(*ssa.Slice); isSlice {
				if _, fresh := sl.X.(*ssa.Alloc); fresh {
					return // a single element literal
				}
			}
			if st, ok := x.Type().Underlying().(*types.Slice); ok {
				if n, ok := st.Elem().(*types.Named); ok && n.Obj().Name() == "SearchInstruction" {
					apps = append(apps, app{x, call})
				}
			}
		})
		for i, j := range jumps {
			n++
			ob := r.Ob(rule, fmt.Sprintf("%s: Jump #%d goes past everything emitted before it", fnName(fn), i+1), c.pos(j.at.Pos()))
			var missing []string
			for _, a := range apps {
				if !instrDominates(a.call, j.at) {
					continue
				}
				src := map[ssa.Value]bool{a.x: true}
				// an element taken out of a list of instruction lists: the list counts as well
				if u, ok := a.x.(*ssa.UnOp); ok {
					if ia, ok := u.X.(*ssa.IndexAddr); ok {
						src[ia.X] = true
						// ... and so does every instruction list that was put into such a list of lists earlier (two-pass generation:
						// lengths are summed while the alternatives are collected, the jumps are emitted when they are written out)
						instrsOf(fn, func(in ssa.Instruction) {
							st, ok := in.(*ssa.Store)
							if !ok || !types.Identical(st.Val.Type(), a.x.Type()) {
								return
							}
							if ea, ok := st.Addr.(*ssa.IndexAddr); ok {
								if _, isLit := ea.X.(*ssa.Alloc); isLit {
									src[st.Val] = true
								}
							}
						})
					}
				}
				deps := dataDeps(fn, src)
				if !deps[j.target] {
					missing = append(missing, exprStr(a.x))
				}
			}
			if len(missing) == 0 {
				ob.OKnt("the target " + exprStr(j.target) + " is computed from the length of every instruction slice appended before the jump")
			} else {
				ob.Bad("the target " + exprStr(j.target) + " does not depend on the length of " + strings.Join(uniq(missing), ", ") + ", which is emitted before the jump: the jump goes back to (or into) that code without passing the loop's zero-width guard, so a body that can match the empty string spins forever")
			}
		}
	}
	r.Floor(rule, "Jump literals in the generator", n, 2)
}

// trustedThroughOwner: fn is reachable from the API only through a function that has an entry in the trusted table (a helper that
// was split off a trusted function keeps the argument that was made for it).
func (c *Ctx) trustedThroughOwner(fn *ssa.Function, trusted map[string]string) string {
	roots := append(c.runRoots(), c.compileRoots()...)
	for owner := range c.allFns {
		why, ok := trusted[fnName(owner)]
		if !ok || owner == fn || !c.isRepoFn(owner) {
			continue
		}
		if c.Reachable(owner)[fn] && c.onlyThrough(roots, owner, fn) {
			return why
		}
	}
	return ""
}

// exhaustedEnumEdges: the `no case matched` edge of a chain of tests tag == K1, tag == K2, ... is infeasible when the tag is the
// result of a function of the repository that returns nothing but constants and every one of them has been tested.
func exhaustedEnumEdges(fn *ssa.Function) map[[2]*ssa.BasicBlock]bool {
	dead := map[[2]*ssa.BasicBlock]bool{}
	valuesOf := func(v ssa.Value) map[string]bool {
		call, ok := v.(*ssa.Call)
		if !ok {
			return nil
		}
		g := call.Call.StaticCallee()
		if g == nil || len(g.Blocks) == 0 {
			return nil
		}
		set := map[string]bool{}
		okAll := true
		instrsOf(g, func(in ssa.Instruction) {
			if ret, isRet := in.(*ssa.Return); isRet {
				if len(ret.Results) != 1 {
					okAll = false
					return
				}
				k, isConst := ret.Results[0].(*ssa.Const)
				if !isConst || k.Value == nil {
					okAll = false
					return
				}
				set[k.Value.ExactString()] = true
			}
		})
		if !okAll || len(set) == 0 {
			return nil
		}
		return set
	}
	for _, b := range fn.Blocks {
		iff, ok := b.Instrs[len(b.Instrs)-1].(*ssa.If)
		if !ok {
			continue
		}
		cmp, ok := iff.Cond.(*ssa.BinOp)
		if !ok || cmp.Op != token.EQL {
			continue
		}
		k, ok := cmp.Y.(*ssa.Const)
		if !ok || k.Value == nil {
			continue
		}
		set := valuesOf(cmp.X)
		if set == nil {
			continue
		}
		tested := map[string]bool{k.Value.ExactString(): true}
		for _, l := range domConds(fn, b) {
			if c2, ok := l.Cond.(*ssa.BinOp); ok && c2.Op == token.EQL && c2.X == cmp.X && !l.Pol {
				if k2, ok := c2.Y.(*ssa.Const); ok && k2.Value != nil {
					tested[k2.Value.ExactString()] = true
				}
			}
		}
		all := true
		for v := range set {
			if !tested[v] {
				all = false
			}
		}
		if all {
			dead[[2]*ssa.BasicBlock{b, b.Succs[1]}] = true
		}
	}
	return dead
}

// trustedParent: fn is a closure (of a closure ...) of a function listed in the table.
func trustedParent(fn *ssa.Function, trusted map[string]string) (string, bool) {
	for p := fn.Parent(); p != nil; p = p.Parent() {
		if why, ok := trusted[fnName(p)]; ok {
			return why, true
		}
	}
	return "", false
}
