package main

// Partial evaluation of go/ssa functions over a finite tag domain ("conditional constant propagation per table cell").
//
// TABLE rules bind the enum-typed inputs of a dispatch function (operator tag, operand type tags, a token kind, a rune) to
// constants and propagate them through the function: branches whose condition folds to a constant are followed, everything
// that depends on run-time data stays symbolic (a term). The leaf reached - a constant result or a term such as
// ProcessValueBoolean{getNumber(L) < getNumber(R)} - is one cell of the extracted table. No data value is executed and no solver is
// involved; a branch that does not fold makes the cell UNDECIDED.

import (
	"fmt"
	"go/constant"
	"go/token"
	"go/types"
	"sort"
	"strings"

	"golang.org/x/tools/go/ssa"
)

type PVal interface{ pstr() string }

type PConst struct {
	V constant.Value // nil means the nil constant / zero of a reference type
	T types.Type
}
type PSym struct{ Name string }
type PTerm struct {
	Op   string
	Args []PVal
}
type PStruct struct {
	T      types.Type
	Fields []PVal
}
type PTuple struct{ Vals []PVal }
type PObj struct{ Val PVal }
type PPtr struct {
	Obj  *PObj
	Path []int
}
type PTop struct{ Why string }

// PArray is an array object whose elements live in abstract cells (so that slices of it share them).
type PArray struct{ Elems []*PObj }

func (v PArray) pstr() string { return PSlice{v.Elems}.pstr() }

// PSlice is a slice of known length whose elements live in abstract cells.
type PSlice struct{ Elems []*PObj }

// PClosure is a function value with its captured variables.
type PClosure struct {
	Fn       *ssa.Function
	Bindings []PVal
}

func (v PSlice) pstr() string {
	var as []string
	for _, e := range v.Elems {
		as = append(as, pstring(e.Val))
	}
	return "[" + strings.Join(as, ", ") + "]"
}
func (v PClosure) pstr() string { return "closure " + v.Fn.Name() }

func (v PConst) pstr() string {
	if v.V == nil {
		return "nil"
	}
	return v.V.ExactString()
}
func (v PSym) pstr() string { return v.Name }
func (v PTerm) pstr() string {
	var as []string
	for _, a := range v.Args {
		as = append(as, pstring(a))
	}
	if len(v.Args) == 2 && !strings.HasPrefix(v.Op, "call ") && !strings.Contains(v.Op, ".") {
		return "(" + as[0] + " " + v.Op + " " + as[1] + ")"
	}
	return v.Op + "(" + strings.Join(as, ", ") + ")"
}
func (v PStruct) pstr() string {
	var as []string
	for _, a := range v.Fields {
		as = append(as, pstring(a))
	}
	name := "struct"
	if v.T != nil {
		name = types.TypeString(v.T, shortQual)
	}
	return name + "{" + strings.Join(as, ", ") + "}"
}
func (v PTuple) pstr() string {
	var as []string
	for _, a := range v.Vals {
		as = append(as, pstring(a))
	}
	return "(" + strings.Join(as, ", ") + ")"
}
func (v PPtr) pstr() string { return "&" + pstring(v.Obj.Val) }
func (v PTop) pstr() string { return "?" + v.Why }

func pstring(v PVal) string {
	if v == nil {
		return "<nil>"
	}
	return v.pstr()
}

type PDecision struct {
	Cond  PVal
	Taken bool
}

type PEval struct {
	// Decisions for branches whose condition stays symbolic (path enumeration by re-execution); see RunPaths.
	decisions []bool
	taken     []PDecision
	pending   bool
	// Hook intercepts calls: return (value, true) to supply the result.
	Hook func(pe *PEval, call *ssa.CallCommon, args []PVal) (PVal, bool)
	// InterpretRepo: statically resolved callees accepted for recursive evaluation.
	Interpret func(fn *ssa.Function) bool
	// Globals written during the evaluation (name -> value)
	GlobalStores map[string]PVal
	Calls        []string // log of symbolic (uninterpreted) calls in order
	steps        int
	depth        int
}

type PResult struct {
	Results []PVal
	Panic   bool
	PanicV  PVal
	Err     string // non-empty: evaluation could not be completed (undecided)
}

func pzero(t types.Type) PVal {
	switch u := t.Underlying().(type) {
	case *types.Struct:
		fs := make([]PVal, u.NumFields())
		for i := range fs {
			fs[i] = pzero(u.Field(i).Type())
		}
		return PStruct{t, fs}
	case *types.Array:
		if u.Len() <= 64 {
			es := make([]*PObj, u.Len())
			for i := range es {
				es[i] = &PObj{pzero(u.Elem())}
			}
			return PArray{es}
		}
	case *types.Basic:
		switch {
		case u.Info()&types.IsBoolean != 0:
			return PConst{constant.MakeBool(false), t}
		case u.Info()&types.IsInteger != 0:
			return PConst{constant.MakeInt64(0), t}
		case u.Info()&types.IsString != 0:
			return PConst{constant.MakeString(""), t}
		case u.Info()&types.IsFloat != 0:
			return PConst{constant.MakeFloat64(0), t}
		}
	}
	return PConst{nil, t}
}

func (pe *PEval) Run(fn *ssa.Function, args []PVal) PResult {
	return pe.run(fn, args, nil)
}

func (pe *PEval) run(fn *ssa.Function, args []PVal, bindings []PVal) PResult {
	if fn == nil || len(fn.Blocks) == 0 {
		return PResult{Err: "function has no body"}
	}
	pe.depth++
	defer func() { pe.depth-- }()
	if pe.depth > 12 {
		return PResult{Err: "call depth exceeded"}
	}
	if pe.GlobalStores == nil {
		pe.GlobalStores = map[string]PVal{}
	}
	env := map[ssa.Value]PVal{}
	for i, p := range fn.Params {
		if i < len(args) {
			env[p] = args[i]
		} else {
			env[p] = PTop{"param " + p.Name()}
		}
	}
	for i, fv := range fn.FreeVars {
		if i < len(bindings) {
			env[fv] = bindings[i]
		}
	}
	var deferred []func() *PResult
	get := func(v ssa.Value) PVal {
		switch x := v.(type) {
		case *ssa.Const:
			if x.Value == nil {
				return pzero(x.Type())
			}
			return PConst{x.Value, x.Type()}
		case *ssa.Global:
			return PTerm{"global " + x.Name(), nil}
		case *ssa.Function:
			return PTerm{"func " + x.Name(), nil}
		case *ssa.Builtin:
			return PTerm{"builtin " + x.Name(), nil}
		}
		if r, ok := env[v]; ok {
			return r
		}
		return PTop{"unbound " + v.Name()}
	}
	var prev *ssa.BasicBlock
	b := fn.Blocks[0]
	for {
		var next *ssa.BasicBlock
		for _, in := range b.Instrs {
			pe.steps++
			if pe.steps > 200000 {
				return PResult{Err: "step limit exceeded"}
			}
			switch x := in.(type) {
			case *ssa.Phi:
				for i, p := range b.Preds {
					if p == prev {
						env[x] = get(x.Edges[i])
					}
				}
			case *ssa.Alloc:
				env[x] = PPtr{&PObj{pzero(deref(x.Type()))}, nil}
			case *ssa.FieldAddr:
				p, ok := get(x.X).(PPtr)
				if !ok {
					env[x] = PTop{"fieldaddr of non-pointer " + pstring(get(x.X))}
					// allow symbolic pointer targets: model as term
					env[x] = PTerm{"&." + fieldName(deref(x.X.Type()), x.Field), []PVal{get(x.X)}}
					continue
				}
				env[x] = PPtr{p.Obj, append(append([]int{}, p.Path...), x.Field)}
			case *ssa.Field:
				if s, ok := get(x.X).(PStruct); ok && x.Field < len(s.Fields) {
					env[x] = s.Fields[x.Field]
				} else {
					env[x] = PTerm{"." + fieldName(x.X.Type(), x.Field), []PVal{get(x.X)}}
				}
			case *ssa.Store:
				val := get(x.Val)
				if g, ok := x.Addr.(*ssa.Global); ok {
					pe.GlobalStores[g.Name()] = val
					continue
				}
				p, ok := get(x.Addr).(PPtr)
				if !ok {
					// store through a symbolic pointer: not modelled; record as effect
					pe.Calls = append(pe.Calls, "store "+pstring(get(x.Addr))+" <- "+pstring(val))
					continue
				}
				p.Obj.Val = psetPath(p.Obj.Val, p.Path, val)
			case *ssa.UnOp:
				switch x.Op {
				case token.MUL:
					if g, ok := x.X.(*ssa.Global); ok {
						if v, ok := pe.GlobalStores[g.Name()]; ok {
							env[x] = v
						} else {
							env[x] = PTerm{"load global " + g.Name(), nil}
						}
						continue
					}
					switch p := get(x.X).(type) {
					case PPtr:
						env[x] = pgetPath(p.Obj.Val, p.Path)
					case PTerm:
						// load through a symbolic field address: ".f(x)"
						if strings.HasPrefix(p.Op, "&.") {
							env[x] = PTerm{p.Op[1:], p.Args}
						} else {
							env[x] = PTerm{"*", []PVal{p}}
						}
					default:
						env[x] = PTerm{"*", []PVal{get(x.X)}}
					}
				case token.NOT:
					if c, ok := get(x.X).(PConst); ok && c.V != nil && c.V.Kind() == constant.Bool {
						env[x] = PConst{constant.MakeBool(!constant.BoolVal(c.V)), x.Type()}
					} else {
						env[x] = PTerm{"!", []PVal{get(x.X)}}
					}
				case token.SUB:
					if c, ok := get(x.X).(PConst); ok && c.V != nil {
						env[x] = PConst{constant.UnaryOp(token.SUB, c.V, 0), x.Type()}
					} else {
						env[x] = PTerm{"neg", []PVal{get(x.X)}}
					}
				default:
					env[x] = PTerm{x.Op.String(), []PVal{get(x.X)}}
				}
			case *ssa.BinOp:
				env[x] = pbinop(x.Op, get(x.X), get(x.Y), x.Type())
			case *ssa.Convert:
				env[x] = pconvert(get(x.X), x.Type())
			case *ssa.ChangeType:
				v := get(x.X)
				if c, ok := v.(PConst); ok {
					v = PConst{c.V, x.Type()}
				}
				env[x] = v
			case *ssa.ChangeInterface:
				env[x] = get(x.X)
			case *ssa.MakeInterface:
				v := get(x.X)
				if c, ok := v.(PConst); ok {
					v = PConst{c.V, x.X.Type()}
				}
				env[x] = v
			case *ssa.TypeAssert:
				v := get(x.X)
				dyn := pdynType(v)
				isNilIface := false
				if k, ok := v.(PConst); ok && k.V == nil {
					isNilIface = true // a nil interface value has no dynamic type: every assertion fails
				}
				if dyn == nil && !isNilIface {
					return PResult{Err: "type assertion on a value of unknown dynamic type at " + fn.Name()}
				}
				match := false
				if !isNilIface {
					match = types.Identical(dyn, x.AssertedType)
					if types.IsInterface(x.AssertedType) {
						match = types.Implements(dyn, x.AssertedType.Underlying().(*types.Interface))
					}
				}
				if x.CommaOk {
					if match {
						env[x] = PTuple{[]PVal{v, PConst{constant.MakeBool(true), types.Typ[types.Bool]}}}
					} else {
						env[x] = PTuple{[]PVal{pzero(x.AssertedType), PConst{constant.MakeBool(false), types.Typ[types.Bool]}}}
					}
				} else if match {
					env[x] = v
				} else {
					return PResult{Panic: true, PanicV: PTerm{"failed type assertion to " + x.AssertedType.String(), nil}}
				}
			case *ssa.Extract:
				if t, ok := get(x.Tuple).(PTuple); ok && x.Index < len(t.Vals) {
					env[x] = t.Vals[x.Index]
				} else {
					env[x] = PTerm{fmt.Sprintf("#%d", x.Index), []PVal{get(x.Tuple)}}
				}
			case *ssa.Call:
				res, stop := pe.call(fn, &x.Call, get)
				if stop != nil {
					return *stop
				}
				env[x] = res
			case *ssa.DebugRef:
			case *ssa.Defer:
				cc := x.Call
				var cargs []PVal
				for _, a := range cc.Args {
					cargs = append(cargs, get(a))
				}
				fv := get(cc.Value)
				deferred = append(deferred, func() *PResult {
					if cl, ok := fv.(PClosure); ok {
						r := pe.run(cl.Fn, cargs, cl.Bindings)
						if r.Err != "" || r.Panic {
							return &r
						}
						return nil
					}
					if sc := cc.StaticCallee(); sc != nil && pe.Interpret != nil && pe.Interpret(sc) {
						r := pe.run(sc, cargs, nil)
						if r.Err != "" || r.Panic {
							return &r
						}
						return nil
					}
					pe.Calls = append(pe.Calls, "deferred "+callName(&cc))
					return nil
				})
			case *ssa.RunDefers:
				for i := len(deferred) - 1; i >= 0; i-- {
					if r := deferred[i](); r != nil {
						return *r
					}
				}
				deferred = nil
			case *ssa.MakeClosure:
				var bs []PVal
				for _, b := range x.Bindings {
					bs = append(bs, get(b))
				}
				env[x] = PClosure{x.Fn.(*ssa.Function), bs}
			case *ssa.Slice:
				if p, ok := get(x.X).(PPtr); ok && len(p.Path) == 0 && x.Low == nil && x.High == nil {
					if arr, ok := p.Obj.Val.(PArray); ok {
						env[x] = PSlice{arr.Elems}
						continue
					}
				}
				env[x] = PTerm{"slice", []PVal{get(x.X), pLow(x.Low, get), pOrNil(x.High, get)}}
			case *ssa.IndexAddr:
				if p, ok := get(x.X).(PPtr); ok && len(p.Path) == 0 {
					if arr, ok := p.Obj.Val.(PArray); ok {
						if i, ok := get(x.Index).(PConst); ok && i.V != nil {
							n, _ := constant.Int64Val(i.V)
							if int(n) < len(arr.Elems) {
								env[x] = PPtr{arr.Elems[n], nil}
								continue
							}
						}
					}
				}
				if sl, ok := get(x.X).(PSlice); ok {
					if i, ok := get(x.Index).(PConst); ok && i.V != nil {
						n, _ := constant.Int64Val(i.V)
						if int(n) < len(sl.Elems) {
							env[x] = PPtr{sl.Elems[n], nil}
							continue
						}
						return PResult{Panic: true, PanicV: PTerm{"index out of range", nil}}
					}
				}
				env[x] = PTerm{"&index", []PVal{get(x.X), get(x.Index)}}
			case *ssa.Index:
				env[x] = PTerm{"index", []PVal{get(x.X), get(x.Index)}}
			case *ssa.Lookup:
				if v, ok := pe.globalMapLookup(x, get); ok {
					env[x] = v
				} else if x.CommaOk {
					env[x] = PTuple{[]PVal{PTerm{"lookup", []PVal{get(x.X), get(x.Index)}}, PTerm{"lookup-ok", []PVal{get(x.X), get(x.Index)}}}}
				} else if s, ok := get(x.X).(PConst); ok && s.V != nil && s.V.Kind() == constant.String {
					if i, ok := get(x.Index).(PConst); ok && i.V != nil {
						n, _ := constant.Int64Val(i.V)
						str := constant.StringVal(s.V)
						if int(n) < len(str) {
							env[x] = PConst{constant.MakeInt64(int64(str[n])), x.Type()}
							continue
						}
					}
					env[x] = PTerm{"index", []PVal{get(x.X), get(x.Index)}}
				} else if v, ok := pe.globalMapLookup(x, get); ok {
					env[x] = v
				} else {
					env[x] = PTerm{"lookup", []PVal{get(x.X), get(x.Index)}}
				}
			case *ssa.MakeSlice, *ssa.MakeMap, *ssa.MakeChan:
				env[x.(ssa.Value)] = PTerm{"make", nil}
			case *ssa.MapUpdate:
				pe.Calls = append(pe.Calls, "mapupdate "+pstring(get(x.Map))+"["+pstring(get(x.Key))+"] <- "+pstring(get(x.Value)))
			case *ssa.Range, *ssa.Next, *ssa.Select, *ssa.Send, *ssa.Go:
				return PResult{Err: fmt.Sprintf("%T is not modelled by the partial evaluator (%s)", x, fn.Name())}
			case *ssa.Panic:
				return PResult{Panic: true, PanicV: get(x.X)}
			case *ssa.Return:
				var rs []PVal
				for _, r := range x.Results {
					rs = append(rs, get(r))
				}
				return PResult{Results: rs}
			case *ssa.Jump:
				next = b.Succs[0]
			case *ssa.If:
				c, ok := get(x.Cond).(PConst)
				if !ok || c.V == nil || c.V.Kind() != constant.Bool {
					if pe.decisions == nil {
						return PResult{Err: fmt.Sprintf("branch condition does not fold to a constant in %s: %s", fn.Name(), pstring(get(x.Cond)))}
					}
					// symbolic branch: follow the recorded decision, or take `true` and mark the path set as incomplete
					k := len(pe.taken)
					d := true
					if k < len(pe.decisions) {
						d = pe.decisions[k]
					}
					pe.taken = append(pe.taken, PDecision{get(x.Cond), d})
					c = PConst{constant.MakeBool(d), types.Typ[types.Bool]}
				}
				if constant.BoolVal(c.V) {
					next = b.Succs[0]
				} else {
					next = b.Succs[1]
				}
			default:
				return PResult{Err: fmt.Sprintf("instruction %T not modelled (%s)", in, fn.Name())}
			}
		}
		if next == nil {
			return PResult{Err: "fell off a block in " + fn.Name()}
		}
		prev, b = b, next
	}
}

func pOrNil(v ssa.Value, get func(ssa.Value) PVal) PVal {
	if v == nil {
		return PConst{nil, nil}
	}
	return get(v)
}

// pLow renders an absent low bound of a slice expression as 0 (s[:n] and s[0:n] are the same expression).
func pLow(v ssa.Value, get func(ssa.Value) PVal) PVal {
	if v == nil {
		return PConst{constant.MakeInt64(0), types.Typ[types.Int]}
	}
	return get(v)
}

func fieldName(t types.Type, i int) string {
	if s, ok := deref(t).Underlying().(*types.Struct); ok && i < s.NumFields() {
		return s.Field(i).Name()
	}
	return fmt.Sprintf("f%d", i)
}

func pdynType(v PVal) types.Type {
	switch x := v.(type) {
	case PStruct:
		return x.T
	case PConst:
		return x.T
	case PTyped:
		return x.T
	}
	return nil
}

// PTyped is a symbolic value with a known dynamic type (e.g. "the left operand, which is a ProcessValueString").
type PTyped struct {
	Name string
	T    types.Type
}

func (v PTyped) pstr() string { return v.Name }

func (pe *PEval) call(fn *ssa.Function, cc *ssa.CallCommon, get func(ssa.Value) PVal) (PVal, *PResult) {
	var args []PVal
	if cc.IsInvoke() {
		args = append(args, get(cc.Value))
	}
	for _, a := range cc.Args {
		args = append(args, get(a))
	}
	if pe.Hook != nil {
		if v, ok := pe.Hook(pe, cc, args); ok {
			return v, nil
		}
	}
	if b, ok := cc.Value.(*ssa.Builtin); ok {
		switch b.Name() {
		case "len":
			if c, ok := args[0].(PConst); ok && c.V != nil && c.V.Kind() == constant.String {
				return PConst{constant.MakeInt64(int64(len(constant.StringVal(c.V)))), types.Typ[types.Int]}, nil
			}
			if c, ok := args[0].(PConst); ok && c.V == nil {
				return PConst{constant.MakeInt64(0), types.Typ[types.Int]}, nil
			}
			if sl, ok := args[0].(PSlice); ok {
				return PConst{constant.MakeInt64(int64(len(sl.Elems))), types.Typ[types.Int]}, nil
			}
		}
		return PTerm{b.Name(), args}, nil
	}
	var callee *ssa.Function
	if cc.IsInvoke() {
		// resolve the method on the dynamic type when known
		if dyn := pdynType(args[0]); dyn != nil {
			callee = fn.Prog.LookupMethod(dyn, cc.Method.Pkg(), cc.Method.Name())
		}
	} else {
		callee = cc.StaticCallee()
	}
	if callee != nil && pe.Interpret != nil && pe.Interpret(callee) && len(callee.Blocks) > 0 {
		res := pe.run(callee, args, nil)
		if res.Err != "" || res.Panic {
			return nil, &res
		}
		if len(res.Results) == 1 {
			return res.Results[0], nil
		}
		return PTuple{res.Results}, nil
	}
	// pure string functions of the standard library fold on constant arguments (tags such as mode names, never input text)
	if callee != nil && callee.Pkg != nil && callee.Pkg.Pkg.Path() == "strings" && callee.Signature.Recv() == nil {
		var strs []string
		allConst := true
		for _, a := range args {
			if c, ok := a.(PConst); ok && c.V != nil && c.V.Kind() == constant.String {
				strs = append(strs, constant.StringVal(c.V))
			} else {
				allConst = false
			}
		}
		if allConst {
			mk := func(v string) PVal { return PConst{constant.MakeString(v), types.Typ[types.String]} }
			mkb := func(v bool) PVal { return PConst{constant.MakeBool(v), types.Typ[types.Bool]} }
			switch {
			case callee.Name() == "ToUpper" && len(strs) == 1:
				return mk(strings.ToUpper(strs[0])), nil
			case callee.Name() == "ToLower" && len(strs) == 1:
				return mk(strings.ToLower(strs[0])), nil
			case callee.Name() == "TrimSpace" && len(strs) == 1:
				return mk(strings.TrimSpace(strs[0])), nil
			case callee.Name() == "EqualFold" && len(strs) == 2:
				return mkb(strings.EqualFold(strs[0], strs[1])), nil
			case callee.Name() == "HasPrefix" && len(strs) == 2:
				return mkb(strings.HasPrefix(strs[0], strs[1])), nil
			case callee.Name() == "HasSuffix" && len(strs) == 2:
				return mkb(strings.HasSuffix(strs[0], strs[1])), nil
			}
		}
	}
	name := "?"
	if cc.IsInvoke() {
		name = cc.Method.Name()
	} else if callee != nil {
		name = callee.Name()
		if callee.Pkg != nil && callee.Signature.Recv() == nil {
			name = callee.Pkg.Pkg.Name() + "." + name
		}
	}
	pe.Calls = append(pe.Calls, name)
	t := PTerm{"call " + name, args}
	if sig := cc.Signature(); sig != nil && sig.Results().Len() > 1 {
		var vs []PVal
		for i := 0; i < sig.Results().Len(); i++ {
			vs = append(vs, PTerm{fmt.Sprintf("#%d", i), []PVal{t}})
		}
		return PTuple{vs}, nil
	}
	return t, nil
}

func psetPath(v PVal, path []int, nv PVal) PVal {
	if len(path) == 0 {
		return nv
	}
	s, ok := v.(PStruct)
	if !ok || path[0] >= len(s.Fields) {
		return PTop{"store into non-struct"}
	}
	fs := append([]PVal{}, s.Fields...)
	fs[path[0]] = psetPath(fs[path[0]], path[1:], nv)
	return PStruct{s.T, fs}
}

func pgetPath(v PVal, path []int) PVal {
	for _, i := range path {
		s, ok := v.(PStruct)
		if !ok || i >= len(s.Fields) {
			return PTerm{fmt.Sprintf(".f%d", i), []PVal{v}}
		}
		v = s.Fields[i]
	}
	return v
}

func pbinop(op token.Token, x, y PVal, t types.Type) PVal {
	cx, okx := x.(PConst)
	cy, oky := y.(PConst)
	if okx && oky && cx.V != nil && cy.V != nil {
		switch op {
		case token.EQL, token.NEQ, token.LSS, token.GTR, token.LEQ, token.GEQ:
			if cx.V.Kind() == cy.V.Kind() || (cx.V.Kind() != constant.String && cy.V.Kind() != constant.String && cx.V.Kind() != constant.Bool && cy.V.Kind() != constant.Bool) {
				return PConst{constant.MakeBool(constant.Compare(cx.V, op, cy.V)), types.Typ[types.Bool]}
			}
		case token.ADD, token.SUB, token.MUL, token.AND, token.OR, token.XOR:
			if cx.V.Kind() == cy.V.Kind() {
				return PConst{constant.BinaryOp(cx.V, op, cy.V), t}
			}
		case token.QUO, token.REM:
			if cx.V.Kind() == constant.Int && cy.V.Kind() == constant.Int && constant.Sign(cy.V) != 0 {
				o := op
				if op == token.QUO {
					o = token.QUO_ASSIGN // integer division
				}
				return PConst{constant.BinaryOp(cx.V, o, cy.V), t}
			}
		}
	}
	// an allocated object, closure or struct value is never nil
	if op == token.EQL || op == token.NEQ {
		nonNil := func(v PVal) bool {
			switch v.(type) {
			case PPtr, PStruct, PClosure, PSlice, PArray:
				return true
			}
			return false
		}
		if (nonNil(x) && oky && cy.V == nil) || (nonNil(y) && okx && cx.V == nil) {
			return PConst{constant.MakeBool(op == token.NEQ), types.Typ[types.Bool]}
		}
	}
	// nil comparisons
	if okx && oky && (op == token.EQL || op == token.NEQ) {
		eq := cx.V == nil && cy.V == nil
		return PConst{constant.MakeBool(eq == (op == token.EQL)), types.Typ[types.Bool]}
	}
	return PTerm{op.String(), []PVal{x, y}}
}

func pconvert(v PVal, t types.Type) PVal {
	c, ok := v.(PConst)
	if !ok || c.V == nil {
		return PTerm{"conv " + types.TypeString(t, shortQual), []PVal{v}}
	}
	if b, ok := t.Underlying().(*types.Basic); ok {
		switch {
		case b.Info()&types.IsInteger != 0 && c.V.Kind() == constant.Int:
			return PConst{c.V, t}
		case b.Info()&types.IsString != 0 && c.V.Kind() == constant.Int:
			n, _ := constant.Int64Val(c.V)
			return PConst{constant.MakeString(string(rune(n))), t}
		case b.Info()&types.IsString != 0 && c.V.Kind() == constant.String:
			return PConst{c.V, t}
		}
	}
	return PTerm{"conv " + types.TypeString(t, shortQual), []PVal{v}}
}

func sortedKeys[V any](m map[string]V) []string {
	var ks []string
	for k := range m {
		ks = append(ks, k)
	}
	sort.Strings(ks)
	return ks
}

// PPath is one completed path through a function with the symbolic decisions taken on it.
type PPath struct {
	Decisions []PDecision
	Res       PResult
}

// RunPaths enumerates the paths that differ in symbolic branch decisions (at most maxPaths) by re-execution.
func RunPaths(mk func() *PEval, fn *ssa.Function, mkArgs func() []PVal, maxPaths int) ([]PPath, string) {
	var out []PPath
	work := [][]bool{{}}
	for len(work) > 0 {
		if len(out) >= maxPaths {
			return out, "too many symbolic paths"
		}
		dec := work[0]
		work = work[1:]
		pe := mk()
		pe.decisions = append([]bool{}, dec...)
		if pe.decisions == nil {
			pe.decisions = []bool{}
		}
		res := pe.Run(fn, mkArgs())
		out = append(out, PPath{pe.taken, res})
		// every decision beyond the prescribed prefix defaulted to true: schedule the false alternative
		for k := len(dec); k < len(pe.taken); k++ {
			alt := make([]bool, k+1)
			for i := 0; i < k; i++ {
				alt[i] = pe.taken[i].Taken
			}
			alt[k] = false
			work = append(work, alt)
		}
	}
	return out, ""
}

// globalMapLookup folds m[k] when m is a package-level map initialised by a composite literal with constant keys and values
// (the map is assumed not to be modified afterwards; the GLOBAL rules report writes to package-level variables) and k is constant.
func (pe *PEval) globalMapLookup(x *ssa.Lookup, get func(ssa.Value) PVal) (PVal, bool) {
	ld, ok := x.X.(*ssa.UnOp)
	if !ok || ld.Op != token.MUL {
		return nil, false
	}
	g, ok := ld.X.(*ssa.Global)
	if !ok || g.Pkg == nil {
		return nil, false
	}
	key, ok := get(x.Index).(PConst)
	if !ok || key.V == nil {
		return nil, false
	}
	init := g.Pkg.Func("init")
	if init == nil {
		return nil, false
	}
	var mapVal ssa.Value
	instrsOf(init, func(in ssa.Instruction) {
		if st, ok := in.(*ssa.Store); ok && st.Addr == ssa.Value(g) {
			mapVal = st.Val
		}
	})
	if mapVal == nil {
		return nil, false
	}
	var found PVal
	complete := true
	instrsOf(init, func(in ssa.Instruction) {
		mu, ok := in.(*ssa.MapUpdate)
		if !ok || mu.Map != mapVal {
			return
		}
		k, ok1 := mu.Key.(*ssa.Const)
		v, ok2 := mu.Value.(*ssa.Const)
		if !ok1 || !ok2 || k.Value == nil {
			complete = false
			return
		}
		if constant.Compare(k.Value, token.EQL, key.V) {
			found = PConst{v.Value, v.Type()}
		}
	})
	if !complete {
		return nil, false
	}
	mt := x.X.Type().Underlying().(*types.Map)
	okv := PConst{constant.MakeBool(found != nil), types.Typ[types.Bool]}
	if found == nil {
		found = pzero(mt.Elem())
	}
	if x.CommaOk {
		return PTuple{[]PVal{found, okv}}, true
	}
	return found, true
}
