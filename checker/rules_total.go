package main

// C08: Compile is total. EOFWORLD, panic inventory, nil-success, index guards.

import (
	"fmt"
	"go/constant"
	"go/token"
	"go/types"
	"sort"
	"strings"

	"golang.org/x/tools/go/ssa"
)

// ---------------------------------------------------------------------------------------------
// C08.R1 EOFWORLD

type tri int

const (
	triUnknown tri = iota
	triTrue
	triFalse
)

// eofWorld analyses fn under the assumption that every call to `read` returns 0 (input exhausted; bufio's EOF is sticky).
// It returns the set of feasible CFG edges.
func eofWorld(fn *ssa.Function, read *ssa.Function, pureFalseOnZero func(*ssa.Function) bool) map[[2]*ssa.BasicBlock]bool {
	zero := map[ssa.Value]bool{}
	feasible := map[[2]*ssa.BasicBlock]bool{}
	for _, b := range fn.Blocks {
		for _, s := range b.Succs {
			feasible[[2]*ssa.BasicBlock{b, s}] = true
		}
	}
	reach := func() map[*ssa.BasicBlock]bool {
		seen := map[*ssa.BasicBlock]bool{}
		work := []*ssa.BasicBlock{fn.Blocks[0]}
		for len(work) > 0 {
			b := work[len(work)-1]
			work = work[:len(work)-1]
			if seen[b] {
				continue
			}
			seen[b] = true
			for _, s := range b.Succs {
				if feasible[[2]*ssa.BasicBlock{b, s}] {
					work = append(work, s)
				}
			}
		}
		return seen
	}
	var evalBool func(v ssa.Value, live map[*ssa.BasicBlock]bool, depth int) tri
	isZero := func(v ssa.Value) bool {
		if zero[v] {
			return true
		}
		if k, ok := constInt(v); ok && k == 0 {
			return true
		}
		return false
	}
	evalBool = func(v ssa.Value, live map[*ssa.BasicBlock]bool, depth int) tri {
		if depth > 6 {
			return triUnknown
		}
		switch x := v.(type) {
		case *ssa.Const:
			if x.Value != nil && x.Value.Kind() == constant.Bool {
				if constant.BoolVal(x.Value) {
					return triTrue
				}
				return triFalse
			}
		case *ssa.BinOp:
			var other ssa.Value
			op := x.Op
			if isZero(x.X) && !isZero(x.Y) {
				other = x.Y
				// 0 op other  ==  other op' 0
				switch op {
				case token.LSS:
					op = token.GTR
				case token.GTR:
					op = token.LSS
				case token.LEQ:
					op = token.GEQ
				case token.GEQ:
					op = token.LEQ
				}
			} else if isZero(x.Y) && zero[x.X] {
				// zero-world value compared with literal 0
				switch op {
				case token.EQL, token.LEQ, token.GEQ:
					return triTrue
				case token.NEQ, token.LSS, token.GTR:
					return triFalse
				}
				return triUnknown
			} else if zero[x.X] {
				other = x.Y
				// value(0) op other: evaluate as constant comparison 0 op other
				if k, ok := constInt(other); ok {
					if constant.Compare(constant.MakeInt64(0), x.Op, constant.MakeInt64(k)) {
						return triTrue
					}
					return triFalse
				}
				return triUnknown
			}
			if other != nil {
				if k, ok := constInt(other); ok && (zero[x.X] || zero[x.Y]) {
					// other op 0 where other is the constant: we flipped, so compute k op 0
					if constant.Compare(constant.MakeInt64(k), op, constant.MakeInt64(0)) {
						return triTrue
					}
					return triFalse
				}
			}
		case *ssa.UnOp:
			if x.Op == token.NOT {
				switch evalBool(x.X, live, depth+1) {
				case triTrue:
					return triFalse
				case triFalse:
					return triTrue
				}
			}
		case *ssa.Call:
			if sc := x.Call.StaticCallee(); sc != nil && pureFalseOnZero(sc) && len(x.Call.Args) == 1 && isZero(x.Call.Args[0]) {
				return triFalse
			}
		case *ssa.Phi:
			res := triUnknown
			for i, e := range x.Edges {
				p := x.Block().Preds[i]
				if !live[p] || !feasible[[2]*ssa.BasicBlock{p, x.Block()}] {
					continue
				}
				t := evalBool(e, live, depth+1)
				if t == triUnknown {
					return triUnknown
				}
				if res == triUnknown {
					res = t
				} else if res != t {
					return triUnknown
				}
			}
			return res
		}
		return triUnknown
	}
	for iter := 0; iter < 40; iter++ {
		changed := false
		live := reach()
		// zero values
		for _, b := range fn.Blocks {
			if !live[b] {
				continue
			}
			for _, in := range b.Instrs {
				switch x := in.(type) {
				case *ssa.Call:
					if x.Call.StaticCallee() == read && !zero[x] {
						zero[x] = true
						changed = true
					}
				case *ssa.Convert:
					if zero[x.X] && !zero[x] {
						zero[x] = true
						changed = true
					}
				case *ssa.ChangeType:
					if zero[x.X] && !zero[x] {
						zero[x] = true
						changed = true
					}
				case *ssa.Phi:
					if zero[x] {
						continue
					}
					all, any := true, false
					for i, e := range x.Edges {
						p := b.Preds[i]
						if !live[p] || !feasible[[2]*ssa.BasicBlock{p, b}] || e == ssa.Value(x) {
							continue
						}
						any = true
						if !zero[e] {
							all = false
						}
					}
					if all && any {
						zero[x] = true
						changed = true
					}
				}
			}
		}
		// fold branches
		for _, b := range fn.Blocks {
			if !live[b] || len(b.Instrs) == 0 {
				continue
			}
			iff, ok := b.Instrs[len(b.Instrs)-1].(*ssa.If)
			if !ok {
				continue
			}
			switch evalBool(iff.Cond, live, 0) {
			case triTrue:
				e := [2]*ssa.BasicBlock{b, b.Succs[1]}
				if feasible[e] && b.Succs[0] != b.Succs[1] {
					feasible[e] = false
					changed = true
				}
			case triFalse:
				e := [2]*ssa.BasicBlock{b, b.Succs[0]}
				if feasible[e] && b.Succs[0] != b.Succs[1] {
					feasible[e] = false
					changed = true
				}
			}
		}
		if !changed {
			break
		}
	}
	// NOTE: zero-ness of a phi was computed optimistically with respect to edges that later became infeasible only; a phi is
	// marked zero only when every live incoming value is zero, so the result is sound for the final feasible graph.
	return feasible
}

// sccs computes strongly connected components of the CFG restricted to the given edges.
func sccs(fn *ssa.Function, edge func(a, b *ssa.BasicBlock) bool) [][]*ssa.BasicBlock {
	index := 0
	idx := map[*ssa.BasicBlock]int{}
	low := map[*ssa.BasicBlock]int{}
	on := map[*ssa.BasicBlock]bool{}
	var stack []*ssa.BasicBlock
	var out [][]*ssa.BasicBlock
	var strong func(v *ssa.BasicBlock)
	strong = func(v *ssa.BasicBlock) {
		index++
		idx[v], low[v] = index, index
		stack = append(stack, v)
		on[v] = true
		for _, w := range v.Succs {
			if !edge(v, w) {
				continue
			}
			if idx[w] == 0 {
				strong(w)
				if low[w] < low[v] {
					low[v] = low[w]
				}
			} else if on[w] && idx[w] < low[v] {
				low[v] = idx[w]
			}
		}
		if low[v] == idx[v] {
			var comp []*ssa.BasicBlock
			for {
				w := stack[len(stack)-1]
				stack = stack[:len(stack)-1]
				on[w] = false
				comp = append(comp, w)
				if w == v {
					break
				}
			}
			self := false
			for _, s := range v.Succs {
				if s == v && edge(v, v) {
					self = true
				}
			}
			if len(comp) > 1 || self {
				out = append(out, comp)
			}
		}
	}
	for _, b := range fn.Blocks {
		if idx[b] == 0 {
			strong(b)
		}
	}
	return out
}

// countingExit: the component has an exit edge governed by a comparison of an induction variable (a phi stepped by a
// constant) with a value that does not change inside the component: a bounded counting loop.
func countingExit(comp []*ssa.BasicBlock) bool {
	in := map[*ssa.BasicBlock]bool{}
	for _, b := range comp {
		in[b] = true
	}
	for _, b := range comp {
		iff, ok := b.Instrs[len(b.Instrs)-1].(*ssa.If)
		if !ok {
			continue
		}
		exits := false
		for _, s := range b.Succs {
			if !in[s] {
				exits = true
			}
		}
		if !exits {
			continue
		}
		bo, ok := iff.Cond.(*ssa.BinOp)
		if !ok {
			continue
		}
		for _, pair := range [][2]ssa.Value{{bo.X, bo.Y}, {bo.Y, bo.X}} {
			cv := pair[0]
			// a range loop compares the incremented counter (phi + 1) with the bound
			if st, ok := cv.(*ssa.BinOp); ok && (st.Op == token.ADD || st.Op == token.SUB) {
				if _, isC := constInt(st.Y); isC {
					cv = st.X
				}
			}
			phi, ok := cv.(*ssa.Phi)
			if !ok || !in[phi.Block()] {
				continue
			}
			stepped := false
			for _, e := range phi.Edges {
				if st, ok := e.(*ssa.BinOp); ok && (st.Op == token.ADD || st.Op == token.SUB) && st.X == ssa.Value(phi) {
					if _, ok := constInt(st.Y); ok {
						stepped = true
					}
				}
			}
			invariant := true
			if oi, ok := pair[1].(ssa.Instruction); ok && in[oi.Block()] {
				invariant = false
			}
			if stepped && invariant {
				return true
			}
		}
	}
	return false
}

func ruleEOFWorld(c *Ctx, rule string) {
	r := c.R
	read := c.Method("ast", "Lexer", "read")
	if read == nil {
		r.Ob(rule, "anchor ast.(*Lexer).read", "").Und("not found")
		return
	}
	pure := func(f *ssa.Function) bool {
		if f.Pkg == nil {
			return false
		}
		if f.Pkg.Pkg.Path() == "unicode" {
			switch f.Name() {
			case "IsSpace", "IsDigit", "IsLetter", "IsUpper", "IsLower", "IsPunct", "IsNumber":
				return true
			}
		}
		return f.Pkg.Pkg.Path() == modRoot+"/libvore/ast" && f.Name() == "IsHex"
	}
	nloops := 0
	for _, fn := range c.SrcFuncs("ast") {
		if fn == read {
			continue
		}
		calls := false
		instrsOf(fn, func(in ssa.Instruction) {
			if staticCallee(in) == read {
				calls = true
			}
		})
		if !calls {
			continue
		}
		feasible := eofWorld(fn, read, pure)
		all := sccs(fn, func(a, b *ssa.BasicBlock) bool { return true })
		k := 0
		for _, comp := range all {
			hasRead := false
			in := map[*ssa.BasicBlock]bool{}
			first := comp[0]
			for _, b := range comp {
				in[b] = true
				if b.Index < first.Index {
					first = b
				}
				for _, x := range b.Instrs {
					if staticCallee(x) == read {
						hasRead = true
					}
				}
			}
			if !hasRead {
				continue
			}
			nloops++
			k++
			var pos token.Pos
			for _, x := range first.Instrs {
				if x.Pos().IsValid() {
					pos = x.Pos()
					break
				}
			}
			ob := r.Ob(rule, fmt.Sprintf("%s: loop #%d that reads input ends at end of input", fnName(fn), k), c.pos(pos))
			rem := sccs(fn, func(a, b *ssa.BasicBlock) bool { return in[a] && in[b] && feasible[[2]*ssa.BasicBlock{a, b}] })
			var bad [][]*ssa.BasicBlock
			for _, rc := range rem {
				if !countingExit(rc) {
					bad = append(bad, rc)
				}
			}
			if len(bad) == 0 {
				ob.OKnt(fmt.Sprintf("%d blocks; once read() returns 0 every cycle of the loop is cut (branch conditions on the sentinel fold and their back edges become infeasible)", len(comp)))
			} else {
				var where []string
				for _, rc := range bad {
					for _, b := range rc {
						for _, x := range b.Instrs {
							if x.Pos().IsValid() {
								where = append(where, c.pos(x.Pos()))
								break
							}
						}
					}
				}
				sort.Strings(where)
				ob.Bad(fmt.Sprintf("after the input is exhausted (read() == 0 forever) a cycle remains feasible through %s: the lexer never returns on input that ends inside this construct", strings.Join(uniq(where), ", ")))
			}
		}
	}
	r.Floor(rule, "loops in package ast that call (*Lexer).read", nloops, 1)
}

// ---------------------------------------------------------------------------------------------
// C08.R2 panic inventory

// rulePanicInventory lists the explicit panics reachable from roots inside the given packages and discharges each one.
// trusted: fnName -> reason (frozen table).
func rulePanicInventory(c *Ctx, rule string, roots []*ssa.Function, pkgs []string, trusted map[string]string, floor int, special ...map[string]func() (bool, string)) {
	r := c.R
	if anyNil(roots) {
		r.Ob(rule, "anchor roots", "").Und("a root function was not found")
		return
	}
	reach := c.Reachable(roots...)
	inPkg := func(fn *ssa.Function) bool {
		p := fn.Pkg
		if p == nil && fn.Origin() != nil {
			p = fn.Origin().Pkg
		}
		if p == nil {
			return false
		}
		for _, n := range pkgs {
			if shortName(p.Pkg.Path()) == n {
				return true
			}
		}
		return false
	}
	// enum switches whose panic is discharged by exhaustiveness
	type enumKey struct{ pos token.Pos }
	exh := map[string]bool{} // function name -> has exhaustive panicking switch
	nonExh := map[string]string{}
	for _, es := range c.enumSwitches(pkgs...) {
		if !es.panics {
			continue
		}
		name := es.pkg + "." + funcDeclName(es.fd)
		var missing []string
		for _, k := range es.all {
			if !es.covered[k.Val().ExactString()] {
				missing = append(missing, k.Name())
			}
		}
		if len(missing) == 0 {
			exh[name] = true
		} else {
			nonExh[name] = strings.Join(missing, ", ")
		}
	}
	tsw := map[string]*tySwitch{}
	for _, ts := range c.typeSwitches(pkgs...) {
		tsw[ts.pkg+"."+funcDeclName(ts.fd)] = ts
	}
	prods := c.producersOf()
	n := 0
	for _, fn := range sortedFns(reach) {
		if !c.isRepoFn(fn) || !inPkg(fn) {
			continue
		}
		k := 0
		instrsOf(fn, func(in ssa.Instruction) {
			p, ok := in.(*ssa.Panic)
			if !ok {
				return
			}
			k++
			n++
			msg := ""
			if mi, ok := p.X.(*ssa.MakeInterface); ok {
				if cst, ok := mi.X.(*ssa.Const); ok && cst.Value != nil {
					msg = cst.Value.ExactString()
				}
			}
			name := fnName(fn)
			ob := r.Ob(rule, fmt.Sprintf("panic #%d in %s", k, name), c.pos(p.Pos()))
			plain := strings.NewReplacer("(*", "(", "ast.", "", "bytecode.", "", "engine.", "", "ds.", "", "files.", "").Replace(name)
			_ = plain
			declName := shortName(pkgPathOf(fn)) + "." + declStyleName(fn)
			if why, ok := trusted[name]; ok {
				ob.Exc("trusted (frozen table): " + why)
				return
			}
			if why, ok := trusted["msg:"+msg]; ok && msg != "" {
				ob.Exc("trusted (frozen table, keyed by the panic message " + msg + "): " + why)
				return
			}
			// a helper that panics with a message it is handed: the messages are those its call sites pass
			if mi, ok := p.X.(*ssa.MakeInterface); ok && msg == "" {
				if prm, isParam := mi.X.(*ssa.Parameter); isParam {
					idx := -1
					for i, q := range fn.Params {
						if q == prm {
							idx = i
						}
					}
					var msgs, whys []string
					all := idx >= 0
					ncall := 0
					for caller := range c.allFns {
						if !c.isRepoFn(caller) {
							continue
						}
						for _, cl := range callsTo(caller, fn) {
							ncall++
							k, isConst := cl.Call.Args[idx].(*ssa.Const)
							if !isConst || k.Value == nil {
								all = false
								continue
							}
							m := k.Value.ExactString()
							if why, ok := trusted["msg:"+m]; ok {
								msgs = append(msgs, m)
								whys = append(whys, why)
							} else {
								all = false
							}
						}
					}
					if all && ncall > 0 {
						ob.Exc("trusted (frozen table, keyed by the panic messages its callers pass: " + strings.Join(uniq(msgs), ", ") + "): " + strings.Join(uniq(whys), "; "))
						return
					}
				}
			}
			if src := osErrorSource(p.X); src != "" {
				ob.Exc("trusted: panics with the error returned by " + src + " - an operating-system / I-O failure, outside the property's quantifier (programs x contents)")
				return
			}
			// a helper that panics with the error it is handed (`check(err)`): the errors are those its call sites pass
			{
				pv := p.X
				if mi, ok := pv.(*ssa.MakeInterface); ok {
					pv = mi.X
				}
				if ci, ok := pv.(*ssa.ChangeInterface); ok {
					pv = ci.X
				}
				if prm, isParam := pv.(*ssa.Parameter); isParam && types.Identical(prm.Type(), types.Universe.Lookup("error").Type()) {
					idx := -1
					for i, q := range fn.Params {
						if q == prm {
							idx = i
						}
					}
					all, ncall := idx >= 0, 0
					var srcs []string
					for caller := range c.allFns {
						if !c.isRepoFn(caller) {
							continue
						}
						for _, cl := range callsTo(caller, fn) {
							ncall++
							if src := osErrorSource(cl.Call.Args[idx]); src != "" {
								srcs = append(srcs, src)
							} else {
								all = false
							}
						}
					}
					if all && ncall > 0 {
						ob.Exc("trusted: panics with the error its callers hand it, which at every call site is the error returned by " + strings.Join(uniq(srcs), ", ") + " - an operating-system / I-O failure")
						return
					}
				}
			}
			for _, sp := range special {
				if f, ok := sp[name]; ok {
					if okd, why := f(); okd {
						ob.OKnt(why)
					} else if strings.HasPrefix(why, "UNDECIDED: ") {
						ob.Und(strings.TrimPrefix(why, "UNDECIDED: "))
					} else {
						ob.Bad(why)
					}
					return
				}
			}
			if exh[declName] && nonExh[declName] == "" {
				ob.OKnt("default of an exhaustive switch over a constant type " + msg + ": unreachable")
				return
			}
			if miss, ok := nonExh[declName]; ok {
				ob.Bad(fmt.Sprintf("panic %s is the fall-out of a switch that has no case for: %s", msg, miss))
				return
			}
			if ts, ok := tsw[declName]; ok {
				// "Unknown ..." panic after a type switch: discharged when every producer has a case
				var missing []string
				for t := range prods[ts.iface] {
					if !ts.cases[t] {
						missing = append(missing, t)
					}
				}
				if len(missing) == 0 {
					ob.OKnt("fall-out of a type switch that has a case for every concrete type converted to " + ts.iface.Obj().Name() + " " + msg)
				} else {
					sort.Strings(missing)
					ob.Bad(fmt.Sprintf("panic %s is reached by values of type %s, which the type switch does not handle", msg, strings.Join(missing, ", ")))
				}
				return
			}
			if why, miss := c.assertionChainComplete(fn, p, prods); why != "" {
				ob.OKnt(why + " " + msg)
				return
			} else if miss != "" {
				ob.Bad(fmt.Sprintf("panic %s is reached by values of type %s, which the chain of type assertions in front of it does not handle", msg, miss))
				return
			}
			if why := c.missOfCompleteMap(fn, p); why != "" {
				ob.OKnt(why)
				return
			}
			if why := c.outsideEnumRange(fn, p); why != "" {
				ob.OKnt(why)
				return
			}
			ob.Bad("explicit panic " + msg + " reachable from " + fnName(roots[0]) + ": not the default of an exhaustive switch, not in the trusted table")
		})
	}
	r.Floor(rule, "explicit panics inventoried", n, floor)
}

func pkgPathOf(fn *ssa.Function) string {
	if fn.Pkg != nil {
		return fn.Pkg.Pkg.Path()
	}
	if o := fn.Origin(); o != nil && o.Pkg != nil {
		return o.Pkg.Pkg.Path()
	}
	return ""
}

// declStyleName renders an ssa function like funcDeclName renders its declaration: "(T).M" or "F".
func declStyleName(fn *ssa.Function) string {
	if recv := fn.Signature.Recv(); recv != nil {
		t := deref(recv.Type())
		if n, ok := t.(*types.Named); ok {
			return "(" + n.Obj().Name() + ")." + fn.Name()
		}
	}
	return fn.Name()
}

// ---------------------------------------------------------------------------------------------
// C08.R3 nil-success

func isNilConst(v ssa.Value) bool {
	k, ok := v.(*ssa.Const)
	return ok && k.IsNil()
}

// provenNil: v is an error value and the instruction is dominated by the nil edge of a test of v.
func provenNil(v ssa.Value, at ssa.Instruction) bool {
	fn := at.Parent()
	ok := false
	instrsOf(fn, func(in ssa.Instruction) {
		iff, is := in.(*ssa.If)
		if !is {
			return
		}
		bo, is := iff.Cond.(*ssa.BinOp)
		if !is || !(bo.X == v && isNilConst(bo.Y)) {
			return
		}
		var nilSucc *ssa.BasicBlock
		if bo.Op == token.NEQ {
			nilSucc = iff.Block().Succs[1]
		} else if bo.Op == token.EQL {
			nilSucc = iff.Block().Succs[0]
		} else {
			return
		}
		// the nil successor must be entered only through this edge to be a proof
		if len(nilSucc.Preds) == 1 && (nilSucc == at.Block() || nilSucc.Dominates(at.Block())) {
			ok = true
		}
	})
	return ok
}

// nilChecked: the use is dominated by the non-nil edge of a test of v against nil.
func nilChecked(v ssa.Value, use ssa.Instruction) bool {
	fn := use.Parent()
	ok := false
	instrsOf(fn, func(in ssa.Instruction) {
		iff, is := in.(*ssa.If)
		if !is {
			return
		}
		bo, is := iff.Cond.(*ssa.BinOp)
		if !is || !(bo.X == v && isNilConst(bo.Y)) {
			return
		}
		var nonNil *ssa.BasicBlock
		if bo.Op == token.NEQ {
			nonNil = iff.Block().Succs[0]
		} else if bo.Op == token.EQL {
			nonNil = iff.Block().Succs[1]
		} else {
			return
		}
		if len(nonNil.Preds) == 1 && (nonNil == use.Block() || nonNil.Dominates(use.Block())) {
			ok = true
		}
	})
	return ok
}

func ruleNilSuccess(c *Ctx, rule string, exceptions map[string]string) {
	r := c.R
	type nsInfo struct {
		fn      *ssa.Function
		returns []*ssa.Return
		iface   bool
	}
	ns := map[*ssa.Function]*nsInfo{}
	nfuncs := 0
	for _, fn := range c.SrcFuncs("ast") {
		res := fn.Signature.Results()
		if res.Len() < 2 {
			continue
		}
		last := res.At(res.Len() - 1).Type()
		if !types.Identical(last, types.Universe.Lookup("error").Type()) {
			continue
		}
		t0 := res.At(0).Type()
		_, isPtr := t0.Underlying().(*types.Pointer)
		isIface := types.IsInterface(t0)
		if !isPtr && !isIface {
			continue
		}
		nfuncs++
		instrsOf(fn, func(in ssa.Instruction) {
			ret, ok := in.(*ssa.Return)
			if !ok || len(ret.Results) < 2 || !isNilConst(ret.Results[0]) {
				return
			}
			e := ret.Results[len(ret.Results)-1]
			if isNilConst(e) || provenNil(e, ret) {
				if ns[fn] == nil {
					ns[fn] = &nsInfo{fn: fn, iface: isIface}
				}
				ns[fn].returns = append(ns[fn].returns, ret)
			}
		})
	}
	// a function that hands the unchecked node of a nil-success function on as its own first result is a nil-success function too:
	// its callers carry the obligation
	forwarded := map[*ssa.Return]bool{}
	for changed := true; changed; {
		changed = false
		for _, fn := range c.SrcFuncs("ast") {
			res := fn.Signature.Results()
			if res.Len() < 2 {
				continue
			}
			if _, isPtr := res.At(0).Type().Underlying().(*types.Pointer); !isPtr {
				continue
			}
			instrsOf(fn, func(in ssa.Instruction) {
				ret, ok := in.(*ssa.Return)
				if !ok || len(ret.Results) < 2 || forwarded[ret] {
					return
				}
				ex, ok := ret.Results[0].(*ssa.Extract)
				if !ok || ex.Index != 0 {
					return
				}
				call, ok := ex.Tuple.(*ssa.Call)
				if !ok || ns[call.Call.StaticCallee()] == nil || ns[call.Call.StaticCallee()].iface {
					return
				}
				if nilChecked(ex, ret) {
					return
				}
				forwarded[ret] = true
				if ns[fn] == nil {
					ns[fn] = &nsInfo{fn: fn}
				}
				ns[fn].returns = append(ns[fn].returns, ret)
				changed = true
			})
		}
	}
	r.Floor(rule, "parse functions returning (node, ..., error)", nfuncs, 25)
	var fns []*ssa.Function
	for f := range ns {
		fns = append(fns, f)
	}
	sort.Slice(fns, func(i, j int) bool { return fnName(fns[i]) < fnName(fns[j]) })
	for _, f := range fns {
		info := ns[f]
		var where []string
		for _, ret := range info.returns {
			where = append(where, c.pos(ret.Pos()))
		}
		if info.iface {
			r.Ob(rule, "nil-success of "+fnName(f)+" (interface result)", where[0]).OKnt(
				"returns a nil interface with a nil error at " + strings.Join(where, ", ") + "; a nil interface matches no case of the consumers' type switches, which end in an error (C08.R7), and list-building callers test for nil")
			continue
		}
		// pointer result: every call site must nil-check before converting / dereferencing / storing / returning
		ncalls := 0
		for _, caller := range c.SrcFuncs("ast") {
			k := 0
			instrsOf(caller, func(in ssa.Instruction) {
				call, ok := in.(*ssa.Call)
				if !ok || call.Call.StaticCallee() != f {
					return
				}
				k++
				ncalls++
				key := fmt.Sprintf("%s: result of %s (call #%d) is nil-checked before use", fnName(caller), f.Name(), k)
				ob := r.Ob(rule, key, c.pos(call.Pos()))
				if why, ok := exceptions[fnName(caller)+"<-"+f.Name()]; ok {
					ob.Exc(why)
					return
				}
				var bad []string
				for _, ref := range *call.Referrers() {
					ex, ok := ref.(*ssa.Extract)
					if !ok || ex.Index != 0 {
						continue
					}
					for _, use := range *ex.Referrers() {
						switch u := use.(type) {
						case *ssa.BinOp:
							continue // comparison
						case *ssa.DebugRef:
							continue
						case *ssa.If:
							continue
						case *ssa.Phi:
							bad = append(bad, "merged into "+u.Name()+" without a test")
						default:
							if ret, isRet := use.(*ssa.Return); isRet && forwarded[ret] {
								continue // handed on as this function's own nil-success result: its callers are held to the rule
							}
							if !nilChecked(ex, use) {
								bad = append(bad, fmt.Sprintf("%s at %s", describeUse(use), c.pos(use.Pos())))
							}
						}
					}
				}
				if len(bad) == 0 {
					ob.OKnt("every use of the node is dominated by a test against nil")
				} else if nilDependsOnObjectState(f, info.returns) {
					ob.Und(fmt.Sprintf("%s answers nil depending on the state of the object it is a method of (a cursor); whether its callers have excluded that state is not followed: %s", f.Name(), strings.Join(bad, "; ")))
				} else {
					ob.Bad(fmt.Sprintf("%s can return (nil, index, nil) at %s, but here the result is used without a nil test: %s — a typed nil inside an interface passes every != nil test and is dereferenced by the generator",
						f.Name(), strings.Join(where, ", "), strings.Join(bad, "; ")))
				}
			})
		}
		if ncalls == 0 {
			r.Ob(rule, "nil-success of "+fnName(f)+" (pointer result)", where[0]).OK("never called")
		}
	}
	if len(fns) == 0 {
		r.Ob(rule, "no parse function returns (nil, ..., nil)", "").OKnt("no nil-success return found")
	}
}

func describeUse(in ssa.Instruction) string {
	switch x := in.(type) {
	case *ssa.MakeInterface:
		return "converted to " + types.TypeString(x.Type(), shortQual)
	case *ssa.FieldAddr:
		return "dereferenced (field access)"
	case *ssa.UnOp:
		return "dereferenced"
	case *ssa.Store:
		return "stored"
	case *ssa.Return:
		return "returned"
	case *ssa.Call:
		return "passed to " + callName(&x.Call)
	}
	return fmt.Sprintf("%T", in)
}

// ruleErrorsPrintable implements C08.R6: error values returned by Compile can be printed.
func ruleErrorsPrintable(c *Ctx, rule string) {
	r := c.R
	ruleEnumExhaustive(c, rule, []string{"ast"}, func(es *enumSwitch) bool { return es.fd.Name.Name == "PP" }, 1)
	// constructors receive a non-nil token wherever the Error method dereferences it
	for _, ctor := range []string{"NewParseError", "NewLexError"} {
		f := c.Fn("ast", ctor)
		if f == nil {
			r.Ob(rule, "anchor ast."+ctor, "").Und("not found")
			continue
		}
		n, bad := 0, []string{}
		for fn := range c.allFns {
			if !c.isRepoFn(fn) {
				continue
			}
			instrsOf(fn, func(in ssa.Instruction) {
				if call, ok := in.(*ssa.Call); ok && call.Call.StaticCallee() == f {
					n++
					if isNilConst(call.Call.Args[0]) {
						bad = append(bad, fnName(fn)+" ["+c.pos(call.Pos())+"]")
					}
				}
			})
		}
		ob := r.Ob(rule, ctor+" is never given a nil token", c.pos(f.Pos()))
		sort.Strings(bad)
		ob.Check(len(bad) == 0, fmt.Sprintf("%d call sites, none passes a nil constant (Error() dereferences the token)", n), "nil token passed at "+strings.Join(bad, ", ")+": printing the error panics")
		ob.Nontrivial = true
	}
}

// osErrorSource: the panic value is an error obtained from a call into os / io / bufio (directly or through an io-style interface
// method); returns a description of that call, or "".
func osErrorSource(v ssa.Value) string {
	seen := map[ssa.Value]bool{}
	var walk func(v ssa.Value) string
	walk = func(v ssa.Value) string {
		if v == nil || seen[v] {
			return ""
		}
		seen[v] = true
		switch x := v.(type) {
		case *ssa.MakeInterface:
			return walk(x.X)
		case *ssa.ChangeInterface:
			return walk(x.X)
		case *ssa.Phi:
			for _, e := range x.Edges {
				if s := walk(e); s != "" {
					return s
				}
			}
		case *ssa.Extract:
			return walk(x.Tuple)
		case *ssa.Call:
			if x.Call.IsInvoke() {
				switch x.Call.Method.Name() {
				case "Read", "Write", "Seek", "Close", "ReadAt", "WriteAt":
					return "the " + x.Call.Method.Name() + " method of an I/O interface"
				}
				return ""
			}
			if sc := x.Call.StaticCallee(); sc != nil && sc.Pkg != nil {
				switch sc.Pkg.Pkg.Path() {
				case "os", "io", "bufio", "io/fs":
					return sc.Pkg.Pkg.Path() + "." + sc.Name()
				}
			}
		}
		return ""
	}
	return walk(v)
}

// ruleCompileNeverNilNil implements C08.R8: every function of the API package that returns (*Vore, error) returns, on each path,
// either a program that was just built or a non-nil error — never (nil, nil), which callers dereference.
func ruleCompileNeverNilNil(c *Ctx, rule string) {
	r := c.R
	vT := c.NamedType("libvore", "Vore")
	if vT == nil {
		r.Ob(rule, "anchor libvore.Vore", "").Und("not found")
		return
	}
	errT := types.Universe.Lookup("error").Type()
	var fns []*ssa.Function
	for _, fn := range c.SrcFuncs("libvore") {
		res := fn.Signature.Results()
		if res.Len() == 2 && types.Identical(deref(res.At(0).Type()), vT) && types.Identical(res.At(1).Type(), errT) {
			fns = append(fns, fn)
		}
	}
	inSet := map[*ssa.Function]bool{}
	for _, f := range fns {
		inSet[f] = true
	}
	r.Floor(rule, "API functions returning (*Vore, error)", len(fns), 3)
	var nonNil func(v ssa.Value, d int) bool
	nonNil = func(v ssa.Value, d int) bool {
		if d > 6 {
			return false
		}
		switch x := v.(type) {
		case *ssa.Alloc:
			return true
		case *ssa.Phi:
			for _, e := range x.Edges {
				if !nonNil(e, d+1) {
					return false
				}
			}
			return len(x.Edges) > 0
		case *ssa.Call:
			// a constructor helper of the repository all of whose returns are freshly allocated programs
			if g := x.Call.StaticCallee(); g != nil && c.isRepoFn(g) && len(g.Blocks) > 0 && g.Signature.Results().Len() == 1 {
				all, nret := true, 0
				instrsOf(g, func(in ssa.Instruction) {
					if ret, ok := in.(*ssa.Return); ok && len(ret.Results) == 1 {
						nret++
						if !nonNil(ret.Results[0], d+1) {
							all = false
						}
					}
				})
				return all && nret > 0
			}
		}
		return false
	}
	// constructedErr: the error operand is freshly constructed (MakeInterface of a non-nil value or a call of an error constructor)
	nonNilErr := func(e ssa.Value, at *ssa.Return) bool {
		switch x := e.(type) {
		case *ssa.MakeInterface:
			return true
		case *ssa.Call:
			_ = x
			return true // a constructor call such as NewVoreFileError(...): checked by C08.R6 to produce a printable error
		}
		// dominated by the non-nil edge of `e != nil`
		ok := false
		instrsOf(at.Parent(), func(in ssa.Instruction) {
			iff, is := in.(*ssa.If)
			if !is {
				return
			}
			bo, is := iff.Cond.(*ssa.BinOp)
			if !is || bo.X != e || !isNilConst(bo.Y) {
				return
			}
			var succ *ssa.BasicBlock
			if bo.Op == token.NEQ {
				succ = iff.Block().Succs[0]
			} else if bo.Op == token.EQL {
				succ = iff.Block().Succs[1]
			}
			if succ != nil && len(succ.Preds) == 1 && (succ == at.Block() || succ.Dominates(at.Block())) {
				ok = true
			}
		})
		return ok
	}
	for _, fn := range fns {
		k := 0
		instrsOf(fn, func(in ssa.Instruction) {
			ret, ok := in.(*ssa.Return)
			if !ok || len(ret.Results) != 2 {
				return
			}
			k++
			ob := r.Ob(rule, fmt.Sprintf("%s: return #%d is a program or an error", fnName(fn), k), c.pos(ret.Pos()))
			p, e := ret.Results[0], ret.Results[1]
			// a pair forwarded from another function of the set
			if px, ok := p.(*ssa.Extract); ok {
				if ex, ok := e.(*ssa.Extract); ok && px.Tuple == ex.Tuple && px.Index == 0 && ex.Index == 1 {
					if call, ok := px.Tuple.(*ssa.Call); ok && inSet[call.Call.StaticCallee()] {
						ob.OKnt("forwards both results of " + call.Call.StaticCallee().Name() + ", which is held to the same rule")
						return
					}
				}
			}
			switch {
			case isNilConst(e) || provenNil(e, ret):
				if nonNil(p, 0) || nilChecked(p, ret) {
					ob.OKnt("nil error with a program allocated on this path or tested against nil")
				} else {
					ob.Bad("returns a nil error with " + exprStr(p) + ", which is not a program built on this path and can be nil: Compile would report success without a program and the caller dereferences nil")
				}
			case nonNilErr(e, ret):
				ob.OKnt("returns a non-nil error")
			default:
				if nonNil(p, 0) {
					ob.OKnt("returns a program allocated on this path")
				} else {
					ob.Bad("neither the program (" + exprStr(p) + ") nor the error (" + exprStr(e) + ") is known to be non-nil on this path")
				}
			}
		})
	}
}

// ruleBoundedLoops implements C08.R10: every loop of the code generator and the static checker (package bytecode, reachable from
// Compile) is a counted loop or an iteration over a collection: one of its exits compares a counter that moves by a constant step
// with a bound, or is the end of a range iterator. A loop that leaves only when some computed state "settles" has no such ranking
// argument, and Compile may then not return.
func ruleBoundedLoops(c *Ctx, rule string, pkgs []string) {
	r := c.R
	reach := c.Reachable(c.compileRoots()...)
	n := 0
	for _, pkg := range pkgs {
		for _, fn := range c.SrcFuncs(pkg) {
			if !reach[fn] {
				continue
			}
			k := 0
			for _, comp := range sccs(fn, func(a, b *ssa.BasicBlock) bool { return true }) {
				in := map[*ssa.BasicBlock]bool{}
				for _, b := range comp {
					in[b] = true
				}
				if len(comp) == 1 {
					self := false
					for _, s := range comp[0].Succs {
						if s == comp[0] {
							self = true
						}
					}
					if !self {
						continue
					}
				}
				n++
				k++
				var first token.Pos
				for _, b := range comp {
					for _, x := range b.Instrs {
						if first == token.NoPos && x.Pos() != token.NoPos {
							first = x.Pos()
						}
					}
				}
				ob := r.Ob(rule, fmt.Sprintf("%s: loop #%d has a counted or iterator exit", fnName(fn), k), c.pos(first))
				isCounter := func(v ssa.Value) bool {
					terms, _ := linearOver(v)
					for t := range terms {
						phi, ok := t.(*ssa.Phi)
						if !ok || !in[phi.Block()] {
							continue
						}
						for _, e := range phi.Edges {
							if b, ok := e.(*ssa.BinOp); ok && (b.Op == token.ADD || b.Op == token.SUB) && b.X == ssa.Value(phi) {
								if kk, ok := constInt(b.Y); ok && kk != 0 {
									return true
								}
							}
						}
					}
					return false
				}
				bounded := false
				var exits []string
				for _, b := range comp {
					iff, ok := b.Instrs[len(b.Instrs)-1].(*ssa.If)
					if !ok || (in[b.Succs[0]] && in[b.Succs[1]]) {
						continue
					}
					exits = append(exits, exprStr(iff.Cond))
					switch x := iff.Cond.(type) {
					case *ssa.Extract:
						if _, isNext := x.Tuple.(*ssa.Next); isNext {
							bounded = true
						}
					case *ssa.BinOp:
						switch x.Op {
						case token.LSS, token.LEQ, token.GTR, token.GEQ, token.NEQ, token.EQL:
							if isCounter(x.X) || isCounter(x.Y) {
								bounded = true
							}
						}
					}
				}
				if bounded {
					ob.OKnt("an exit compares a counter that moves by a constant step, or is the end of a range iterator")
				} else {
					ob.Bad("the loop leaves only on [" + strings.Join(exits, "; ") + "]: no counter or iterator bounds the number of iterations, so for some program Compile does not return")
				}
			}
		}
	}
	r.Floor(rule, "loops in the generator and checker", n, 10)
}

// missOfCompleteMap: the panic is control-dependent on the miss of a comma-ok lookup in a package-level map that is initialised with
// a key for every constant of its (enum) key type - the table form of an exhaustive switch. Returns the reason, or "".
func (c *Ctx) missOfCompleteMap(fn *ssa.Function, p *ssa.Panic) string {
	// resolve a condition value to (Lookup, polarity): through negation, through a captured variable, through a local
	var resolve func(f *ssa.Function, v ssa.Value, depth int) (*ssa.Lookup, bool, bool)
	resolve = func(f *ssa.Function, v ssa.Value, depth int) (*ssa.Lookup, bool, bool) {
		if depth > 6 {
			return nil, false, false
		}
		switch x := v.(type) {
		case *ssa.UnOp:
			if x.Op == token.NOT {
				lk, pol, ok := resolve(f, x.X, depth+1)
				return lk, !pol, ok
			}
			if x.Op == token.MUL {
				var cell ssa.Value = x.X
				owner := f
				if fv, ok := cell.(*ssa.FreeVar); ok && f.Parent() != nil {
					// the variable the enclosing function handed to this closure
					idx := -1
					for i, q := range f.FreeVars {
						if q == fv {
							idx = i
						}
					}
					cell = nil
					instrsOf(f.Parent(), func(in ssa.Instruction) {
						if mc, ok := in.(*ssa.MakeClosure); ok && mc.Fn == ssa.Value(f) && idx >= 0 && idx < len(mc.Bindings) {
							cell = mc.Bindings[idx]
						}
					})
					owner = f.Parent()
				}
				if a, ok := cell.(*ssa.Alloc); ok {
					var val ssa.Value
					nst := 0
					for _, ref := range *a.Referrers() {
						if st, ok := ref.(*ssa.Store); ok && st.Addr == ssa.Value(a) {
							val = st.Val
							nst++
						}
					}
					if nst == 1 {
						return resolve(owner, val, depth+1)
					}
				}
			}
		case *ssa.Extract:
			if lk, ok := x.Tuple.(*ssa.Lookup); ok && lk.CommaOk && x.Index == 1 {
				return lk, true, true
			}
		}
		return nil, false, false
	}
	for _, l := range domConds(fn, p.Block()) {
		lk, pol, ok := resolve(fn, l.Cond, 0)
		if !ok || pol == l.Pol {
			continue // not a lookup, or the panic sits on the hit side
		}
		ld, ok := lk.X.(*ssa.UnOp)
		if !ok || ld.Op != token.MUL {
			continue
		}
		g, ok := ld.X.(*ssa.Global)
		if !ok || g.Pkg == nil || !c.isRepoPkg(g.Pkg.Pkg) {
			continue
		}
		mt, ok := deref(g.Type()).Underlying().(*types.Map)
		if !ok {
			continue
		}
		kt, ok := mt.Key().(*types.Named)
		if !ok || kt.Obj().Pkg() == nil {
			continue
		}
		// keys written by the package initialiser
		keys := map[string]bool{}
		complete := true
		init := g.Pkg.Func("init")
		if init == nil {
			continue
		}
		var mapVal ssa.Value
		instrsOf(init, func(in ssa.Instruction) {
			if st, ok := in.(*ssa.Store); ok && st.Addr == ssa.Value(g) {
				mapVal = st.Val
			}
		})
		if mapVal == nil {
			continue
		}
		instrsOf(init, func(in ssa.Instruction) {
			if mu, ok := in.(*ssa.MapUpdate); ok && mu.Map == mapVal {
				if k, ok := mu.Key.(*ssa.Const); ok && k.Value != nil {
					keys[k.Value.ExactString()] = true
				} else {
					complete = false
				}
			}
		})
		// every constant of the key type, and nobody else writes the map
		var missing []string
		scope := kt.Obj().Pkg().Scope()
		ncst := 0
		for _, name := range scope.Names() {
			if cst, ok := scope.Lookup(name).(*types.Const); ok && types.Identical(cst.Type(), kt) {
				ncst++
				if !keys[cst.Val().ExactString()] {
					missing = append(missing, cst.Name())
				}
			}
		}
		written := false
		for f := range c.allFns {
			if !c.isRepoFn(f) || f == init {
				continue
			}
			instrsOf(f, func(in ssa.Instruction) {
				switch x := in.(type) {
				case *ssa.MapUpdate:
					if gg, ok := traceAddr(x.Map).Root.(*ssa.Global); ok && gg == g {
						written = true
					}
				case *ssa.Store:
					if x.Addr == ssa.Value(g) {
						written = true
					}
				}
			})
		}
		if complete && ncst > 0 && len(missing) == 0 && !written {
			return fmt.Sprintf("reached only when a lookup in %s misses; the table is initialised with a key for each of the %d constants of %s and is never written afterwards: unreachable", g.Name(), ncst, kt.Obj().Name())
		}
	}
	return ""
}

// nilDependsOnObjectState: every nil-success return of the method f is control-dependent on a condition that reads the receiver's
// fields (directly or through another method of the receiver).
func nilDependsOnObjectState(f *ssa.Function, rets []*ssa.Return) bool {
	if f.Signature.Recv() == nil || len(f.Params) == 0 || len(rets) == 0 {
		return false
	}
	recv := ssa.Value(f.Params[0])
	var reads func(v ssa.Value, d int) bool
	reads = func(v ssa.Value, d int) bool {
		if d > 4 {
			return false
		}
		switch x := v.(type) {
		case *ssa.Call:
			if len(x.Call.Args) > 0 && x.Call.Args[0] == recv {
				return true
			}
		case *ssa.UnOp:
			if fa, ok := x.X.(*ssa.FieldAddr); ok && fa.X == recv {
				return true
			}
			return reads(x.X, d+1)
		case *ssa.BinOp:
			return reads(x.X, d+1) || reads(x.Y, d+1)
		case *ssa.Index:
			return reads(x.X, d+1) || reads(x.Index, d+1)
		case *ssa.Lookup:
			return reads(x.X, d+1) || reads(x.Index, d+1)
		case *ssa.Convert:
			return reads(x.X, d+1)
		}
		return false
	}
	for _, ret := range rets {
		dep := false
		for _, l := range domConds(f, ret.Block()) {
			if reads(l.Cond, 0) {
				dep = true
			}
		}
		if !dep {
			return false
		}
	}
	return true
}

// outsideEnumRange: the panic is reached only when a value of an enum type lies outside [0, N) although every constant of the type
// lies inside (the bounds check in front of a table indexed by the enum).
func (c *Ctx) outsideEnumRange(fn *ssa.Function, p *ssa.Panic) string {
	cds := NewPostDom(fn).ControlDeps()[p.Block()]
	if len(cds) == 0 {
		return ""
	}
	var enum *types.Named
	lo, hi := int64(0), int64(-1)
	for _, ce := range cds {
		iff, ok := ce.Branch.Instrs[len(ce.Branch.Instrs)-1].(*ssa.If)
		if !ok {
			return ""
		}
		b, ok := iff.Cond.(*ssa.BinOp)
		if !ok {
			return ""
		}
		x := b.X
		if cv, ok := x.(*ssa.Convert); ok {
			x = cv.X
		}
		if cv, ok := x.(*ssa.ChangeType); ok {
			x = cv.X
		}
		nt, ok := x.Type().(*types.Named)
		if !ok {
			return ""
		}
		if _, isInt := nt.Underlying().(*types.Basic); !isInt {
			return ""
		}
		if enum != nil && enum != nt {
			return ""
		}
		enum = nt
		k, isK := constInt(b.Y)
		if !isK {
			// len of a fixed-size array
			if call, ok := b.Y.(*ssa.Call); ok {
				if bi, ok := call.Call.Value.(*ssa.Builtin); ok && bi.Name() == "len" && len(call.Call.Args) == 1 {
					if at, ok := deref(call.Call.Args[0].Type()).Underlying().(*types.Array); ok {
						k, isK = at.Len(), true
					}
				}
			}
		}
		if !isK {
			return ""
		}
		onTrue := ce.Succ == 0
		switch {
		case b.Op == token.LSS && onTrue: // x < k -> panic: values must be >= k
			lo = k
		case b.Op == token.GEQ && onTrue: // x >= k -> panic: values must be < k
			hi = k
		case b.Op == token.GEQ && !onTrue, b.Op == token.LSS && !onTrue:
			return ""
		default:
			return ""
		}
	}
	if enum == nil || hi < 0 || enum.Obj().Pkg() == nil {
		return ""
	}
	scope := enum.Obj().Pkg().Scope()
	n := 0
	for _, name := range scope.Names() {
		if cst, ok := scope.Lookup(name).(*types.Const); ok && types.Identical(cst.Type(), enum) {
			v, exact := constant.Int64Val(cst.Val())
			if !exact || v < lo || v >= hi {
				return ""
			}
			n++
		}
	}
	if n == 0 {
		return ""
	}
	return fmt.Sprintf("reached only when a %s lies outside [%d, %d); all %d constants of the type lie inside (bounds check of a table indexed by the enum): unreachable", enum.Obj().Name(), lo, hi, n)
}

// assertionChainComplete: the panic stands behind a chain of comma-ok type assertions on one interface value, each of which has
// said no (`if f, ok := ci.(FindCommand); ok { return ... }` three times, then panic): the chain is a type switch written out.
// It is complete when every concrete type converted to the interface of the value has its assertion.
func (c *Ctx) assertionChainComplete(fn *ssa.Function, p *ssa.Panic, prods map[*types.Named]map[string][]string) (why, missing string) {
	bySubject := map[ssa.Value]map[string]bool{}
	for _, l := range domConds(fn, p.Block()) {
		if l.Pol {
			continue
		}
		ex, ok := l.Cond.(*ssa.Extract)
		if !ok || ex.Index != 1 {
			continue
		}
		ta, ok := ex.Tuple.(*ssa.TypeAssert)
		if !ok || !ta.CommaOk {
			continue
		}
		if bySubject[ta.X] == nil {
			bySubject[ta.X] = map[string]bool{}
		}
		bySubject[ta.X][types.TypeString(ta.AssertedType, shortQual)] = true
	}
	for subj, cases := range bySubject {
		if len(cases) < 2 {
			continue
		}
		// the interface of the subject: its own type, or the repository interface it was widened from (`var ci any = *command`)
		v := subj
		for i := 0; i < 4; i++ {
			if ci, ok := v.(*ssa.ChangeInterface); ok {
				v = ci.X
				continue
			}
			if mi, ok := v.(*ssa.MakeInterface); ok {
				v = mi.X
				continue
			}
			break
		}
		n, ok := v.Type().(*types.Named)
		if !ok || !types.IsInterface(n) || prods[n] == nil {
			continue
		}
		var miss []string
		for t := range prods[n] {
			if !cases[t] {
				miss = append(miss, t)
			}
		}
		sort.Strings(miss)
		if len(miss) == 0 {
			return fmt.Sprintf("behind a chain of %d type assertions that has one for every concrete type converted to %s", len(cases), n.Obj().Name()), ""
		}
		return "", strings.Join(miss, ", ")
	}
	return "", ""
}
