package main

// Thorough tier: checker self-validation. For the property under check, a set of semantic mutants of the CURRENT tree is
// built in scratch copies under $TMPDIR (removed afterwards); each must still type-check and must be reported by this property's
// check. The kill matrix goes into the evidence. A surviving mutant is a checker defect (reported as a warning in the evidence),
// never a property violation: the property verdict always comes from the real tree only.

import (
	"fmt"
	"os"
	"os/exec"
	"path/filepath"
	"sort"
	"strings"
	"sync"
)

type Edit struct {
	File string // relative to the repository root
	Old  string // must occur in the file (first occurrence is replaced)
	New  string
}

type Mutant struct {
	Prop  string
	Name  string
	Edits []Edit
}

func mutantsFor(prop string) []Mutant {
	se := "libvore/engine/searchengine.go"
	sr := "libvore/engine/search.go"
	ex := "libvore/engine/execute.go"
	bc := "libvore/bytecode/bytecode.go"
	gen := "libvore/bytecode/generate.go"
	sem := "libvore/bytecode/semanticcheck.go"
	lx := "libvore/ast/lexer.go"
	ps := "libvore/ast/parser.go"
	rx := "libvore/ast/parser_regexp.go"
	all := []Mutant{
		{"C01", "dispatch: drop case MatchRange", []Edit{{sr, "\tcase bytecode.MatchRange:\n\t\treturn matchRange(si, current_state)\n", ""}}},
		{"C01", "relocation: StartLoop.ExitLoop not shifted", []Edit{{bc, "\ti.ExitLoop += offset\n", ""}}},
		{"C01", "scan: step two bytes after a failed attempt", []Edit{{sr, "\t\t\tfileOffset += 1\n", "\t\t\tfileOffset += 2\n"}}},
		{"C01", "relocation scope: adjust applied to freshly generated code", []Edit{{gen, "\tresult = append(result, start)\n\tresult = append(result, body...)", "\tresult = append(result, start)\n\tfor k := range body {\n\t\tbody[k] = body[k].adjust(0, state)\n\t}\n\tresult = append(result, body...)"}}},
		{"C02", "snapshot: environment shared by Copy", []Edit{{se, "environment:       es.environment.Copy().Hashmap(),", "environment:       es.environment,"}}},
		{"C02", "handler mutates the incoming state", []Edit{{sr, "func matchLiteral(i bytecode.MatchLiteral, current_state *SearchEngineState) *SearchEngineState {\n\tnext_state := current_state.Copy()", "func matchLiteral(i bytecode.MatchLiteral, current_state *SearchEngineState) *SearchEngineState {\n\tnext_state := current_state"}}},
		{"C02", "capture start taken from the file offset", []Edit{{se, "startOffset: len(es.currentMatch),", "startOffset: es.currentFileOffset,"}}},
		{"C02", "loop variables shared by LoopState.Copy", []Edit{{se, "variables:           ls.variables.Copy().Hashmap(),", "variables:           ls.variables,"}}},
		{"C03", "CONSUME advances by the requested amount", []Edit{{se, "\tes.currentFileOffset += len(value)\n", "\tes.currentFileOffset += amount\n"}}},
		{"C03", "match end offset built from the start offset", []Edit{{se, "*ds.NewRange(es.startFileOffset, es.currentFileOffset)", "*ds.NewRange(es.startFileOffset, es.startFileOffset)"}}},
		{"C03", "second writer of the line counter", []Edit{{se, "func (es *SearchEngineState) NEXT() {\n\tes.programCounter += 1\n", "func (es *SearchEngineState) NEXT() {\n\tes.programCounter += 1\n\tes.currentLineNum += 0\n"}}},
		{"C04", "push when matchNumber > skip", []Edit{{sr, "\t\t\tif matchNumber >= skip {", "\t\t\tif matchNumber > skip {"}}},
		{"C04", "skip clause returns all=false", []Edit{{ps, "\t\t\treturn true, skipValue, 0, 0, new_index, nil", "\t\t\treturn false, skipValue, 0, 0, new_index, nil"}}},
		{"C04", "Skip and Take swapped in searchFind", []Edit{{sr, "return findMatches(c.Body, c.All, c.Skip, c.Take, c.Last, filename, reader)", "return findMatches(c.Body, c.All, c.Take, c.Skip, c.Last, filename, reader)"}}},
		{"C04", "resume position depends on skip", []Edit{{sr, "\t\t\tfileOffset = currentState.currentFileOffset\n", "\t\t\tif matchNumber >= skip {\n\t\t\t\tfileOffset = currentState.currentFileOffset\n\t\t\t} else {\n\t\t\t\tfileOffset += 1\n\t\t\t}\n"}}},
		{"C05", "WRITESTRING overwrites", []Edit{{se, "rs.match.Replacement = ds.Some(rs.match.Replacement.GetValueOrDefault(\"\") + value)\n}", "rs.match.Replacement = ds.Some(value)\n}"}}},
		{"C05", "built-ins added to the match's own variables", []Edit{{se, "variables := match.Variables.Copy().Hashmap()", "variables := match.Variables"}}},
		{"C05", "match number rewritten by searchReplace", []Edit{{sr, "\t\treplacedMatches = append(replacedMatches, current_state.match)\n", "\t\treplacedMatches = append(replacedMatches, current_state.match)\n\t\treplacedMatches[len(replacedMatches)-1].MatchNumber = len(replacedMatches)\n"}}},
		{"C06", "NEW writes the searched file", []Edit{{sr, "writer = files.WriterFromFile(filename + \".vored\")", "writer = files.WriterFromFile(filename)"}}},
		{"C06", "output opened without O_TRUNC", []Edit{{"libvore/files/writer.go", "os.O_RDWR|os.O_CREATE|os.O_TRUNC", "os.O_RDWR|os.O_CREATE"}}},
		{"C06", "write cursor advances by the match length", []Edit{{sr, "currentWriterOffset += len(replacedMatches[i].Replacement.GetValueOrDefault(\"\"))", "currentWriterOffset += len(replacedMatches[i].Value)"}}},
		{"C06", "find command constructs a writer", []Edit{{sr, "func searchFind(c *bytecode.FindCommand, filename string, reader *files.Reader, mode ReplaceMode) Matches {\n", "func searchFind(c *bytecode.FindCommand, filename string, reader *files.Reader, mode ReplaceMode) Matches {\n\tif mode == OVERWRITE {\n\t\tfiles.WriterFromFile(filename).Close()\n\t}\n"}}},
		{"C07", "NewBufferedFile panics on io.EOF", []Edit{{"libvore/files/bufferedfile.go", "\tif err != nil && err != io.EOF {\n\t\tpanic(err)", "\tif err != nil {\n\t\tpanic(err)"}}},
		{"C07", "size off by one in ReaderFromString", []Edit{{"libvore/files/reader.go", "\t\tcontents: NewStringReadCloser(contents),\n\t\toffset:   0,\n\t\tsize:     len(contents),", "\t\tcontents: NewStringReadCloser(contents),\n\t\toffset:   0,\n\t\tsize:     len(contents) + 1,"}}},
		{"C07", "READ without SEEK", []Edit{{se, "\tes.SEEK()\n\treturn es.reader.Read(length)", "\treturn es.reader.Read(length)"}}},
		{"C08", "lexer main loop ignores end of input in most states", []Edit{{lx, "\t\t} else if ch == 0 {\n\t\t\ts.unread_last()\n\t\t\tbreak\n", "\t\t} else if ch == 0 && current_state == SCOLON {\n\t\t\ts.unread_last()\n\t\t\tbreak\n"}}},
		{"C08", "TokenType.PP loses a case", []Edit{{lx, "\tcase REGEXP:\n\t\treturn \"REGEXP\"\n", ""}}},
		{"C08", "nil-success return in parse_between", []Edit{{ps, "\t\t\treturn nil, current_index, NewParseError(current_token, \"Expected identifier following keyword 'named'\")", "\t\t\treturn nil, current_index, nil"}}},
		{"C08", "generator switch falls through to success", []Edit{{gen, "\treturn nil, NewGenError(fmt.Sprintf(\"Unknown listable '%T'\", il))", "\t_ = il\n\treturn []SearchInstruction{}, nil"}}},
		{"C09", "instruction fetched past the end", []Edit{{sr, "\t\t\tif currentState.programCounter >= len(insts) {", "\t\t\tif currentState.programCounter > len(insts) {"}}},
		{"C09", "zero-length read reaches the contents", []Edit{{"libvore/files/reader.go", "\t// nothing to read; asking the contents for zero bytes at the end of the input reports io.EOF\n\tif length == 0 {\n\t\treturn \"\"\n\t}\n", ""}}},
		{"C09", "reader not closed in RunFiles", []Edit{{"libvore/engine/engine.go", "\t\t\t\t// whoever opens the reader closes it, for find commands as well\n\t\t\t\treader.Close()\n", ""}}},
		{"C09", "new explicit panic in a handler", []Edit{{sr, "func matchJump(i bytecode.Jump, current_state *SearchEngineState) *SearchEngineState {\n", "func matchJump(i bytecode.Jump, current_state *SearchEngineState) *SearchEngineState {\n\tif i.NewProgramCounter < 0 {\n\t\tpanic(\"negative jump\")\n\t}\n"}}},
		{"C10", "zero-width check bypassed", []Edit{{sr, "\t\tif next_state.GETITERATIONSTEP() >= i.MinLoops && next_state.CHECKZEROMATCHLOOP() {", "\t\tif false && next_state.CHECKZEROMATCHLOOP() {"}}},
		{"C10", "zero-width check skipped for every iteration above the minimum", []Edit{{sr, "\t\tif next_state.GETITERATIONSTEP() >= i.MinLoops && next_state.CHECKZEROMATCHLOOP() {", "\t\tif next_state.GETITERATIONSTEP() < i.MinLoops && next_state.CHECKZEROMATCHLOOP() {"}}},
		{"C10", "process loop keeps running after a return", []Edit{{ex, "\t\tif expr_state.status == RETURNING || expr_state.status == BREAKLOOP {", "\t\tif expr_state.status == BREAKLOOP {"}}},
		{"C10", "negated letter class succeeds on an empty read", []Edit{{se, "\tvalue := es.READ(1)\n\tif value == \"\" {\n\t\tes.BACKTRACK()\n\t\treturn\n\t}\n\tif (\"a\" <= value", "\tvalue := es.READ(1)\n\tif (\"a\" <= value"}}},
		{"C01", "zero-width cut removes mandatory iterations", []Edit{{sr, "\t\tif next_state.GETITERATIONSTEP() >= i.MinLoops && next_state.CHECKZEROMATCHLOOP() {", "\t\tif next_state.CHECKZEROMATCHLOOP() {"}}},
		{"C01", "zero-width cut allowed one iteration early", []Edit{{sr, "\t\tif next_state.GETITERATIONSTEP() >= i.MinLoops && next_state.CHECKZEROMATCHLOOP() {", "\t\tif next_state.GETITERATIONSTEP()+1 >= i.MinLoops && next_state.CHECKZEROMATCHLOOP() {"}}},
		{"C01", "negated range succeeds on an empty read", []Edit{{se, "\t\tif value == \"\" {\n\t\t\t// nothing left to read: no range, negated or not, matches the end of the input\n\t\t\tcontinue\n\t\t}\n", ""}}},
		{"C02", "restore forgets the line counter", []Edit{{se, "\tes.currentLineNum = value.currentLineNum\n", ""}}},
		{"C02", "binding filed under the top loop's iteration", []Edit{{se, "\t\tindex := strconv.Itoa(lowestScope.iterationStep)", "\t\tindex := strconv.Itoa(es.GETITERATIONSTEP())"}}},
		{"C03", "match numbered by the queue size", []Edit{{sr, "currentState.MakeMatch(matchNumber + 1)", "currentState.MakeMatch(int(matches.Size()) + 1)"}}},
		{"C05", "transform sees the position in the window as matchNumber", []Edit{{sr, "env[\"matchNumber\"] = ProcessValueNumber{next_state.match.MatchNumber}", "env[\"matchNumber\"] = ProcessValueNumber{next_state.programCounter}"}}},
		{"C09", "whole-word classes admitted as list members", []Edit{{ps, "t == LOWER || t == LETTER\n}", "t == LOWER || t == LETTER || t == WHOLE\n}"}}},
		{"C05", "statements after a return still run in a transform", []Edit{{sr, "\tfor _, stmt := range i.Process {\n\t\tpstate = executeStatement(&stmt, pstate)\n\t\tif pstate.status == RETURNING {\n\t\t\tfinal_value = pstate.currentValue\n\t\t\tbreak\n", "\tfor _, stmt := range i.Process {\n\t\tpstate = executeStatement(&stmt, pstate)\n\t\tif pstate.status == RETURNING {\n\t\t\tfinal_value = pstate.currentValue\n"}}},
		{"C11", "the true branch of an if keeps running after a return", []Edit{{ex, "\t\tfor _, stmt := range s.TrueBody {\n\t\t\texpr_state = executeStatement(&stmt, expr_state)\n\t\t\tif expr_state.status != NEXT {\n\t\t\t\tbreak\n\t\t\t}\n", "\t\tfor _, stmt := range s.TrueBody {\n\t\t\texpr_state = executeStatement(&stmt, expr_state)\n"}}},
		{"C04", "skip ignored when all is set", []Edit{{sr, "\t\t\tif matchNumber >= skip {", "\t\t\tif all || matchNumber >= skip {"}}},
		{"C15", "an empty line comment takes its newline", []Edit{{lx, "\t\t\tcurrent_state = SCOMMENT\n\t\t\tif ch == '\\n' {\n\t\t\t\t// an empty line comment ends at its newline like any other\n\t\t\t\ts.unread_last()\n\t\t\t\tbreak\n\t\t\t}\n\t\t\tbuf.WriteRune(ch)\n", "\t\t\tcurrent_state = SCOMMENT\n\t\t\tbuf.WriteRune(ch)\n"}}},
		{"C15", "a parenthesis inside the end marker goes back to the comment body", []Edit{{lx, "\t\t} else if current_state == SBLOCKCOMMENTENDEND && ch == ')' {\n\t\t\t// \")-)\" : the second parenthesis may be the one that begins the end marker\n\t\t\tbuf.WriteRune(ch)\n\t\t\tcurrent_state = SBLOCKCOMMENTSTARTEND\n", ""}}},
		{"C08", "parse error leaves the parser lock held", []Edit{{ps, "\tcapture_group_lock.Lock()\n\tdefer capture_group_lock.Unlock()\n", "\tcapture_group_lock.Lock()\n"}}},
		{"C14", "regexp literal byte converted as a code point", []Edit{{rx, "\t\tstart = &AstString{false, regexp[index : index+size], false}", "\t\tstart = &AstString{false, string(regexp[index]), false}"}}},
		{"C16", "layout branch takes the blank after a backslash", []Edit{{lx, "\t\t} else if unicode.IsSpace(ch) && current_state != SSTRING_D_ESCAPE && current_state != SSTRING_S_ESCAPE {", "\t\t} else if unicode.IsSpace(ch) {"}}},
		{"C20", "GetFileList consumes its own pattern", []Edit{{"libvore/files/path.go", "func (path *Path) GetFileList(currentDirectory string) []string {\n", "func (path *Path) GetFileList(currentDirectory string) []string {\n\tif len(path.entries) > 100 {\n\t\tpath.entries = path.entries[1:]\n\t}\n"}}},
		{"C10", "matchEndNotIn always advances", []Edit{{sr, "\tif cfo == next_state.currentFileOffset {\n\t\tnext_state.BACKTRACK()\n\t} else {\n\t\tnext_state.NEXT()\n\t}", "\t_ = cfo\n\tnext_state.NEXT()"}}},
		{"C10", "MATCHANY forgets NEXT", []Edit{{se, "\t} else {\n\t\tes.CONSUME(1)\n\t\tes.NEXT()\n\t}\n}\n\nfunc (es *SearchEngineState) MATCHRANGE", "\t} else {\n\t\tes.CONSUME(1)\n\t}\n}\n\nfunc (es *SearchEngineState) MATCHRANGE"}}},
		{"C10", "loop identity ignores the call level", []Edit{{se, " || top.callLevel != int(es.callStack.Size()) {", " {"}}},
		{"C11", "string `<` evaluated as `<=`", []Edit{{ex, "final := lhs_state.currentValue.getString() < rhs_state.currentValue.getString()", "final := lhs_state.currentValue.getString() <= rhs_state.currentValue.getString()"}}},
		{"C11", "additive operators right-associative", []Edit{{ps, "\t\treturn 7, 8\n", "\t\treturn 7, 7\n"}}},
		{"C11", "number->bool coercion is `> 0`", []Edit{{ex, "func (v ProcessValueNumber) getBoolean() bool {\n\treturn v.value != 0", "func (v ProcessValueNumber) getBoolean() bool {\n\treturn v.value > 0"}}},
		{"C11", "head returns two bytes", []Edit{{ex, "getString()[0:1]}", "getString()[0:2]}"}}},
		{"C12", "checker accepts `number and`", []Edit{{sem, "} else if lhsinfo.currentType == PTBOOLEAN && (s.Op == ast.AND ||", "} else if (lhsinfo.currentType == PTBOOLEAN || lhsinfo.currentType == PTNUMBER) && (s.Op == ast.AND ||"}}},
		{"C12", "if accepts a string condition", []Edit{{sem, "\tif valueInfo.currentType != PTBOOLEAN {", "\tif valueInfo.currentType != PTBOOLEAN && valueInfo.currentType != PTSTRING {"}}},
		{"C12", "transform statements not checked", []Edit{{gen, "\t\tinfo = checkStatement(&stmt, info)\n\t\tif info.currentType == PTERROR {", "\t\tinfo = checkStatement(&stmt, info)\n\t\tif info.currentType == PTERROR && false {"}}},
		{"C12", "break accepted outside loops", []Edit{{sem, "func checkBreak(info ProcessTypeInfo) ProcessTypeInfo {\n\tif !info.inLoop {", "func checkBreak(info ProcessTypeInfo) ProcessTypeInfo {\n\tif !info.inLoop && false {"}}},
		{"C13", "find command keeps the previous command's scope", []Edit{{gen, "\t\tBody: []SearchInstruction{},\n\t}\n\n\tstate.variables = make(map[string]int)\n", "\t\tBody: []SearchInstruction{},\n\t}\n\n"}}},
		{"C13", "Branch.adjust writes the stored slice", []Edit{{bc, "\t\tbranches[idx] = branch + offset", "\t\tbranches[idx] = branch + offset\n\t\ti.Branches[idx] = branch"}}},
		{"C13", "group counter not reset per regexp literal", []Edit{{rx, "\t// groups are numbered within one regular expression\n\tcapture_group_number = 0\n", ""}}},
		{"C14", "group counter not reset per regexp literal", []Edit{{rx, "\t// groups are numbered within one regular expression\n\tcapture_group_number = 0\n", ""}}},
		{"C14", "the empty text is caught by the end-of-input test", []Edit{{se, "\tif len(value) == 0 {\n\t\t// the empty text is found everywhere, also at the end of the input: a back-reference to a group that matched nothing\n\t\tif not {\n\t\t\tes.BACKTRACK()\n\t\t} else {\n\t\t\tes.NEXT()\n\t\t}\n\t\treturn\n\t}\n", ""}}},
		{"C10", "a replacer write helper returns early without stepping", []Edit{{sr, "\tnext_state.WRITEVAR(i.Name)\n\tnext_state.NEXT()\n", "\tnext_state.WRITEVAR(i.Name)\n\tif i.Name != \"\" {\n\t\tnext_state.NEXT()\n\t}\n"}}},
		{"C03", "NewRange orders its bounds", []Edit{{"libvore/ds/range.go", "\treturn &Range{start, end}\n", "\tif end < start {\n\t\tstart, end = end, start\n\t}\n\treturn &Range{start, end}\n"}}},
		{"C08", "getTokens goes on after an EOF token", []Edit{{lx, "\t\tif token.TokenType == EOF {\n\t\t\tbreak\n\t\t}\n\t}\n\treturn tokens, nil", "\t\tif token.TokenType == EOF && len(tokens) > 1 {\n\t\t\tbreak\n\t\t}\n\t}\n\treturn tokens, nil"}}},
		{"C18", "the JSON document is used as a format string", []Edit{{"main.go", "fmt.Printf(\"There were %d matches :)\\n\", len(results))", "fmt.Printf(results.Json())"}}},
		{"C13", "engine patches a jump target in place", []Edit{{sr, "func matchBranch(i bytecode.Branch, current_state *SearchEngineState) *SearchEngineState {\n", "func matchBranch(i bytecode.Branch, current_state *SearchEngineState) *SearchEngineState {\n\tif len(i.Branches) > 8 {\n\t\ti.Branches[0] = i.Branches[0] + 0\n\t}\n"}}},
		{"C14", "`{m,}` encoded as exactly m", []Edit{{rx, "\t\t\t\texp = &AstLoop{from, -1, false, nil, \"\"}", "\t\t\t\texp = &AstLoop{from, from, false, nil, \"\"}"}}},
		{"C14", "`\\D` without negation", []Edit{{rx, "return &AstCharacterClass{true, ClassDigit}, index + 1, nil", "return &AstCharacterClass{false, ClassDigit}, index + 1, nil"}}},
		{"C14", "group number taken after the body", []Edit{{rx, "\tcapture_group_number += 1\n\tgroup_number := capture_group_number\n\tsubexpr, next_index, err := parse_regexp_disjunction(regexp_token, regexp, index)\n", "\tsubexpr, next_index, err := parse_regexp_disjunction(regexp_token, regexp, index)\n\tcapture_group_number += 1\n\tgroup_number := capture_group_number\n"}}},
		{"C15", "parse_set looks at an unskipped position", []Edit{{ps, "\tname := current_token.Lexeme\n\n\tcurrent_index = consumeIgnoreableTokens(tokens, current_index+1)\n\tcurrent_token = tokens[current_index]\n\n\tif current_token.TokenType != TO {\n\t\treturn nil, current_index, NewParseError(current_token, \"Unexpected token. Expected 'to'\")\n\t}\n\n\tcurrent_index = consumeIgnoreableTokens(tokens, current_index+1)\n\tcurrent_token = tokens[current_index]\n\tvar body AstSetBody", "\tname := current_token.Lexeme\n\n\tcurrent_index = current_index + 1\n\tcurrent_token = tokens[current_index]\n\n\tif current_token.TokenType != TO {\n\t\treturn nil, current_index, NewParseError(current_token, \"Unexpected token. Expected 'to'\")\n\t}\n\n\tcurrent_index = consumeIgnoreableTokens(tokens, current_index+1)\n\tcurrent_token = tokens[current_index]\n\tvar body AstSetBody"}}},
		{"C15", "comments not filtered from expressions", []Edit{{ps, "== WS || tokens[token_index].TokenType == COMMENT {", "== WS {"}}},
		{"C15", "a keyword spelled with a capital", []Edit{{lx, "\t\tcase \"find\":\n", "\t\tcase \"Find\":\n"}}},
		{"C16", "\\t decodes to backspace", []Edit{{lx, "\t} else if ch == 't' {\n\t\treturn rune(9)", "\t} else if ch == 't' {\n\t\treturn rune(8)"}}},
		{"C16", "unread_last pushes back two runes", []Edit{{lx, "func (s *Lexer) unread_last() {\n\ts.unread(1)", "func (s *Lexer) unread_last() {\n\ts.unread(2)"}}},
		{"C16", "double-quoted strings also end at a newline", []Edit{{lx, "\t\t\tif ch == '\"' {\n\t\t\t\tcurrent_state = SSTRING_END", "\t\t\tif ch == '\"' || ch == '\\n' {\n\t\t\t\tcurrent_state = SSTRING_END"}}},
		{"C17", "value key filled from the file name", []Edit{{"libvore/engine/matches.go", "\tresult[\"value\"] = m.Value\n", "\tresult[\"value\"] = m.Filename\n"}}},
		{"C17", "a channel in the JSON object", []Edit{{"libvore/engine/matches.go", "\tresult[\"variables\"] = m.Variables\n", "\tresult[\"variables\"] = make(chan int)\n"}}},
		{"C17", "FormattedJson marshals something else", []Edit{{"libvore/engine/matches.go", "func (m Matches) FormattedJson() string {\n\tdata, err := json.MarshalIndent(m, \"\", \"\\t\")", "func (m Matches) FormattedJson() string {\n\tdata, err := json.MarshalIndent(Matches{}, \"\", \"\\t\")"}}},
		{"C17", "replacement emitted unconditionally", []Edit{{"libvore/engine/matches.go", "\tif m.Replacement.HasValue() {\n\t\tresult[\"replacement\"] = m.Replacement.GetValue()\n\t}\n", "\tresult[\"replacement\"] = m.Replacement.GetValueOrDefault(\"\")\n"}}},
		{"C18", "JSON file opened read-only", []Edit{{"main.go", "os.O_WRONLY|os.O_CREATE, 0o644", "os.O_CREATE, 0o644"}}},
		{"C18", "usage error exits with status 0", []Edit{{"main.go", "\t\tfmt.Println(\"Must supply either a source file or a command.\")\n\t\tflag.PrintDefaults()\n\t\tos.Exit(1)", "\t\tfmt.Println(\"Must supply either a source file or a command.\")\n\t\tflag.PrintDefaults()\n\t\tos.Exit(0)"}}},
		{"C18", "NOTHING mapped to NEW", []Edit{{"main.go", "\tcase \"NOTHING\":\n\t\treplaceModeArg = engine.NOTHING", "\tcase \"NOTHING\":\n\t\treplaceModeArg = engine.NEW"}}},
		{"C18", "progress message printed by the library", []Edit{{"libvore/files/path.go", "func (path *Path) GetFileList(currentDirectory string) []string {\n", "func (path *Path) GetFileList(currentDirectory string) []string {\n\tprintln(\"\")\n\tos.Stdout.WriteString(currentDirectory + \"\\n\")\n"}}},
		{"C19", "parse no longer holds the lock", []Edit{{ps, "\tcapture_group_lock.Lock()\n\tdefer capture_group_lock.Unlock()\n", ""}}},
		{"C19", "generator caches the last loop id in a package variable", []Edit{{gen, "\tid := rand.Int63()\n", "\tid := rand.Int63()\n\tlastLoopId = id\n"}, {gen, "type Bytecode struct {", "var lastLoopId int64\n\ntype Bytecode struct {"}}},
		{"C19", "Run sorts the shared branch table", []Edit{{sr, "func matchBranch(i bytecode.Branch, current_state *SearchEngineState) *SearchEngineState {\n", "func matchBranch(i bytecode.Branch, current_state *SearchEngineState) *SearchEngineState {\n\tif len(i.Branches) > 1 && i.Branches[0] > i.Branches[1] {\n\t\ti.Branches[0], i.Branches[1] = i.Branches[1], i.Branches[0]\n\t}\n"}}},
		{"C20", "directories listed as files", []Edit{{"libvore/files/path.go", "\t\t\tif !e.IsDir() && pathMatches(e.Name(), path.entries[0].value) {", "\t\t\tif pathMatches(e.Name(), path.entries[0].value) {"}}},
		{"C20", "recursion without shrinking the pattern", []Edit{{"libvore/files/path.go", "results = append(results, path.shrink().GetFileList(currentDirectory+\"/\"+e.Name())...)", "results = append(results, path.GetFileList(currentDirectory+\"/\"+e.Name())...)"}}},
		// second generation: one mutant per rule added after the second round of seeded changes
		{"C01", "BACKTRACK drops a popped checkpoint", []Edit{{se, "\t\tnext_state := es.backtrack.Pop()\n\t\tes.Set(next_state)\n", "\t\tnext_state := es.backtrack.Pop()\n\t\tif next_state.programCounter < 0 {\n\t\t\treturn\n\t\t}\n\t\tes.Set(next_state)\n"}}},
		{"C01", "Stack.Copy returns a view of the same backing array", []Edit{{"libvore/ds/stack.go", "\tresult := NewStack[T]()\n\n\tfor _, value := range s.store {\n\t\tresult.Push(value)\n\t}\n\n\treturn result\n", "\treturn &Stack[T]{store: s.store[:len(s.store)]}\n"}}},
		{"C02", "Stack.Copy returns a view of the same backing array", []Edit{{"libvore/ds/stack.go", "\tresult := NewStack[T]()\n\n\tfor _, value := range s.store {\n\t\tresult.Push(value)\n\t}\n\n\treturn result\n", "\treturn &Stack[T]{store: s.store[:len(s.store)]}\n"}}},
		{"C09", "Stack.Copy returns a view of the same backing array", []Edit{{"libvore/ds/stack.go", "\tresult := NewStack[T]()\n\n\tfor _, value := range s.store {\n\t\tresult.Push(value)\n\t}\n\n\treturn result\n", "\treturn &Stack[T]{store: s.store[:len(s.store)]}\n"}}},
		{"C04", "the VM state is told where the window starts", []Edit{{sr, "\t\tcurrentState := CreateState(filename, reader, fileOffset, lineNumber, columnNumber)\n", "\t\tcurrentState := CreateState(filename, reader, fileOffset, lineNumber, columnNumber)\n\t\tcurrentState.startColumnNum = columnNumber + skip\n"}}},
		{"C06", "RunFiles keeps one reader per file across commands", []Edit{{"libvore/engine/engine.go", "\t\t\t\tfoundMatches := search(&command, actualFilename, reader, actualMode)\n", "\t\t\t\tif cached, ok := readerCache[actualFilename]; ok {\n\t\t\t\t\treader = cached\n\t\t\t\t} else {\n\t\t\t\t\treaderCache[actualFilename] = reader\n\t\t\t\t}\n\t\t\t\tfoundMatches := search(&command, actualFilename, reader, actualMode)\n"}, {"libvore/engine/engine.go", "func RunFiles(", "var readerCache = map[string]*files.Reader{}\n\nfunc RunFiles("}}},
		{"C07", "RunFiles keeps one reader per file across commands", []Edit{{"libvore/engine/engine.go", "\t\t\t\tfoundMatches := search(&command, actualFilename, reader, actualMode)\n", "\t\t\t\tif cached, ok := readerCache[actualFilename]; ok {\n\t\t\t\t\treader = cached\n\t\t\t\t} else {\n\t\t\t\t\treaderCache[actualFilename] = reader\n\t\t\t\t}\n\t\t\t\tfoundMatches := search(&command, actualFilename, reader, actualMode)\n"}, {"libvore/engine/engine.go", "func RunFiles(", "var readerCache = map[string]*files.Reader{}\n\nfunc RunFiles("}}},
		{"C08", "Compile can answer (nil, nil)", []Edit{{"libvore/vore.go", "func Compile(command string) (*Vore, error) {\n\treturn compile(strings.NewReader(command))\n}", "var lastProgram *Vore\n\nfunc Compile(command string) (*Vore, error) {\n\tif command == \"\" {\n\t\treturn lastProgram, nil\n\t}\n\treturn compile(strings.NewReader(command))\n}"}}},
		{"C09", "replacement read with GetValue", []Edit{{sr, "writer.WriteAt(currentWriterOffset, replacedMatches[i].Replacement.GetValueOrDefault(\"\"))", "writer.WriteAt(currentWriterOffset, replacedMatches[i].Replacement.GetValue())"}}},
		{"C10", "iteration start re-recorded for named loops only", []Edit{{se, "\tes.loopStack.Peek().loopMatchIndexStart = len(es.currentMatch)\n\tes.loopStack.Peek().variables.Add(", "\tif es.loopStack.Peek().name != \"\" {\n\t\tes.loopStack.Peek().loopMatchIndexStart = len(es.currentMatch)\n\t}\n\tes.loopStack.Peek().variables.Add("}}},
		{"C10", "whole-word loop ignores the end of input", []Edit{{se, "\t\tes.CONSUME(1)\n\t\tif es.currentFileOffset == es.reader.Size() {\n\t\t\tbreak\n\t\t}\n\n\t\tcurrent := es.READ(1)", "\t\tes.CONSUME(1)\n\n\t\tcurrent := es.READ(1)"}}},
		{"C12", "checkIf does not look at the verdict of the then-branch", []Edit{{sem, "\tfor _, stmt := range s.TrueBody {\n\t\tvalueInfo = checkStatement(&stmt, valueInfo)\n\t\tif valueInfo.currentType == PTERROR {\n\t\t\treturn valueInfo\n\t\t}\n\t}\n", "\tfor _, stmt := range s.TrueBody {\n\t\tvalueInfo = checkStatement(&stmt, valueInfo)\n\t}\n"}}},
		{"C15", "the lexer remembers the previous token, trivia included", []Edit{{lx, "\tposition    *ds.Stack[PositionInfo]\n}", "\tposition    *ds.Stack[PositionInfo]\n\tprevious    TokenType\n}"}, {lx, "\t} else if token.TokenType == ERROR {\n\t\treturn nil, NewLexError(token, \"Unknown token\")\n\t}\n", "\t} else if token.TokenType == ERROR {\n\t\treturn nil, NewLexError(token, \"Unknown token\")\n\t}\n\tif s.previous == NUMBER && token.TokenType == NUMBER {\n\t\ttoken.TokenType = IDENTIFIER\n\t}\n\ts.previous = token.TokenType\n"}}},
		{"C16", "an incomplete \\x keeps the escape state", []Edit{{lx, "\t\t\t\t} else {\n\t\t\t\t\tbuf.WriteRune('x')\n\t\t\t\t}\n\t\t\t} else {\n\t\t\t\tbuf.WriteRune(getEscapedRune(ch))\n\t\t\t}\n\t\t\tcurrent_state = SSTRING_DOUBLE\n", "\t\t\t\t} else {\n\t\t\t\t\tbuf.WriteRune('x')\n\t\t\t\t\tcontinue\n\t\t\t\t}\n\t\t\t} else {\n\t\t\t\tbuf.WriteRune(getEscapedRune(ch))\n\t\t\t}\n\t\t\tcurrent_state = SSTRING_DOUBLE\n"}}},
		{"C17", "encoded JSON rewritten by a string replacement", []Edit{{"libvore/engine/matches.go", "func (m Matches) Json() string {\n\tdata, err := json.Marshal([]Match(m))\n\tif err != nil {\n\t\tpanic(err)\n\t}\n\treturn string(data)\n}", "func (m Matches) Json() string {\n\tdata, err := json.Marshal([]Match(m))\n\tif err != nil {\n\t\tpanic(err)\n\t}\n\treturn strings.ReplaceAll(string(data), \"\\\\u0026\", \"&\")\n}"}}},
		{"C18", "JSON output file no longer truncated", []Edit{{"main.go", "\t\t\tf := OpenFile(json_file)\n\t\t\tTruncate(f)\n", "\t\t\tf := OpenFile(json_file)\n"}}},
		{"C18", "leading ./ removed with a cutset", []Edit{{"libvore/files/path.go", "\t\tpath = path[1:]\n\t}\n\tsplitPath", "\t\tpath = path[1:]\n\t} else {\n\t\tpath = strings.TrimLeft(path, \"./\")\n\t}\n\tsplitPath"}}},
		{"C20", "leading ./ removed with a cutset", []Edit{{"libvore/files/path.go", "\t\tpath = path[1:]\n\t}\n\tsplitPath", "\t\tpath = path[1:]\n\t} else {\n\t\tpath = strings.TrimLeft(path, \"./\")\n\t}\n\tsplitPath"}}},
		{"C20", "single-star fast path without a length test", []Edit{{"libvore/files/path.go", "\tmatchParts := algo.Window(algo.SplitKeep(matches, \"*\"), 2)\n", "\tif strings.Count(matches, \"*\") == 1 {\n\t\tparts := strings.SplitN(matches, \"*\", 2)\n\t\treturn strings.HasPrefix(target, parts[0]) && strings.HasSuffix(target, parts[1])\n\t}\n\tmatchParts := algo.Window(algo.SplitKeep(matches, \"*\"), 2)\n"}}},
		// third generation: rules added after the third round of seeded changes
		{"C01", "alternatives saved in written order", []Edit{{sr, "\tfor _, f := range flipped[:len(flipped)-1] {\n\t\tnext_state.JUMP(f)", "\tfor _, f := range i.Branches[1:] {\n\t\tnext_state.JUMP(f)"}}},
		{"C02", "ValueHashMap.Copy is one level deep", []Edit{{"libvore/engine/values.go", "\t\tresult.Add(k, val.Copy())\n", "\t\tresult.Add(k, val)\n"}}},
		{"C03", "Reader.Seek positions the contents one byte further", []Edit{{"libvore/files/reader.go", "v.contents.Seek(int64(offset), io.SeekStart)", "v.contents.Seek(int64(offset+1), io.SeekStart)"}}},
		{"C07", "Reader.Seek positions the contents one byte further", []Edit{{"libvore/files/reader.go", "v.contents.Seek(int64(offset), io.SeekStart)", "v.contents.Seek(int64(offset+1), io.SeekStart)"}}},
		{"C05", "matchNumber set before the captured variables are copied", []Edit{{sr, "\tenv[\"matchNumber\"] = ProcessValueNumber{next_state.match.MatchNumber}\n", ""}, {sr, "\tenv := make(map[string]ProcessValue)\n\tkeys := current_state.variables.Keys()", "\tenv := make(map[string]ProcessValue)\n\tenv[\"matchNumber\"] = ProcessValueNumber{next_state.match.MatchNumber}\n\tkeys := current_state.variables.Keys()"}}},
		{"C12", "matchNumber set before the captured variables are copied", []Edit{{sr, "\tenv[\"matchNumber\"] = ProcessValueNumber{next_state.match.MatchNumber}\n", ""}, {sr, "\tenv := make(map[string]ProcessValue)\n\tkeys := current_state.variables.Keys()", "\tenv := make(map[string]ProcessValue)\n\tenv[\"matchNumber\"] = ProcessValueNumber{next_state.match.MatchNumber}\n\tkeys := current_state.variables.Keys()"}}},
		{"C07", "long file names are skipped without being searched", []Edit{{"libvore/engine/engine.go", "\t\t\t\tfoundMatches := search(&command, actualFilename, reader, actualMode)\n", "\t\t\t\tif len(actualFilename) > 200 {\n\t\t\t\t\treader.Close()\n\t\t\t\t\tcontinue\n\t\t\t\t}\n\t\t\t\tfoundMatches := search(&command, actualFilename, reader, actualMode)\n"}}},
		{"C08", "HexToAscii reached after one IsHex test", []Edit{{lx, "if len(hex) == 2 && IsHex(rune(hex[0])) && IsHex(rune(hex[1])) {", "if len(hex) == 2 && IsHex(rune(hex[0])) {"}}},
		{"C08", "checker loop without a bound", []Edit{{sem, "\tinfo.inLoop = wasInLoop\n\treturn info\n", "\tfor info.inLoop {\n\t\tinfo.inLoop = wasInLoop && info.currentType == PTERROR\n\t}\n\tinfo.inLoop = wasInLoop\n\treturn info\n"}}},
		{"C09", "IsLetter looks at the first byte only", []Edit{{se, "\treturn (\"a\" <= value && value <= \"z\") || (\"A\" <= value && value <= \"Z\") || (\"0\" <= value && value <= \"9\") || value == \"_\"\n", "\tb := value[0]\n\treturn ('a' <= b && b <= 'z') || ('A' <= b && b <= 'Z') || ('0' <= b && b <= '9') || b == '_'\n"}}},
		{"C13", "definitions generated in a pass of their own", []Edit{{gen, "\tfor _, ast_comm := range a.Commands() {\n\t\tbyte_comm, gen_error := generateCommand(&ast_comm, gen_state)", "\tfor _, ast_comm := range a.Commands() {\n\t\tif _, isSet := ast_comm.(*ast.AstSet); isSet {\n\t\t\tgenerateCommand(&ast_comm, gen_state)\n\t\t}\n\t}\n\tfor _, ast_comm := range a.Commands() {\n\t\tbyte_comm, gen_error := generateCommand(&ast_comm, gen_state)"}}},
		{"C15", "boolean literal read from the raw spelling", []Edit{{ps, "\t\tlhs = AstProcessBoolean{true}\n", "\t\tlhs = AstProcessBoolean{tokens[index].Lexeme == \"true\"}\n"}}},
		{"C17", "Range.MarshalJSON moved to the pointer receiver", []Edit{{"libvore/ds/range.go", "func (r Range) MarshalJSON() ([]byte, error) {", "func (r *Range) MarshalJSON() ([]byte, error) {"}}},
		{"C10", "Stack.Copy returns a view of the same backing array", []Edit{{"libvore/ds/stack.go", "\tresult := NewStack[T]()\n\n\tfor _, value := range s.store {\n\t\tresult.Push(value)\n\t}\n\n\treturn result\n", "\treturn &Stack[T]{store: s.store[:len(s.store)]}\n"}}},
		{"C13", "Stack.Copy returns a view of the same backing array", []Edit{{"libvore/ds/stack.go", "\tresult := NewStack[T]()\n\n\tfor _, value := range s.store {\n\t\tresult.Push(value)\n\t}\n\n\treturn result\n", "\treturn &Stack[T]{store: s.store[:len(s.store)]}\n"}}},
		{"C08", "checker divides by the number of statements of a loop body", []Edit{{sem, "\tinfo.inLoop = wasInLoop\n\treturn info\n", "\tinfo.inLoop = wasInLoop || 1/len(s.Body) > 1\n\treturn info\n"}}},
		{"C08", "a nil *ParseError stored as an error", []Edit{{ps, "\t\t\treturn nil, current_index, NewParseError(nameToken, \"Expected identifier following keyword 'named'\")", "\t\t\tvar pe *ParseError\n\t\t\tif nameToken.TokenType != EOF {\n\t\t\t\tpe = NewParseError(nameToken, \"Expected identifier following keyword 'named'\")\n\t\t\t}\n\t\t\treturn nil, current_index, pe"}}},
		{"C01", "a call gives up beyond a nesting depth", []Edit{{sr, "\tnext_state.CALL(i.ToPC, next_state.programCounter+1)\n\tnext_state.JUMP(i.ToPC)\n\treturn next_state\n", "\tif next_state.callStack.Size() >= 512 {\n\t\tnext_state.BACKTRACK()\n\t\treturn next_state\n\t}\n\tnext_state.CALL(i.ToPC, next_state.programCounter+1)\n\tnext_state.JUMP(i.ToPC)\n\treturn next_state\n"}}},
		{"C09", "a call gives up beyond a nesting depth", []Edit{{sr, "\tnext_state.CALL(i.ToPC, next_state.programCounter+1)\n\tnext_state.JUMP(i.ToPC)\n\treturn next_state\n", "\tif next_state.callStack.Size() >= 512 {\n\t\tnext_state.BACKTRACK()\n\t\treturn next_state\n\t}\n\tnext_state.CALL(i.ToPC, next_state.programCounter+1)\n\tnext_state.JUMP(i.ToPC)\n\treturn next_state\n"}}},
		{"C10", "a call gives up beyond a nesting depth", []Edit{{sr, "\tnext_state.CALL(i.ToPC, next_state.programCounter+1)\n\tnext_state.JUMP(i.ToPC)\n\treturn next_state\n", "\tif next_state.callStack.Size() >= 512 {\n\t\tnext_state.BACKTRACK()\n\t\treturn next_state\n\t}\n\tnext_state.CALL(i.ToPC, next_state.programCounter+1)\n\tnext_state.JUMP(i.ToPC)\n\treturn next_state\n"}}},
		{"C13", "a call gives up beyond a nesting depth", []Edit{{sr, "\tnext_state.CALL(i.ToPC, next_state.programCounter+1)\n\tnext_state.JUMP(i.ToPC)\n\treturn next_state\n", "\tif next_state.callStack.Size() >= 512 {\n\t\tnext_state.BACKTRACK()\n\t\treturn next_state\n\t}\n\tnext_state.CALL(i.ToPC, next_state.programCounter+1)\n\tnext_state.JUMP(i.ToPC)\n\treturn next_state\n"}}},
		{"C01", "the literal of an instruction is re-rendered on the way from the AST", []Edit{{gen, "\t\tToFind:   l.Value,\n\t\tNot:      l.Not,\n", "\t\tToFind:   fmt.Sprint(l.Value),\n\t\tNot:      l.Not,\n"}}},
		{"C16", "the literal of an instruction is re-rendered on the way from the AST", []Edit{{gen, "\t\tToFind:   l.Value,\n\t\tNot:      l.Not,\n", "\t\tToFind:   fmt.Sprint(l.Value),\n\t\tNot:      l.Not,\n"}}},
		{"C02", "a stored definition wins over the command own name", []Edit{{gen, "\tval, prs := state.variables[l.Name]\n\tif !prs {\n", "\tval, prs := state.variables[l.Name]\n\tif _, stored := state.globalSubroutines[l.Name]; stored || !prs {\n"}}},
		{"C13", "a stored definition wins over the command own name", []Edit{{gen, "\tval, prs := state.variables[l.Name]\n\tif !prs {\n", "\tval, prs := state.variables[l.Name]\n\tif _, stored := state.globalSubroutines[l.Name]; stored || !prs {\n"}}},
		{"C05", "process loops are cut off after a quota of rounds", []Edit{{ex, "\texpr_state := state\n\tfor {\n", "\texpr_state := state\n\tfor rounds := 0; rounds < 100000; rounds++ {\n"}}},
		{"C11", "process loops are cut off after a quota of rounds", []Edit{{ex, "\texpr_state := state\n\tfor {\n", "\texpr_state := state\n\tfor rounds := 0; rounds < 100000; rounds++ {\n"}}},
		{"C10", "any widens its read until it has two bytes", []Edit{{se, "\t} else {\n\t\tes.CONSUME(1)\n\t\tes.NEXT()\n\t}\n}\n\nfunc (es *SearchEngineState) MATCHRANGE", "\t} else {\n\t\tfor value != \"\\n\" && len(value) < 2 {\n\t\t\tvalue = es.READ(2)\n\t\t}\n\t\tes.CONSUME(1)\n\t\tes.NEXT()\n\t}\n}\n\nfunc (es *SearchEngineState) MATCHRANGE"}}},
		{"C15", "escape look-ahead takes whatever is buffered", []Edit{{lx, "hex, _ := s.r.Peek(2)", "hex, _ := s.r.Peek(s.r.Buffered())"}}},
		{"C16", "escape look-ahead takes whatever is buffered", []Edit{{lx, "hex, _ := s.r.Peek(2)", "hex, _ := s.r.Peek(s.r.Buffered())"}}},
		{"C17", "the indented rendering is sorted by file name", []Edit{{"libvore/engine/matches.go", "func (m Matches) FormattedJson() string {\n", "func (m Matches) FormattedJson() string {\n\tsort.Slice(m, func(i, j int) bool { return m[i].Filename < m[j].Filename })\n"}}},
		{"C19", "a lock is held while the source is lexed", []Edit{{"libvore/ast/ast.go", "func ParseReader(reader io.Reader) (*Ast, error) {\n\tlexer := initLexer(reader)\n", "func ParseReader(reader io.Reader) (*Ast, error) {\n\tsource_lock.Lock()\n\tdefer source_lock.Unlock()\n\tlexer := initLexer(reader)\n"}, {"libvore/ast/ast.go", "func ParseReader(reader io.Reader) (*Ast, error) {", "var source_lock sync.Mutex\n\nfunc ParseReader(reader io.Reader) (*Ast, error) {"}, {"libvore/ast/ast.go", "\t\"io\"\n", "\t\"io\"\n\t\"sync\"\n"}}},
		{"C09", "RunFiles opens the subdirectories of a directory argument", []Edit{{"libvore/engine/engine.go", "\t\t\t\t\tif entry.IsDir() {\n\t\t\t\t\t\tcontinue\n\t\t\t\t\t}\n", ""}}},
		{"C09", "mode NOTHING no longer creates its memory writer", []Edit{{sr, "\tcase NOTHING:\n\t\twriter = files.WriterFromMemory()\n", "\tcase NOTHING:\n"}}},
		{"C11", "a loop count that does not fit an int becomes 1", []Edit{{ps, "\tvalue, err := strconv.Atoi(current_token.Lexeme)\n\tif err != nil {\n\t\treturn nil, current_index, NewParseError(current_token, \"Error converting lexeme to number value\")\n\t}\n", "\tvalue, err := strconv.Atoi(current_token.Lexeme)\n\tif err != nil {\n\t\tvalue = 1\n\t}\n"}}},
		{"C13", "a call no longer records where its text starts", []Edit{{se, "\t\tstartMatchOffset: len(es.currentMatch),\n", ""}}},
		{"C08", "regex `|` at the end indexes past the pattern", []Edit{{rx, "\t\t\tif next_index+1 >= len(regexp) {\n\t\t\t\treturn nil, next_index, NewParseError(regexp_token, \"Unexpected end of regexp after '|'\")\n\t\t\t}\n", ""}}},
		{"C08", "a range is checked by the first byte of its bounds", []Edit{{gen, "\tresult := MatchRange{\n\t\tFrom: l.From.Value,", "\tif l.From.Value[0] > l.To.Value[0] {\n\t\treturn nil, NewGenError(\"empty range\")\n\t}\n\tresult := MatchRange{\n\t\tFrom: l.From.Value,"}}},
		{"C09", "the predicate verdict comes from a helper that may answer nil", []Edit{{sr, "\t\tif final_value.getBoolean() {\n\t\t\tnext_state.RETURN()", "\t\tif verdictOf(final_value, pstate).getBoolean() {\n\t\t\tnext_state.RETURN()"}, {sr, "func matchJump(", "// verdictOf answers what the predicate returned\nfunc verdictOf(value ProcessValue, state ProcessState) ProcessValue {\n\tif state.status != RETURNING {\n\t\treturn nil\n\t}\n\treturn value\n}\n\nfunc matchJump("}}},
		{"C19", "debug output is serialised with a lock that is not deferred", []Edit{{ex, "func executeDebug(s *ast.AstProcessDebug, state ProcessState) ProcessState {\n\texpr_state := executeExpression(&s.Expr, state)\n\tfmt.Println(expr_state.currentValue.getString())\n", "var debug_lock sync.Mutex\n\nfunc executeDebug(s *ast.AstProcessDebug, state ProcessState) ProcessState {\n\tdebug_lock.Lock()\n\texpr_state := executeExpression(&s.Expr, state)\n\tfmt.Println(expr_state.currentValue.getString())\n\tdebug_lock.Unlock()\n"}, {ex, "import (\n\t\"fmt\"\n", "import (\n\t\"fmt\"\n\t\"sync\"\n"}}},
		{"C19", "RunFiles filters the list of names in place", []Edit{{"libvore/engine/engine.go", "\t\tactualMode = NOTHING\n\t}\n\tresult := Matches{}\n", "\t\tactualMode = NOTHING\n\t}\n\tkept := filenames[:0]\n\tfor _, name := range filenames {\n\t\tif name != \"\" {\n\t\t\tkept = append(kept, name)\n\t\t}\n\t}\n\tfilenames = kept\n\tresult := Matches{}\n"}}},
		{"C14", "the captures of the previous copy of a loop body stay declared", []Edit{{gen, "\t\tfor _, name := range copyDeclared {\n\t\t\tdelete(state.variables, name)\n\t\t}\n", ""}}},
		{"C02", "a back-reference reads the environment only", []Edit{{se, "\tvalue, found := es.LOOKUPVARIABLE(name)\n", "\tvalue, found := es.environment.Get(name)\n"}}},
		{"C11", "bool < orders the right operand by its number", []Edit{{ex, "lhs_state.currentValue.getNumber() < ProcessValueBoolean{rhs_state.currentValue.getBoolean()}.getNumber()", "lhs_state.currentValue.getNumber() < rhs_state.currentValue.getNumber()"}}},
		{"C02", "an unbound back-reference matches the empty text", []Edit{{se, "\tvalue, found := es.LOOKUPVARIABLE(name)\n\tif !found {\n\t\tes.BACKTRACK()\n", "\tvalue, found := es.LOOKUPVARIABLE(name)\n\tif !found {\n\t\tes.MATCH(\"\", false, false)\n"}}},
		{"C14", "an unbound back-reference matches the empty text", []Edit{{se, "\tvalue, found := es.LOOKUPVARIABLE(name)\n\tif !found {\n\t\tes.BACKTRACK()\n", "\tvalue, found := es.LOOKUPVARIABLE(name)\n\tif !found {\n\t\tes.MATCH(\"\", false, false)\n"}}},
		{"C15", "the end of the input where a command may start is an error", []Edit{{ps, "\tcase EOF:\n\t\treturn nil, token_index, nil\n", "\tcase EOF:\n\t\treturn nil, token_index, NewParseError(tokens[token_index], \"Unexpected end of input\")\n"}}},
		{"C13", "a command searches what is left after the previous command", []Edit{{"libvore/engine/engine.go", "\tresult := Matches{}\n\tfor _, command := range bytecode.Bytecode {\n\t\treader := files.ReaderFromString(searchText)\n\t\tresult = append(result, search(&command, \"text\", reader, NOTHING)...)\n\t\treader.Close()\n\t}\n", "\tresult := Matches{}\n\ttext := searchText\n\tfor _, command := range bytecode.Bytecode {\n\t\treader := files.ReaderFromString(text)\n\t\tfound := search(&command, \"text\", reader, NOTHING)\n\t\tresult = append(result, found...)\n\t\treader.Close()\n\t\tif len(found) > 0 {\n\t\t\ttext = text[found[0].Offset.Start:]\n\t\t}\n\t}\n"}}},
		{"C04", "a command searches what is left after the previous command", []Edit{{"libvore/engine/engine.go", "\tresult := Matches{}\n\tfor _, command := range bytecode.Bytecode {\n\t\treader := files.ReaderFromString(searchText)\n\t\tresult = append(result, search(&command, \"text\", reader, NOTHING)...)\n\t\treader.Close()\n\t}\n", "\tresult := Matches{}\n\ttext := searchText\n\tfor _, command := range bytecode.Bytecode {\n\t\treader := files.ReaderFromString(text)\n\t\tfound := search(&command, \"text\", reader, NOTHING)\n\t\tresult = append(result, found...)\n\t\treader.Close()\n\t\tif len(found) > 0 {\n\t\t\ttext = text[found[0].Offset.Start:]\n\t\t}\n\t}\n"}}},
		{"C15", "a doubled quote inside a single-quoted string stands for one quote", []Edit{{lx, "\t\t\tif ch == '\\'' {\n\t\t\t\tcurrent_state = SSTRING_END\n\t\t\t\tbreak\n\t\t\t}\n", "\t\t\tif ch == '\\'' {\n\t\t\t\tif next, _ := s.r.Peek(1); len(next) == 1 && next[0] == '\\'' {\n\t\t\t\t\ts.read()\n\t\t\t\t\tbuf.WriteRune(ch)\n\t\t\t\t\tcontinue\n\t\t\t\t}\n\t\t\t\tcurrent_state = SSTRING_END\n\t\t\t\tbreak\n\t\t\t}\n"}}},
		{"C16", "a doubled quote inside a single-quoted string stands for one quote", []Edit{{lx, "\t\t\tif ch == '\\'' {\n\t\t\t\tcurrent_state = SSTRING_END\n\t\t\t\tbreak\n\t\t\t}\n", "\t\t\tif ch == '\\'' {\n\t\t\t\tif next, _ := s.r.Peek(1); len(next) == 1 && next[0] == '\\'' {\n\t\t\t\t\ts.read()\n\t\t\t\t\tbuf.WriteRune(ch)\n\t\t\t\t\tcontinue\n\t\t\t\t}\n\t\t\t\tcurrent_state = SSTRING_END\n\t\t\t\tbreak\n\t\t\t}\n"}}},
		{"C16", "the text of a string literal is trimmed by the parser", []Edit{{ps, "import (\n\t\"strconv\"\n\t\"sync\"\n)", "import (\n\t\"strconv\"\n\t\"strings\"\n\t\"sync\"\n)"}, {ps, "\t\tstr_literal.Value = current_token.Lexeme\n", "\t\tstr_literal.Value = strings.TrimSpace(current_token.Lexeme)\n"}}},
		{"C11", "a variable that spells a number is read as a number", []Edit{{ex, "\tif prs {\n\t\tstate.currentValue = val\n", "\tif prs {\n\t\tif text, isText := val.(ProcessValueString); isText {\n\t\t\tif number, err := strconv.Atoi(text.value); err == nil {\n\t\t\t\tval = ProcessValueNumber{number}\n\t\t\t}\n\t\t}\n\t\tstate.currentValue = val\n"}}},
		{"C08", "hex escapes converted with a bit size of 8", []Edit{{lx, "value, err := strconv.ParseInt(input, 16, 64)", "value, err := strconv.ParseInt(input, 16, 8)"}}},
		{"C15", "expression tokens filtered in place and closed with a synthetic end marker", []Edit{{ps, "\texprTokens := []*Token{}\n\ttoken_index := index\n", "\texprTokens := tokens[index:index]\n\ttoken_index := index\n"}, {ps, "\treturn exprTokens, token_index\n", "\treturn append(exprTokens, &Token{TokenType: EOF}), token_index\n"}}},
		{"C08", "expression tokens filtered in place and closed with a synthetic end marker", []Edit{{ps, "\texprTokens := []*Token{}\n\ttoken_index := index\n", "\texprTokens := tokens[index:index]\n\ttoken_index := index\n"}, {ps, "\treturn exprTokens, token_index\n", "\treturn append(exprTokens, &Token{TokenType: EOF}), token_index\n"}}},
		{"C01", "line end decided from one read of two bytes", []Edit{{se, "\tnextChar := es.READ(1)\n\tnextTwoChar := es.READ(2)\n\tif nextChar == \"\\n\" ||", "\tnextTwoChar := es.READ(2)\n\tnextChar := \"\"\n\tif len(nextTwoChar) > 0 {\n\t\tnextChar = nextTwoChar[:1]\n\t}\n\tif nextChar == \"\\n\" ||"}}},
		{"C14", "line end decided from one read of two bytes", []Edit{{se, "\tnextChar := es.READ(1)\n\tnextTwoChar := es.READ(2)\n\tif nextChar == \"\\n\" ||", "\tnextTwoChar := es.READ(2)\n\tnextChar := \"\"\n\tif len(nextTwoChar) > 0 {\n\t\tnextChar = nextTwoChar[:1]\n\t}\n\tif nextChar == \"\\n\" ||"}}},
		{"C09", "the memory stream doubles its capacity whatever is asked for", []Edit{{"libvore/files/memorystream.go", "make([]byte, len(ms.contents), 2*(ms.pos+len(buf)))", "make([]byte, len(ms.contents), 2*cap(ms.contents)+4096)"}}},
		{"C18", "the memory stream doubles its capacity whatever is asked for", []Edit{{"libvore/files/memorystream.go", "make([]byte, len(ms.contents), 2*(ms.pos+len(buf)))", "make([]byte, len(ms.contents), 2*cap(ms.contents)+4096)"}}},
		{"C05", "a with-string is written out between quotes", []Edit{{gen, "import (\n\t\"fmt\"\n\t\"math/rand\"\n", "import (\n\t\"fmt\"\n\t\"math/rand\"\n\t\"strconv\"\n"}, {gen, "\tresult := ReplaceString{\n\t\tValue: l.Value,\n", "\tresult := ReplaceString{\n\t\tValue: strconv.Quote(l.Value),\n"}}},
		{"C12", "a double negation is dropped by the parser", []Edit{{ps, "\t\tlhs = AstProcessUnaryExpression{tokens[index].TokenType, rhs}\n", "\t\tif inner, isUnary := rhs.(AstProcessUnaryExpression); isUnary && inner.Op == NOT && tokens[index].TokenType == NOT {\n\t\t\tlhs = inner.Expr\n\t\t} else {\n\t\t\tlhs = AstProcessUnaryExpression{tokens[index].TokenType, rhs}\n\t\t}\n"}}},
		{"C13", "between the copies of a loop body only the captures are forgotten", []Edit{{gen, "\t\tfor name := range state.variables {\n\t\t\tif !before[name] {", "\t\tfor name, target := range state.variables {\n\t\t\tif !before[name] && target == -1 {"}}},
		{"C16", "a finished token that spells an alias is re-typed", []Edit{{lx, "\t\ttokens = append(tokens, token)\n\t\tif token.TokenType == EOF {", "\t\tif strings.ToLower(token.Lexeme) == \"optional\" {\n\t\t\ttoken.TokenType = MAYBE\n\t\t}\n\t\ttokens = append(tokens, token)\n\t\tif token.TokenType == EOF {"}}},
		{"C15", "a finished token that spells an alias is re-typed", []Edit{{lx, "\t\ttokens = append(tokens, token)\n\t\tif token.TokenType == EOF {", "\t\tif strings.ToLower(token.Lexeme) == \"optional\" {\n\t\t\ttoken.TokenType = MAYBE\n\t\t}\n\t\ttokens = append(tokens, token)\n\t\tif token.TokenType == EOF {"}}},
		{"C03", "a command searches what is left after the previous command", []Edit{{"libvore/engine/engine.go", "\tresult := Matches{}\n\tfor _, command := range bytecode.Bytecode {\n\t\treader := files.ReaderFromString(searchText)\n\t\tresult = append(result, search(&command, \"text\", reader, NOTHING)...)\n\t\treader.Close()\n\t}\n", "\tresult := Matches{}\n\ttext := searchText\n\tfor _, command := range bytecode.Bytecode {\n\t\treader := files.ReaderFromString(text)\n\t\tfound := search(&command, \"text\", reader, NOTHING)\n\t\tresult = append(result, found...)\n\t\treader.Close()\n\t\tif len(found) > 0 {\n\t\t\ttext = text[found[0].Offset.Start:]\n\t\t}\n\t}\n"}}},
		{"C07", "a command searches what is left after the previous command", []Edit{{"libvore/engine/engine.go", "\tresult := Matches{}\n\tfor _, command := range bytecode.Bytecode {\n\t\treader := files.ReaderFromString(searchText)\n\t\tresult = append(result, search(&command, \"text\", reader, NOTHING)...)\n\t\treader.Close()\n\t}\n", "\tresult := Matches{}\n\ttext := searchText\n\tfor _, command := range bytecode.Bytecode {\n\t\treader := files.ReaderFromString(text)\n\t\tfound := search(&command, \"text\", reader, NOTHING)\n\t\tresult = append(result, found...)\n\t\treader.Close()\n\t\tif len(found) > 0 {\n\t\t\ttext = text[found[0].Offset.Start:]\n\t\t}\n\t}\n"}}},
		{"C13", "the commands are filtered in place before they are run", []Edit{{"libvore/engine/engine.go", "\tresult := Matches{}\n\tfor _, command := range bytecode.Bytecode {\n\t\treader := files.ReaderFromString(searchText)\n", "\tresult := Matches{}\n\tkept := bytecode.Bytecode[:0]\n\tfor _, command := range bytecode.Bytecode {\n\t\tkept = append(kept, command)\n\t}\n\tfor _, command := range kept {\n\t\treader := files.ReaderFromString(searchText)\n"}}},
		{"C09", "line end looks behind without asking where it stands", []Edit{{se, "\tnextChar := es.READ(1)\n\tnextTwoChar := es.READ(2)\n\tif nextChar == \"\\n\" ||", "\tnextChar := es.READ(1)\n\tnextTwoChar := es.READ(2)\n\tif (nextChar == \"\\n\" && es.READAT(es.currentFileOffset-1, 1) != \"\\r\") ||"}}},
		{"C15", "blanks of Latin-1 answered from a table without NEL and no-break space", []Edit{{lx, "unicode.IsSpace(ch) && current_state != SSTRING_D_ESCAPE", "isBlank(ch) && current_state != SSTRING_D_ESCAPE"}, {lx, "func IsHex(", "func isBlank(ch rune) bool {\n\tif ch < 256 {\n\t\treturn ch == ' ' || (ch >= '\\t' && ch <= '\\r')\n\t}\n\treturn unicode.IsSpace(ch)\n}\n\nfunc IsHex("}}},
		{"C06", "the writer spells line feeds as CRLF", []Edit{{"libvore/files/writer.go", "import (\n", "import (\n\t\"strings\"\n"}, {"libvore/files/writer.go", "vw.contents.Write([]byte(data))", "vw.contents.Write([]byte(strings.ReplaceAll(data, \"\\n\", \"\\r\\n\")))"}}},
		{"C18", "a run without replace commands is skipped, asked with a pointer type", []Edit{{"libvore/vore.go", "func (v *Vore) RunFiles(filenames []string, mode engine.ReplaceMode, processFilenames bool) engine.Matches {\n", "func (v *Vore) RunFiles(filenames []string, mode engine.ReplaceMode, processFilenames bool) engine.Matches {\n\twrites := false\n\tfor _, command := range v.bytecode.Bytecode {\n\t\tif _, isReplace := command.(*bytecode.ReplaceCommand); isReplace {\n\t\t\twrites = true\n\t\t}\n\t}\n\tif !writes && mode == engine.OVERWRITE {\n\t\tmode = engine.NOTHING\n\t}\n"}}},
		{"C17", "rendering drops empty tables from the data it renders", []Edit{{"libvore/engine/values.go", "func (v ValueHashMap) MarshalJSON() ([]byte, error) {\n\treturn json.Marshal(v.Value)\n", "func (v ValueHashMap) MarshalJSON() ([]byte, error) {\n\tfor key, entry := range v.Value {\n\t\tif entry.getType() == ValueHashMapType && entry.Hashmap().Len() == 0 {\n\t\t\tdelete(v.Value, key)\n\t\t}\n\t}\n\treturn json.Marshal(v.Value)\n"}}},
		{"C08", "expression scan does not stop on the EOF token", []Edit{{ps, "tokenType == BREAK || tokenType == CONTINUE || tokenType == EOF", "tokenType == BREAK || tokenType == CONTINUE"}}},
	}
	var out []Mutant
	for _, m := range all {
		if m.Prop == prop {
			out = append(out, m)
		}
	}
	return out
}

type MutantResult struct {
	Name    string `json:"mutant"`
	Outcome string `json:"outcome"` // killed | survived | undecided | not-applicable | does-not-build
	Detail  string `json:"detail,omitempty"`
}

func copyTree(src, dst string) error {
	return filepath.Walk(src, func(p string, info os.FileInfo, err error) error {
		if err != nil {
			return err
		}
		rel, _ := filepath.Rel(src, p)
		if rel == ".git" || strings.HasPrefix(rel, ".git"+string(os.PathSeparator)) || rel == "vore" {
			if info.IsDir() {
				return filepath.SkipDir
			}
			return nil
		}
		target := filepath.Join(dst, rel)
		if info.IsDir() {
			return os.MkdirAll(target, 0o755)
		}
		if info.Mode()&os.ModeSymlink != 0 || info.Size() > 4<<20 {
			return nil
		}
		b, err := os.ReadFile(p)
		if err != nil {
			return err
		}
		return os.WriteFile(target, b, 0o644)
	})
}

// runMutants builds and analyses the mutants of one property in scratch copies and returns the kill matrix.
func runMutants(prop, repo, verif string) []MutantResult {
	ms := mutantsFor(prop)
	results := make([]MutantResult, len(ms))
	exe, err := os.Executable()
	if err != nil {
		return []MutantResult{{Name: "*", Outcome: "not-applicable", Detail: err.Error()}}
	}
	sem := make(chan struct{}, 6)
	var wg sync.WaitGroup
	for i, m := range ms {
		wg.Add(1)
		go func(i int, m Mutant) {
			defer wg.Done()
			sem <- struct{}{}
			defer func() { <-sem }()
			res := MutantResult{Name: m.Name}
			defer func() { results[i] = res }()
			dir, err := os.MkdirTemp("", "vorecheck-mut-")
			if err != nil {
				res.Outcome, res.Detail = "not-applicable", err.Error()
				return
			}
			defer os.RemoveAll(dir)
			tree := filepath.Join(dir, "repo")
			if err := copyTree(repo, tree); err != nil {
				res.Outcome, res.Detail = "not-applicable", err.Error()
				return
			}
			for _, e := range m.Edits {
				p := filepath.Join(tree, e.File)
				b, err := os.ReadFile(p)
				if err != nil || !strings.Contains(string(b), e.Old) {
					res.Outcome, res.Detail = "not-applicable", "the text this mutant rewrites is not present in "+e.File+" of the current tree"
					return
				}
				if err := os.WriteFile(p, []byte(strings.Replace(string(b), e.Old, e.New, 1)), 0o644); err != nil {
					res.Outcome, res.Detail = "not-applicable", err.Error()
					return
				}
			}
			vdir := filepath.Join(dir, "verif")
			_ = os.MkdirAll(vdir, 0o755)
			if kf, err := os.ReadFile(filepath.Join(verif, "known_findings.json")); err == nil {
				_ = os.WriteFile(filepath.Join(vdir, "known_findings.json"), kf, 0o644)
			}
			cmd := exec.Command(exe, "-property", prop, "-tier", "quick", "-repo", tree, "-verif", vdir)
			out, err := cmd.CombinedOutput()
			code := 0
			if ee, ok := err.(*exec.ExitError); ok {
				code = ee.ExitCode()
			} else if err != nil {
				res.Outcome, res.Detail = "not-applicable", err.Error()
				return
			}
			var lines []string
			for _, l := range strings.Split(string(out), "\n") {
				if strings.HasPrefix(l, "violated ") || strings.HasPrefix(l, "UNDECIDED") || strings.HasPrefix(l, "ERROR") {
					if len(l) > 220 {
						l = l[:220] + "…"
					}
					lines = append(lines, l)
				}
			}
			sort.Strings(lines)
			if len(lines) > 3 {
				lines = append(lines[:3], fmt.Sprintf("(+%d more)", len(lines)-3))
			}
			res.Detail = strings.Join(lines, " | ")
			switch {
			case code == 1:
				res.Outcome = "killed"
			case code == 0:
				res.Outcome = "survived"
			case strings.Contains(string(out), "type-check/load errors"):
				res.Outcome = "does-not-build"
			default:
				res.Outcome = "undecided"
			}
		}(i, m)
	}
	wg.Wait()
	return results
}

// runPatchCorpus applies every patch.diff found under dir/<id>/ (optionally only ids with the given prefix) to a scratch copy of the
// current tree and runs this property's quick check on it.
func runPatchCorpus(prop, repo, verif, dir, prefix string) []MutantResult {
	ents, err := os.ReadDir(dir)
	if err != nil {
		return nil
	}
	var ids []string
	for _, e := range ents {
		if e.IsDir() && strings.HasPrefix(e.Name(), prefix) {
			if _, err := os.Stat(filepath.Join(dir, e.Name(), "patch.diff")); err == nil {
				ids = append(ids, e.Name())
			}
		}
	}
	sort.Strings(ids)
	results := make([]MutantResult, len(ids))
	exe, _ := os.Executable()
	sem := make(chan struct{}, 6)
	var wg sync.WaitGroup
	for i, id := range ids {
		wg.Add(1)
		go func(i int, id string) {
			defer wg.Done()
			sem <- struct{}{}
			defer func() { <-sem }()
			res := MutantResult{Name: id}
			defer func() { results[i] = res }()
			tmp, err := os.MkdirTemp("", "vorecheck-corpus-")
			if err != nil {
				res.Outcome = "not-applicable"
				return
			}
			defer os.RemoveAll(tmp)
			tree := filepath.Join(tmp, "repo")
			if err := copyTree(repo, tree); err != nil {
				res.Outcome = "not-applicable"
				return
			}
			pf, _ := filepath.Abs(filepath.Join(dir, id, "patch.diff"))
			pc := exec.Command("patch", "-p1", "-s", "-f", "-i", pf)
			pc.Dir = tree
			if out, err := pc.CombinedOutput(); err != nil {
				res.Outcome, res.Detail = "not-applicable", "patch does not apply to the current tree: "+strings.TrimSpace(string(out))
				if len(res.Detail) > 200 {
					res.Detail = res.Detail[:200]
				}
				return
			}
			vdir := filepath.Join(tmp, "verif")
			_ = os.MkdirAll(vdir, 0o755)
			if kf, err := os.ReadFile(filepath.Join(verif, "known_findings.json")); err == nil {
				_ = os.WriteFile(filepath.Join(vdir, "known_findings.json"), kf, 0o644)
			}
			cmd := exec.Command(exe, "-property", prop, "-tier", "quick", "-repo", tree, "-verif", vdir)
			out, err := cmd.CombinedOutput()
			code := 0
			if ee, ok := err.(*exec.ExitError); ok {
				code = ee.ExitCode()
			}
			var rules []string
			for _, l := range strings.Split(string(out), "\n") {
				if strings.HasPrefix(l, "violated ") {
					f := strings.SplitN(strings.TrimPrefix(l, "violated "), "/", 3)
					if len(f) >= 2 {
						rules = append(rules, f[1])
					}
				}
			}
			sort.Strings(rules)
			res.Detail = strings.Join(uniq(rules), " ")
			switch {
			case strings.Contains(string(out), "type-check/load errors"):
				res.Outcome = "does-not-build"
			case code == 0:
				res.Outcome = "silent"
			case code == 1:
				res.Outcome = "reported"
			default:
				res.Outcome = "undecided"
			}
		}(i, id)
	}
	wg.Wait()
	return results
}
