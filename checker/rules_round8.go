package main

import (
	"fmt"
	"go/constant"
	"go/token"
	"go/types"
	"math"
	"sort"
	"strings"
	"unicode"

	"golang.org/x/tools/go/ssa"
)

// ---------------------------------------------------------------------------------------------
// C11.R9: reading a variable yields the value that is stored under its name.
//
// The operators of the process language dispatch on the run-time type of their left operand, and the table of C11 is stated over
// those types. Where the evaluator looks a variable up (a lookup in a map of ProcessValue whose key is the Name of an
// ast.AstProcessVariable), what it hands on - returns, or stores into a ProcessValue field of a state - must be the looked-up value
// itself wherever it depends on that value at all: a value *built* from the stored one (a number made from a string that spells one)
// changes the row of the table that every later operator selects. Values that do not depend on the lookup (the default of an
// unbound name, the literals that other arms of the same function evaluate) are not obligations.
func ruleVariableReadIsStoredValue(c *Ctx, rule string) {
	r := c.R
	varT := c.NamedType("ast", "AstProcessVariable")
	valT := c.NamedType("engine", "ProcessValue")
	if varT == nil || valT == nil {
		r.Ob(rule, "anchor ast.AstProcessVariable / engine.ProcessValue", "").Und("not found")
		return
	}
	isValue := func(t types.Type) bool { return types.Identical(t, valT) }
	var nameOfVariable func(v ssa.Value) bool
	nameOfVariable = func(v ssa.Value) bool {
		switch x := v.(type) {
		case *ssa.Parameter:
			// `lookupVariable(exp.Name, env)`: a name parameter that every caller fills with the Name of a variable node
			fn := x.Parent()
			idx, ncall := -1, 0
			for i, p := range fn.Params {
				if p == x {
					idx = i
				}
			}
			for caller := range c.allFns {
				if !c.isRepoFn(caller) {
					continue
				}
				for _, cl := range callsTo(caller, fn) {
					ncall++
					if idx < 0 || idx >= len(cl.Call.Args) {
						return false
					}
					if _, isParam := cl.Call.Args[idx].(*ssa.Parameter); isParam || !nameOfVariable(cl.Call.Args[idx]) {
						return false
					}
				}
			}
			return ncall > 0
		case *ssa.Field:
			return types.Identical(x.X.Type(), varT) && fieldName(varT, x.Field) == "Name"
		case *ssa.UnOp:
			if fa, ok := x.X.(*ssa.FieldAddr); ok && x.Op == token.MUL {
				return types.Identical(deref(fa.X.Type()), varT) && fieldName(varT, fa.Field) == "Name"
			}
		}
		return false
	}
	// forward closure: what depends on the seeds inside fn (data only)
	derived := func(fn *ssa.Function, seeds map[ssa.Value]bool) map[ssa.Value]bool {
		dep := map[ssa.Value]bool{}
		for v := range seeds {
			dep[v] = true
		}
		for changed := true; changed; {
			changed = false
			instrsOf(fn, func(in ssa.Instruction) {
				v, isVal := in.(ssa.Value)
				if st, ok := in.(*ssa.Store); ok {
					// a value kept in a local (or in a field of a local record): the cell depends on it
					if dep[st.Val] {
						root := st.Addr
						for {
							if fa, ok := root.(*ssa.FieldAddr); ok {
								root = fa.X
								continue
							}
							break
						}
						if al, ok := root.(*ssa.Alloc); ok && !dep[al] {
							dep[al] = true
							changed = true
						}
					}
					return
				}
				if !isVal || dep[v] {
					return
				}
				if ex, ok := in.(*ssa.Extract); ok {
					// the flag of a comma-ok lookup says whether, not what
					if _, isLookup := ex.Tuple.(*ssa.Lookup); isLookup && ex.Index == 1 {
						return
					}
				}
				for _, op := range in.Operands(nil) {
					if *op != nil && dep[*op] {
						dep[v] = true
						changed = true
						return
					}
				}
			})
		}
		return dep
	}
	var classify func(fn *ssa.Function, v ssa.Value, seeds, dep map[ssa.Value]bool, d int, seen map[ssa.Value]bool) valVerdict
	classify = func(fn *ssa.Function, v ssa.Value, seeds, dep map[ssa.Value]bool, d int, seen map[ssa.Value]bool) valVerdict {
		if seen[v] || seeds[v] || !dep[v] {
			return valVerdict{0, ""}
		}
		seen[v] = true
		switch x := v.(type) {
		case *ssa.Extract:
			if lk, ok := x.Tuple.(*ssa.Lookup); ok && x.Index == 0 && seeds[lk] {
				return valVerdict{0, ""}
			}
			if call, ok := x.Tuple.(*ssa.Call); ok {
				return classifyCall(c, call, x.Index, dep, d, derived, classify)
			}
		case *ssa.Phi:
			worst := valVerdict{0, ""}
			for _, e := range x.Edges {
				w := classify(fn, e, seeds, dep, d, seen)
				if w.k == 1 {
					return w
				}
				if w.k > worst.k {
					worst = w
				}
			}
			return worst
		case *ssa.MakeInterface:
			return valVerdict{1, "a " + types.TypeString(x.X.Type(), func(p *types.Package) string { return "" }) + " is built out of what the lookup found"}
		case *ssa.ChangeInterface:
			return classify(fn, x.X, seeds, dep, d, seen)
		case *ssa.TypeAssert:
			if types.IsInterface(x.AssertedType) {
				return classify(fn, x.X, seeds, dep, d, seen)
			}
		case *ssa.UnOp:
			if x.Op == token.MUL {
				if al, ok := x.X.(*ssa.Alloc); ok {
					worst := valVerdict{0, ""}
					for _, ref := range *al.Referrers() {
						if st, ok := ref.(*ssa.Store); ok && st.Addr == ssa.Value(al) {
							w := classify(fn, st.Val, seeds, dep, d, seen)
							if w.k == 1 {
								return w
							}
							if w.k > worst.k {
								worst = w
							}
						}
					}
					return worst
				}
			}
		case *ssa.Call:
			return classifyCall(c, x, 0, dep, d, derived, classify)
		}
		return valVerdict{2, fmt.Sprintf("a %T on the way", v)}
	}
	n := 0
	for _, fn := range c.SrcFuncs("engine") {
		seeds := map[ssa.Value]bool{}
		instrsOf(fn, func(in ssa.Instruction) {
			lk, ok := in.(*ssa.Lookup)
			if !ok {
				return
			}
			mt, isMap := lk.X.Type().Underlying().(*types.Map)
			if !isMap || !isValue(mt.Elem()) || !nameOfVariable(lk.Index) {
				return
			}
			seeds[lk] = true
			for _, ref := range *lk.Referrers() {
				if ex, ok := ref.(*ssa.Extract); ok && ex.Index == 0 {
					seeds[ex] = true
				}
			}
		})
		if len(seeds) == 0 {
			continue
		}
		dep := derived(fn, seeds)
		k := 0
		instrsOf(fn, func(in ssa.Instruction) {
			var outs []ssa.Value
			switch x := in.(type) {
			case *ssa.Store:
				if _, ok := x.Addr.(*ssa.FieldAddr); ok && isValue(x.Val.Type()) {
					outs = append(outs, x.Val)
				}
			case *ssa.Return:
				for _, res := range x.Results {
					if isValue(res.Type()) {
						outs = append(outs, res)
					}
				}
			}
			for _, v := range outs {
				if !dep[v] {
					continue
				}
				n++
				k++
				ob := r.Ob(rule, fmt.Sprintf("%s: value #%d handed on for a variable reference is the stored one", fnName(fn), k), c.pos(in.Pos()))
				w := classify(fn, v, seeds, dep, 0, map[ssa.Value]bool{})
				switch w.k {
				case 0:
					ob.OKnt("the value of the lookup itself")
				case 1:
					ob.Bad("the value handed on for a variable reference is not the stored one: " + w.why + " - the operators dispatch on the run-time type of their left operand, so the row of the table that `name + 1`, `name < x` select no longer follows the stored value")
				default:
					ob.Und("where the value comes from cannot be followed (" + w.why + ")")
				}
			}
		})
	}
	r.Floor(rule, "values handed on where a variable is looked up", n, 1)
}

type valVerdict struct {
	k   int
	why string
}

// classifyCall: the result of a repository function that was handed something that depends on the lookup - its parameters that
// receive such a value are the seeds there.
func classifyCall(c *Ctx, call *ssa.Call, idx int, dep map[ssa.Value]bool, d int,
	derived func(*ssa.Function, map[ssa.Value]bool) map[ssa.Value]bool,
	classify func(*ssa.Function, ssa.Value, map[ssa.Value]bool, map[ssa.Value]bool, int, map[ssa.Value]bool) valVerdict) valVerdict {
	sc := call.Call.StaticCallee()
	if sc == nil || !c.isRepoFn(sc) || len(sc.Blocks) == 0 || d >= 3 {
		return valVerdict{2, "the result of a call that cannot be followed"}
	}
	inner := map[ssa.Value]bool{}
	for i, p := range sc.Params {
		if i < len(call.Call.Args) && dep[call.Call.Args[i]] {
			inner[p] = true
		}
	}
	idep := derived(sc, inner)
	worst := valVerdict{0, ""}
	for _, b := range sc.Blocks {
		ret, ok := b.Instrs[len(b.Instrs)-1].(*ssa.Return)
		if !ok || idx >= len(ret.Results) {
			continue
		}
		w := classify(sc, ret.Results[idx], inner, idep, d+1, map[ssa.Value]bool{})
		if w.k == 1 {
			return valVerdict{1, "in " + fnName(sc) + " " + w.why}
		}
		if w.k > worst.k {
			worst = w
		}
	}
	return worst
}

func allConstFields(v ssa.Value) bool {
	switch x := v.(type) {
	case *ssa.Const:
		return true
	case *ssa.UnOp:
		if x.Op != token.MUL {
			return false
		}
		al, ok := x.X.(*ssa.Alloc)
		if !ok {
			return false
		}
		// a struct literal: every store into its fields is a constant
		for _, ref := range *al.Referrers() {
			switch y := ref.(type) {
			case *ssa.FieldAddr:
				for _, r2 := range *y.Referrers() {
					if st, ok := r2.(*ssa.Store); ok {
						if _, isConst := st.Val.(*ssa.Const); !isConst {
							return false
						}
					}
				}
			case *ssa.Store:
				if _, isConst := y.Val.(*ssa.Const); !isConst {
					return false
				}
			}
		}
		return true
	}
	return false
}

// ---------------------------------------------------------------------------------------------
// C08.R17: a text whose failed conversion panics has a bounded number of digits.
//
// C08.R2 trusts the panic of the hex helper because strconv.ParseInt cannot fail on two characters that were tested with IsHex
// (C08.R9). That argument is about the *characters*; ParseInt also fails on a text of digits that does not fit the bit size. For
// every strconv.ParseInt/ParseUint/Atoi in the compile path whose error leads to a panic, the number of characters of the text it
// is handed must therefore be bounded by a constant small enough for every such text to fit: floor((bitSize-1)/log2(base)).
// The bound is followed through concatenation, conversions of single runes, constant re-slices, parameters (all call sites) and
// results of repository functions; a text cut out with a bound that is not a constant is the witness.
func ruleParsePanicInputBounded(c *Ctx, rule string) {
	r := c.R
	reach := map[*ssa.Function]bool{}
	for _, root := range c.compileRoots() {
		for f := range c.Reachable(root) {
			reach[f] = true
		}
	}
	const unbounded = math.MaxInt32
	const unknown = -1
	var size func(v ssa.Value, d int, seen map[ssa.Value]bool) (int, string)
	size = func(v ssa.Value, d int, seen map[ssa.Value]bool) (int, string) {
		if seen[v] || d > 6 {
			return unknown, "a cycle"
		}
		seen[v] = true
		defer delete(seen, v)
		switch x := v.(type) {
		case *ssa.Const:
			if x.Value != nil && x.Value.Kind() == constant.String {
				return len(constant.StringVal(x.Value)), ""
			}
		case *ssa.BinOp:
			if x.Op == token.ADD {
				a, wa := size(x.X, d, seen)
				b, wb := size(x.Y, d, seen)
				if a == unbounded {
					return a, wa
				}
				if b == unbounded {
					return b, wb
				}
				if a == unknown {
					return a, wa
				}
				if b == unknown {
					return b, wb
				}
				return a + b, ""
			}
		case *ssa.Convert:
			if bt, ok := x.X.Type().Underlying().(*types.Basic); ok && bt.Info()&types.IsInteger != 0 {
				return 1, "" // one character
			}
			if _, ok := x.X.Type().Underlying().(*types.Slice); ok {
				return size(x.X, d, seen)
			}
			if bt, ok := x.X.Type().Underlying().(*types.Basic); ok && bt.Info()&types.IsString != 0 {
				return size(x.X, d, seen)
			}
		case *ssa.Slice:
			lo, hi := 0, unknown
			if x.Low != nil {
				if k, ok := x.Low.(*ssa.Const); ok {
					lo = int(k.Int64())
				} else {
					lo = unknown
				}
			}
			if x.High != nil {
				if k, ok := x.High.(*ssa.Const); ok {
					hi = int(k.Int64())
				}
			}
			if lo != unknown && hi != unknown {
				return hi - lo, ""
			}
			// the whole of an array (`[]rune{a, b}`, `buf[:]`): as many characters as the array has elements
			if pt, ok := x.X.Type().Underlying().(*types.Pointer); ok {
				if at, ok := pt.Elem().Underlying().(*types.Array); ok {
					return int(at.Len()), ""
				}
			}
			inner, why := size(x.X, d, seen)
			if inner != unknown && inner != unbounded {
				return inner, ""
			}
			if x.High != nil {
				return unbounded, "a piece cut out at " + c.pos(x.Pos()) + " whose upper bound is not a constant"
			}
			return inner, why
		case *ssa.Phi:
			best := 0
			for _, e := range x.Edges {
				s, w := size(e, d, seen)
				if s == unbounded || s == unknown {
					return s, w
				}
				if s > best {
					best = s
				}
			}
			return best, ""
		case *ssa.Parameter:
			fn := x.Parent()
			idx := -1
			for i, p := range fn.Params {
				if p == x {
					idx = i
				}
			}
			best, ncall := 0, 0
			for caller := range c.allFns {
				if !c.isRepoFn(caller) {
					continue
				}
				for _, cl := range callsTo(caller, fn) {
					ncall++
					if idx >= len(cl.Call.Args) {
						return unknown, "a call that cannot be matched"
					}
					s, w := size(cl.Call.Args[idx], d+1, seen)
					if s == unbounded || s == unknown {
						return s, w
					}
					if s > best {
						best = s
					}
				}
			}
			if ncall == 0 {
				return unknown, "a parameter of a function nothing calls directly"
			}
			return best, ""
		case *ssa.Extract:
			if call, ok := x.Tuple.(*ssa.Call); ok {
				return sizeOfResult(c, call, x.Index, d, seen, size)
			}
		case *ssa.Call:
			return sizeOfResult(c, x, 0, d, seen, size)
		case *ssa.UnOp:
			if x.Op == token.MUL {
				if al, ok := x.X.(*ssa.Alloc); ok {
					best := 0
					for _, ref := range *al.Referrers() {
						if st, ok := ref.(*ssa.Store); ok && st.Addr == ssa.Value(al) {
							s, w := size(st.Val, d, seen)
							if s == unbounded || s == unknown {
								return s, w
							}
							if s > best {
								best = s
							}
						}
					}
					return best, ""
				}
			}
		}
		return unknown, fmt.Sprintf("a %T", v)
	}
	n := 0
	for _, fn := range sortedFns(reach) {
		if !c.isRepoFn(fn) || len(fn.Blocks) == 0 {
			continue
		}
		if p := shortName(pkgPathOf(fn)); p != "ast" && p != "bytecode" {
			continue
		}
		instrsOf(fn, func(in ssa.Instruction) {
			call, ok := in.(*ssa.Call)
			if !ok {
				return
			}
			sc := call.Call.StaticCallee()
			if sc == nil || sc.Pkg == nil || sc.Pkg.Pkg.Path() != "strconv" || !(sc.Name() == "Atoi" || sc.Name() == "ParseInt" || sc.Name() == "ParseUint") {
				return
			}
			// does the failure lead to a panic?
			var errVal ssa.Value
			for _, ref := range *call.Referrers() {
				if ex, ok := ref.(*ssa.Extract); ok && types.Identical(ex.Type(), types.Universe.Lookup("error").Type()) {
					errVal = ex
				}
			}
			if errVal == nil {
				return
			}
			panics := false
			for _, ref := range *errVal.Referrers() {
				cmp, ok := ref.(*ssa.BinOp)
				if !ok || (cmp.Op != token.NEQ && cmp.Op != token.EQL) || !(isNilConst(cmp.X) || isNilConst(cmp.Y)) {
					continue
				}
				for _, r2 := range *cmp.Referrers() {
					iff, ok := r2.(*ssa.If)
					if !ok {
						continue
					}
					s := iff.Block().Succs[0]
					if cmp.Op == token.EQL {
						s = iff.Block().Succs[1]
					}
					seenB := map[*ssa.BasicBlock]bool{}
					work := []*ssa.BasicBlock{s}
					for len(work) > 0 {
						b := work[len(work)-1]
						work = work[:len(work)-1]
						if seenB[b] || len(seenB) > 12 {
							continue
						}
						seenB[b] = true
						if _, isPanic := b.Instrs[len(b.Instrs)-1].(*ssa.Panic); isPanic {
							panics = true
						}
						if b != iff.Block() && len(b.Preds) == 1 {
							work = append(work, b.Succs...)
						}
					}
				}
			}
			if !panics {
				return
			}
			n++
			ob := r.Ob(rule, fmt.Sprintf("%s: the text handed to strconv.%s (failure panics) always fits", fnName(fn), sc.Name()), c.pos(call.Pos()))
			base, bits := 10, 64
			if sc.Name() != "Atoi" {
				b, ok1 := call.Call.Args[1].(*ssa.Const)
				s, ok2 := call.Call.Args[2].(*ssa.Const)
				if !ok1 || !ok2 {
					ob.Und("base or bit size is not a constant")
					return
				}
				base, bits = int(b.Int64()), int(s.Int64())
				if bits == 0 {
					bits = 64
				}
				if base < 2 {
					ob.Und("the base is taken from the text")
					return
				}
			}
			avail := bits - 1
			if sc.Name() == "ParseUint" {
				avail = bits
			}
			limit := int(math.Floor(float64(avail) / math.Log2(float64(base))))
			s, why := size(call.Call.Args[0], 0, map[ssa.Value]bool{})
			switch {
			case s == unknown:
				ob.Und("the length of the text cannot be followed (" + why + ")")
			case s == unbounded:
				ob.Bad(fmt.Sprintf("the text is %s: %d or more digits do not fit %d bits in base %d, strconv.%s then fails with a range error and the failure panics inside Compile", why, limit+1, bits, base, sc.Name()))
			case s > limit:
				ob.Bad(fmt.Sprintf("the text can have %d characters: %d or more digits do not fit %d bits in base %d, strconv.%s then fails with a range error and the failure panics inside Compile", s, limit+1, bits, base, sc.Name()))
			default:
				ob.OKnt(fmt.Sprintf("at most %d characters; every text of up to %d digits fits %d bits in base %d", s, limit, bits, base))
			}
		})
	}
	r.Floor(rule, "conversions in the compile path whose failure panics", n, 1)
}

func sizeOfResult(c *Ctx, call *ssa.Call, idx int, d int, seen map[ssa.Value]bool, size func(ssa.Value, int, map[ssa.Value]bool) (int, string)) (int, string) {
	sc := call.Call.StaticCallee()
	if sc == nil {
		return -1, "the result of a call that cannot be resolved"
	}
	if !c.isRepoFn(sc) || len(sc.Blocks) == 0 {
		return -1, "the result of " + strings.TrimPrefix(fnName(sc), "(") + ""
	}
	best := 0
	for _, b := range sc.Blocks {
		ret, ok := b.Instrs[len(b.Instrs)-1].(*ssa.Return)
		if !ok || idx >= len(ret.Results) {
			continue
		}
		s, w := size(ret.Results[idx], d+1, seen)
		if s == math.MaxInt32 || s == -1 {
			return s, w
		}
		if s > best {
			best = s
		}
	}
	return best, ""
}

// ---------------------------------------------------------------------------------------------
// C01.R17 / C14.R18: a line ends in front of the last newline of the input.
//
// files.Reader.Read is all-or-nothing (C07.R5): asked for two bytes when one is left it answers "". The primitive behind `line end`
// and `$` therefore has to look at one byte as well as at two. World: one byte is left and it is a newline - READ(1) = "\n", READ(k)
// = "" for every constant k > 1, `offset == reader.Size()` is false, the `not` parameter is false. In that world the primitive must
// reach NEXT and must not reach BACKTRACK. A second world does the same for a final "\r\n" (READ(1) = "\r", READ(2) = "\r\n").
func ruleLineEndsBeforeLastNewline(c *Ctx, rule string) {
	r := c.R
	prim := c.Method("engine", "SearchEngineState", "MATCHLINEEND")
	read := c.Method("engine", "SearchEngineState", "READ")
	next := c.Method("engine", "SearchEngineState", "NEXT")
	back := c.Method("engine", "SearchEngineState", "BACKTRACK")
	size := c.Method("files", "Reader", "Size")
	if prim == nil || read == nil || next == nil || back == nil || size == nil {
		r.Ob(rule, "anchor engine.(*SearchEngineState).MATCHLINEEND/READ/NEXT/BACKTRACK", "").Und("not found")
		return
	}
	isSizeCall := func(v ssa.Value) bool {
		call, ok := v.(*ssa.Call)
		return ok && call.Call.StaticCallee() == size
	}
	// a helper that only looks (reads, compares, asks the size) may be evaluated in the world: the reads are fixed by it
	var readsOnly func(fn *ssa.Function, d int) bool
	readsOnly = func(fn *ssa.Function, d int) bool {
		if len(fn.Blocks) == 0 || d > 2 {
			return false
		}
		ok := true
		instrsOf(fn, func(in ssa.Instruction) {
			switch x := in.(type) {
			case *ssa.Store, *ssa.MapUpdate, *ssa.Send, *ssa.Go, *ssa.Defer, *ssa.Panic:
				ok = false
			case *ssa.Call:
				sc := x.Call.StaticCallee()
				if _, isBuiltin := x.Call.Value.(*ssa.Builtin); isBuiltin {
					return
				}
				switch {
				case sc == nil:
					ok = false
				case sc == read || sc == size:
				case sc.Pkg != nil && sc.Pkg.Pkg.Path() == "strings":
				case c.isRepoFn(sc) && (pureFunc(sc, 0) || readsOnly(sc, d+1)):
				default:
					ok = false
				}
			}
		})
		return ok
	}
	n := 0
	for _, wd := range []struct {
		name     string
		one, two string
	}{{"one byte is left and it is a newline", "\n", ""}, {"two bytes are left and they are \"\\r\\n\"", "\r", "\r\n"}} {
		n++
		ob := r.Ob(rule, "MATCHLINEEND succeeds when "+wd.name, c.pos(prim.Pos()))
		opaque := ""
		w := &World{Fn: prim,
			Call: func(call *ssa.Call, get func(ssa.Value) wLat) (wLat, bool) {
				sc := call.Call.StaticCallee()
				if sc == nil {
					return wLat{}, false
				}
				if sc == read && len(call.Call.Args) == 2 {
					k := get(call.Call.Args[1])
					if k.k != 1 {
						opaque = "a READ whose length is not a constant"
						return wTop, true
					}
					switch v, _ := constant.Int64Val(k.v); {
					case v == 1:
						return wConst(constant.MakeString(wd.one)), true
					case v == 2:
						return wConst(constant.MakeString(wd.two)), true
					case v > 2:
						return wConst(constant.MakeString("")), true
					}
					return wConst(constant.MakeString("")), true
				}
				if sc.Pkg != nil && sc.Pkg.Pkg.Path() == "strings" && len(call.Call.Args) == 2 {
					a, b := get(call.Call.Args[0]), get(call.Call.Args[1])
					if a.k == 1 && b.k == 1 && a.v.Kind() == constant.String && b.v.Kind() == constant.String {
						x, y := constant.StringVal(a.v), constant.StringVal(b.v)
						switch sc.Name() {
						case "HasPrefix":
							return wBool(strings.HasPrefix(x, y)), true
						case "HasSuffix":
							return wBool(strings.HasSuffix(x, y)), true
						case "Contains":
							return wBool(strings.Contains(x, y)), true
						}
					}
				}
				return wLat{}, false
			},
			Bin: func(b *ssa.BinOp, get func(ssa.Value) wLat) (wLat, bool) {
				if isSizeCall(b.X) || isSizeCall(b.Y) {
					switch b.Op {
					case token.EQL, token.GEQ:
						if isSizeCall(b.Y) {
							return wBool(false), true // offset == Size(), offset >= Size(): something is left
						}
					case token.NEQ, token.LSS:
						if isSizeCall(b.Y) {
							return wBool(true), true
						}
					}
				}
				return wLat{}, false
			},
			Interp: func(fn *ssa.Function) bool {
				return fn.Pkg != nil && fn.Pkg.Pkg.Path() == modRoot+"/libvore/engine" && (pureFunc(fn, 0) || readsOnly(fn, 0))
			},
		}
		w.Run(wTop, wBool(false))
		reachNext, reachBack := false, false
		// what is reached in the primitive and in the helpers it ends in (`es.ANCHOR(es.ATLINEBREAK(), not)`), with the arguments
		// as they fold in this world
		var collect func(w *World, fn *ssa.Function, d int)
		collect = func(w *World, fn *ssa.Function, d int) {
			for _, b := range fn.Blocks {
				if !w.Reach[b] {
					continue
				}
				for _, in := range b.Instrs {
					call, ok := in.(*ssa.Call)
					if !ok {
						continue
					}
					sc := call.Call.StaticCallee()
					switch {
					case sc == nil:
					case sc == next:
						reachNext = true
					case sc == back:
						reachBack = true
					case sc != read && c.isRepoFn(sc) && sc.Pkg == prim.Pkg && len(sc.Blocks) > 0 && d < 2 && sc.Signature.Results().Len() == 0:
						var args []wLat
						for _, a := range call.Call.Args {
							l := w.get(a)
							if l.k == 0 {
								l = wTop
							}
							args = append(args, l)
						}
						sub := &World{Fn: sc, Call: w.Call, Bin: w.Bin, Interp: w.Interp}
						sub.Run(args...)
						collect(sub, sc, d+1)
					}
				}
			}
		}
		collect(w, prim, 0)
		switch {
		case opaque != "":
			ob.Und(opaque)
		case reachNext && !reachBack:
			ob.OKnt("with the reads fixed the primitive reaches NEXT and cannot reach BACKTRACK")
		case reachBack && !reachNext:
			ob.Bad("with the reads fixed (Reader.Read is all-or-nothing: a read of more bytes than are left answers \"\") the primitive backtracks and cannot reach NEXT: `line end` and `$` fail in front of the line terminator the input ends with")
		default:
			ob.Und(fmt.Sprintf("the decision does not fold in this world (NEXT reachable: %v, BACKTRACK reachable: %v)", reachNext, reachBack))
		}
	}
	r.Floor(rule, "worlds of the line-end primitive", n, 2)
}

// ---------------------------------------------------------------------------------------------
// C09.R24 / C18.R13: what is allocated because more is needed than there is, is sized by what is needed.
//
// A buffer that grows (`if need > cap(x) { x = make(.., c) }` followed by `x = x[:need]`) is safe only when the new capacity c
// covers `need`. Decided structurally: on the branch of a comparison of some value `need` with cap(x) on which need is the larger,
// every make of a slice (in the branch, or in a repository function called there, two levels) has a capacity that depends on one
// of the inputs of `need` - directly, or through a parameter of the callee that is handed such a value. A capacity computed from
// the old capacity alone (doubling) does not cover one large request: the re-slice behind it is out of range.
func ruleGrowthCoversNeed(c *Ctx, rule string) {
	r := c.R
	atomsOf := func(v ssa.Value, bind map[*ssa.Parameter]map[string]bool) map[string]bool {
		out := map[string]bool{}
		seen := map[ssa.Value]bool{}
		var walk func(v ssa.Value, d int)
		walk = func(v ssa.Value, d int) {
			if v == nil || seen[v] || d > 12 {
				return
			}
			seen[v] = true
			switch x := v.(type) {
			case *ssa.Const:
				return
			case *ssa.Parameter:
				if bind != nil && bind[x] != nil {
					for k := range bind[x] {
						out[k] = true
					}
					return
				}
				out["param:"+fnName(x.Parent())+"."+x.Name()] = true
				return
			case *ssa.UnOp:
				if fa, ok := x.X.(*ssa.FieldAddr); ok && x.Op == token.MUL {
					out["field:"+types.TypeString(deref(fa.X.Type()), nil)+"."+fieldName(deref(fa.X.Type()), fa.Field)] = true
					return
				}
			case *ssa.Field:
				out["field:"+types.TypeString(x.X.Type(), nil)+"."+fieldName(x.X.Type(), x.Field)] = true
				return
			}
			if in, ok := v.(ssa.Instruction); ok {
				for _, op := range in.Operands(nil) {
					if *op != nil {
						if _, isFn := (*op).(*ssa.Function); isFn {
							continue
						}
						if _, isBi := (*op).(*ssa.Builtin); isBi {
							continue
						}
						walk(*op, d+1)
					}
				}
			}
		}
		walk(v, 0)
		return out
	}
	meets := func(a, b map[string]bool) bool {
		for k := range a {
			if b[k] {
				return true
			}
		}
		return false
	}
	n := 0
	for _, pkg := range []string{"files", "ds", "engine"} {
		for _, fn := range c.SrcFuncs(pkg) {
			if len(fn.Blocks) == 0 {
				continue
			}
			idom := fn.DomPreorder()
			_ = idom
			for _, b := range fn.Blocks {
				iff, ok := b.Instrs[len(b.Instrs)-1].(*ssa.If)
				if !ok {
					continue
				}
				cmp, ok := iff.Cond.(*ssa.BinOp)
				if !ok {
					continue
				}
				isCap := func(v ssa.Value) bool {
					call, ok := v.(*ssa.Call)
					if !ok {
						return false
					}
					bi, ok := call.Call.Value.(*ssa.Builtin)
					return ok && bi.Name() == "cap"
				}
				var need ssa.Value
				var grow *ssa.BasicBlock
				switch {
				case isCap(cmp.Y) && (cmp.Op == token.GTR || cmp.Op == token.GEQ): // need > cap
					need, grow = cmp.X, b.Succs[0]
				case isCap(cmp.Y) && (cmp.Op == token.LEQ || cmp.Op == token.LSS): // need <= cap
					need, grow = cmp.X, b.Succs[1]
				case isCap(cmp.X) && (cmp.Op == token.LSS || cmp.Op == token.LEQ): // cap < need
					need, grow = cmp.Y, b.Succs[0]
				case isCap(cmp.X) && (cmp.Op == token.GEQ || cmp.Op == token.GTR): // cap >= need
					need, grow = cmp.Y, b.Succs[1]
				default:
					continue
				}
				n++
				ob := r.Ob(rule, fmt.Sprintf("%s: what is allocated when %s exceeds the capacity covers it", fnName(fn), exprStr(need)), c.pos(cmp.Pos()))
				needAtoms := atomsOf(need, nil)
				if len(needAtoms) == 0 {
					ob.Und("what is needed is a constant")
					continue
				}
				// the region of the branch
				var region []*ssa.BasicBlock
				for _, q := range fn.Blocks {
					if grow.Dominates(q) && len(grow.Preds) == 1 {
						region = append(region, q)
					}
				}
				makes, bad := 0, ""
				var inCallee func(sc *ssa.Function, bind map[*ssa.Parameter]map[string]bool, d int)
				inCallee = func(sc *ssa.Function, bind map[*ssa.Parameter]map[string]bool, d int) {
					instrsOf(sc, func(in ssa.Instruction) {
						switch x := in.(type) {
						case *ssa.MakeSlice:
							makes++
							if !meets(atomsOf(x.Cap, bind), needAtoms) && bad == "" {
								bad = fmt.Sprintf("the capacity %s allocated in %s at %s", exprStr(x.Cap), fnName(sc), c.pos(x.Pos()))
							}
						case *ssa.Call:
							g := x.Call.StaticCallee()
							if g == nil || !c.isRepoFn(g) || len(g.Blocks) == 0 || d >= 2 {
								return
							}
							inner := map[*ssa.Parameter]map[string]bool{}
							for i, p := range g.Params {
								if i < len(x.Call.Args) {
									inner[p] = atomsOf(x.Call.Args[i], bind)
								}
							}
							inCallee(g, inner, d+1)
						}
					})
				}
				for _, q := range region {
					for _, in := range q.Instrs {
						switch x := in.(type) {
						case *ssa.MakeSlice:
							makes++
							if !meets(atomsOf(x.Cap, nil), needAtoms) && bad == "" {
								bad = fmt.Sprintf("the capacity %s allocated at %s", exprStr(x.Cap), c.pos(x.Pos()))
							}
						case *ssa.Call:
							g := x.Call.StaticCallee()
							if g == nil || !c.isRepoFn(g) || len(g.Blocks) == 0 {
								continue
							}
							inner := map[*ssa.Parameter]map[string]bool{}
							for i, p := range g.Params {
								if i < len(x.Call.Args) {
									a := atomsOf(x.Call.Args[i], nil)
									if _, isPtr := p.Type().Underlying().(*types.Pointer); isPtr {
										a = map[string]bool{} // the receiver: its fields are named by the loads in the callee
									}
									inner[p] = a
								}
							}
							inCallee(g, inner, 1)
						}
					}
				}
				switch {
				case bad != "":
					ob.Bad(bad + " does not depend on " + exprStr(need) + " (inputs: " + strings.ReplaceAll(strings.Join(sortedKeys(needAtoms), ", "), modRoot+"/libvore/", "") + "): one request larger than what was allocated leaves the buffer too small, and the re-slice to the needed length is out of range")
				case makes == 0:
					ob.Und("nothing is allocated visibly on the branch where more is needed than there is")
				default:
					ob.OKnt(fmt.Sprintf("%d allocation(s) on the branch, each sized by an input of %s", makes, exprStr(need)))
				}
			}
		}
	}
	r.Floor(rule, "comparisons of a needed size with a capacity", n, 1)
}

// ---------------------------------------------------------------------------------------------
// C05.R14: a string of a with-list is written out as it stands.
//
// "the literal strings ... in order" - wherever the generator builds a ReplaceString its text is the Value of one AST string node:
// nothing is cut out of it, joined to it or interpreted in it (a `${name}` that is expanded makes a with-string mean something else
// than the bytes it spells).
func ruleReplaceStringIsTheLiteral(c *Ctx, rule string) {
	r := c.R
	strT := c.NamedType("ast", "AstString")
	if strT == nil {
		r.Ob(rule, "anchor ast.AstString", "").Und("not found")
		return
	}
	n := 0
	for _, fn := range c.SrcFuncs("bytecode") {
		k := 0
		instrsOf(fn, func(in ssa.Instruction) {
			st, ok := in.(*ssa.Store)
			if !ok {
				return
			}
			fa, ok := st.Addr.(*ssa.FieldAddr)
			if !ok {
				return
			}
			nt, ok := deref(fa.X.Type()).(*types.Named)
			if !ok || nt.Obj().Name() != "ReplaceString" || fieldName(nt, fa.Field) != "Value" {
				return
			}
			n++
			k++
			ob := r.Ob(rule, fmt.Sprintf("%s: ReplaceString #%d carries one literal of the with-list unchanged", fnName(fn), k), c.pos(st.Pos()))
			computed, other := "", ""
			for _, leaf := range phiLeaves(st.Val, nil) {
				switch x := leaf.(type) {
				case *ssa.UnOp:
					if fa2, ok := x.X.(*ssa.FieldAddr); ok && x.Op == token.MUL && types.Identical(deref(fa2.X.Type()), strT) && fieldName(strT, fa2.Field) == "Value" {
						continue
					}
					other = exprStr(leaf)
				case *ssa.Field:
					if types.Identical(x.X.Type(), strT) && fieldName(strT, x.Field) == "Value" {
						continue
					}
					other = exprStr(leaf)
				case *ssa.Const:
					if x.Value != nil && x.Value.Kind() == constant.String && constant.StringVal(x.Value) == "" {
						continue // an instruction that writes nothing
					}
					computed = exprStr(leaf)
				case *ssa.Call, *ssa.BinOp, *ssa.Slice, *ssa.Convert:
					computed = exprStr(leaf)
				default:
					other = exprStr(leaf)
				}
			}
			switch {
			case computed != "":
				ob.Bad("on some path the text is " + computed + ", not the Value of an AST string node as it stands: the replacement no longer contains the literal the program spells")
			case other != "":
				ob.Und("the text is " + other)
			default:
				ob.OKnt("Value <- the Value of an *ast.AstString")
			}
		})
	}
	r.Floor(rule, "ReplaceString instructions built by the generator", n, 1)
}

// ---------------------------------------------------------------------------------------------
// C12.R9: the parser hands the checker every operator the program spells.
//
// The semantic check decides by looking at the tree. A function of package ast that answers with an *operand* of an
// expression node it was handed (the Expr of a unary node, one side of a binary node) in place of a node removes an operator
// from the tree before (or while) it is checked: `not not 5` becomes `5` and is accepted although `not` is defined for booleans
// only. Decided on the shape: a value returned as an AstProcessExpression that is a field, itself of that interface type, of a
// struct obtained by a type assertion (or type switch) on an AstProcessExpression.
func ruleParserKeepsOperators(c *Ctx, rule string) {
	r := c.R
	obj := c.NamedType("ast", "AstProcessExpression")
	if obj == nil {
		r.Ob(rule, "anchor ast.AstProcessExpression", "").Und("not found")
		return
	}
	isExpr := func(t types.Type) bool { return types.Identical(t, obj) }
	fromAssertion := func(v ssa.Value) bool {
		for d := 0; d < 6; d++ {
			switch x := v.(type) {
			case *ssa.TypeAssert:
				return isExpr(x.X.Type())
			case *ssa.Extract:
				v = x.Tuple
			case *ssa.Phi:
				if len(x.Edges) == 0 {
					return false
				}
				v = x.Edges[0]
			case *ssa.UnOp:
				v = x.X
			case *ssa.FieldAddr:
				v = x.X
			case *ssa.Alloc:
				// a spilled copy of the asserted struct: the value stored into it
				var stored ssa.Value
				for _, ref := range *x.Referrers() {
					if st, ok := ref.(*ssa.Store); ok && st.Addr == ssa.Value(x) {
						stored = st.Val
					}
				}
				if stored == nil {
					return false
				}
				v = stored
			default:
				return false
			}
		}
		return false
	}
	nfn, k := 0, 0
	for _, pkg := range []string{"ast"} { // after the check (package bytecode) a simplification no longer hides anything from it
		for _, fn := range c.SrcFuncs(pkg) {
			returnsExpr := false
			for i := 0; i < fn.Signature.Results().Len(); i++ {
				if isExpr(fn.Signature.Results().At(i).Type()) {
					returnsExpr = true
				}
			}
			if !returnsExpr || len(fn.Blocks) == 0 {
				continue
			}
			nfn++
			instrsOf(fn, func(in ssa.Instruction) {
				ret, ok := in.(*ssa.Return)
				if !ok {
					return
				}
				for _, res := range ret.Results {
					if !isExpr(res.Type()) {
						continue
					}
					for _, leaf := range phiLeaves(res, nil) {
						var base ssa.Value
						switch x := leaf.(type) {
						case *ssa.Field:
							base = x.X
						case *ssa.UnOp:
							if fa, ok := x.X.(*ssa.FieldAddr); ok && x.Op == token.MUL {
								base = fa.X
							}
						}
						if base != nil && fromAssertion(base) {
							k++
							r.Ob(rule, fmt.Sprintf("%s: return #%d hands on a node, not an operand taken out of one", fnName(fn), k), c.pos(ret.Pos())).
								Bad("returns " + exprStr(leaf) + ", an operand of an expression node that was taken apart by a type assertion, in place of the node: an operator the program spells never reaches the semantic check (`not not 5` is accepted as `5`), so Compile accepts process code the table rejects")
						}
					}
				}
			})
		}
	}
	r.Ob(rule, "functions of ast that return an expression", "").OK(fmt.Sprintf("%d function(s) examined for returns that unwrap a node", nfn))
	r.Floor(rule, "functions that return an expression", nfn, 1)
}

// ---------------------------------------------------------------------------------------------
// C13.R18: between the copies of an unrolled loop body every declaration of the previous copy is forgotten.
//
// C14.R16 asks that the generator takes the names the previous copy of a loop body declared out of GenState.variables before it
// generates the next copy. Captures are entered there with -1, inline subroutines with their offset. A generator that selects what
// it forgets by the value a name was entered with (`target == -1`) forgets the captures only: `exactly 2 ({'a'} = t)` is a
// `name clash` although `{'a'} = t` written out twice... is not what the program says - it says one definition, repeated - and
// `exactly 2 ('a')` compiles. Decided on the shape: if, in the function that generates a loop node (or a closure of it), a test
// of the *value* of an entry of GenState.variables against a constant k stands in front of what is remembered for forgetting,
// then every function reachable from the body generator that refuses a present name and enters it must enter it with k.
func ruleUnrolledBodiesForgetEveryDeclaration(c *Ctx, rule string) {
	r := c.R
	gs := c.NamedType("bytecode", "GenState")
	loopT := c.NamedType("ast", "AstLoop")
	if gs == nil || loopT == nil {
		r.Ob(rule, "anchor bytecode.GenState / ast.AstLoop", "").Und("not found")
		return
	}
	onVariables := func(v ssa.Value) bool {
		for _, s := range traceAddr(v).Steps {
			if s.Kind == "field" && s.Field == "variables" && types.Identical(s.Struct, gs) {
				return true
			}
		}
		return false
	}
	// declarers and the value they enter a name with: a constant, or "computed"
	type entered struct {
		k        int64
		computed bool
		pos      token.Pos
	}
	declarers := map[*ssa.Function][]entered{}
	for _, fn := range c.SrcFuncs("bytecode") {
		looks := false
		var ents []entered
		instrsOf(fn, func(in ssa.Instruction) {
			switch x := in.(type) {
			case *ssa.Lookup:
				if x.CommaOk && onVariables(x.X) {
					looks = true
				}
			case *ssa.MapUpdate:
				if onVariables(x.Map) {
					if k, ok := constInt(x.Value); ok {
						ents = append(ents, entered{k: k, pos: x.Pos()})
					} else {
						ents = append(ents, entered{computed: true, pos: x.Pos()})
					}
				}
			}
		})
		if looks && len(ents) > 0 {
			declarers[fn] = ents
		}
	}
	n := 0
	for _, fn := range c.SrcFuncs("bytecode") {
		takesLoop := false
		for _, p := range fn.Params {
			if types.Identical(deref(p.Type()), loopT) {
				takesLoop = true
			}
		}
		if !takesLoop {
			continue
		}
		scope := []*ssa.Function{fn}
		scope = append(scope, fn.AnonFuncs...)
		for _, f := range scope {
			instrsOf(f, func(in ssa.Instruction) {
				iff, ok := in.(*ssa.If)
				if !ok {
					return
				}
				// the conjuncts of the condition: `!before[name] && target == -1` is two blocks; look at this one
				cmp, ok := iff.Cond.(*ssa.BinOp)
				if !ok || (cmp.Op != token.EQL && cmp.Op != token.NEQ) {
					return
				}
				k, isConst := constInt(cmp.Y)
				ex, isEx := cmp.X.(*ssa.Extract)
				if !isConst || !isEx || ex.Index != 2 {
					return
				}
				nx, ok := ex.Tuple.(*ssa.Next)
				if !ok {
					return
				}
				rg, ok := nx.Iter.(*ssa.Range)
				if !ok || !onVariables(rg.X) {
					return
				}
				n++
				ob := r.Ob(rule, fmt.Sprintf("%s: what is forgotten between the copies of a loop body does not depend on how a name was entered", fnName(fn)), c.pos(cmp.Pos()))
				var other []string
				for d, ents := range declarers {
					for _, e := range ents {
						if e.computed || e.k != k {
							other = append(other, fmt.Sprintf("%s (%s)", fnName(d), c.pos(e.pos)))
						}
					}
				}
				sort.Strings(other)
				if len(other) == 0 {
					ob.OKnt(fmt.Sprintf("every function that refuses a present name enters it with %d", k))
				} else {
					ob.Bad(fmt.Sprintf("only the names entered with %d are remembered for forgetting, but %s refuses a present name and enters it with another value: a body that declares such a name (an inline subroutine) is a `name clash` in its second copy - `exactly 2 ({'a'} = t)` is rejected where `exactly 2 ('a')` compiles", k, strings.Join(uniq(other), ", ")))
				}
			})
		}
	}
	if n == 0 {
		r.Ob(rule, "selection of the names to forget", "").OK("no function that generates a loop node selects the names it forgets by the value they were entered with")
	}
}

// ---------------------------------------------------------------------------------------------
// C16.R14 / C15.R15: the kind of a token is decided while it is being read.
//
// What a token is - a STRING, an IDENTIFIER, a keyword - follows from the state in which the lexer's state machine finished it. A
// store into Token.TokenType of a token that is already finished (the result of a call, an element of the token list, a parameter
// that a caller fills with one of those) re-types it by its text alone: the string literal 'space' becomes the keyword. Stores into
// a token that the same function has just made are the state machine's own.
func ruleTokenKindDecidedOnce(c *Ctx, rule string) {
	r := c.R
	tokenT := c.NamedType("ast", "Token")
	if tokenT == nil {
		r.Ob(rule, "anchor ast.Token", "").Und("not found")
		return
	}
	// 0 = made here, 1 = a finished token, 2 = cannot tell
	var origin func(v ssa.Value, d int) (int, string)
	origin = func(v ssa.Value, d int) (int, string) {
		if d > 4 {
			return 2, "too deep"
		}
		switch x := v.(type) {
		case *ssa.Alloc:
			return 0, ""
		case *ssa.Call:
			return 1, "the result of " + shortCallee(x)
		case *ssa.Extract:
			if call, ok := x.Tuple.(*ssa.Call); ok {
				return 1, "a result of " + shortCallee(call)
			}
		case *ssa.UnOp:
			if x.Op == token.MUL {
				if _, ok := x.X.(*ssa.IndexAddr); ok {
					return 1, "an element of a token list"
				}
				if al, ok := x.X.(*ssa.Alloc); ok {
					// a local that holds the pointer: what was stored into it
					worst, why := 0, ""
					for _, ref := range *al.Referrers() {
						if st, ok := ref.(*ssa.Store); ok && st.Addr == ssa.Value(al) {
							if k, w := origin(st.Val, d+1); k > worst || (k == 1 && worst != 1) {
								if k == 1 {
									return k, w
								}
								worst, why = k, w
							}
						}
					}
					return worst, why
				}
			}
		case *ssa.Phi:
			worst, why := 0, ""
			for _, e := range x.Edges {
				k, w := origin(e, d+1)
				if k == 1 {
					return k, w
				}
				if k > worst {
					worst, why = k, w
				}
			}
			return worst, why
		case *ssa.Parameter:
			fn := x.Parent()
			idx := -1
			for i, p := range fn.Params {
				if p == x {
					idx = i
				}
			}
			worst, why, ncall := 0, "", 0
			for caller := range c.allFns {
				if !c.isRepoFn(caller) {
					continue
				}
				for _, cl := range callsTo(caller, fn) {
					ncall++
					if idx < 0 || idx >= len(cl.Call.Args) {
						return 2, "a call that cannot be matched"
					}
					k, w := origin(cl.Call.Args[idx], d+1)
					if k == 1 {
						return 1, w + ", handed in by " + fnName(caller)
					}
					if k > worst {
						worst, why = k, w
					}
				}
			}
			if ncall == 0 {
				return 2, "a parameter of a function nothing calls directly"
			}
			return worst, why
		}
		return 2, fmt.Sprintf("%T", v)
	}
	n := 0
	for _, fn := range c.SrcFuncs("ast") {
		k := 0
		instrsOf(fn, func(in ssa.Instruction) {
			st, ok := in.(*ssa.Store)
			if !ok {
				return
			}
			fa, ok := st.Addr.(*ssa.FieldAddr)
			if !ok || !types.Identical(deref(fa.X.Type()), tokenT) || fieldName(tokenT, fa.Field) != "TokenType" {
				return
			}
			n++
			k++
			ob := r.Ob(rule, fmt.Sprintf("%s: store #%d into Token.TokenType is the state machine's own", fnName(fn), k), c.pos(st.Pos()))
			switch kind, why := origin(fa.X, 0); kind {
			case 0:
				ob.OKnt("the token was made in this function (or by the caller that hands it in)")
			case 1:
				ob.Bad("the kind of a finished token (" + why + ") is overwritten: what a token is then depends on its text alone, and a string literal that spells a keyword or an alias becomes that keyword")
			default:
				ob.Und("where the token comes from cannot be followed (" + why + ")")
			}
		})
	}
	r.Floor(rule, "stores into Token.TokenType", n, 5)
}

// ---------------------------------------------------------------------------------------------
// C09.R26: the character in front of the current position is read only where there is one.
//
// READAT(currentFileOffset-k, ..) at offset 0 seeks to a negative position and panics. Every such read (directly, or through a
// helper that only forwards it - the obligation then lies with the helper's call sites) stands behind something that speaks about
// the offset: a dominating comparison of currentFileOffset with a constant, or a dominating CONSUME. A read with nothing of the
// kind in front of it is reached at the start of the input: that is the witness. (The arithmetic of the guards is not checked.)
func ruleLookBehindGuarded(c *Ctx, rule string) {
	r := c.R
	readAt := c.Method("engine", "SearchEngineState", "READAT")
	consume := c.Method("engine", "SearchEngineState", "CONSUME")
	if readAt == nil || consume == nil {
		r.Ob(rule, "anchor engine.(*SearchEngineState).READAT/CONSUME", "").Und("not found")
		return
	}
	isOff := func(v ssa.Value) bool { return strings.HasSuffix(exprStr(v), ".currentFileOffset") }
	lookBehind := func(call *ssa.Call) bool {
		if call.Call.StaticCallee() != readAt || len(call.Call.Args) < 2 {
			return false
		}
		bo, ok := call.Call.Args[1].(*ssa.BinOp)
		if !ok || bo.Op != token.SUB || !isOff(bo.X) {
			return false
		}
		k, ok := constInt(bo.Y)
		return ok && k > 0
	}
	speaksOfOffset := func(v ssa.Value) bool {
		bo, ok := v.(*ssa.BinOp)
		if !ok {
			return false
		}
		_, cx := bo.X.(*ssa.Const)
		_, cy := bo.Y.(*ssa.Const)
		return (isOff(bo.X) && cy) || (isOff(bo.Y) && cx)
	}
	// a predicate of the state that compares the offset with a constant (`es.atFileStart()`), two levels
	var predicate func(f *ssa.Function, d int) bool
	predicate = func(f *ssa.Function, d int) bool {
		if f == nil || !c.isRepoFn(f) || len(f.Blocks) == 0 || d > 2 {
			return false
		}
		found := false
		instrsOf(f, func(in ssa.Instruction) {
			if v, ok := in.(ssa.Value); ok && speaksOfOffset(v) {
				found = true
			}
			if sc := staticCallee(in); sc != nil && sc != f && !found && predicate(sc, d+1) {
				found = true
			}
		})
		return found
	}
	guarded := func(fn *ssa.Function, at *ssa.Call) bool {
		for _, l := range domConds(fn, at.Block()) {
			v := l.Cond
			if u, ok := v.(*ssa.UnOp); ok && u.Op == token.NOT {
				v = u.X
			}
			if speaksOfOffset(v) {
				return true
			}
			if call, ok := v.(*ssa.Call); ok && predicate(call.Call.StaticCallee(), 0) {
				return true
			}
		}
		// the short-circuit form `offset != 0 && READAT(...)` puts the test in a dominating block as well; a CONSUME in front
		for _, b := range fn.Blocks {
			if b != at.Block() && !b.Dominates(at.Block()) {
				continue
			}
			for _, in := range b.Instrs {
				if in == ssa.Instruction(at) {
					break
				}
				if staticCallee(in) == consume {
					return true
				}
			}
		}
		return false
	}
	// a function with a look-behind that it does not guard itself hands the obligation to its callers; the handlers of
	// instructions (they take a bytecode instruction) and functions nothing in the package calls are where it ends
	fns := c.SrcFuncs("engine")
	isTop := func(fn *ssa.Function) bool {
		for _, p := range fn.Params {
			if nt, ok := deref(p.Type()).(*types.Named); ok && nt.Obj().Pkg() != nil && nt.Obj().Pkg().Path() == modRoot+"/libvore/bytecode" {
				return true
			}
		}
		for _, g := range fns {
			if len(callsTo(g, fn)) > 0 {
				return false
			}
		}
		return true
	}
	needs := map[*ssa.Function]bool{}
	type site struct {
		fn   *ssa.Function
		call *ssa.Call
		ok   bool
	}
	var sites []site
	for round := 0; round < 5; round++ {
		sites = sites[:0]
		grew := false
		for _, fn := range fns {
			instrsOf(fn, func(in ssa.Instruction) {
				call, ok := in.(*ssa.Call)
				if !ok {
					return
				}
				sc := call.Call.StaticCallee()
				if !(lookBehind(call) || (sc != nil && needs[sc])) {
					return
				}
				g := guarded(fn, call)
				sites = append(sites, site{fn, call, g})
				if !g && !needs[fn] && !isTop(fn) {
					needs[fn] = true
					grew = true
				}
			})
		}
		if !grew {
			break
		}
	}
	n := 0
	perFn := map[*ssa.Function]int{}
	for _, st := range sites {
		n++
		perFn[st.fn]++
		what := "READAT(currentFileOffset-k)"
		if sc := st.call.Call.StaticCallee(); sc != readAt {
			what = sc.Name() + "() (reads in front of the position)"
		}
		ob := r.Ob(rule, fmt.Sprintf("%s: look-behind #%d stands behind a test of the position", fnName(st.fn), perFn[st.fn]), c.pos(st.call.Pos()))
		switch {
		case st.ok:
			ob.OKnt("a comparison of currentFileOffset with a constant (also inside a predicate of the state), or a CONSUME, dominates the read")
		case needs[st.fn]:
			ob.OK("not guarded here: the obligation lies with the callers of " + st.fn.Name())
		default:
			ob.Bad(what + " is reached without any test of currentFileOffset and without a CONSUME in front of it: at the start of the input it seeks to a negative position and the run panics")
		}
	}
	r.Floor(rule, "reads in front of the current position", n, 4)
}

// ---------------------------------------------------------------------------------------------
// C15.R16: what separates tokens is what unicode.IsSpace says.
//
// The lexer asks unicode.IsSpace for every character outside a literal. A function of package ast that stands in for it (a
// func(rune) bool that the scanning loop calls and from which unicode.IsSpace is reachable: a table for the common case, the
// library for the rest) must give the same answer for every code point; it is folded, with the character fixed, for U+0000 to
// U+3000 (the blanks of Unicode all lie below) and compared with the library. On a tree that asks the library directly there is
// nothing to fold.
func ruleBlankTestIsIsSpace(c *Ctx, rule string) {
	r := c.R
	la := c.lexerAnchors()
	if la.err != "" {
		r.Ob(rule, "anchor: the lexer's scanning loop", "").Und(la.err)
		return
	}
	isSpace := func(fn *ssa.Function) bool {
		return fn != nil && fn.Pkg != nil && fn.Pkg.Pkg.Path() == "unicode" && fn.Name() == "IsSpace"
	}
	direct := 0
	cands := map[*ssa.Function]bool{}
	instrsOf(la.fn, func(in ssa.Instruction) {
		sc := staticCallee(in)
		if sc == nil {
			return
		}
		if isSpace(sc) {
			direct++
			return
		}
		if !c.isRepoFn(sc) || sc.Signature.Params().Len() != 1 || sc.Signature.Results().Len() != 1 || sc.Signature.Recv() != nil {
			return
		}
		pt, ok := sc.Signature.Params().At(0).Type().Underlying().(*types.Basic)
		rt, ok2 := sc.Signature.Results().At(0).Type().Underlying().(*types.Basic)
		if !ok || !ok2 || pt.Kind() != types.Int32 || rt.Kind() != types.Bool {
			return
		}
		for f := range c.Reachable(sc) {
			if isSpace(f) {
				cands[sc] = true
			}
		}
	})
	ob0 := r.Ob(rule, "the lexer's blank test", c.pos(la.fn.Pos()))
	if direct == 0 && len(cands) == 0 {
		ob0.Und("the scanning loop neither calls unicode.IsSpace nor a func(rune) bool that reaches it")
		return
	}
	ob0.OK(fmt.Sprintf("%d direct call(s) of unicode.IsSpace, %d stand-in function(s)", direct, len(cands)))
	for _, fn := range sortedFns(cands) {
		ob := r.Ob(rule, fnName(fn)+" answers as unicode.IsSpace does", c.pos(fn.Pos()))
		var wrong []string
		unknown := ""
		for ch := rune(0); ch <= 0x3000 && unknown == ""; ch++ {
			w := &World{Fn: fn,
				Call: func(call *ssa.Call, get func(ssa.Value) wLat) (wLat, bool) {
					if sc := call.Call.StaticCallee(); isSpace(sc) && len(call.Call.Args) == 1 {
						if a := get(call.Call.Args[0]); a.k == 1 {
							v, _ := constant.Int64Val(a.v)
							return wBool(unicode.IsSpace(rune(v))), true
						}
					}
					return wLat{}, false
				},
				Interp: func(f *ssa.Function) bool { return c.isRepoFn(f) && pureFunc(f, 0) },
			}
			w.Run(wConst(constant.MakeInt64(int64(ch))))
			var res wLat
			for _, b := range fn.Blocks {
				if !w.Reach[b] {
					continue
				}
				if ret, ok := b.Instrs[len(b.Instrs)-1].(*ssa.Return); ok && len(ret.Results) == 1 {
					l := w.get(ret.Results[0])
					if l.k == 0 {
						l = wTop
					}
					res = res.join(l)
				}
			}
			if res.k != 1 || res.v.Kind() != constant.Bool {
				unknown = fmt.Sprintf("U+%04X does not fold", ch)
				break
			}
			if constant.BoolVal(res.v) != unicode.IsSpace(ch) {
				wrong = append(wrong, fmt.Sprintf("U+%04X", ch))
			}
		}
		switch {
		case unknown != "":
			ob.Und(unknown)
		case len(wrong) > 0:
			ob.Bad("differs from unicode.IsSpace for " + strings.Join(wrong, ", ") + ": a program with such a blank between two tokens is read differently (or rejected) while the same program with a space is accepted")
		default:
			ob.OKnt("folded for U+0000..U+3000: the same answer as unicode.IsSpace everywhere")
		}
	}
}

// ---------------------------------------------------------------------------------------------
// C14.R19 / C01.R19: a loop is generated from the bounds the program wrote.
//
// The function that builds a StartLoop reads Min, Max, Fewest, Name and Body of a loop node. Those reads must be of the node the
// function was handed (its *ast.AstLoop parameter, a copy of it, or the same node seen from a closure): a node that a call
// returned in its place (`l = flattenLoop(l)`: a loop of a loop rewritten as one loop with multiplied bounds) carries bounds the
// program did not write, and the equivalence it rests on is an arithmetic claim that nothing here checks: UNDECIDED, not a violation.
func ruleLoopBoundsAsWritten(c *Ctx, rule string) {
	r := c.R
	loopT := c.NamedType("ast", "AstLoop")
	if loopT == nil {
		r.Ob(rule, "anchor ast.AstLoop", "").Und("not found")
		return
	}
	n := 0
	for _, fn := range c.SrcFuncs("bytecode") {
		builds := false
		instrsOf(fn, func(in ssa.Instruction) {
			if st, ok := in.(*ssa.Store); ok {
				if fa, ok := st.Addr.(*ssa.FieldAddr); ok {
					if nt, ok := deref(fa.X.Type()).(*types.Named); ok && nt.Obj().Name() == "StartLoop" {
						builds = true
					}
				}
			}
		})
		var loopP *ssa.Parameter
		for _, p := range fn.Params {
			if types.Identical(deref(p.Type()), loopT) {
				loopP = p
			}
		}
		if !builds || loopP == nil {
			continue
		}
		n++
		ob := r.Ob(rule, fnName(fn)+": the loop node that is read is the one that was handed in", c.pos(fn.Pos()))
		bad, und := "", ""
		// origin of a pointer to a loop node: 0 the parameter, 1 a call result, 2 unknown
		var origin func(v ssa.Value, d int) (int, string)
		origin = func(v ssa.Value, d int) (int, string) {
			if d > 6 {
				return 2, "too deep"
			}
			switch x := v.(type) {
			case *ssa.Parameter:
				if x == loopP {
					return 0, ""
				}
				return 2, "another parameter"
			case *ssa.FreeVar:
				return 0, "" // the enclosing function's node (its own reads are judged there)
			case *ssa.Call:
				return 1, "the result of " + shortCallee(x) + " at " + c.pos(x.Pos())
			case *ssa.Extract:
				if call, ok := x.Tuple.(*ssa.Call); ok {
					return 1, "a result of " + shortCallee(call) + " at " + c.pos(call.Pos())
				}
			case *ssa.Phi:
				worst, why := 0, ""
				for _, e := range x.Edges {
					k, w := origin(e, d+1)
					if k == 1 {
						return k, w
					}
					if k > worst {
						worst, why = k, w
					}
				}
				return worst, why
			case *ssa.Alloc:
				// a copy of the node (`loop := *l`) or a local that holds the pointer
				worst, why, nst := 0, "", 0
				for _, ref := range *x.Referrers() {
					if st, ok := ref.(*ssa.Store); ok && st.Addr == ssa.Value(x) {
						nst++
						k, w := origin(st.Val, d+1)
						if k == 1 {
							return k, w
						}
						if k > worst {
							worst, why = k, w
						}
					}
				}
				if nst == 0 {
					return 2, "a local that is filled field by field"
				}
				return worst, why
			case *ssa.UnOp:
				if x.Op == token.MUL {
					return origin(x.X, d+1)
				}
			case *ssa.FieldAddr:
				return origin(x.X, d+1)
			}
			return 2, fmt.Sprintf("%T", v)
		}
		scope := append([]*ssa.Function{fn}, fn.AnonFuncs...)
		reads := 0
		for _, f := range scope {
			instrsOf(f, func(in ssa.Instruction) {
				fa, ok := in.(*ssa.FieldAddr)
				if !ok || !types.Identical(deref(fa.X.Type()), loopT) {
					return
				}
				reads++
				switch k, why := origin(fa.X, 0); k {
				case 1:
					if bad == "" {
						bad = fmt.Sprintf("%s of the loop is read from %s", fieldName(loopT, fa.Field), why)
					}
				case 2:
					if und == "" {
						und = fmt.Sprintf("%s is read from a node whose origin cannot be followed (%s)", fieldName(loopT, fa.Field), why)
					}
				}
			})
		}
		switch {
		case bad != "":
			// no witness that the rewritten node is wrong - only that its equivalence with the written one is an arithmetic claim
			ob.Und(bad + ", not from the node the function was handed: the loop is generated with bounds (or a body) that the program did not write, and whether they mean the same is beyond a structural rule")
		case und != "":
			ob.Und(und)
		default:
			ob.OKnt(fmt.Sprintf("%d read(s) of the node's fields, all of the parameter", reads))
		}
	}
	r.Floor(rule, "functions that build a StartLoop from a loop node", n, 1)
}

// ---------------------------------------------------------------------------------------------
// C06.R9: the writer writes the text it is handed.
//
// searchReplace computes the splice - gap, replacement, gap, ..., tail - and advances its write cursor by the length of what it
// hands to Writer.WriteAt. The method must therefore write that text itself: on every path the value that reaches the underlying
// Write is the data parameter (through string/[]byte conversions). A text that a function made out of the data (line endings
// re-spelt, an encoding changed) has another length than the cursor assumes, and the next piece overwrites its end. A value that
// comes out of a buffer of the writer is UNDECIDED (a buffering writer can be right).
func ruleWriterWritesWhatItIsHanded(c *Ctx, rule string) {
	r := c.R
	wT := c.NamedType("files", "Writer")
	if wT == nil {
		r.Ob(rule, "anchor files.Writer", "").Und("not found")
		return
	}
	n := 0
	for _, fn := range c.SrcFuncs("files") {
		recv := fn.Signature.Recv()
		if recv == nil || !types.Identical(deref(recv.Type()), wT) {
			continue
		}
		var data *ssa.Parameter
		for _, p := range fn.Params[1:] {
			switch t := p.Type().Underlying().(type) {
			case *types.Basic:
				if t.Kind() == types.String {
					data = p
				}
			case *types.Slice:
				if bt, ok := t.Elem().Underlying().(*types.Basic); ok && bt.Kind() == types.Byte {
					data = p
				}
			}
		}
		if data == nil {
			continue
		}
		k := 0
		instrsOf(fn, func(in ssa.Instruction) {
			ci, ok := in.(ssa.CallInstruction)
			if !ok {
				return
			}
			com := ci.Common()
			name := ""
			if com.IsInvoke() {
				name = com.Method.Name()
			} else if sc := com.StaticCallee(); sc != nil && !c.isRepoFn(sc) {
				name = sc.Name()
			}
			if name != "Write" && name != "WriteString" && name != "WriteAt" {
				return
			}
			var arg ssa.Value
			for _, a := range com.Args {
				switch t := a.Type().Underlying().(type) {
				case *types.Basic:
					if t.Kind() == types.String {
						arg = a
					}
				case *types.Slice:
					arg = a
				}
			}
			if arg == nil {
				return
			}
			n++
			k++
			ob := r.Ob(rule, fmt.Sprintf("%s: write #%d puts out the text it was handed", fnName(fn), k), c.pos(in.Pos()))
			made, other := "", ""
			var walk func(v ssa.Value, d int)
			seen := map[ssa.Value]bool{}
			walk = func(v ssa.Value, d int) {
				if seen[v] || d > 8 {
					return
				}
				seen[v] = true
				switch x := v.(type) {
				case *ssa.Parameter:
					if x != data {
						other = "another parameter"
					}
				case *ssa.Convert:
					walk(x.X, d+1)
				case *ssa.ChangeType:
					walk(x.X, d+1)
				case *ssa.Phi:
					for _, e := range x.Edges {
						walk(e, d+1)
					}
				case *ssa.Call:
					handed := false
					for _, a := range x.Call.Args {
						if a == ssa.Value(data) {
							handed = true
						}
						if p, ok := a.(*ssa.Phi); ok {
							for _, e := range p.Edges {
								if e == ssa.Value(data) {
									handed = true
								}
							}
						}
					}
					if handed {
						made = shortCallee(x) + " at " + c.pos(x.Pos())
					} else {
						other = "the result of " + shortCallee(x)
					}
				default:
					other = exprStr(v)
				}
			}
			walk(arg, 0)
			switch {
			case made != "":
				ob.Bad("on some path what is written is what " + made + " made of the data, not the data: the caller advances its write cursor by the length of the text it handed in, so a text of another length is overwritten at its end (or leaves a gap)")
			case other != "":
				ob.Und("what is written comes from " + other)
			default:
				ob.OKnt("the data parameter itself, through conversions")
			}
		})
	}
	r.Floor(rule, "writes of files.Writer methods that take the text", n, 1)
}

// ---------------------------------------------------------------------------------------------
// C18.R15: a question about the kind of a command can be answered yes.
//
// A type assertion (comma-ok or not) on a value of a repository interface asks for a concrete type. If no value of that type is
// ever converted to the interface - the producers are inventoried over the whole program - the answer is always no: code that
// decides on it (`-no-output` skips the run unless the program *has a replace command*) takes the same branch for every program.
// The usual slip is pointer-ness: the commands are stored by value and the question asks for a pointer.
func ruleAssertionsCanSucceed(c *Ctx, rule string, pkgs []string) {
	r := c.R
	prods := c.producersOf()
	n := 0
	for _, pkg := range pkgs {
		for _, fn := range c.SrcFuncs(pkg) {
			k := 0
			instrsOf(fn, func(in ssa.Instruction) {
				ta, ok := in.(*ssa.TypeAssert)
				if !ok || types.IsInterface(ta.AssertedType) {
					return
				}
				iface, ok := ta.X.Type().(*types.Named)
				if !ok || !types.IsInterface(iface) || len(prods[iface]) == 0 {
					return
				}
				n++
				k++
				want := types.TypeString(ta.AssertedType, shortQual)
				ob := r.Ob(rule, fmt.Sprintf("%s: assertion #%d to %s can hold", fnName(fn), k, want), c.pos(ta.Pos()))
				if _, ok := prods[iface][want]; ok {
					ob.OKnt("values of that type are converted to " + iface.Obj().Name())
					return
				}
				alt := strings.TrimPrefix(want, "*")
				if !strings.HasPrefix(want, "*") {
					alt = "*" + want
				}
				hint := ""
				if _, ok := prods[iface][alt]; ok {
					hint = " (" + alt + " is: pointer-ness mismatch)"
				}
				ob.Bad("no value of type " + want + " is ever converted to " + iface.Obj().Name() + hint + ": the assertion never holds, and what is decided on it is decided the same way for every program")
			})
		}
	}
	r.Ob(rule, "assertions on repository interfaces in "+strings.Join(pkgs, ", "), "").OK(fmt.Sprintf("%d examined", n))
}

// ---------------------------------------------------------------------------------------------
// C17.R7: rendering does not change what it renders.
//
// "carries the match data unchanged", and Json and FormattedJson of one list agree: nothing reachable from the renderings
// (MarshalJSON, Json, FormattedJson, Print of package engine) deletes from, or stores into, a map that it did not make itself.
// A value receiver does not protect a map: `delete(v.Value, k)` on a copy of the struct empties the table the match holds.
func ruleRenderingReadOnly(c *Ctx, rule string) {
	r := c.R
	var roots []*ssa.Function
	for _, fn := range c.SrcFuncs("engine") {
		switch fn.Name() {
		case "MarshalJSON", "Json", "FormattedJson", "Print":
			if fn.Signature.Recv() != nil {
				roots = append(roots, fn)
			}
		}
	}
	if len(roots) == 0 {
		r.Ob(rule, "anchor: the renderings of package engine", "").Und("no MarshalJSON/Json/FormattedJson/Print method found")
		return
	}
	reach := c.Reachable(roots...)
	for _, f := range roots {
		reach[f] = true
	}
	madeHere := func(v ssa.Value) bool {
		for d := 0; d < 6; d++ {
			switch x := v.(type) {
			case *ssa.MakeMap:
				return true
			case *ssa.Phi:
				for _, e := range x.Edges {
					if _, ok := e.(*ssa.MakeMap); !ok {
						return false
					}
				}
				return len(x.Edges) > 0
			case *ssa.UnOp:
				if al, ok := x.X.(*ssa.Alloc); ok && x.Op == token.MUL {
					// a local that holds the map: every store into it is a map made here
					n := 0
					for _, ref := range *al.Referrers() {
						if st, ok := ref.(*ssa.Store); ok && st.Addr == ssa.Value(al) {
							n++
							if _, ok := st.Val.(*ssa.MakeMap); !ok {
								return false
							}
						}
					}
					return n > 0
				}
				return false
			case *ssa.ChangeType:
				v = x.X
			default:
				return false
			}
		}
		return false
	}
	// whose data is it? the receivers of the renderings are the data being rendered; a parameter (or captured variable) of a
	// function reached from there is the data as well when some call hands it something that is reached from such a value
	foreign := map[ssa.Value]bool{}
	for _, f := range roots {
		if len(f.Params) > 0 {
			foreign[f.Params[0]] = true
		}
	}
	var rootOf func(v ssa.Value) ssa.Value
	rootOf = func(v ssa.Value) ssa.Value {
		root := traceAddr(v).Root
		if f, ok := root.(*ssa.Field); ok {
			root = f.X
		}
		if al, ok := root.(*ssa.Alloc); ok {
			// a spilled parameter: the copy of the struct shares its maps with the original
			for _, ref := range *al.Referrers() {
				if st, ok := ref.(*ssa.Store); ok && st.Addr == ssa.Value(al) {
					if p, isParam := st.Val.(*ssa.Parameter); isParam {
						return p
					}
				}
			}
		}
		if u, ok := root.(*ssa.UnOp); ok && u.Op == token.MUL {
			return rootOf(u.X)
		}
		return root
	}
	for changed := true; changed; {
		changed = false
		for fn := range reach {
			if !c.isRepoFn(fn) {
				continue
			}
			instrsOf(fn, func(in ssa.Instruction) {
				switch x := in.(type) {
				case *ssa.Call:
					sc := x.Call.StaticCallee()
					if sc == nil || !c.isRepoFn(sc) {
						return
					}
					for i, a := range x.Call.Args {
						if i < len(sc.Params) && !foreign[sc.Params[i]] && (foreign[a] || foreign[rootOf(a)]) {
							foreign[sc.Params[i]] = true
							changed = true
						}
					}
				case *ssa.MakeClosure:
					if f, ok := x.Fn.(*ssa.Function); ok {
						for i, b := range x.Bindings {
							if i < len(f.FreeVars) && !foreign[f.FreeVars[i]] && (foreign[b] || foreign[rootOf(b)]) {
								foreign[f.FreeVars[i]] = true
								changed = true
							}
						}
					}
				}
			})
		}
	}
	n, k := 0, 0
	for _, fn := range sortedFns(reach) {
		if !c.isRepoFn(fn) || shortName(pkgPathOf(fn)) != "engine" {
			continue
		}
		n++
		instrsOf(fn, func(in ssa.Instruction) {
			var m ssa.Value
			what := ""
			switch x := in.(type) {
			case *ssa.MapUpdate:
				m, what = x.Map, "stores into"
			case *ssa.Call:
				if bi, ok := x.Call.Value.(*ssa.Builtin); ok && bi.Name() == "delete" && len(x.Call.Args) > 0 {
					m, what = x.Call.Args[0], "deletes from"
				}
			}
			if m == nil || madeHere(m) {
				return
			}
			root := rootOf(m)
			if _, isGlobal := root.(*ssa.Global); !isGlobal && !foreign[root] {
				return
			}
			k++
			r.Ob(rule, fmt.Sprintf("%s: write #%d goes to a map made for the output", fnName(fn), k), c.pos(in.Pos())).
				Bad("a function reachable from the renderings " + what + " " + exprStr(m) + ", a map of the data that is being rendered: rendering changes what it renders (a value receiver copies the struct, not the table), so a second rendering - or the formatted one after the compact one - gives another document")
		})
	}
	r.Ob(rule, "functions of package engine reachable from the renderings", "").OK(fmt.Sprintf("%d examined for writes into maps they did not make", n))
	r.Floor(rule, "functions reachable from the renderings", n, 3)
}

// ---------------------------------------------------------------------------------------------
// C09.R27: a name that one command may have renamed is not looked up again for the next.
//
// With -filenames a replace command renames the files it is run on. RunFiles walks the commands in its outer loop and looks every
// name of its list up again (os.Stat, panic on error) for every command: after the first command has renamed an explicitly named
// file, the second command's Stat fails and the run panics with an I/O error that the program itself provoked - not the kind of
// operating-system failure that C09.R1 leaves outside the property. Decided on the shape: inside the loop over the commands, a
// rename (os.Rename, directly or in a repository function called there) together with a look-up (os.Stat/Lstat/Open/ReadDir whose
// error panics) of a name that comes from the function's own list of names.
func ruleNamesSurviveTheCommandLoop(c *Ctx, rule string) {
	r := c.R
	fn := c.Fn("engine", "RunFiles")
	ob := r.Ob(rule, "engine.RunFiles: names renamed by one command are not looked up again for the next", "")
	if fn == nil {
		ob.Und("engine.RunFiles not found")
		return
	}
	ob.Pos = c.pos(fn.Pos())
	var loop []*ssa.BasicBlock
	for _, comp := range sccs(fn, func(a, b *ssa.BasicBlock) bool { return true }) {
		over := false
		for _, b := range comp {
			for _, in := range b.Instrs {
				if ia, ok := in.(*ssa.IndexAddr); ok {
					if sl, ok := ia.X.Type().Underlying().(*types.Slice); ok {
						if nt, ok := sl.Elem().(*types.Named); ok && nt.Obj().Name() == "Command" {
							over = true
						}
					}
				}
			}
		}
		if over && len(comp) > len(loop) {
			loop = comp
		}
	}
	if loop == nil {
		ob.Und("no loop over the commands of the program in this function")
		return
	}
	var names *ssa.Parameter
	for _, p := range fn.Params {
		if sl, ok := p.Type().Underlying().(*types.Slice); ok {
			if bt, ok := sl.Elem().Underlying().(*types.Basic); ok && bt.Kind() == types.String {
				names = p
			}
		}
	}
	isOS := func(f *ssa.Function, fnNames ...string) bool {
		if f == nil || f.Pkg == nil || f.Pkg.Pkg.Path() != "os" {
			return false
		}
		for _, n := range fnNames {
			if f.Name() == n {
				return true
			}
		}
		return false
	}
	fromNames := func(v ssa.Value) bool {
		seen := map[ssa.Value]bool{}
		var walk func(v ssa.Value, d int) bool
		walk = func(v ssa.Value, d int) bool {
			if v == nil || seen[v] || d > 10 {
				return false
			}
			seen[v] = true
			if v == ssa.Value(names) {
				return true
			}
			if in, ok := v.(ssa.Instruction); ok {
				for _, op := range in.Operands(nil) {
					if *op != nil && walk(*op, d+1) {
						return true
					}
				}
			}
			return false
		}
		return names != nil && walk(v, 0)
	}
	renameAt, lookupAt := "", ""
	for _, b := range loop {
		for _, in := range b.Instrs {
			call, ok := in.(*ssa.Call)
			if !ok {
				continue
			}
			sc := call.Call.StaticCallee()
			if sc == nil {
				continue
			}
			switch {
			case isOS(sc, "Rename"):
				renameAt = c.pos(call.Pos())
			case isOS(sc, "Stat", "Lstat", "Open", "ReadDir", "ReadFile"):
				if len(call.Call.Args) > 0 && fromNames(call.Call.Args[0]) {
					lookupAt = c.pos(call.Pos())
				}
			case c.isRepoFn(sc):
				handedName := false
				for _, a := range call.Call.Args {
					if fromNames(a) {
						handedName = true
					}
				}
				for f := range c.Reachable(sc) {
					if isOS(f, "Rename") && renameAt == "" {
						renameAt = c.pos(call.Pos()) + " (in " + fnName(sc) + ")"
					}
					if isOS(f, "Stat", "Lstat") && handedName && lookupAt == "" {
						lookupAt = c.pos(call.Pos()) + " (in " + fnName(sc) + ")"
					}
				}
			}
		}
	}
	switch {
	case renameAt != "" && lookupAt != "":
		ob.Bad("inside the loop over the commands a file is renamed [" + renameAt + "] and a name of the list the function was handed is looked up again [" + lookupAt + "], with a panic when that fails: with -filenames and two commands the second command's look-up of an explicitly named file that the first renamed panics (`replace all 'fa' with 'ga'` then `find all 'txt'` on fa.txt)")
	case renameAt == "":
		ob.OKnt("nothing is renamed inside the loop over the commands")
	default:
		ob.OKnt("the names of the list are not looked up inside the loop over the commands")
	}
}
