package main

// C14: translation tables of the regex sub-parser and group numbering order.

import (
	"fmt"
	"go/constant"
	"go/token"
	"go/types"
	"sort"
	"strings"

	"golang.org/x/tools/go/ssa"
)

type runeLit struct {
	ch  rune
	pos bool
}

// runeLiterals: the transitive control-dependence conditions of a block that compare something with a rune/byte constant.
// others collects a description of every other controlling condition.
func runeLiterals(fn *ssa.Function, cds map[*ssa.BasicBlock][]CtrlEdge, b *ssa.BasicBlock) (lits []runeLit, others []ssa.Value) {
	seen := map[*ssa.BasicBlock]bool{}
	var walk func(b *ssa.BasicBlock)
	walk = func(b *ssa.BasicBlock) {
		if seen[b] {
			return
		}
		seen[b] = true
		for _, ce := range cds[b] {
			iff, ok := ce.Branch.Instrs[len(ce.Branch.Instrs)-1].(*ssa.If)
			if !ok {
				continue
			}
			pol := ce.Succ == 0
			if bo, ok := iff.Cond.(*ssa.BinOp); ok && (bo.Op == token.EQL || bo.Op == token.NEQ) {
				if k, ok := constInt(bo.Y); ok && isCharTyped(bo.Y.Type()) {
					if bo.Op == token.NEQ {
						pol = !pol
					}
					lits = append(lits, runeLit{rune(k), pol})
					walk(ce.Branch)
					continue
				}
			}
			others = append(others, iff.Cond)
			walk(ce.Branch)
		}
	}
	walk(b)
	return
}

func isCharTyped(t types.Type) bool {
	b, ok := t.Underlying().(*types.Basic)
	return ok && (b.Kind() == types.Uint8 || b.Kind() == types.Int32 || b.Kind() == types.UntypedRune)
}

func positives(lits []runeLit) string {
	m := map[rune]bool{}
	for _, l := range lits {
		if l.pos {
			m[l.ch] = true
		}
	}
	var rs []string
	for r := range m {
		rs = append(rs, string(r))
	}
	sort.Strings(rs)
	return strings.Join(rs, "")
}

// literalAllocs finds composite-literal allocations of a named struct type in fn with the values stored into their fields.
type litAlloc struct {
	alloc  *ssa.Alloc
	fields map[string]ssa.Value
}

func literalAllocs(fn *ssa.Function, typeName string) []litAlloc {
	var out []litAlloc
	instrsOf(fn, func(in ssa.Instruction) {
		a, ok := in.(*ssa.Alloc)
		if !ok {
			return
		}
		n, ok := deref(a.Type()).(*types.Named)
		if !ok || n.Obj().Name() != typeName {
			return
		}
		la := litAlloc{a, map[string]ssa.Value{}}
		for _, ref := range *a.Referrers() {
			if fa, ok := ref.(*ssa.FieldAddr); ok && fa.Block() == a.Block() {
				for _, r2 := range *fa.Referrers() {
					if st, ok := r2.(*ssa.Store); ok && st.Addr == fa && st.Block() == a.Block() {
						la.fields[fieldName(n, fa.Field)] = st.Val
					}
				}
			}
		}
		out = append(out, la)
	})
	return out
}

func valDesc(v ssa.Value, numCalls map[ssa.Value]int) string {
	if v == nil {
		return "zero"
	}
	if k, ok := v.(*ssa.Const); ok {
		if k.Value == nil {
			return "nil"
		}
		return k.Value.ExactString()
	}
	if ex, ok := v.(*ssa.Extract); ok && ex.Index == 0 {
		if i, ok := numCalls[ex.Tuple]; ok {
			return fmt.Sprintf("N%d", i)
		}
	}
	return "?" + v.Name()
}

func ruleRegexQuantifiers(c *Ctx, rule string) {
	r := c.R
	fn := c.Fn("ast", "parse_regexp_quantifier")
	num := c.Fn("ast", "parse_regexp_number")
	if fn == nil || num == nil {
		r.Ob(rule, "anchor ast.parse_regexp_quantifier/parse_regexp_number", "").Und("not found")
		return
	}
	cds := NewPostDom(fn).ControlDeps()
	numCalls := map[ssa.Value]int{}
	k := 0
	instrsOf(fn, func(in ssa.Instruction) {
		if call, ok := in.(*ssa.Call); ok && call.Call.StaticCallee() == num {
			k++
			numCalls[call] = k
		}
	})
	// key: the characters the literal is positively control-dependent on, and how many number parses precede it
	want := map[string][2]string{"*#0": {"0", "-1"}, "+#0": {"1", "-1"}, "?#0": {"0", "1"}, ",{}#1": {"N1", "-1"}, ",{}#2": {"N1", "N2"}, "{}#1": {"N1", "N1"}}
	names := map[string]string{"*#0": "`*`", "+#0": "`+`", "?#0": "`?`", ",{}#1": "`{m,}`", ",{}#2": "`{m,n}`", "{}#1": "`{m}`"}
	got := map[string][2]string{}
	gotPos := map[string]string{}
	for _, la := range literalAllocs(fn, "AstLoop") {
		lits, _ := runeLiterals(fn, cds, la.alloc.Block())
		nnum := 0
		for call := range numCalls {
			if instrDominates(call.(ssa.Instruction), la.alloc) {
				nnum++
			}
		}
		key := fmt.Sprintf("%s#%d", positives(lits), nnum)
		got[key] = [2]string{valDesc(la.fields["Min"], numCalls), valDesc(la.fields["Max"], numCalls)}
		gotPos[key] = c.pos(la.alloc.Pos())
	}
	r.Tables["regex_quantifiers"] = got
	for _, key := range sortedKeys(want) {
		ob := r.Ob(rule, "quantifier "+names[key]+" bounds", gotPos[key])
		g, ok := got[key]
		if !ok {
			ob.Und("no AstLoop literal found under the character tests " + key + " (the quantifier parser was restructured)")
			continue
		}
		w := want[key]
		if g == w {
			ob.OKnt(fmt.Sprintf("(Min, Max) = (%s, %s)", g[0], g[1]))
		} else {
			ob.Bad(fmt.Sprintf("%s is encoded as (Min, Max) = (%s, %s); a conventional engine (and the Vore loop encoding, -1 = unbounded) requires (%s, %s)", names[key], g[0], g[1], w[0], w[1]))
		}
	}
	// laziness: the Fewest flag is set from a test for '?' under no condition on the bounds
	ob := r.Ob(rule, "lazy marker `?` applies to every quantifier", c.pos(fn.Pos()))
	found := false
	bad := ""
	instrsOf(fn, func(in ssa.Instruction) {
		st, ok := in.(*ssa.Store)
		if !ok {
			return
		}
		fa, ok := st.Addr.(*ssa.FieldAddr)
		if !ok || fieldName(deref(fa.X.Type()), fa.Field) != "Fewest" {
			return
		}
		if _, isConst := st.Val.(*ssa.Const); isConst {
			return
		}
		// the stored value must depend on a comparison with '?'
		dep := false
		seen := map[ssa.Value]bool{}
		var w func(v ssa.Value)
		w = func(v ssa.Value) {
			if v == nil || seen[v] {
				return
			}
			seen[v] = true
			switch x := v.(type) {
			case *ssa.BinOp:
				if k, ok := constInt(x.Y); ok && k == '?' {
					dep = true
				}
				w(x.X)
				w(x.Y)
			case *ssa.Phi:
				for _, e := range x.Edges {
					w(e)
				}
				// a phi of constants merges the outcome of a short-circuit test: look at the controlling conditions of its block's predecessors
				for _, p := range x.Block().Preds {
					if iff, ok := p.Instrs[len(p.Instrs)-1].(*ssa.If); ok {
						w(iff.Cond)
					}
				}
			}
		}
		w(st.Val)
		if !dep {
			return
		}
		found = true
		_, others := runeLiterals(fn, cds, st.Block())
		for _, o := range others {
			// a controlling condition that reads the bounds of the loop makes laziness depend on the quantifier
			okCond := true
			if bo, ok := o.(*ssa.BinOp); ok {
				for _, side := range []ssa.Value{bo.X, bo.Y} {
					for _, st := range traceAddr(side).Steps {
						if st.Kind == "field" && st.Struct != nil && (st.Field == "Min" || st.Field == "Max") {
							okCond = false
						}
					}
				}
			}
			if !okCond {
				bad = fmt.Sprintf("the lazy marker is only honoured under the additional condition %s [%s]: for the other quantifiers a trailing `?` is left behind as a literal", o.String(), c.pos(st.Pos()))
			}
		}
	})
	switch {
	case !found:
		ob.Und("no store to AstLoop.Fewest that depends on a test for '?' was found")
	case bad != "":
		ob.Bad(bad)
	default:
		ob.OKnt("Fewest is set from the test for a trailing '?' whenever a quantifier was recognised")
	}
}

func ruleRegexAtoms(c *Ctx, rule string) {
	r := c.R
	type atom struct {
		fnName, key, typ string
		fields           map[string]string
		desc             string
	}
	cls := func(name string) string {
		k := c.constByName("ast", name)
		if k == nil {
			return "?"
		}
		return k.Val().ExactString()
	}
	atoms := []atom{
		{"parse_regexp_literal", "^", "AstCharacterClass", map[string]string{"Not": "false", "ClassType": cls("ClassLineStart")}, "`^` is line start"},
		{"parse_regexp_literal", "$", "AstCharacterClass", map[string]string{"Not": "false", "ClassType": cls("ClassLineEnd")}, "`$` is line end"},
		{"parse_regexp_literal", ".", "AstString", map[string]string{"Not": "true", "Value": `"\n"`, "Caseless": "false"}, "`.` is any character but newline"},
		{"parse_regexp_escape_characters", "d", "AstCharacterClass", map[string]string{"Not": "false", "ClassType": cls("ClassDigit")}, "`\\d` is digit"},
		{"parse_regexp_escape_characters", "D", "AstCharacterClass", map[string]string{"Not": "true", "ClassType": cls("ClassDigit")}, "`\\D` is not digit"},
		{"parse_regexp_escape_characters", "s", "AstCharacterClass", map[string]string{"Not": "false", "ClassType": cls("ClassWhitespace")}, "`\\s` is whitespace"},
		{"parse_regexp_escape_characters", "S", "AstCharacterClass", map[string]string{"Not": "true", "ClassType": cls("ClassWhitespace")}, "`\\S` is not whitespace"},
	}
	cache := map[string]map[string]map[string]map[string]string{} // fn -> type -> key -> fields
	posOf := map[string]string{}
	for _, a := range atoms {
		fn := c.Fn("ast", a.fnName)
		ob := r.Ob(rule, a.desc, "")
		if fn == nil {
			ob.Und(a.fnName + " not found")
			continue
		}
		if cache[a.fnName] == nil {
			cache[a.fnName] = map[string]map[string]map[string]string{}
			cds := NewPostDom(fn).ControlDeps()
			for _, tn := range []string{"AstCharacterClass", "AstString"} {
				cache[a.fnName][tn] = map[string]map[string]string{}
				for _, la := range literalAllocs(fn, tn) {
					lits, _ := runeLiterals(fn, cds, la.alloc.Block())
					key := positives(lits)
					fs := map[string]string{}
					st := deref(la.alloc.Type()).Underlying().(*types.Struct)
					for i := 0; i < st.NumFields(); i++ {
						fs[st.Field(i).Name()] = valDesc(la.fields[st.Field(i).Name()], nil)
						if la.fields[st.Field(i).Name()] == nil {
							// omitted field in the literal: zero value
							switch st.Field(i).Type().Underlying().(*types.Basic).Info() & (types.IsBoolean | types.IsString | types.IsInteger) {
							case types.IsBoolean:
								fs[st.Field(i).Name()] = "false"
							case types.IsString:
								fs[st.Field(i).Name()] = `""`
							default:
								fs[st.Field(i).Name()] = "0"
							}
						}
					}
					cache[a.fnName][tn][key] = fs
					posOf[a.fnName+tn+key] = c.pos(la.alloc.Pos())
				}
			}
		}
		got, ok := cache[a.fnName][a.typ][a.key]
		ob.Pos = posOf[a.fnName+a.typ+a.key]
		if !ok {
			ob.Und(fmt.Sprintf("no %s literal under the test for %q in %s", a.typ, a.key, a.fnName))
			continue
		}
		var diffs []string
		for _, f := range sortedKeys(a.fields) {
			if got[f] != a.fields[f] {
				diffs = append(diffs, fmt.Sprintf("%s=%s (expected %s)", f, got[f], a.fields[f]))
			}
		}
		if len(diffs) == 0 {
			ob.OKnt(fmt.Sprintf("%s%v", a.typ, got))
		} else {
			ob.Bad("translated wrongly: " + strings.Join(diffs, ", "))
		}
	}
}

// ruleRegexGroupOrder implements C14.R3: a capturing group takes its number before its body is parsed (numbering by opening parenthesis).
func ruleRegexGroupOrder(c *Ctx, rule string) {
	r := c.R
	fn := c.Fn("ast", "parse_regexp_groups")
	dis := c.Fn("ast", "parse_regexp_disjunction")
	if fn == nil || dis == nil {
		r.Ob(rule, "anchor ast.parse_regexp_groups/parse_regexp_disjunction", "").Und("not found")
		return
	}
	ob := r.Ob(rule, "parse_regexp_groups: the group number is taken before the body is parsed", c.pos(fn.Pos()))
	// the Sprintf("_%d", n) that names the group
	var naming *ssa.Call
	instrsOf(fn, func(in ssa.Instruction) {
		if call, ok := in.(*ssa.Call); ok && isCallTo(in, "fmt", "Sprintf") && len(call.Call.Args) > 0 {
			if k, ok := call.Call.Args[0].(*ssa.Const); ok && k.Value != nil && k.Value.Kind() == constant.String && constant.StringVal(k.Value) == "_%d" {
				naming = call
			}
		}
	})
	if naming == nil {
		ob.Und("no fmt.Sprintf(\"_%d\", ...) naming a numbered group found")
		return
	}
	ob.Pos = c.pos(naming.Pos())
	// the number: follow the variadic slice to the stored element
	var numVal ssa.Value
	if len(naming.Call.Args) == 2 {
		if sl, ok := naming.Call.Args[1].(*ssa.Slice); ok {
			if a, ok := sl.X.(*ssa.Alloc); ok {
				for _, ref := range *a.Referrers() {
					if ia, ok := ref.(*ssa.IndexAddr); ok {
						for _, r2 := range *ia.Referrers() {
							if st, ok := r2.(*ssa.Store); ok {
								numVal = st.Val
								if mi, ok := numVal.(*ssa.MakeInterface); ok {
									numVal = mi.X
								}
							}
						}
					}
				}
			}
		}
	}
	if numVal == nil {
		ob.Und("cannot find the value formatted as the group number")
		return
	}
	// the body-parsing call on the capturing path: the call to parse_regexp_disjunction that dominates the naming
	var body *ssa.Call
	instrsOf(fn, func(in ssa.Instruction) {
		if call, ok := in.(*ssa.Call); ok && instrDominates(call, naming) {
			if sc := call.Call.StaticCallee(); sc != nil && c.isRepoFn(sc) && (sc == dis || c.Reachable(sc)[dis]) {
				body = call
			}
		}
	})
	if body == nil {
		ob.Und("no call that parses the group body (reaches parse_regexp_disjunction) dominates the naming of the group")
		return
	}
	// where is the number defined? a load of the counter (global or field) or a value computed from it
	def, ok := numVal.(ssa.Instruction)
	if !ok {
		ob.Und("the group number is not computed by an instruction: " + numVal.String())
		return
	}
	// the number must be a counter value: a load (directly or +1) of a variable that this function also stores to
	isCounter := false
	var ld *ssa.UnOp
	switch x := numVal.(type) {
	case *ssa.UnOp:
		ld = x
	case *ssa.BinOp:
		if u, ok := x.X.(*ssa.UnOp); ok {
			ld = u
		}
	}
	if ld != nil && ld.Op == token.MUL {
		root := traceAddr(ld.X).Root
		instrsOf(fn, func(in ssa.Instruction) {
			if st, ok := in.(*ssa.Store); ok && traceAddr(st.Addr).Root == root {
				isCounter = true
			}
		})
	}
	if !isCounter {
		ob.Und("the group number is not read from a counter that this function increments (" + numVal.String() + "): numbering scheme changed, not analysable by this rule")
		return
	}
	if instrDominates(def, body) {
		ob.OKnt("the counter is read for the group's name before the recursive call that parses the group's body: groups are numbered by their opening parenthesis")
	} else {
		ob.Bad("the counter is incremented and read only after the group's body has been parsed: nested groups are numbered inside-out (`((a)b)\\1` binds _1 = a), unlike every conventional engine")
	}
}

// ruleQuantifierWrapsAtom implements C14.R4: a quantifier applies to the atom that precedes it, as a whole. In the function that
// combines an atom with its quantifier, what is stored into the Body of the loop returned by parse_regexp_quantifier is the very
// value the atom parser returned (possibly wrapped in an AstPrimary) - not a part taken out of it. `(a|b)*` repeats the group,
// binding the last repetition; moving the loop inside the group's declaration binds all of them.
func ruleQuantifierWrapsAtom(c *Ctx, rule string) {
	r := c.R
	q := c.Fn("ast", "parse_regexp_quantifier")
	loopT := c.NamedType("ast", "AstLoop")
	if q == nil || loopT == nil {
		r.Ob(rule, "anchor ast.parse_regexp_quantifier / AstLoop", "").Und("not found")
		return
	}
	n := 0
	for _, fn := range c.SrcFuncs("ast") {
		if fn == q || len(callsTo(fn, q)) == 0 {
			continue
		}
		// loops returned by the quantifier parser
		isQuantLoop := func(v ssa.Value) bool {
			seen := map[ssa.Value]bool{}
			var w func(v ssa.Value, d int) bool
			w = func(v ssa.Value, d int) bool {
				if d > 6 || seen[v] {
					return false
				}
				seen[v] = true
				switch x := v.(type) {
				case *ssa.Extract:
					if call, ok := x.Tuple.(*ssa.Call); ok && call.Call.StaticCallee() == q && x.Index == 0 {
						return true
					}
				case *ssa.Phi:
					for _, e := range x.Edges {
						if w(e, d+1) {
							return true
						}
					}
				case *ssa.UnOp:
					if a, ok := x.X.(*ssa.Alloc); ok {
						for _, ref := range *a.Referrers() {
							if st, ok := ref.(*ssa.Store); ok && st.Addr == ssa.Value(a) && w(st.Val, d+1) {
								return true
							}
						}
					}
				}
				return false
			}
			return w(v, 0)
		}
		isParsedAtom := func(v ssa.Value) bool {
			for d := 0; d < 6; d++ {
				switch x := v.(type) {
				case *ssa.MakeInterface:
					v = x.X
					continue
				case *ssa.ChangeInterface:
					v = x.X
					continue
				case *ssa.Alloc:
					if n, ok := deref(x.Type()).(*types.Named); !ok || n.Obj().Name() != "AstPrimary" {
						return true // an atom built in place (a string or character-class literal)
					}
					// &AstPrimary{atom}: follow the single field store
					var inner ssa.Value
					for _, ref := range *x.Referrers() {
						if fa, ok := ref.(*ssa.FieldAddr); ok {
							for _, r2 := range *fa.Referrers() {
								if st, ok := r2.(*ssa.Store); ok && st.Addr == ssa.Value(fa) {
									inner = st.Val
								}
							}
						}
					}
					if inner == nil {
						return false
					}
					v = inner
					continue
				case *ssa.UnOp:
					// a local variable holding the atom
					if a, ok := x.X.(*ssa.Alloc); ok {
						cnt, all := 0, true
						for _, ref := range *a.Referrers() {
							if st, ok := ref.(*ssa.Store); ok && st.Addr == ssa.Value(a) {
								cnt++
								if !isParsedAtomShallow(st.Val, c) {
									all = false
								}
							}
						}
						return cnt >= 1 && all
					}
					return false
				case *ssa.Phi:
					for _, e := range x.Edges {
						if !isParsedAtomShallow(e, c) {
							return false
						}
					}
					return len(x.Edges) > 0
				case *ssa.Extract:
					return isParsedAtomShallow(x, c)
				}
				return false
			}
			return false
		}
		k := 0
		instrsOf(fn, func(in ssa.Instruction) {
			st, ok := in.(*ssa.Store)
			if !ok {
				return
			}
			fa, ok := st.Addr.(*ssa.FieldAddr)
			if !ok || !types.Identical(deref(fa.X.Type()), loopT) || fieldName(loopT, fa.Field) != "Body" || !isQuantLoop(fa.X) {
				return
			}
			n++
			k++
			ob := r.Ob(rule, fmt.Sprintf("%s: quantifier #%d repeats the atom it follows, as parsed", fnName(fn), k), c.pos(st.Pos()))
			// a helper that attaches the quantifier to an atom it is handed: decided at its call sites
			if prm, isParam := stripIface(st.Val).(*ssa.Parameter); isParam {
				idx := -1
				for i, p := range fn.Params {
					if p == prm {
						idx = i
					}
				}
				ncall, bad := 0, ""
				for _, caller := range c.SrcFuncs("ast") {
					for _, cl := range callsTo(caller, fn) {
						ncall++
						if idx < 0 || idx >= len(cl.Call.Args) || !callerAtom(cl.Call.Args[idx], c) {
							bad = caller.Name() + " passes " + exprStr(cl.Call.Args[idx])
						}
					}
				}
				if ncall > 0 && bad == "" {
					ob.OKnt(fmt.Sprintf("the loop body is the helper's parameter; all %d call site(s) pass the atom the parser returned", ncall))
				} else if ncall == 0 {
					ob.Und("the loop body is a parameter and no call site was found")
				} else {
					ob.Bad("the loop body is a parameter and " + bad + ", which is not the atom the parser returned for the text before the quantifier")
				}
				return
			}
			if isParsedAtom(st.Val) {
				ob.OKnt("the loop body is the value returned by the atom parser (wrapped in a primary at most)")
			} else {
				ob.Bad("the loop body is " + exprStr(st.Val) + ", not the atom the parser returned for the text before the quantifier: the quantifier repeats something else than what it follows (for a group: the inside of its declaration, so the group binds all repetitions instead of the last)")
			}
		})
	}
	r.Floor(rule, "places where a quantifier gets its body", n, 1)
}

// isParsedAtomShallow: result #0 of a call to a function of package ast (an atom parser), or a freshly built atom literal.
func isParsedAtomShallow(v ssa.Value, c *Ctx) bool {
	for d := 0; d < 4; d++ {
		switch x := v.(type) {
		case *ssa.MakeInterface:
			v = x.X
			continue
		case *ssa.Extract:
			call, ok := x.Tuple.(*ssa.Call)
			return ok && x.Index == 0 && call.Call.StaticCallee() != nil && c.isRepoFn(call.Call.StaticCallee())
		case *ssa.Alloc:
			return true // a literal atom built here (character class, string)
		}
		return false
	}
	return false
}

// ruleQuantifierCharsAgree implements C14.R5: every place in the regex sub-parser that asks "does a quantifier follow?" must agree
// with parse_regexp_quantifier on what starts one. The quantifier parser dispatches on a set of characters; a string constant
// in the same file that is used as a character set and contains some of them must contain all of them.
func ruleQuantifierCharsAgree(c *Ctx, rule string) {
	r := c.R
	q := c.Fn("ast", "parse_regexp_quantifier")
	if q == nil {
		r.Ob(rule, "anchor ast.parse_regexp_quantifier", "").Und("not found")
		return
	}
	// the characters the quantifier parser compares its first character with
	starts := map[rune]bool{}
	instrsOf(q, func(in ssa.Instruction) {
		b, ok := in.(*ssa.BinOp)
		if !ok || b.Op != token.EQL {
			return
		}
		k, ok := constInt(b.Y)
		if !ok {
			return
		}
		// only comparisons of the character at the entry index (the dispatch), not of later characters: the operand is regexp[index]
		if strings.HasSuffix(exprStr(b.X), "[index]") {
			starts[rune(k)] = true
		}
	})
	ob := r.Ob(rule, "character sets that mention quantifier characters mention all of them", c.pos(q.Pos()))
	if len(starts) < 3 {
		ob.Und(fmt.Sprintf("the dispatch of parse_regexp_quantifier was not recognised (characters found: %d)", len(starts)))
		return
	}
	var bad []string
	nsets := 0
	file := c.Fset.Position(q.Pos()).Filename
	for _, fn := range c.SrcFuncs("ast") {
		if c.Fset.Position(fn.Pos()).Filename != file {
			continue
		}
		instrsOf(fn, func(in ssa.Instruction) {
			call, ok := in.(*ssa.Call)
			if !ok {
				return
			}
			sc := call.Call.StaticCallee()
			if sc == nil || sc.Pkg == nil || sc.Pkg.Pkg.Path() != "strings" {
				return
			}
			switch sc.Name() {
			case "ContainsRune", "ContainsAny", "IndexByte", "IndexRune", "IndexAny", "Contains":
			default:
				return
			}
			for _, a := range call.Call.Args {
				k, ok := a.(*ssa.Const)
				if !ok || k.Value == nil || k.Value.Kind() != constant.String {
					continue
				}
				set := constant.StringVal(k.Value)
				has, missing := 0, ""
				for ch := range starts {
					if strings.ContainsRune(set, ch) {
						has++
					} else {
						missing += string(ch)
					}
				}
				if has >= 2 {
					nsets++
					if missing != "" {
						bad = append(bad, fmt.Sprintf("%q in %s lacks %q [%s]", set, fnName(fn), missing, c.pos(call.Pos())))
					}
				}
			}
		})
	}
	var cs []string
	for ch := range starts {
		cs = append(cs, string(ch))
	}
	sort.Strings(cs)
	if len(bad) == 0 {
		ob.OKnt(fmt.Sprintf("parse_regexp_quantifier dispatches on %v; %d character set(s) elsewhere in the file mention them, each completely", cs, nsets))
	} else {
		ob.Bad("a quantifier can start with any of " + strings.Join(cs, " ") + ", but " + strings.Join(bad, "; ") + ": text in front of the missing quantifier is taken for plain characters and the quantifier applies to the wrong atom or is matched literally")
	}
}

func stripIface(v ssa.Value) ssa.Value {
	for {
		switch x := v.(type) {
		case *ssa.MakeInterface:
			v = x.X
			continue
		case *ssa.ChangeInterface:
			v = x.X
			continue
		}
		return v
	}
}

// callerAtom: at a call site, the argument is an atom as parsed: result #0 of a parse function, a literal built in place, a primary
// around one of those, or a local variable that only ever holds such values.
func callerAtom(v ssa.Value, c *Ctx) bool {
	for d := 0; d < 8; d++ {
		v = stripIface(v)
		switch x := v.(type) {
		case *ssa.Extract:
			return isParsedAtomShallow(x, c)
		case *ssa.Alloc:
			if n, ok := deref(x.Type()).(*types.Named); !ok || n.Obj().Name() != "AstPrimary" {
				return true
			}
			var inner ssa.Value
			for _, ref := range *x.Referrers() {
				if fa, ok := ref.(*ssa.FieldAddr); ok {
					for _, r2 := range *fa.Referrers() {
						if st, ok := r2.(*ssa.Store); ok && st.Addr == ssa.Value(fa) {
							inner = st.Val
						}
					}
				}
			}
			if inner == nil {
				return false
			}
			v = inner
			continue
		case *ssa.UnOp:
			if a, ok := x.X.(*ssa.Alloc); ok {
				cnt, all := 0, true
				for _, ref := range *a.Referrers() {
					if st, ok := ref.(*ssa.Store); ok && st.Addr == ssa.Value(a) {
						cnt++
						if !isParsedAtomShallow(st.Val, c) {
							all = false
						}
					}
				}
				return cnt >= 1 && all
			}
			return false
		case *ssa.Phi:
			for _, e := range x.Edges {
				if !callerAtom(e, c) {
					return false
				}
			}
			return len(x.Edges) > 0
		}
		return false
	}
	return false
}
