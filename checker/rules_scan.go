package main

// Rules about engine.findMatches (the scan loop): C04.R1 non-interference, C04.R2 window predicates,
// C01.R3 / C03.R4 / C10.R4 scan discipline, attempt-state freshness (C02.R4 / C13.R6).

import (
	"fmt"
	"go/token"
	"go/types"
	"sort"
	"strings"

	"golang.org/x/tools/go/ssa"
)

type scanLoop struct {
	fn                  *ssa.Function
	create              *ssa.Call
	makeMatch           *ssa.Call
	header              *ssa.BasicBlock
	loop                map[*ssa.BasicBlock]bool
	off, line, col, num *ssa.Phi
	all, skip, take     *ssa.Parameter
	last                *ssa.Parameter
	cds                 map[*ssa.BasicBlock][]CtrlEdge
	err                 string
	stateNames          []string
}

// norm renames every value of type *SearchEngineState that findMatches handles to STATE, and the loop-carried scan variables to
// OFF/LINE/COL/NUM, so that comparisons do not depend on the names of local variables.
func (s *scanLoop) norm(str string) string {
	for _, n := range s.stateNames {
		str = strings.ReplaceAll(str, n, "STATE")
	}
	for _, p := range []struct {
		phi  *ssa.Phi
		name string
	}{{s.off, "OFF"}, {s.line, "LINE"}, {s.col, "COL"}, {s.num, "NUM"}} {
		if p.phi != nil {
			str = strings.ReplaceAll(str, "φ"+p.phi.Comment, p.name)
		}
	}
	for _, p := range []struct {
		prm  *ssa.Parameter
		name string
	}{{s.skip, "SKIP"}, {s.take, "TAKE"}, {s.last, "LAST"}, {s.all, "ALL"}} {
		if p.prm != nil {
			str = replaceWord(str, p.prm.Name(), p.name)
		}
	}
	return str
}

func replaceWord(s, w, by string) string {
	var out strings.Builder
	i := 0
	isId := func(b byte) bool {
		return b == '_' || (b >= '0' && b <= '9') || (b >= 'a' && b <= 'z') || (b >= 'A' && b <= 'Z') || b >= 0x80
	}
	for i < len(s) {
		j := strings.Index(s[i:], w)
		if j < 0 {
			out.WriteString(s[i:])
			break
		}
		j += i
		before := j == 0 || !isId(s[j-1])
		after := j+len(w) >= len(s) || !isId(s[j+len(w)])
		out.WriteString(s[i:j])
		if before && after && (j == 0 || s[j-1] != '.') {
			out.WriteString(by)
		} else {
			out.WriteString(w)
		}
		i = j + len(w)
	}
	return out.String()
}

func (c *Ctx) scanLoop() *scanLoop {
	s := &scanLoop{fn: c.Fn("engine", "findMatches")}
	if s.fn == nil {
		s.err = "engine.findMatches not found"
		return s
	}
	cs := c.Fn("engine", "CreateState")
	mm := c.Method("engine", "SearchEngineState", "MakeMatch")
	instrsOf(s.fn, func(in ssa.Instruction) {
		if call, ok := in.(*ssa.Call); ok {
			if call.Call.StaticCallee() == cs && cs != nil {
				s.create = call
			}
			if call.Call.StaticCallee() == mm && mm != nil {
				s.makeMatch = call
			}
		}
	})
	if s.create == nil || len(s.create.Call.Args) != 5 {
		s.err = "no call CreateState(filename, reader, offset, line, column) in findMatches"
		return s
	}
	if s.makeMatch == nil {
		s.err = "no call to MakeMatch in findMatches"
		return s
	}
	phis := [3]*ssa.Phi{}
	for i := 0; i < 3; i++ {
		p, ok := s.create.Call.Args[2+i].(*ssa.Phi)
		if !ok {
			s.err = "the position arguments of CreateState are not loop-carried variables"
			return s
		}
		phis[i] = p
	}
	s.off, s.line, s.col = phis[0], phis[1], phis[2]
	s.header = s.off.Block()
	if s.line.Block() != s.header || s.col.Block() != s.header {
		s.err = "scan variables are not merged at one loop header"
		return s
	}
	s.loop = loopBlocks(s.fn, s.header)
	if s.loop == nil || !s.loop[s.create.Block()] {
		s.err = "CreateState is not called inside the scan loop"
		return s
	}
	// matchNumber: MakeMatch(phi + 1) (the receiver is argument 0)
	args := s.makeMatch.Call.Args
	if len(args) == 2 {
		v := args[1]
		if b, ok := v.(*ssa.BinOp); ok && b.Op == token.ADD {
			v = b.X
		}
		if p, ok := v.(*ssa.Phi); ok {
			// follow to the header phi
			seenPhi := map[*ssa.Phi]bool{}
			for p.Block() != s.header && !seenPhi[p] {
				seenPhi[p] = true
				var next *ssa.Phi
				for _, e := range p.Edges {
					if q, ok := e.(*ssa.Phi); ok && !seenPhi[q] {
						next = q
					}
				}
				if next == nil {
					break
				}
				p = next
			}
			if p.Block() == s.header {
				s.num = p
			}
		}
	}
	if s.num == nil {
		s.err = "cannot identify the match counter (argument of MakeMatch)"
		return s
	}
	// window parameters through the call in searchFind
	sf := c.Fn("engine", "searchFind")
	if sf == nil {
		s.err = "engine.searchFind not found"
		return s
	}
	instrsOf(sf, func(in ssa.Instruction) {
		call, ok := in.(*ssa.Call)
		if !ok || call.Call.StaticCallee() != s.fn {
			return
		}
		for i, a := range call.Call.Args {
			name := ""
			if u, ok := a.(*ssa.UnOp); ok {
				if fa, ok := u.X.(*ssa.FieldAddr); ok {
					name = fieldName(deref(fa.X.Type()), fa.Field)
				}
			}
			if i >= len(s.fn.Params) {
				continue
			}
			switch name {
			case "All":
				s.all = s.fn.Params[i]
			case "Skip":
				s.skip = s.fn.Params[i]
			case "Take":
				s.take = s.fn.Params[i]
			case "Last":
				s.last = s.fn.Params[i]
			}
		}
	})
	if s.all == nil || s.skip == nil || s.take == nil || s.last == nil {
		s.err = "cannot map the All/Skip/Take/Last fields to parameters of findMatches through searchFind"
		return s
	}
	s.cds = NewPostDom(s.fn).ControlDeps()
	// names under which the VM state appears in rendered expressions
	stT := c.NamedType("engine", "SearchEngineState")
	seen := map[string]bool{}
	instrsOf(s.fn, func(in ssa.Instruction) {
		if v, ok := in.(ssa.Value); ok && stT != nil {
			if p, ok := v.Type().(*types.Pointer); ok && types.Identical(p.Elem(), stT) {
				n := exprStr(v)
				if !seen[n] {
					seen[n] = true
					s.stateNames = append(s.stateNames, n)
				}
			}
		}
	})
	sort.Slice(s.stateNames, func(i, j int) bool { return len(s.stateNames[i]) > len(s.stateNames[j]) })
	return s
}

// iterConds: the branch conditions of the current iteration that control block b (the walk does not cross the loop header, so
// decisions of earlier iterations are not included).
func (s *scanLoop) iterConds(b *ssa.BasicBlock) []CondLit {
	all := s.iterCondsRaw(b)
	if s.create == nil || b == s.create.Block() {
		return all
	}
	common := map[*ssa.If]bool{}
	for _, l := range s.iterCondsRaw(s.create.Block()) {
		common[l.If] = true
	}
	var out []CondLit
	for _, l := range all {
		if !common[l.If] {
			out = append(out, l)
		}
	}
	return out
}

func (s *scanLoop) iterCondsRaw(b *ssa.BasicBlock) []CondLit {
	var out []CondLit
	seen := map[*ssa.BasicBlock]bool{}
	seenLit := map[string]bool{}
	var walk func(b *ssa.BasicBlock)
	walk = func(b *ssa.BasicBlock) {
		if seen[b] {
			return
		}
		seen[b] = true
		for _, ce := range s.cds[b] {
			if !s.loop[ce.Branch] {
				continue
			}
			if iff, ok := ce.Branch.Instrs[len(ce.Branch.Instrs)-1].(*ssa.If); ok {
				l := CondLit{iff.Cond, ce.Succ == 0, iff}
				key := fmt.Sprintf("%p%t", iff, l.Pol)
				if !seenLit[key] {
					seenLit[key] = true
					out = append(out, l)
				}
			}
			if ce.Branch != s.header && ce.Branch.Index > s.header.Index {
				walk(ce.Branch)
			}
		}
	}
	walk(b)
	return out
}

// exitBranch: an If inside the loop with a successor outside the loop.
func (s *scanLoop) exitBranch(iff *ssa.If) bool {
	for _, succ := range iff.Block().Succs {
		if !s.loop[succ] {
			return true
		}
	}
	return false
}

// influences collects the non-exit branch conditions inside the loop that select which definition reaches v.
func (s *scanLoop) influences(v ssa.Value) (conds []CondLit, data []ssa.Value) {
	seenV := map[ssa.Value]bool{}
	seenIf := map[*ssa.If]bool{}
	var walk func(v ssa.Value)
	addConds := func(b *ssa.BasicBlock) {
		for _, l := range s.iterConds(b) {
			if !s.loop[l.If.Block()] || s.exitBranch(l.If) || seenIf[l.If] {
				continue
			}
			seenIf[l.If] = true
			conds = append(conds, l)
		}
	}
	walk = func(v ssa.Value) {
		if v == nil || seenV[v] {
			return
		}
		seenV[v] = true
		data = append(data, v)
		switch x := v.(type) {
		case *ssa.Phi:
			if x.Block() == s.header {
				return // loop-carried: its own history is examined through the back-edge operands
			}
			for i, e := range x.Edges {
				addConds(x.Block().Preds[i])
				// the predecessor's own terminating branch selects this edge
				p := x.Block().Preds[i]
				if iff, ok := p.Instrs[len(p.Instrs)-1].(*ssa.If); ok && s.loop[p] && !s.exitBranch(iff) && !seenIf[iff] {
					seenIf[iff] = true
					conds = append(conds, CondLit{iff.Cond, p.Succs[0] == x.Block(), iff})
				}
				walk(e)
			}
		case ssa.Instruction:
			for _, op := range x.Operands(nil) {
				if *op != nil {
					walk(*op)
				}
			}
		}
	}
	walk(v)
	return
}

func ruleScanNonInterference(c *Ctx, rule string) {
	r := c.R
	s := c.scanLoop()
	if s.err != "" {
		r.Ob(rule, "anchor: scan loop of engine.findMatches", "").Und(s.err)
		return
	}
	taint := dataDeps(s.fn, map[ssa.Value]bool{s.skip: true, s.take: true, s.last: true})
	taintAll := dataDeps(s.fn, map[ssa.Value]bool{s.all: true, s.skip: true, s.take: true, s.last: true})
	r.Stats["values_depending_on_skip_take_last"] = len(taint)
	type sink struct {
		name string
		v    ssa.Value
		pos  token.Pos
	}
	var sinks []sink
	for _, p := range []*ssa.Phi{s.off, s.line, s.col, s.num} {
		for i, e := range p.Edges {
			if s.loop[p.Block().Preds[i]] {
				sinks = append(sinks, sink{"next value of " + p.Comment, e, p.Pos()})
			}
		}
	}
	for i, a := range s.create.Call.Args[2:] {
		sinks = append(sinks, sink{fmt.Sprintf("CreateState argument %d (%s)", i+3, exprStr(a)), a, s.create.Pos()})
	}
	sinks = append(sinks, sink{"MakeMatch argument (match number)", s.makeMatch.Call.Args[1], s.makeMatch.Pos()})
	// whatever findMatches itself puts into the VM state, or hands to a function together with the VM state
	stT := c.NamedType("engine", "SearchEngineState")
	isState := func(v ssa.Value) bool {
		p, ok := v.Type().(*types.Pointer)
		return ok && stT != nil && types.Identical(p.Elem(), stT)
	}
	type csink struct {
		name  string
		block *ssa.BasicBlock
		pos   token.Pos
	}
	var csinks []csink
	nput := 0
	instrsOf(s.fn, func(in ssa.Instruction) {
		if !s.loop[in.Block()] {
			return
		}
		switch x := in.(type) {
		case *ssa.Store:
			if fa, ok := x.Addr.(*ssa.FieldAddr); ok && isState(fa.X) {
				nput++
				name := "value stored into the VM state's field " + fieldName(stT, fa.Field)
				sinks = append(sinks, sink{name, x.Val, x.Pos()})
				csinks = append(csinks, csink{name, x.Block(), x.Pos()})
			}
		case *ssa.Call:
			if x == s.create || x == s.makeMatch {
				return
			}
			hasState := false
			for _, a := range x.Call.Args {
				if isState(a) {
					hasState = true
				}
			}
			if !hasState {
				return
			}
			for i, a := range x.Call.Args {
				if isState(a) {
					continue
				}
				if _, isConst := a.(*ssa.Const); isConst {
					continue
				}
				nput++
				sinks = append(sinks, sink{fmt.Sprintf("argument %d of %s (called with the VM state)", i+1, callName(&x.Call)), a, x.Pos()})
			}
		}
	})
	r.Stats["values_put_into_the_vm_state_by_findMatches"] = nput
	for _, cs := range csinks {
		for _, l := range s.iterConds(cs.block) {
			if s.loop[l.If.Block()] && !s.exitBranch(l.If) && taint[l.Cond] {
				ob := r.Ob(rule, "findMatches: "+cs.name+" is not written under a condition on skip/take/last", c.pos(cs.pos))
				ob.Bad(fmt.Sprintf("the store is control-dependent on `%s`: the matching attempt itself would depend on the amount clause", exprStr(l.Cond)))
			}
		}
	}
	for _, sk := range sinks {
		ob := r.Ob(rule, "findMatches: "+sk.name+" does not depend on skip/take/last", c.pos(sk.pos))
		conds, data := s.influences(sk.v)
		var bad []string
		for _, d := range data {
			if taintAll[d] {
				if _, isParam := d.(*ssa.Parameter); isParam {
					bad = append(bad, "data-dependent on parameter "+d.Name())
				}
			}
		}
		for _, l := range conds {
			if taint[l.Cond] {
				bad = append(bad, fmt.Sprintf("control-dependent on `%s` [%s]", exprStr(l.Cond), c.pos(l.If.Pos())))
			}
		}
		if len(bad) == 0 {
			ob.OKnt(fmt.Sprintf("%d selecting condition(s) inside the loop, none depends on the window parameters (loop-exit branches exempt)", len(conds)))
		} else {
			sort.Strings(bad)
			ob.Bad("the sequence of match attempts depends on the amount clause: " + strings.Join(uniq(bad), "; ") + " — skip/take/last would no longer select windows of one and the same match sequence")
		}
	}
}

// ruleWindow implements C04.R2. All comparisons are made on normalised renderings (STATE, NUM, SKIP, TAKE, LAST) and on linear
// normal forms, so that renamed locals, hoisted temporaries and inverted branches do not matter.
func ruleWindow(c *Ctx, rule string) {
	r := c.R
	s := c.scanLoop()
	if s.err != "" {
		r.Ob(rule, "anchor: scan loop of engine.findMatches", "").Und(s.err)
		return
	}
	var push, limit *ssa.Call
	instrsOf(s.fn, func(in ssa.Instruction) {
		if call, ok := in.(*ssa.Call); ok {
			if sc := call.Call.StaticCallee(); sc != nil && s.loop[call.Block()] {
				if strings.HasPrefix(sc.Name(), "Push") && strings.Contains(fnName(sc), "Queue") {
					push = call
				}
				if strings.HasPrefix(sc.Name(), "Limit") && strings.Contains(fnName(sc), "Queue") {
					limit = call
				}
			}
		}
	})
	lits := func(b *ssa.BasicBlock) []string {
		var out []string
		for _, l := range s.iterConds(b) {
			if s.loop[l.If.Block()] && !s.exitBranch(l.If) {
				x := s.norm(l.String())
				if x == "(len(STATE.currentMatch) > 0)" {
					x = "(len(STATE.currentMatch) != 0)"
				}
				out = append(out, x)
			}
		}
		sort.Strings(out)
		return uniq(out)
	}
	ob := r.Ob(rule, "findMatches: a match is pushed exactly when it succeeded, is non-empty and matchNumber >= skip", c.pos(s.fn.Pos()))
	if push == nil {
		ob.Und("no Queue.Push call in the scan loop")
	} else {
		ob.Pos = c.pos(push.Pos())
		got := strings.Join(lits(push.Block()), " && ")
		want := "(NUM >= SKIP) && (STATE.status == 0) && (len(STATE.currentMatch) != 0)"
		if got == want {
			ob.OKnt("push is control-dependent on [" + got + "]")
		} else {
			ob.Bad("push is control-dependent on [" + got + "]; expected exactly [" + want + "]")
		}
		ob2 := r.Ob(rule, "findMatches: the pushed match is MakeMatch(matchNumber + 1)", c.pos(push.Pos()))
		arg := linearString(s.makeMatch.Call.Args[1], s.norm)
		pushed := push.Call.Args[len(push.Call.Args)-1]
		if pushed != ssa.Value(s.makeMatch) {
			ob2.Bad("the value pushed is not the result of MakeMatch")
		} else if arg != "+NUM +1" {
			ob2.Bad("MakeMatch is called with [" + arg + "], expected the match counter + 1 (1-based consecutive numbering that counts skipped matches)")
		} else {
			ob2.OKnt("MakeMatch(matchNumber + 1)")
		}
	}
	ob3 := r.Ob(rule, "findMatches: the loop continues while all || matchNumber < skip+take", c.pos(s.header.Instrs[0].Pos()))
	var hconds []string
	bound := false
	var extra []string
	for _, b := range s.fn.Blocks {
		if !s.loop[b] {
			continue
		}
		iff, ok := b.Instrs[len(b.Instrs)-1].(*ssa.If)
		if !ok || !s.exitBranch(iff) {
			continue
		}
		stayOnTrue := s.loop[b.Succs[0]]
		desc := s.norm(exprStr(iff.Cond))
		hconds = append(hconds, fmt.Sprintf("stay-if(%t) %s", stayOnTrue, desc))
		if bo, ok := iff.Cond.(*ssa.BinOp); ok {
			x, y := linearString(bo.X, s.norm), linearString(bo.Y, s.norm)
			if (bo.Op == token.LSS && stayOnTrue || bo.Op == token.GEQ && !stayOnTrue) && x == "+NUM" && y == "+SKIP +TAKE" {
				bound = true
				continue
			}
			if (bo.Op == token.GTR && stayOnTrue || bo.Op == token.LEQ && !stayOnTrue) && y == "+NUM" && x == "+SKIP +TAKE" {
				bound = true
				continue
			}
		}
		if strings.Contains(desc, "SKIP") || strings.Contains(desc, "TAKE") || strings.Contains(desc, "LAST") {
			extra = append(extra, desc)
		}
	}
	sort.Strings(hconds)
	if bound && len(extra) == 0 {
		ob3.OKnt("exit tests: " + strings.Join(hconds, " ; "))
	} else {
		ob3.Bad("loop exit tests are [" + strings.Join(hconds, " ; ") + "]; expected the bound `NUM < SKIP + TAKE` and no other test on skip/take/last")
	}
	ob4 := r.Ob(rule, "findMatches: Limit(last) follows every push when last != 0", c.pos(s.fn.Pos()))
	if limit == nil {
		if push == nil {
			ob4.Und("the scan loop keeps its matches in something other than the queue (no Push, no Limit): how `last n` trims them is not followed")
		} else {
			ob4.Bad("no Queue.Limit call in the scan loop: `last n` is not applied")
		}
	} else if push != nil {
		ob4.Pos = c.pos(limit.Pos())
		pl := map[string]bool{}
		for _, x := range lits(push.Block()) {
			pl[x] = true
		}
		var own []string
		for _, x := range lits(limit.Block()) {
			if !pl[x] {
				own = append(own, x)
			}
		}
		arg := s.norm(exprStr(limit.Call.Args[len(limit.Call.Args)-1]))
		okL := len(own) == 1 && (own[0] == "(LAST != 0)" || own[0] == "(LAST > 0)") && arg == "LAST" &&
			(push.Block() == limit.Block() || push.Block().Dominates(limit.Block()))
		if okL {
			ob4.OKnt("Limit(last) under [" + strings.Join(own, " && ") + "] after the push")
		} else {
			ob4.Bad(fmt.Sprintf("Limit(%s) is executed under the extra conditions %v (expected exactly `last != 0` on top of the push conditions)", arg, own))
		}
	}
	for fn := range c.allFns {
		if fn.Name() == "Limit" && strings.Contains(fnName(fn), "ds.Queue[") && len(fn.Blocks) > 0 {
			ob5 := r.Ob(rule, "ds.Queue.Limit drops from the front", c.pos(fn.Pos()))
			pops := false
			instrsOf(fn, func(in ssa.Instruction) {
				if sc := staticCallee(in); sc != nil && sc.Name() == "Pop" {
					pops = true
				}
			})
			ob5.Check(pops, "Limit pops (the queue's Pop removes store[0])", "Limit does not use Pop: the window kept by `last n` is not the final n matches")
			break
		}
	}
}

// leafKinds resolves a value through non-header phis to its leaf definitions.
func (s *scanLoop) leaves(v ssa.Value) []ssa.Value {
	var out []ssa.Value
	seen := map[ssa.Value]bool{}
	var walk func(v ssa.Value)
	walk = func(v ssa.Value) {
		if seen[v] {
			return
		}
		seen[v] = true
		if p, ok := v.(*ssa.Phi); ok && p.Block() != s.header {
			for _, e := range p.Edges {
				walk(e)
			}
			return
		}
		out = append(out, v)
	}
	walk(v)
	return out
}

// ruleScanDiscipline implements C01.R3 (= C03.R4, C10.R4).
func ruleScanDiscipline(c *Ctx, rule string) {
	r := c.R
	s := c.scanLoop()
	if s.err != "" {
		r.Ob(rule, "anchor: scan loop of engine.findMatches", "").Und(s.err)
		return
	}
	selfName := map[*ssa.Phi]string{s.off: "OFF", s.line: "LINE", s.col: "COL", s.num: "NUM"}
	resumeField := map[*ssa.Phi]string{s.off: "STATE.currentFileOffset", s.line: "STATE.currentLineNum", s.col: "STATE.currentColumnNum"}
	classify := func(p *ssa.Phi, leaf ssa.Value) string {
		str := linearString(leaf, s.norm)
		self := selfName[p]
		// `self` must be the loop-carried variable itself, not another variable that renders under the same name (the counter of an
		// inner loop that advances the position further)
		co, _ := linearOver(leaf)
		isSelf := len(co) == 1 && co[p] == 1
		switch {
		case resumeField[p] != "" && str == "+"+resumeField[p]:
			return "resume"
		case str == "+"+self+" +1" && isSelf:
			return "step"
		case str == "+"+self && isSelf:
			return "keep"
		case p == s.col && str == "+1":
			return "newline"
		}
		return "other:" + str
	}
	allowed := map[*ssa.Phi]map[string]bool{
		s.off:  {"resume": true, "step": true},
		s.line: {"resume": true, "keep": true, "step": true},
		s.col:  {"resume": true, "step": true, "newline": true},
		s.num:  {"keep": true, "step": true},
	}
	for _, p := range []*ssa.Phi{s.off, s.line, s.col, s.num} {
		ob := r.Ob(rule, "findMatches: next "+p.Comment+" is the end of the successful attempt or one step forward", c.pos(p.Pos()))
		var kinds, bad []string
		for i, e := range p.Edges {
			if !s.loop[p.Block().Preds[i]] {
				continue
			}
			for _, lf := range s.leaves(e) {
				k := classify(p, lf)
				kinds = append(kinds, k)
				if !allowed[p][k] {
					bad = append(bad, k)
				}
			}
		}
		sort.Strings(kinds)
		if len(bad) > 0 {
			ob.Bad(fmt.Sprintf("the scan variable %s is advanced by something other than the attempt's end position or a single step: %s", p.Comment, strings.Join(uniq(bad), ", ")))
		} else if p == s.off && !(contains(kinds, "resume") && contains(kinds, "step")) {
			ob.Bad("the scan offset must resume at the end of a successful attempt and advance by exactly one byte otherwise; found only " + strings.Join(uniq(kinds), ", "))
		} else {
			ob.OKnt("definitions reaching the back edge: " + strings.Join(uniq(kinds), ", "))
		}
	}
	// resume leaves are guarded by success && non-empty; and the counter steps exactly there
	ob := r.Ob(rule, "findMatches: position resumes and the match counter steps exactly on a successful non-empty attempt", c.pos(s.fn.Pos()))
	guardOf := func(p *ssa.Phi, kind string) ([]string, bool) {
		// every definition of `kind` that reaches the back edge, with the branch decisions of the iteration under which it does:
		// walk from the header phi through the join phis, remembering the predecessor block through which each value arrives
		var res []string
		found := false
		type arrival struct {
			v    ssa.Value
			pred *ssa.BasicBlock
			to   *ssa.BasicBlock
		}
		seen := map[arrival]bool{}
		var visit func(a arrival)
		visit = func(a arrival) {
			if seen[a] {
				return
			}
			seen[a] = true
			if q, ok := a.v.(*ssa.Phi); ok && q.Block() != s.header {
				for i, e := range q.Edges {
					visit(arrival{e, q.Block().Preds[i], q.Block()})
				}
				return
			}
			if classify(p, a.v) != kind {
				return
			}
			found = true
			var lits []string
			for _, l := range s.iterConds(a.pred) {
				if s.loop[l.If.Block()] && !s.exitBranch(l.If) {
					lits = append(lits, s.norm(l.String()))
				}
			}
			if iff, ok := a.pred.Instrs[len(a.pred.Instrs)-1].(*ssa.If); ok && !s.exitBranch(iff) {
				l := CondLit{iff.Cond, a.pred.Succs[0] == a.to, iff}
				lits = append(lits, s.norm(l.String()))
			}
			sort.Strings(lits)
			res = append(res, strings.Join(uniq(lits), " && "))
		}
		for i, e := range p.Edges {
			if s.loop[p.Block().Preds[i]] {
				visit(arrival{e, p.Block().Preds[i], p.Block()})
			}
		}
		return res, found
	}
	want := "(STATE.status == 0) && (len(STATE.currentMatch) != 0)"
	wantLits := []string{"(STATE.status == 0)", "(len(STATE.currentMatch) != 0)"}
	negLits := []string{"(STATE.status != 0)", "(len(STATE.currentMatch) == 0)"}
	canon := func(g string) map[string]bool {
		g = strings.ReplaceAll(g, "(len(STATE.currentMatch) > 0)", "(len(STATE.currentMatch) != 0)")
		g = strings.ReplaceAll(g, "(len(STATE.currentMatch) <= 0)", "(len(STATE.currentMatch) == 0)")
		m := map[string]bool{}
		for _, l := range strings.Split(g, " && ") {
			if l != "" {
				m[l] = true
			}
		}
		return m
	}
	var problems []string
	// the definition made on a successful non-empty attempt reaches the back edge only under `success && non-empty` (further
	// decisions of the iteration - which window a match falls into, how the kept matches are trimmed - may lie on the way) ...
	for _, pk := range []struct {
		p    *ssa.Phi
		kind string
	}{{s.off, "resume"}, {s.line, "resume"}, {s.col, "resume"}, {s.num, "step"}} {
		gs, found := guardOf(pk.p, pk.kind)
		if !found {
			problems = append(problems, fmt.Sprintf("no `%s` definition of %s found", pk.kind, pk.p.Comment))
			continue
		}
		for _, g := range gs {
			m := canon(g)
			for _, w := range wantLits {
				if !m[w] {
					problems = append(problems, fmt.Sprintf("%s of %s happens under [%s], which does not include %s", pk.kind, pk.p.Comment, g, w))
				}
			}
		}
	}
	// ... and the other definition (one step forward for the position, unchanged for the counter) never under both
	for _, pk := range []struct {
		p    *ssa.Phi
		kind string
	}{{s.off, "step"}, {s.num, "keep"}} {
		gs, _ := guardOf(pk.p, pk.kind)
		for _, g := range gs {
			m := canon(g)
			excluded := false
			for _, nl := range negLits {
				if m[nl] {
					excluded = true
				}
			}
			if !excluded {
				problems = append(problems, fmt.Sprintf("%s of %s happens under [%s], which does not exclude a successful non-empty attempt", pk.kind, pk.p.Comment, g))
			}
		}
	}
	if len(problems) == 0 {
		ob.OKnt("offset, line and column resume, and matchNumber is incremented, under exactly [" + want + "]")
	} else {
		ob.Bad(strings.Join(uniq(problems), "; "))
	}
	// the line/column update of a single step reads the byte at the old offset
	ob2 := r.Ob(rule, "findMatches: a single step updates line/column from the byte at the old offset", c.pos(s.fn.Pos()))
	nl := false
	instrsOf(s.fn, func(in ssa.Instruction) {
		if iff, ok := in.(*ssa.If); ok && s.loop[iff.Block()] {
			str := s.norm(exprStr(iff.Cond))
			if strings.Contains(str, "ReadAt(1, OFF)") && (strings.Contains(str, "10") || strings.Contains(str, `"\n"`)) {
				nl = true
			}
		}
	})
	ob2.Check(nl, "the newline test reads reader.ReadAt(1, fileOffset)", "no comparison of reader.ReadAt(1, fileOffset) with '\\n' found: line/column of later matches are not derived from the skipped byte")
	// termination of the scan: exit when the new offset reaches the size
	ob3 := r.Ob(rule, "findMatches: the scan stops when the offset reaches reader.Size()", c.pos(s.fn.Pos()))
	okExit := false
	for b := range s.loop {
		if iff, ok := b.Instrs[len(b.Instrs)-1].(*ssa.If); ok && s.exitBranch(iff) {
			// the literal that holds on the leaving edge, in canonical form
			l := CondLit{iff.Cond, !s.loop[b.Succs[0]], iff}
			str := l.String()
			if strings.Contains(str, ">= reader.Size()") || strings.Contains(str, "== reader.Size()") {
				okExit = true
			}
		}
	}
	ob3.Check(okExit, "exit branch `offset >= reader.Size()`", "no exit branch comparing the new offset with reader.Size()")
}

func contains(xs []string, x string) bool {
	for _, y := range xs {
		if y == x {
			return true
		}
	}
	return false
}

// returnsFresh: every return of fn yields a freshly allocated object (or a struct built in place whose reference fields are fresh).
func (c *Ctx) returnsFresh(fn *ssa.Function, depth int) (bool, string) {
	if fn == nil || len(fn.Blocks) == 0 || depth > 4 {
		return false, "no body"
	}
	ok := true
	why := ""
	instrsOf(fn, func(in ssa.Instruction) {
		ret, is := in.(*ssa.Return)
		if !is || len(ret.Results) == 0 {
			return
		}
		f, w := c.freshValue(ret.Results[0], depth+1)
		if !f {
			ok, why = false, w
		}
	})
	return ok, why
}

func (c *Ctx) freshValue(v ssa.Value, depth int) (bool, string) {
	switch x := v.(type) {
	case *ssa.Alloc:
		// composite literal: a slice-typed field must not be a view of somebody else's backing array (other reference fields are
		// checked by the caller per field)
		if st, isStruct := deref(x.Type()).Underlying().(*types.Struct); isStruct && depth < 6 {
			for _, ref := range *x.Referrers() {
				fa, ok := ref.(*ssa.FieldAddr)
				if !ok {
					continue
				}
				if _, isSlice := st.Field(fa.Field).Type().Underlying().(*types.Slice); !isSlice {
					continue
				}
				for _, r2 := range *fa.Referrers() {
					if s, ok := r2.(*ssa.Store); ok && s.Addr == ssa.Value(fa) {
						if f, w := c.freshValue(s.Val, depth+1); !f {
							return false, "field " + st.Field(fa.Field).Name() + ": " + w
						}
					}
				}
			}
		}
		return true, ""
	case *ssa.Slice:
		return false, "a slice of " + exprStr(x.X) + " (shares its backing array)"
	case *ssa.MakeMap, *ssa.MakeSlice:
		return true, ""
	case *ssa.Const:
		return true, ""
	case *ssa.Call:
		if sc := x.Call.StaticCallee(); sc != nil && c.isRepoFn(sc) {
			return c.returnsFresh(sc, depth)
		}
		if isFreshAppend(x, 0) {
			return true, ""
		}
		return false, "result of " + callName(&x.Call)
	case *ssa.Phi:
		// a slice grown in a loop from nothing: every edge is fresh (or the phi itself)
		if depth < 6 {
			for _, e := range x.Edges {
				if e == ssa.Value(x) {
					continue
				}
				if f, w := c.freshValue(e, depth+1); !f {
					return false, w
				}
			}
			return true, ""
		}
	case *ssa.UnOp:
		if x.Op == token.MUL {
			if a, ok := x.X.(*ssa.Alloc); ok {
				// struct built in a local and returned by value: every reference field stored must be fresh
				st, isStruct := deref(a.Type()).Underlying().(*types.Struct)
				if !isStruct {
					return false, "load of a local"
				}
				for _, ref := range *a.Referrers() {
					if fa, ok := ref.(*ssa.FieldAddr); ok {
						for _, r2 := range *fa.Referrers() {
							if s, ok := r2.(*ssa.Store); ok && isRefType(st.Field(fa.Field).Type()) {
								if f, w := c.freshValue(s.Val, depth+1); !f {
									return false, "field " + st.Field(fa.Field).Name() + ": " + w
								}
							}
						}
					}
				}
				return true, ""
			}
		}
	case *ssa.Parameter:
		return false, "parameter " + x.Name()
	}
	return false, "value " + exprStr(v)
}

// ruleAttemptFresh: every match attempt starts from a freshly created VM state (C02.R4 / C13.R6).
func ruleAttemptFresh(c *Ctx, rule string) {
	r := c.R
	fm := c.Fn("engine", "findMatches")
	mi := c.Fn("engine", "matchInstruction")
	csf := c.Fn("engine", "CreateState")
	if fm == nil || mi == nil || csf == nil {
		r.Ob(rule, "anchor: engine.findMatches/matchInstruction/CreateState", "").Und("not found")
		return
	}
	ob := r.Ob(rule, "findMatches: each attempt runs on the state returned by CreateState in the same iteration", c.pos(fm.Pos()))
	var creates []*ssa.Call
	var vmCall *ssa.Call
	instrsOf(fm, func(in ssa.Instruction) {
		if call, is := in.(*ssa.Call); is {
			if call.Call.StaticCallee() == csf {
				creates = append(creates, call)
			}
			if call.Call.StaticCallee() == mi {
				vmCall = call
			}
		}
	})
	switch {
	case vmCall == nil:
		ob.Und("findMatches does not call matchInstruction")
	case len(creates) != 1:
		ob.Bad(fmt.Sprintf("findMatches calls CreateState %d time(s); exactly one call per attempt is expected", len(creates)))
	default:
		create := creates[0]
		ob.Pos = c.pos(create.Pos())
		outer := loopBlocks(fm, create.Block())
		okState, detail := false, ""
		st := vmCall.Call.Args[1]
		if p, isPhi := st.(*ssa.Phi); isPhi {
			for _, e := range p.Edges {
				if e == ssa.Value(create) {
					okState = true
				} else if e != ssa.Value(vmCall) {
					detail = "the VM state also comes from " + exprStr(e)
				}
			}
		} else if st == ssa.Value(create) {
			okState = true
		} else {
			detail = "the VM state is " + exprStr(st)
		}
		switch {
		case outer == nil || !outer[vmCall.Block()]:
			ob.Bad("CreateState is not called inside the scan loop: one VM state is created up front and reused for every attempt, so the call stack, loop stack, checkpoints or bindings of an earlier attempt can leak into a later match")
		case !okState || detail != "":
			ob.Bad("a match attempt does not start from the state created for it: " + detail)
		default:
			ob.OKnt("the inner VM loop starts from CreateState(...) of the current iteration and continues with matchInstruction results only")
		}
	}
	cs := csf
	stT := c.NamedType("engine", "SearchEngineState")
	if stT == nil {
		r.Ob(rule, "anchor engine.SearchEngineState", "").Und("not found")
		return
	}
	// CreateState builds every reference field afresh, except the shared reader
	st := stT.Underlying().(*types.Struct)
	stored := map[string]ssa.Value{}
	instrsOf(cs, func(in ssa.Instruction) {
		if s, ok := in.(*ssa.Store); ok {
			if fa, ok := s.Addr.(*ssa.FieldAddr); ok && types.Identical(deref(fa.X.Type()), stT) {
				stored[fieldName(stT, fa.Field)] = s.Val
			}
		}
	})
	for i := 0; i < st.NumFields(); i++ {
		f := st.Field(i)
		if !isRefType(f.Type()) && !hasRefField(f.Type()) {
			continue
		}
		ob := r.Ob(rule, "CreateState: field "+f.Name()+" is fresh for every attempt", c.pos(cs.Pos()))
		if f.Name() == "reader" {
			ob.Exc("shared by design: the reader is positioned before every read (axiom A5, C07.R3)")
			continue
		}
		v, ok := stored[f.Name()]
		if !ok {
			ob.OK("left at its zero value")
			continue
		}
		if fresh, why := c.freshValue(v, 0); fresh {
			ob.OKnt("initialised with " + exprStr(v) + ", which allocates")
		} else {
			ob.Bad("initialised with " + why + ": state shared between match attempts")
		}
	}
}

func hasRefField(t types.Type) bool {
	s, ok := t.Underlying().(*types.Struct)
	if !ok {
		return false
	}
	for i := 0; i < s.NumFields(); i++ {
		if isRefType(s.Field(i).Type()) || hasRefField(s.Field(i).Type()) {
			return true
		}
	}
	return false
}

// isFreshAppend: append whose first argument is nil, a freshly made slice, or itself such an append (possibly through a loop phi
// or a field of a local struct that starts out empty): the result has a backing array of its own.
func isFreshAppend(call *ssa.Call, depth int) bool {
	return isFreshAppendV(call, map[ssa.Value]bool{})
}

func isFreshAppendV(call *ssa.Call, seen map[ssa.Value]bool) bool {
	b, ok := call.Call.Value.(*ssa.Builtin)
	if !ok || b.Name() != "append" || len(call.Call.Args) == 0 {
		return false
	}
	var freshBase func(v ssa.Value, d int) bool
	freshBase = func(v ssa.Value, d int) bool {
		if d > 12 {
			return false
		}
		if seen[v] {
			return true // coinductive: a cycle through loop phis or a local field adds nothing that is not fresh
		}
		seen[v] = true
		switch x := v.(type) {
		case *ssa.Const:
			return x.Value == nil
		case *ssa.MakeSlice:
			return true
		case *ssa.Call:
			return isFreshAppendV(x, seen)
		case *ssa.Phi:
			for _, e := range x.Edges {
				if !freshBase(e, d+1) {
					return false
				}
			}
			return true
		case *ssa.UnOp:
			// a field of a struct allocated in this function: all stores into it must be fresh bases themselves
			if fa, ok := x.X.(*ssa.FieldAddr); ok && x.Op == token.MUL {
				if a, ok := fa.X.(*ssa.Alloc); ok {
					for _, ref := range *a.Referrers() {
						fa2, ok := ref.(*ssa.FieldAddr)
						if !ok || fa2.Field != fa.Field {
							continue
						}
						for _, r2 := range *fa2.Referrers() {
							if st, ok := r2.(*ssa.Store); ok && st.Addr == ssa.Value(fa2) {
								if !freshBase(st.Val, d+1) {
									return false
								}
							}
						}
					}
					return true
				}
			}
		}
		return false
	}
	seen[call] = true
	return freshBase(call.Call.Args[0], 0)
}
