package main

// C01.R2 / C13.R2: relocation completeness (FLOW).

import (
	"fmt"
	"go/types"
	"sort"
	"strings"

	"golang.org/x/tools/go/ssa"
)

type pcField struct {
	T     *types.Named
	Field int
	Name  string
	Where []string
}

// pcFields computes the set P of instruction fields that receive values derived from the code generator's
// `offset` parameters (absolute program counters).
func (c *Ctx) pcFields() (map[string]*pcField, int) {
	bc := c.Pkgs["bytecode"].Types
	iface := c.NamedType("bytecode", "SearchInstruction")
	genState := c.NamedType("bytecode", "GenState")
	P := map[string]*pcField{}
	if iface == nil || genState == nil {
		return P, 0
	}
	it := iface.Underlying().(*types.Interface)
	isInstr := func(t types.Type) *types.Named {
		n, ok := t.(*types.Named)
		if !ok || n.Obj().Pkg() != bc {
			return nil
		}
		if types.Implements(n, it) || types.Implements(types.NewPointer(n), it) {
			return n
		}
		return nil
	}
	ngen := 0
	// work items: a function and which of its int parameters carry an offset. Generators (a *GenState and an int parameter) start
	// the list with all their ints; a helper of the package that is handed an offset-derived int (wrapSubroutine(name, offset, ...))
	// joins it with those parameters.
	type work struct {
		fn   *ssa.Function
		ints []*ssa.Parameter
	}
	var list []work
	offsetParams := map[*ssa.Function]map[*ssa.Parameter]bool{}
	isGenerator := map[*ssa.Function]bool{}
	for _, fn := range c.SrcFuncs("bytecode") {
		// generator functions: a *GenState parameter and at least one int parameter
		hasState := false
		var ints []*ssa.Parameter
		for _, p := range fn.Params {
			if pt, ok := p.Type().(*types.Pointer); ok && types.Identical(pt.Elem(), genState) {
				hasState = true
			}
			if b, ok := p.Type().(*types.Basic); ok && b.Kind() == types.Int {
				ints = append(ints, p)
			}
		}
		if !hasState || len(ints) == 0 || fn.Signature.Recv() != nil {
			continue
		}
		ngen++
		isGenerator[fn] = true
		list = append(list, work{fn, ints})
	}
	for wi := 0; wi < len(list) && wi < 200; wi++ {
		fn, ints := list[wi].fn, list[wi].ints
		isOffset := map[ssa.Value]bool{}
		for _, p := range ints {
			isOffset[p] = true
		}
		t := NewTaint(fn, func(v ssa.Value) Label {
			if isOffset[v] {
				return 1
			}
			// values read from GenState.variables (the map that carries subroutine pcs)
			if lk, ok := v.(*ssa.Lookup); ok {
				ch := traceAddr(lk.X)
				for _, s := range ch.Steps {
					if s.Kind == "field" && s.Field == "variables" && types.Identical(s.Struct, genState) {
						return 1
					}
				}
			}
			return 0
		})
		t.callLabel = func(call *ssa.Call, args []Label) (Label, bool) {
			if b, ok := call.Call.Value.(*ssa.Builtin); ok && b.Name() == "append" {
				var l Label
				for _, a := range args {
					l |= a
				}
				return l, true
			}
			return 0, true
		}
		t.Run()
		instrsOf(fn, func(in ssa.Instruction) {
			// a helper of the package that receives an offset-derived int
			if call, ok := in.(*ssa.Call); ok {
				sc := call.Call.StaticCallee()
				if sc != nil && sc.Pkg == fn.Pkg && !isGenerator[sc] && sc.Signature.Recv() == nil && len(sc.Blocks) > 0 {
					var more []*ssa.Parameter
					for i, a := range call.Call.Args {
						if i >= len(sc.Params) {
							break
						}
						if b, ok := sc.Params[i].Type().(*types.Basic); !ok || b.Kind() != types.Int {
							continue
						}
						if t.get(a)&1 != 0 && !offsetParams[sc][sc.Params[i]] {
							if offsetParams[sc] == nil {
								offsetParams[sc] = map[*ssa.Parameter]bool{}
							}
							offsetParams[sc][sc.Params[i]] = true
							more = append(more, sc.Params[i])
						}
					}
					if len(more) > 0 {
						var all []*ssa.Parameter
						for _, p := range sc.Params {
							if offsetParams[sc][p] {
								all = append(all, p)
							}
						}
						list = append(list, work{sc, all})
					}
				}
				return
			}
			st, ok := in.(*ssa.Store)
			if !ok {
				return
			}
			fa, ok := st.Addr.(*ssa.FieldAddr)
			if !ok {
				return
			}
			n := isInstr(deref(fa.X.Type()))
			if n == nil {
				return
			}
			l := t.get(st.Val)
			if isRefType(st.Val.Type()) {
				l |= t.loc[t.objOf(st.Val)]
			}
			if l&1 == 0 {
				return
			}
			s := n.Underlying().(*types.Struct)
			key := n.Obj().Name() + "." + s.Field(fa.Field).Name()
			if P[key] == nil {
				P[key] = &pcField{T: n, Field: fa.Field, Name: s.Field(fa.Field).Name()}
			}
			where := fmt.Sprintf("%s [%s]", fnName(fn), c.pos(st.Pos()))
			for _, w := range P[key].Where {
				if w == where {
					return
				}
			}
			P[key].Where = append(P[key].Where, where)
		})
	}
	return P, ngen
}

func ruleRelocationComplete(c *Ctx, rule string) {
	r := c.R
	P, ngen := c.pcFields()
	r.Floor(rule, "generator functions analysed for offset taint", ngen, 12)
	r.Floor(rule, "pc-carrying instruction fields (set P)", len(P), 6)
	var keys []string
	for k := range P {
		keys = append(keys, k)
	}
	sort.Strings(keys)
	r.Tables["pc_fields_P"] = keys
	adj := map[string]*ssa.Function{}
	for _, fn := range c.adjustMethods() {
		recv := fn.Signature.Recv().Type()
		if n, ok := deref(recv).(*types.Named); ok {
			adj[n.Obj().Name()] = fn
		}
	}
	for _, k := range keys {
		pf := P[k]
		ob := r.Ob(rule, "bytecode."+pf.T.Obj().Name()+".adjust:field "+pf.Name, "")
		fn := adj[pf.T.Obj().Name()]
		if fn == nil {
			// one function that relocates every instruction type in a type switch (relocate(inst, delta))
			if verdict, detail, ok := c.relocatedBySwitch(pf); ok {
				ob.Construct = "bytecode." + pf.T.Obj().Name() + " relocation:field " + pf.Name
				if verdict {
					ob.OKnt(detail)
				} else {
					ob.Bad(fmt.Sprintf("%s.%s receives program counters in %s but relocation leaves it unshifted: %s", pf.T.Obj().Name(), pf.Name, strings.Join(uniq(pf.Where), ", "), detail))
				}
				continue
			}
			ob.Und("no adjust method found for " + pf.T.Obj().Name())
			continue
		}
		ob.Pos = c.pos(fn.Pos())
		if len(fn.Params) < 2 {
			ob.Und("adjust has an unexpected signature")
			continue
		}
		recv := fn.Params[0]
		if _, isPtr := recv.Type().(*types.Pointer); isPtr {
			ob.Und("adjust has a pointer receiver; the rule handles value receivers only")
			continue
		}
		var offParam *ssa.Parameter
		for _, p := range fn.Params[1:] {
			if b, ok := p.Type().(*types.Basic); ok && b.Kind() == types.Int {
				offParam = p
			}
		}
		if offParam == nil {
			ob.Und("adjust has no int parameter")
			continue
		}
		const OFF Label = 1
		t := NewTaint(fn, func(v ssa.Value) Label {
			if v == ssa.Value(offParam) {
				return OFF
			}
			return 0
		})
		t.fieldSrc = func(v ssa.Value, k int) (Label, bool) {
			if v == ssa.Value(recv) {
				return Label(1) << uint(k+1), true
			}
			return 0, false
		}
		t.Run()
		nret := 0
		bad := []string{}
		instrsOf(fn, func(in ssa.Instruction) {
			ret, ok := in.(*ssa.Return)
			if !ok || len(ret.Results) == 0 {
				return
			}
			nret++
			res := ret.Results[0]
			if mi, ok := res.(*ssa.MakeInterface); ok {
				res = mi.X
			}
			if !types.Identical(res.Type(), pf.T) {
				bad = append(bad, fmt.Sprintf("returns a value of type %s, not the relocated %s", res.Type(), pf.T.Obj().Name()))
				return
			}
			l := t.FieldLabel(res, pf.Field)
			if isRefType(pf.T.Underlying().(*types.Struct).Field(pf.Field).Type()) {
				// contents of the referenced object
				if u, ok := res.(*ssa.UnOp); ok {
					if a, ok := u.X.(*ssa.Alloc); ok {
						l |= t.loc[locKey{a, pf.Field}]
					}
				}
			}
			if l&OFF == 0 {
				bad = append(bad, fmt.Sprintf("field %s of the returned instruction does not depend on the offset parameter [%s]", pf.Name, c.pos(ret.Pos())))
			}
			if l&(Label(1)<<uint(pf.Field+1)) == 0 {
				bad = append(bad, fmt.Sprintf("field %s of the returned instruction does not depend on the receiver's %s [%s]", pf.Name, pf.Name, c.pos(ret.Pos())))
			}
		})
		if nret == 0 {
			ob.Und("no return found")
		} else if len(bad) > 0 {
			ob.Bad(fmt.Sprintf("%s.%s receives program counters in %s but relocation leaves it unshifted: %s", pf.T.Obj().Name(), pf.Name, strings.Join(uniq(pf.Where), ", "), strings.Join(bad, "; ")))
		} else {
			ob.OKnt(fmt.Sprintf("field is pc-carrying (set in %s); in adjust the returned field depends on both the receiver's field and the offset", strings.Join(uniq(pf.Where), ", ")))
		}
	}
}

func uniq(in []string) []string {
	seen := map[string]bool{}
	var out []string
	for _, s := range in {
		if !seen[s] {
			seen[s] = true
			out = append(out, s)
		}
	}
	return out
}

// ruleRelocationScope (C01.R4 / C13.R7): relocation by adjust() shifts every absolute pc of an instruction, so it is only sound for a
// self-contained unit generated at base 0 - the stored body of a `set ... to pattern` definition. Who-may-call rule: every call
// of SearchInstruction.adjust is made on an element of GenState.globalSubroutines[...].search.
func ruleRelocationScope(c *Ctx, rule string) {
	r := c.R
	n := 0
	for _, fn := range c.SrcFuncs("bytecode") {
		k := 0
		instrsOf(fn, func(in ssa.Instruction) {
			call, ok := in.(ssa.CallInstruction)
			if !ok {
				return
			}
			cc := call.Common()
			isAdjust := false
			var recv ssa.Value
			if cc.IsInvoke() && cc.Method.Name() == "adjust" {
				isAdjust, recv = true, cc.Value
			} else if sc := cc.StaticCallee(); sc != nil && sc.Name() == "adjust" && sc.Signature.Recv() != nil && c.isRepoFn(sc) {
				isAdjust, recv = true, cc.Args[0]
			}
			if !isAdjust {
				return
			}
			n++
			k++
			ob := r.Ob(rule, fmt.Sprintf("%s: relocation #%d is applied to a stored pattern body", fnName(fn), k), c.pos(in.Pos()))
			src := exprStr(recv)
			fromStored := false
			for _, st := range traceAddr(recv).Steps {
				if n, ok := st.Struct.(*types.Named); ok && st.Kind == "field" && st.Field == "search" && n.Obj().Name() == "GeneratedPattern" {
					fromStored = true
				}
			}
			if !fromStored {
				// a helper that relocates a slice it was given: decide at its call sites
				if prm, ok := traceAddr(recv).Root.(*ssa.Parameter); ok {
					idx := -1
					for i, p := range fn.Params {
						if p == prm {
							idx = i
						}
					}
					ncalls, okAll := 0, idx >= 0
					for _, caller := range c.SrcFuncs("bytecode") {
						for _, cl := range callsTo(caller, fn) {
							ncalls++
							stored := false
							for _, st := range traceAddr(cl.Call.Args[idx]).Steps {
								if n, ok := st.Struct.(*types.Named); ok && st.Kind == "field" && st.Field == "search" && n.Obj().Name() == "GeneratedPattern" {
									stored = true
								}
							}
							if !stored {
								okAll = false
								src = exprStr(cl.Call.Args[idx]) + " (passed by " + fnName(caller) + ")"
							}
						}
					}
					if okAll && ncalls > 0 {
						fromStored = true
						src += " (a parameter; every caller passes a stored pattern body)"
					}
				}
			}
			if fromStored {
				ob.OKnt("adjust() is called on " + src + ", a body generated at base 0 with a fresh variable scope (all of its pcs are internal)")
			} else {
				ob.Bad("adjust() is applied to " + src + ", code that was generated in place: it may contain absolute pcs that point outside the relocated range (calls to an earlier subroutine), which relocation shifts as well")
			}
		})
	}
	r.Floor(rule, "call sites of SearchInstruction.adjust", n, 1)
}

// relocatedBySwitch decides the relocation obligation of one pc-carrying field when the instruction types have no adjust methods
// but one function of the package relocates them in a type switch: func(SearchInstruction, int) SearchInstruction. In the arm
// that has asserted the field's type, the returned instruction's field must depend on both the asserted value's field and the
// int parameter; when there is no arm for the type the function hands the instruction back unchanged and the field stays
// unshifted. ok=false: no such function.
func (c *Ctx) relocatedBySwitch(pf *pcField) (verdict bool, detail string, ok bool) {
	iface := c.NamedType("bytecode", "SearchInstruction")
	if iface == nil {
		return false, "", false
	}
	for _, fn := range c.SrcFuncs("bytecode") {
		if fn.Signature.Recv() != nil || fn.Signature.Results().Len() != 1 || !types.Identical(fn.Signature.Results().At(0).Type(), iface) {
			continue
		}
		var instP, offP *ssa.Parameter
		for _, p := range fn.Params {
			if types.Identical(p.Type(), iface) {
				instP = p
			}
			if b, isB := p.Type().(*types.Basic); isB && b.Kind() == types.Int {
				offP = p
			}
		}
		if instP == nil || offP == nil {
			continue
		}
		// the values of the field's type obtained by asserting the parameter
		var asserted []ssa.Value
		nassert := 0
		instrsOf(fn, func(in ssa.Instruction) {
			ta, isTA := in.(*ssa.TypeAssert)
			if !isTA || ta.X != ssa.Value(instP) {
				return
			}
			nassert++
			if !types.Identical(ta.AssertedType, pf.T) {
				return
			}
			if !ta.CommaOk {
				asserted = append(asserted, ta)
				return
			}
			for _, ref := range *ta.Referrers() {
				if ex, isEx := ref.(*ssa.Extract); isEx && ex.Index == 0 {
					asserted = append(asserted, ex)
				}
			}
		})
		if nassert < 3 {
			continue // not a relocating switch
		}
		if len(asserted) == 0 {
			return false, fmt.Sprintf("%s has no arm for %s: such an instruction is handed back as it is", fnName(fn), pf.T.Obj().Name()), true
		}
		const OFF Label = 1
		isAsserted := map[ssa.Value]bool{}
		for _, a := range asserted {
			isAsserted[a] = true
		}
		t := NewTaint(fn, func(v ssa.Value) Label {
			if v == ssa.Value(offP) {
				return OFF
			}
			return 0
		})
		t.fieldSrc = func(v ssa.Value, k int) (Label, bool) {
			if isAsserted[v] {
				return Label(1) << uint(k+1), true
			}
			return 0, false
		}
		t.Run()
		nret := 0
		var bad []string
		instrsOf(fn, func(in ssa.Instruction) {
			ret, isRet := in.(*ssa.Return)
			if !isRet || len(ret.Results) != 1 {
				return
			}
			res := ret.Results[0]
			mi, isMI := res.(*ssa.MakeInterface)
			if !isMI || !types.Identical(mi.X.Type(), pf.T) {
				return
			}
			nret++
			l := t.FieldLabel(mi.X, pf.Field)
			if isRefType(pf.T.Underlying().(*types.Struct).Field(pf.Field).Type()) {
				if u, isU := mi.X.(*ssa.UnOp); isU {
					if a, isA := u.X.(*ssa.Alloc); isA {
						l |= t.loc[locKey{a, pf.Field}]
					}
				}
			}
			if l&OFF == 0 {
				bad = append(bad, fmt.Sprintf("field %s of the returned instruction does not depend on the offset parameter [%s]", pf.Name, c.pos(ret.Pos())))
			}
			if l&(Label(1)<<uint(pf.Field+1)) == 0 {
				bad = append(bad, fmt.Sprintf("field %s of the returned instruction does not depend on the instruction's own %s [%s]", pf.Name, pf.Name, c.pos(ret.Pos())))
			}
		})
		switch {
		case nret == 0:
			return false, fmt.Sprintf("the arm of %s for %s returns no %s", fnName(fn), pf.T.Obj().Name(), pf.T.Obj().Name()), true
		case len(bad) > 0:
			return false, strings.Join(uniq(bad), "; "), true
		default:
			return true, fmt.Sprintf("field is pc-carrying (set in %s); in the arm of %s for %s the returned field depends on both the instruction's field and the offset", strings.Join(uniq(pf.Where), ", "), fnName(fn), pf.T.Obj().Name()), true
		}
	}
	return false, "", false
}
