package main

// C11 (evaluator table, coercions, precedence, unary) and C12 (checker table, statement rules, checker always run).

import (
	"fmt"
	"go/constant"
	"go/token"
	"go/types"
	"os"
	"path/filepath"
	"regexp"
	"sort"
	"strings"

	"golang.org/x/tools/go/ssa"
)

// ---------------------------------------------------------------------------------------------
// the documented table (oracle), parsed from /repo/docs/language/LanguageDetails.md on every run

type docRow struct {
	LHS, Op, RHS, Res  string // types: string/number/bool; LHS "" for unary
	LCoerced, RCoerced bool
}

var docOps = map[string]string{"+": "PLUS", "-": "MINUS", "*": "MULT", "/": "DIV", "%": "MOD", "==": "DEQUAL", "!=": "NEQUAL",
	"<": "LESS", ">": "GREATER", "<=": "LESSEQ", ">=": "GREATEREQ", "and": "AND", "or": "OR", "head": "HEAD", "tail": "TAIL", "not": "NOT"}

func (c *Ctx) parseDocTable() ([]docRow, string) {
	b, err := os.ReadFile(filepath.Join(c.Repo, "docs", "language", "LanguageDetails.md"))
	if err != nil {
		return nil, err.Error()
	}
	lines := strings.Split(string(b), "\n")
	var rows []docRow
	in := false
	clean := regexp.MustCompile(`[*_\s]`)
	for _, l := range lines {
		if strings.Contains(l, "LH Operand") && strings.Contains(l, "Operator") {
			in = true
			continue
		}
		if !in {
			continue
		}
		if !strings.HasPrefix(strings.TrimSpace(l), "|") {
			if len(rows) > 0 {
				break
			}
			continue
		}
		cells := strings.Split(strings.Trim(strings.TrimSpace(l), "|"), "|")
		if len(cells) != 4 || strings.Contains(cells[0], "---") {
			continue
		}
		r := docRow{
			LHS: clean.ReplaceAllString(cells[0], ""), Op: strings.TrimSpace(cells[1]),
			RHS: clean.ReplaceAllString(cells[2], ""), Res: clean.ReplaceAllString(cells[3], ""),
			LCoerced: strings.Contains(cells[0], "_"), RCoerced: strings.Contains(cells[2], "_"),
		}
		if _, ok := docOps[r.Op]; !ok {
			return nil, "unknown operator in documentation table: " + r.Op
		}
		rows = append(rows, r)
	}
	if len(rows) == 0 {
		return nil, "Type Coersion table not found"
	}
	return rows, ""
}

var ptOf = map[string]string{"string": "PTSTRING", "number": "PTNUMBER", "bool": "PTBOOLEAN"}

// expectedBinary gives the documented result type (PT constant name) for a binary cell, or "" when the cell is not documented.
// Interpretation (DESIGN C11.R1): a row whose left operand is "coerced number" denotes string-on-the-left with a number on the right.
func expectedBinary(rows []docRow, l, op, r string) string {
	for _, row := range rows {
		if row.LHS == "" || docOps[row.Op] != op {
			continue
		}
		if !row.LCoerced && ptOf[row.LHS] == l && row.RCoerced {
			return ptOf[row.Res]
		}
	}
	for _, row := range rows {
		if row.LHS == "" || docOps[row.Op] != op {
			continue
		}
		if row.LCoerced && row.LHS == "number" && l == "PTSTRING" && ptOf[row.RHS] == r {
			return ptOf[row.Res]
		}
	}
	return ""
}

func expectedUnary(rows []docRow, op, t string) string {
	for _, row := range rows {
		if row.LHS == "" && docOps[row.Op] == op && ptOf[row.RHS] == t {
			return ptOf[row.Res]
		}
	}
	return ""
}

// ---------------------------------------------------------------------------------------------
// constants and helpers

func (c *Ctx) constByName(pkg, name string) *types.Const {
	p := c.Pkgs[pkg]
	if p == nil {
		return nil
	}
	k, _ := p.Types.Scope().Lookup(name).(*types.Const)
	return k
}

func (c *Ctx) pconst(pkg, name string) PVal {
	k := c.constByName(pkg, name)
	if k == nil {
		return PTop{"missing constant " + pkg + "." + name}
	}
	return PConst{k.Val(), k.Type()}
}

const tokenEQL = token.EQL

func structFieldIndex(t types.Type, name string) int {
	s, ok := deref(t).Underlying().(*types.Struct)
	if !ok {
		return -1
	}
	for i := 0; i < s.NumFields(); i++ {
		if s.Field(i).Name() == name {
			return i
		}
	}
	return -1
}

func pfield(v PVal, name string) PVal {
	s, ok := v.(PStruct)
	if !ok {
		return PTop{"not a struct"}
	}
	i := structFieldIndex(s.T, name)
	if i < 0 {
		return PTop{"no field " + name}
	}
	return s.Fields[i]
}

func pwith(v PVal, name string, nv PVal) PVal {
	s := v.(PStruct)
	i := structFieldIndex(s.T, name)
	fs := append([]PVal{}, s.Fields...)
	fs[i] = nv
	return PStruct{s.T, fs}
}

func (c *Ctx) repoInterp(fn *ssa.Function) bool { return c.isRepoFn(fn) }

var binOps = []string{"PLUS", "MINUS", "MULT", "DIV", "MOD", "DEQUAL", "NEQUAL", "LESS", "GREATER", "LESSEQ", "GREATEREQ", "AND", "OR"}
var valTypes = []string{"PTSTRING", "PTNUMBER", "PTBOOLEAN"}

// ---------------------------------------------------------------------------------------------
// the checker's table, extracted by partial evaluation

type checkerTables struct {
	binary map[string]string // "L|op|R" -> result PT name
	unary  map[string]string // "op|T" -> result
	err    string
}

func (c *Ctx) ptName(v PVal) string {
	k, ok := v.(PConst)
	if !ok || k.V == nil {
		return "?" + pstring(v)
	}
	p := c.Pkgs["bytecode"].Types.Scope()
	for _, n := range p.Names() {
		if cst, ok := p.Lookup(n).(*types.Const); ok && cst.Type().String() == modRoot+"/libvore/bytecode.ProcessType" && constant.Compare(cst.Val(), tokenEQL, k.V) {
			return n
		}
	}
	return k.V.ExactString()
}

func (c *Ctx) extractCheckerTables() *checkerTables {
	t := &checkerTables{binary: map[string]string{}, unary: map[string]string{}}
	fnB, fnU := c.Fn("bytecode", "checkBinaryExpr"), c.Fn("bytecode", "checkUnaryExpr")
	chk := c.Fn("bytecode", "checkExpression")
	infoT := c.NamedType("bytecode", "ProcessTypeInfo")
	binT := c.NamedType("ast", "AstProcessBinaryExpression")
	unT := c.NamedType("ast", "AstProcessUnaryExpression")
	if fnB == nil || fnU == nil || chk == nil || infoT == nil || binT == nil || unT == nil {
		t.err = "anchor missing: bytecode.checkBinaryExpr/checkUnaryExpr/checkExpression, ProcessTypeInfo or the AST expression types"
		return t
	}
	mkInfo := func() PVal {
		v := pzero(infoT)
		v = pwith(v, "currentType", c.pconst("bytecode", "PTOK"))
		v = pwith(v, "environment", PSym{"env"})
		return v
	}
	types4 := append([]string{}, valTypes...)
	types4 = append(types4, "PTERROR")
	run := func(fn *ssa.Function, node PVal, operandTag map[string]string) (string, string) {
		pe := &PEval{Interpret: c.repoInterp}
		pe.Hook = func(pe *PEval, cc *ssa.CallCommon, args []PVal) (PVal, bool) {
			if cc.StaticCallee() == chk && len(args) == 2 {
				// which operand? the first argument is the address of a field of the node
				which := "?"
				if p, ok := args[0].(PPtr); ok && len(p.Path) == 1 {
					if s, ok := p.Obj.Val.(PStruct); ok {
						which = fieldName(s.T, p.Path[0])
					}
				}
				tag, ok := operandTag[which]
				if !ok {
					return PTop{"checkExpression on unexpected operand " + which}, true
				}
				res := pwith(args[1], "currentType", c.pconst("bytecode", tag))
				if tag == "PTERROR" {
					res = pwith(res, "errorMessage", PSym{"error from " + which})
				}
				return res, true
			}
			return nil, false
		}
		res := pe.Run(fn, []PVal{PPtr{&PObj{node}, nil}, mkInfo()})
		if res.Err != "" {
			return "", res.Err
		}
		if res.Panic {
			return "PANIC", ""
		}
		if len(res.Results) != 1 {
			return "", "unexpected result count"
		}
		return c.ptName(pfield(res.Results[0], "currentType")), ""
	}
	for _, op := range binOps {
		for _, l := range types4 {
			for _, r := range types4 {
				node := pzero(binT)
				node = pwith(node, "Op", c.pconst("ast", op))
				node = pwith(node, "Lhs", PSym{"lhs"})
				node = pwith(node, "Rhs", PSym{"rhs"})
				res, err := run(fnB, node, map[string]string{"Lhs": l, "Rhs": r})
				if err != "" {
					t.err = fmt.Sprintf("checkBinaryExpr at (%s,%s,%s): %s", l, op, r, err)
					return t
				}
				t.binary[l+"|"+op+"|"+r] = res
			}
		}
	}
	for _, op := range []string{"NOT", "HEAD", "TAIL"} {
		for _, x := range types4 {
			node := pzero(unT)
			node = pwith(node, "Op", c.pconst("ast", op))
			node = pwith(node, "Expr", PSym{"operand"})
			res, err := run(fnU, node, map[string]string{"Expr": x})
			if err != "" {
				t.err = fmt.Sprintf("checkUnaryExpr at (%s,%s): %s", op, x, err)
				return t
			}
			t.unary[op+"|"+x] = res
		}
	}
	return t
}

// ruleCheckerTable implements C12.R1: the checker's accepted set equals the documented table, both directions, and errors propagate.
func ruleCheckerTable(c *Ctx, rule string) *checkerTables {
	r := c.R
	rows, derr := c.parseDocTable()
	if derr != "" {
		r.Ob(rule, "oracle: documentation table", "").Und(derr)
		return nil
	}
	r.Floor(rule, "rows of the documented Type Coersion table", len(rows), 25)
	t := c.extractCheckerTables()
	if t.err != "" {
		r.Ob(rule, "extraction of the checker table", "").Und(t.err)
		return nil
	}
	r.Tables["checker_binary"] = t.binary
	r.Tables["checker_unary"] = t.unary
	pos := c.pos(c.Fn("bytecode", "checkBinaryExpr").Pos())
	for _, op := range binOps {
		for _, l := range append(append([]string{}, valTypes...), "PTERROR") {
			for _, rt := range append(append([]string{}, valTypes...), "PTERROR") {
				got := t.binary[l+"|"+op+"|"+rt]
				want := expectedBinary(rows, l, op, rt)
				if l == "PTERROR" || rt == "PTERROR" || want == "" {
					want = "PTERROR"
				}
				ob := r.Ob(rule, fmt.Sprintf("checkBinaryExpr cell (%s %s %s)", l, op, rt), pos)
				if got == want {
					ob.OKnt("checker result " + got + " equals the documented cell")
				} else if want == "PTERROR" {
					ob.Bad(fmt.Sprintf("the checker accepts an undocumented or ill-typed combination: result %s, documentation says error", got))
				} else {
					ob.Bad(fmt.Sprintf("the checker gives %s where the documented table gives %s", got, want))
				}
			}
		}
	}
	posU := c.pos(c.Fn("bytecode", "checkUnaryExpr").Pos())
	for _, op := range []string{"NOT", "HEAD", "TAIL"} {
		for _, x := range append(append([]string{}, valTypes...), "PTERROR") {
			got := t.unary[op+"|"+x]
			want := expectedUnary(rows, op, x)
			if want == "" {
				want = "PTERROR"
			}
			ob := r.Ob(rule, fmt.Sprintf("checkUnaryExpr cell (%s %s)", op, x), posU)
			if got == want {
				ob.OKnt("checker result " + got + " equals the documented cell")
			} else {
				ob.Bad(fmt.Sprintf("the checker gives %s where the documented table gives %s", got, want))
			}
		}
	}
	return t
}

// ---------------------------------------------------------------------------------------------
// the evaluator's table

type evalCell struct {
	Term  string
	Panic bool
	Err   string
}

func (c *Ctx) pvType(tag string) types.Type {
	switch tag {
	case "PTSTRING":
		return c.NamedType("engine", "ProcessValueString")
	case "PTNUMBER":
		return c.NamedType("engine", "ProcessValueNumber")
	case "PTBOOLEAN":
		return c.NamedType("engine", "ProcessValueBoolean")
	}
	return nil
}

// normalise combines the (at most two-level) symbolic paths of a cell into one term.
func combinePaths(paths []PPath, leaf func(PResult) (PVal, string)) (string, bool, string) {
	// returns term, panics, err
	if len(paths) == 1 {
		p := paths[0]
		if p.Res.Err != "" {
			return "", false, p.Res.Err
		}
		if p.Res.Panic {
			return "PANIC " + pstring(p.Res.PanicV), true, ""
		}
		v, e := leaf(p.Res)
		if e != "" {
			return "", false, e
		}
		return pstring(v), false, ""
	}
	// several paths: render as a decision list "if c1 then ... else ..."
	var parts []string
	anyPanic := false
	for _, p := range paths {
		if p.Res.Err != "" {
			return "", false, p.Res.Err
		}
		var conds []string
		for _, d := range p.Decisions {
			cd := canonDecision(d)
			// a decision about the dispatch itself (a table of operations that did not fold), not about the operands' values
			if strings.Contains(cd, "lookup-ok") || strings.Contains(cd, "load global") {
				return "", false, "the dispatch goes through a table that the partial evaluator cannot fold: " + cd
			}
			conds = append(conds, cd)
		}
		var ls string
		if p.Res.Panic {
			ls = "PANIC"
			anyPanic = true
		} else {
			v, e := leaf(p.Res)
			if e != "" {
				return "", false, e
			}
			ls = pstring(v)
		}
		parts = append(parts, "["+strings.Join(conds, " && ")+"] -> "+ls)
	}
	sort.Strings(parts)
	return strings.Join(parts, " ; "), anyPanic, ""
}

// canonDecision renders a symbolic branch decision with the negation folded into the comparison operator, so that
// `if err != nil {A} else {B}` and `if err == nil {B} else {A}` print the same two paths.
func canonDecision(d PDecision) string {
	if t, ok := d.Cond.(PTerm); ok && len(t.Args) == 2 && !d.Taken {
		flip := map[string]string{"==": "!=", "!=": "==", "<": ">=", ">=": "<", ">": "<=", "<=": ">"}
		if f, ok := flip[t.Op]; ok {
			return pstring(PTerm{f, t.Args})
		}
	}
	cs := pstring(d.Cond)
	if !d.Taken {
		return "!" + cs
	}
	return cs
}

func (c *Ctx) evalBinaryCell(op, l, r string) evalCell {
	fn := c.Fn("engine", "executeBinaryExpr")
	ex := c.Fn("engine", "executeExpression")
	stT := c.NamedType("engine", "ProcessState")
	binT := c.NamedType("ast", "AstProcessBinaryExpression")
	if fn == nil || ex == nil || stT == nil || binT == nil {
		return evalCell{Err: "anchor missing: engine.executeBinaryExpr/executeExpression/ProcessState"}
	}
	operand := map[string]PVal{"Lhs": PTyped{"L", c.pvType(l)}, "Rhs": PTyped{"R", c.pvType(r)}}
	mk := func() *PEval {
		pe := &PEval{Interpret: func(f *ssa.Function) bool { return c.isRepoFn(f) && f != ex }}
		pe.Hook = func(pe *PEval, cc *ssa.CallCommon, args []PVal) (PVal, bool) {
			if cc.StaticCallee() == ex && len(args) == 2 {
				if p, ok := args[0].(PPtr); ok && len(p.Path) == 1 {
					if s, ok := p.Obj.Val.(PStruct); ok {
						if v, ok := operand[fieldName(s.T, p.Path[0])]; ok {
							return pwith(args[1], "currentValue", v), true
						}
					}
				}
				return PTop{"executeExpression on unexpected operand"}, true
			}
			if cc.IsInvoke() {
				switch cc.Method.Name() {
				case "getString", "getNumber", "getBoolean":
					return PTerm{cc.Method.Name(), []PVal{args[0]}}, true
				}
			}
			return nil, false
		}
		return pe
	}
	mkArgs := func() []PVal {
		node := pzero(binT)
		node = pwith(node, "Op", c.pconst("ast", op))
		node = pwith(node, "Lhs", PSym{"lhs"})
		node = pwith(node, "Rhs", PSym{"rhs"})
		st := pzero(stT)
		st = pwith(st, "currentValue", PSym{"old"})
		st = pwith(st, "environment", PSym{"env"})
		return []PVal{PPtr{&PObj{node}, nil}, st}
	}
	paths, perr := RunPaths(mk, fn, mkArgs, 6)
	if perr != "" {
		return evalCell{Err: perr}
	}
	term, panics, err := combinePaths(paths, func(res PResult) (PVal, string) {
		if len(res.Results) != 1 {
			return nil, "unexpected result count"
		}
		return pfield(res.Results[0], "currentValue"), ""
	})
	return evalCell{Term: term, Panic: panics, Err: err}
}

var goOp = map[string]string{"PLUS": "+", "MINUS": "-", "MULT": "*", "DIV": "/", "MOD": "%", "DEQUAL": "==", "NEQUAL": "!=",
	"LESS": "<", "GREATER": ">", "LESSEQ": "<=", "GREATEREQ": ">="}

// expectedEvalTerm is the documented meaning of a cell, written in the term language of the partial evaluator.
func expectedEvalTerm(l, op, resT string, coercedNumberRow bool, rt string) []string {
	acc := map[string]string{"PTSTRING": "getString", "PTNUMBER": "getNumber", "PTBOOLEAN": "getBoolean"}[l]
	if coercedNumberRow {
		acc = "getNumber"
	}
	ctor := map[string]string{"PTSTRING": "engine.ProcessValueString", "PTNUMBER": "engine.ProcessValueNumber", "PTBOOLEAN": "engine.ProcessValueBoolean"}[resT]
	switch op {
	case "AND":
		return []string{fmt.Sprintf("[!%s(L)] -> %s{false} ; [%s(L)] -> %s{%s(R)}", acc, ctor, acc, ctor, acc)}
	case "OR":
		return []string{fmt.Sprintf("[!%s(L)] -> %s{%s(R)} ; [%s(L)] -> %s{true}", acc, ctor, acc, acc, ctor)}
	}
	if l == "PTBOOLEAN" && (op == "LESS" || op == "GREATER" || op == "LESSEQ" || op == "GREATEREQ") {
		// booleans are ordered as 0 and 1 (the documented bool->number coercion); the right operand is coerced to the left
		// operand's type first, so what is ordered is its truth value, not its number: true < 2 is true < true
		want := []string{fmt.Sprintf("[!getBoolean(R)] -> %s{(getNumber(L) %s 0)} ; [getBoolean(R)] -> %s{(getNumber(L) %s 1)}", ctor, goOp[op], ctor, goOp[op])}
		if rt == "PTBOOLEAN" {
			// for a right operand that is a boolean its number is its truth value
			want = append(want, fmt.Sprintf("%s{(getNumber(L) %s getNumber(R))}", ctor, goOp[op]))
		}
		return want
	}
	return []string{fmt.Sprintf("%s{(%s(L) %s %s(R))}", ctor, acc, goOp[op], acc)}
}

// ruleEvaluatorTable implements C11.R1 (and reports the cells for C12.R2).
func ruleEvaluatorTable(c *Ctx, rule string) {
	r := c.R
	rows, derr := c.parseDocTable()
	if derr != "" {
		r.Ob(rule, "oracle: documentation table", "").Und(derr)
		return
	}
	r.Floor(rule, "rows of the documented Type Coersion table", len(rows), 25)
	fn := c.Fn("engine", "executeBinaryExpr")
	if fn == nil {
		r.Ob(rule, "anchor engine.executeBinaryExpr", "").Und("not found")
		return
	}
	pos := c.pos(fn.Pos())
	table := map[string]string{}
	for _, row := range rows {
		if row.LHS == "" {
			continue
		}
		op := docOps[row.Op]
		var ls, rs []string
		coerced := false
		if row.LCoerced {
			ls, rs, coerced = []string{"PTSTRING"}, []string{ptOf[row.RHS]}, true
		} else {
			ls, rs = []string{ptOf[row.LHS]}, valTypes
		}
		for _, l := range ls {
			for _, rt := range rs {
				cell := c.evalBinaryCell(op, l, rt)
				ob := r.Ob(rule, fmt.Sprintf("executeBinaryExpr cell (%s %s %s)", l, op, rt), pos)
				if cell.Err != "" {
					ob.Und("cell could not be extracted: " + cell.Err)
					continue
				}
				table[l+"|"+op+"|"+rt] = cell.Term
				want := expectedEvalTerm(l, op, ptOf[row.Res], coerced, rt)
				match := false
				for _, w := range want {
					if cell.Term == w {
						match = true
					}
				}
				if match {
					ob.OKnt("computes " + cell.Term + " as documented (`" + strings.TrimSpace(row.LHS+" "+row.Op+" "+row.RHS) + " -> " + row.Res + "`)")
				} else {
					ob.Bad(fmt.Sprintf("computes %s; the documented table (`%s %s %s -> %s`, operands coerced to the left operand's type) requires %s",
						cell.Term, row.LHS, row.Op, row.RHS, row.Res, strings.Join(want, " or ")))
				}
			}
		}
	}
	r.Tables["evaluator_binary"] = table
}

// ruleCheckerSubsetEvaluator implements C12.R2 / C09.R2: every cell the checker accepts has a non-panicking leaf in the evaluator.
func ruleCheckerSubsetEvaluator(c *Ctx, rule string, t *checkerTables) {
	r := c.R
	if t == nil {
		t = c.extractCheckerTables()
	}
	if t.err != "" {
		r.Ob(rule, "extraction of the checker table", "").Und(t.err)
		return
	}
	fn := c.Fn("engine", "executeBinaryExpr")
	if fn == nil {
		r.Ob(rule, "anchor engine.executeBinaryExpr", "").Und("not found")
		return
	}
	n := 0
	for _, k := range sortedKeys(t.binary) {
		res := t.binary[k]
		if res == "PTERROR" {
			continue
		}
		p := strings.Split(k, "|")
		if p[0] == "PTERROR" || p[2] == "PTERROR" {
			continue
		}
		n++
		cell := c.evalBinaryCell(p[1], p[0], p[2])
		ob := r.Ob(rule, fmt.Sprintf("accepted cell (%s %s %s) is implemented by the evaluator", p[0], p[1], p[2]), c.pos(fn.Pos()))
		switch {
		case cell.Err != "":
			ob.Und(cell.Err)
		case cell.Panic:
			ob.Bad("the checker accepts this combination (result " + res + ") but the evaluator reaches a panic: " + cell.Term)
		default:
			// result constructor must have the type the checker promised
			ctor := map[string]string{"PTSTRING": "engine.ProcessValueString{", "PTNUMBER": "engine.ProcessValueNumber{", "PTBOOLEAN": "engine.ProcessValueBoolean{"}[res]
			if strings.Contains(cell.Term, ctor) {
				ob.OKnt("evaluator leaf: " + cell.Term)
			} else {
				ob.Bad(fmt.Sprintf("the checker types this cell as %s but the evaluator builds %s", res, cell.Term))
			}
		}
	}
	r.Floor(rule, "cells accepted by the checker", n, 40)
	// unary
	fu := c.Fn("engine", "executeUnaryExpression")
	for _, k := range sortedKeys(t.unary) {
		if t.unary[k] == "PTERROR" {
			continue
		}
		p := strings.Split(k, "|")
		term, panics, err := c.evalUnaryCell(p[0], p[1])
		ob := r.Ob(rule, fmt.Sprintf("accepted unary cell (%s %s) is implemented by the evaluator", p[0], p[1]), c.pos(fu.Pos()))
		switch {
		case err != "":
			ob.Und(err)
		case panics:
			ob.Bad("accepted by the checker but the evaluator can panic: " + term)
		default:
			ob.OKnt("evaluator leaf: " + term)
		}
	}
}

func (c *Ctx) evalUnaryCell(op, x string) (string, bool, string) {
	fn := c.Fn("engine", "executeUnaryExpression")
	ex := c.Fn("engine", "executeExpression")
	stT := c.NamedType("engine", "ProcessState")
	unT := c.NamedType("ast", "AstProcessUnaryExpression")
	if fn == nil || ex == nil || stT == nil || unT == nil {
		return "", false, "anchor missing: engine.executeUnaryExpression"
	}
	mk := func() *PEval {
		pe := &PEval{Interpret: func(f *ssa.Function) bool { return c.isRepoFn(f) && f != ex }}
		pe.Hook = func(pe *PEval, cc *ssa.CallCommon, args []PVal) (PVal, bool) {
			if cc.StaticCallee() == ex && len(args) == 2 {
				return pwith(args[1], "currentValue", PTyped{"X", c.pvType(x)}), true
			}
			if cc.IsInvoke() {
				switch cc.Method.Name() {
				case "getString", "getNumber", "getBoolean":
					return PTerm{cc.Method.Name(), []PVal{args[0]}}, true
				}
			}
			return nil, false
		}
		return pe
	}
	mkArgs := func() []PVal {
		node := pzero(unT)
		node = pwith(node, "Op", c.pconst("ast", op))
		node = pwith(node, "Expr", PSym{"operand"})
		st := pzero(stT)
		st = pwith(st, "currentValue", PSym{"old"})
		return []PVal{PPtr{&PObj{node}, nil}, st}
	}
	paths, perr := RunPaths(mk, fn, mkArgs, 6)
	if perr != "" {
		return "", false, perr
	}
	return combinePaths(paths, func(res PResult) (PVal, string) {
		if len(res.Results) != 1 {
			return nil, "unexpected result count"
		}
		return pfield(res.Results[0], "currentValue"), ""
	})
}

// ruleUnaryTable implements C11.R4.
func ruleUnaryTable(c *Ctx, rule string) {
	r := c.R
	fu := c.Fn("engine", "executeUnaryExpression")
	if fu == nil {
		r.Ob(rule, "anchor engine.executeUnaryExpression", "").Und("not found")
		return
	}
	pos := c.pos(fu.Pos())
	str := func(guard, rest string) string {
		parts := []string{"[" + guard + `] -> engine.ProcessValueString{""}`, "[" + negGuard(guard) + "] -> engine.ProcessValueString{" + rest + "}"}
		sort.Strings(parts)
		return strings.Join(parts, " ; ")
	}
	L := "len(getString(X))"
	want := map[string][]string{
		"NOT|PTBOOLEAN": {"engine.ProcessValueBoolean{!(getBoolean(X))}"},
		"HEAD|PTSTRING": {
			str("("+L+" <= 0)", "slice(getString(X), 0, 1)"), str("("+L+" < 1)", "slice(getString(X), 0, 1)"), str("("+L+" == 0)", "slice(getString(X), 0, 1)"),
		},
		"TAIL|PTSTRING": {
			str("("+L+" <= 1)", "slice(getString(X), 1, nil)"), str("("+L+" <= 0)", "slice(getString(X), 1, nil)"), str("("+L+" < 1)", "slice(getString(X), 1, nil)"),
			str("("+L+" < 2)", "slice(getString(X), 1, nil)"), str("("+L+" == 0)", "slice(getString(X), 1, nil)"),
		},
	}
	for _, k := range sortedKeys(want) {
		p := strings.Split(k, "|")
		term, _, err := c.evalUnaryCell(p[0], p[1])
		ob := r.Ob(rule, fmt.Sprintf("executeUnaryExpression cell (%s %s)", p[0], p[1]), pos)
		if err != "" {
			ob.Und(err)
			continue
		}
		// a string whose length is known to be zero on that path is the empty string
		term = emptyUnderZeroLength.ReplaceAllString(term, `[(len($1) $2)] -> engine.ProcessValueString{""}`)
		{
			parts := strings.Split(term, " ; ")
			sort.Strings(parts)
			term = strings.Join(parts, " ; ")
		}
		// s[1:len(s)] is s[1:]
		term = sliceToEnd.ReplaceAllString(term, "slice($1, $2, nil)")
		ok := false
		for _, w := range want[k] {
			if term == w {
				ok = true
			}
		}
		if ok {
			ob.OKnt("computes " + term)
		} else {
			ob.Bad("computes " + term + "; documented: not negates the boolean, head/tail split off the first byte of the string (\"\" for the empty string); accepted forms: " + strings.Join(want[k], " | "))
		}
	}
}

// ruleCoercions implements C11.R2: the nine accessor methods.
func ruleCoercions(c *Ctx, rule string) {
	r := c.R
	type exp struct {
		typ, method string
		want        []string
	}
	exps := []exp{
		{"ProcessValueString", "getString", []string{"v.value"}},
		{"ProcessValueString", "getNumber", []string{"[(#1(call strconv.Atoi(v.value)) != nil)] -> 0 ; [(#1(call strconv.Atoi(v.value)) == nil)] -> #0(call strconv.Atoi(v.value))"}},
		{"ProcessValueString", "getBoolean", []string{"(len(v.value) != 0)", "(len(v.value) > 0)", "(v.value != \"\")"}},
		{"ProcessValueNumber", "getString", []string{"call strconv.Itoa(v.value)"}},
		{"ProcessValueNumber", "getNumber", []string{"v.value"}},
		{"ProcessValueNumber", "getBoolean", []string{"(v.value != 0)"}},
		{"ProcessValueBoolean", "getString", []string{"[!v.value] -> \"false\" ; [v.value] -> \"true\"", "call strconv.FormatBool(v.value)"}},
		{"ProcessValueBoolean", "getNumber", []string{"[!v.value] -> 0 ; [v.value] -> 1"}},
		{"ProcessValueBoolean", "getBoolean", []string{"v.value"}},
	}
	for _, e := range exps {
		fn := c.Method("engine", e.typ, e.method)
		ob := r.Ob(rule, "coercion engine."+e.typ+"."+e.method, "")
		if fn == nil {
			ob.Und("method not found")
			continue
		}
		ob.Pos = c.pos(fn.Pos())
		// helpers of the repository that a coercion goes through (booleanAsNumber(v.value)) are evaluated, not left as calls
		mk := func() *PEval { return &PEval{Interpret: c.repoInterp} }
		recvT := c.NamedType("engine", e.typ)
		paths, perr := RunPaths(mk, fn, func() []PVal { return []PVal{PStruct{recvT, []PVal{PSym{"v.value"}}}} }, 6)
		if perr != "" {
			ob.Und(perr)
			continue
		}
		term, _, err := combinePaths(paths, func(res PResult) (PVal, string) {
			if len(res.Results) != 1 {
				return nil, "unexpected result count"
			}
			return res.Results[0], ""
		})
		if err != "" {
			ob.Und(err)
			continue
		}
		ok := false
		for _, w := range e.want {
			if term == w {
				ok = true
			}
		}
		if ok {
			ob.OKnt("computes " + term)
		} else {
			ob.Bad("computes " + term + "; the documented coercion is " + strings.Join(e.want, " | "))
		}
	}
}

// negGuard flips the comparison operator of a rendered guard "(a OP b)".
func negGuard(g string) string {
	for _, p := range [][2]string{{" <= ", " > "}, {" >= ", " < "}, {" == ", " != "}, {" != ", " == "}, {" < ", " >= "}, {" > ", " <= "}} {
		if strings.Contains(g, p[0]) {
			return strings.Replace(g, p[0], p[1], 1)
		}
	}
	return "!" + g
}

var emptyUnderZeroLength = regexp.MustCompile(`\[\(len\((getString\(X\))\) (<= 0|< 1|== 0)\)\] -> engine\.ProcessValueString\{getString\(X\)\}`)

var sliceToEnd = regexp.MustCompile(`slice\((getString\(X\)), (\d+), len\(getString\(X\)\)\)`)
