package main

import (
	"fmt"
	"go/constant"
	"go/token"
	"go/types"
	"sort"
	"strings"

	"golang.org/x/tools/go/ssa"
)

// dataDepsMem: dataDeps that also follows values through local memory (a store of a dependent value makes the allocation it is
// stored into dependent, hence every load from it: composite literals, spilled locals).
func dataDepsMem(fn *ssa.Function, src map[ssa.Value]bool) map[ssa.Value]bool {
	out := map[ssa.Value]bool{}
	for v := range src {
		out[v] = true
	}
	changed := true
	for changed {
		changed = false
		instrsOf(fn, func(in ssa.Instruction) {
			if st, ok := in.(*ssa.Store); ok && out[st.Val] {
				if a, ok := traceAddr(st.Addr).Root.(*ssa.Alloc); ok && !out[a] {
					out[a] = true
					changed = true
				}
				return
			}
			v, ok := in.(ssa.Value)
			if !ok || out[v] {
				return
			}
			for _, op := range in.Operands(nil) {
				if *op != nil && out[*op] {
					out[v] = true
					changed = true
					return
				}
			}
		})
	}
	return out
}

// ---------------------------------------------------------------------------------------------
// C03.R7 / C04.R6: the number of a match is the scan's count of matches found so far, plus one.
//
// The counter is identified on its own (the loop-carried integer of findMatches that the loop bound compares with an expression over
// the window parameters), so a MakeMatch argument that is not derived from it is a violation rather than a lost anchor.
func ruleMatchNumberProvenance(c *Ctx, rule string) {
	r := c.R
	fn := c.Fn("engine", "findMatches")
	mm := c.Method("engine", "SearchEngineState", "MakeMatch")
	if fn == nil || mm == nil {
		r.Ob(rule, "anchor engine.findMatches / MakeMatch", "").Und("not found")
		return
	}
	params := map[ssa.Value]bool{}
	for _, p := range fn.Params {
		if b, ok := p.Type().Underlying().(*types.Basic); ok && b.Info()&types.IsInteger != 0 {
			params[p] = true
		}
	}
	pdeps := dataDeps(fn, params)
	var counter *ssa.Phi
	instrsOf(fn, func(in ssa.Instruction) {
		iff, ok := in.(*ssa.If)
		if !ok {
			return
		}
		b, ok := iff.Cond.(*ssa.BinOp)
		if !ok {
			return
		}
		for _, pair := range [][2]ssa.Value{{b.X, b.Y}, {b.Y, b.X}} {
			p, ok := pair[0].(*ssa.Phi)
			if !ok || !pdeps[pair[1]] || params[pair[1]] {
				continue
			}
			// stepped by one somewhere
			for _, e := range p.Edges {
				for _, lf := range phiLeaves(e, p) {
					if st, ok := lf.(*ssa.BinOp); ok && st.Op == token.ADD {
						if k, ok := constInt(st.Y); ok && k == 1 {
							counter = p
						}
					}
				}
			}
		}
	})
	if counter == nil {
		r.Ob(rule, "anchor: the match counter of findMatches", c.pos(fn.Pos())).Und("no loop-carried integer stepped by one and compared with an expression over the window parameters")
		return
	}
	cdeps := dataDeps(fn, map[ssa.Value]bool{counter: true})
	n := 0
	for _, g := range c.SrcFuncs("engine") {
		for _, call := range callsTo(g, mm) {
			n++
			ob := r.Ob(rule, fnName(g)+": MakeMatch numbers the match with the count of matches found so far + 1", c.pos(call.Pos()))
			if len(call.Call.Args) != 2 {
				ob.Und("MakeMatch does not take exactly the match number")
				continue
			}
			arg := call.Call.Args[1]
			if g != fn {
				ob.Und("MakeMatch is called outside findMatches; the number cannot be related to the scan's counter")
				continue
			}
			if !cdeps[arg] {
				ob.Bad(fmt.Sprintf("the number handed to MakeMatch (%s) does not derive from the scan's match counter %s: matches are no longer numbered by their place in the whole match sequence (window clauses renumber them, or numbers repeat)", exprStr(arg), counter.Comment))
				continue
			}
			co, k := linearOver(arg)
			if len(co) == 1 && co[counter] == 1 && k == 1 {
				ob.OKnt("MakeMatch(" + counter.Comment + " + 1)")
			} else if len(co) == 1 && co[counter] == 1 {
				ob.Bad(fmt.Sprintf("MakeMatch is called with %s %+d: numbering is not 1-based consecutive", counter.Comment, k))
			} else {
				ob.Und("the number depends on the counter but is not counter + 1: " + exprStr(arg))
			}
		}
	}
	r.Floor(rule, "MakeMatch call sites", n, 1)
}

// phiLeaves resolves v through phis other than stop.
func phiLeaves(v ssa.Value, stop *ssa.Phi) []ssa.Value {
	var out []ssa.Value
	seen := map[ssa.Value]bool{}
	var walk func(v ssa.Value)
	walk = func(v ssa.Value) {
		if seen[v] {
			return
		}
		seen[v] = true
		if p, ok := v.(*ssa.Phi); ok && p != stop {
			for _, e := range p.Edges {
				walk(e)
			}
			return
		}
		out = append(out, v)
	}
	walk(v)
	return out
}

// C05.R10: the built-in `matchNumber` handed to replacers and transforms is the number of the match.
func ruleMatchNumberBuiltin(c *Ctx, rule string) {
	r := c.R
	mT := c.NamedType("engine", "Match")
	if mT == nil {
		r.Ob(rule, "anchor engine.Match", "").Und("not found")
		return
	}
	isNumLoad := func(v ssa.Value) bool {
		switch x := v.(type) {
		case *ssa.Field:
			return fieldName(x.X.Type(), x.Field) == "MatchNumber" && types.Identical(x.X.Type(), mT)
		case *ssa.UnOp:
			if fa, ok := x.X.(*ssa.FieldAddr); ok && x.Op == token.MUL {
				return fieldName(deref(fa.X.Type()), fa.Field) == "MatchNumber" && types.Identical(deref(fa.X.Type()), mT)
			}
		}
		return false
	}
	n, tables := 0, 0
	for _, fn := range c.SrcFuncs("engine") {
		src := map[ssa.Value]bool{}
		instrsOf(fn, func(in ssa.Instruction) {
			if v, ok := in.(ssa.Value); ok && isNumLoad(v) {
				src[v] = true
			}
		})
		var deps map[ssa.Value]bool
		check := func(pos token.Pos, val ssa.Value, how string) {
			n++
			ob := r.Ob(rule, fnName(fn)+": `matchNumber` is bound to the match's MatchNumber ("+how+")", c.pos(pos))
			if deps == nil {
				deps = dataDepsMem(fn, src)
			}
			if len(src) > 0 && deps[val] {
				ob.OKnt("the bound value derives from Match.MatchNumber")
			} else {
				ob.Bad("the value bound to `matchNumber` (" + exprStr(val) + ") does not derive from Match.MatchNumber: the replacer/transform sees a number that is not the one of its match (windows that drop leading matches shift it)")
			}
		}
		instrsOf(fn, func(in ssa.Instruction) {
			switch x := in.(type) {
			case *ssa.MapUpdate:
				if k, ok := x.Key.(*ssa.Const); ok && k.Value != nil && k.Value.ExactString() == `"matchNumber"` {
					check(x.Pos(), x.Value, "environment entry")
					if mt, ok := x.Map.Type().Underlying().(*types.Map); ok {
						if nt, ok := mt.Elem().(*types.Named); ok && nt.Obj().Pkg() != nil && nt.Obj().Pkg().Name() == "engine" {
							tables++
						}
					}
				}
			case *ssa.Call:
				sc := x.Call.StaticCallee()
				if sc == nil || !c.isRepoFn(sc) || len(x.Call.Args) < 3 {
					return
				}
				if k, ok := x.Call.Args[1].(*ssa.Const); ok && k.Value != nil && k.Value.ExactString() == `"matchNumber"` {
					check(x.Pos(), x.Call.Args[2], "call to "+sc.Name())
					tables++
				}
			}
		})
	}
	r.Floor(rule, "bindings of matchNumber", n, 2)
	// the two tables process code and with-lists read: the replacer's variables and the environment of a transform
	r.Floor(rule, "bindings of matchNumber in the tables that replacers and transforms read", tables, 2)
}

// ---------------------------------------------------------------------------------------------
// C08.R11 / C19.R2: every Lock is released on every path out of the function.
//
// Typestate per mutex and function over the CFG: {held, unlock deferred}. States are kept per path for the branch conditions that a
// Lock/Unlock call is control-dependent on, so `if c { Lock }` ... `if c { Unlock }` pairs up. A return (or falling off the end)
// with the mutex held and no deferred unlock is a violation: the next Compile blocks for ever.
func ruleLocksReleased(c *Ctx, rule string, pkgs []string) {
	r := c.R
	isMutexMethod := func(sc *ssa.Function, names ...string) bool {
		if sc == nil || sc.Pkg == nil || sc.Pkg.Pkg.Path() != "sync" {
			return false
		}
		for _, n := range names {
			if sc.Name() == n {
				return true
			}
		}
		return false
	}
	// wrappers: a function that only locks a mutex (and returns with it held) or only unlocks it acts as that event at its call sites
	lockWrap, unlockWrap := map[*ssa.Function]string{}, map[*ssa.Function]string{}
	for _, pk := range pkgs {
		for _, fn := range c.SrcFuncs(pk) {
			locks, unlocks := map[string]bool{}, map[string]bool{}
			instrsOf(fn, func(in ssa.Instruction) {
				var cc *ssa.CallCommon
				switch x := in.(type) {
				case *ssa.Call:
					cc = &x.Call
				case *ssa.Defer:
					cc = &x.Call
				}
				if cc == nil || len(cc.Args) == 0 {
					return
				}
				if isMutexMethod(cc.StaticCallee(), "Lock", "RLock") {
					locks[exprStr(cc.Args[0])] = true
				}
				if isMutexMethod(cc.StaticCallee(), "Unlock", "RUnlock") {
					unlocks[exprStr(cc.Args[0])] = true
				}
			})
			if len(locks) == 1 && len(unlocks) == 0 {
				for k := range locks {
					lockWrap[fn] = k
				}
			}
			if len(unlocks) == 1 && len(locks) == 0 {
				for k := range unlocks {
					unlockWrap[fn] = k
				}
			}
		}
	}
	n := 0
	for _, pk := range pkgs {
		for _, fn := range c.SrcFuncs(pk) {
			if _, isWrap := lockWrap[fn]; isWrap {
				continue // returns with the mutex held on purpose: its callers carry the obligation
			}
			// mutexes locked in fn, by rendered receiver
			type ev struct {
				in   ssa.Instruction
				kind string // lock, unlock, defer-unlock
			}
			events := map[string][]ev{}
			instrsOf(fn, func(in ssa.Instruction) {
				switch x := in.(type) {
				case *ssa.Call:
					if mu, ok := lockWrap[x.Call.StaticCallee()]; ok {
						events[mu] = append(events[mu], ev{in, "lock"})
					}
					if mu, ok := unlockWrap[x.Call.StaticCallee()]; ok {
						events[mu] = append(events[mu], ev{in, "unlock"})
					}
				case *ssa.Defer:
					if mu, ok := unlockWrap[x.Call.StaticCallee()]; ok {
						events[mu] = append(events[mu], ev{in, "defer-unlock"})
					}
					// defer release() where release is what a lock wrapper handed back
					if rc, ok := x.Call.Value.(*ssa.Call); ok {
						if mu, ok := lockWrap[rc.Call.StaticCallee()]; ok {
							events[mu] = append(events[mu], ev{in, "defer-unlock"})
						}
					}
				}
				if x, ok := in.(*ssa.Call); ok {
					if rc, ok := x.Call.Value.(*ssa.Call); ok {
						if mu, ok := lockWrap[rc.Call.StaticCallee()]; ok {
							events[mu] = append(events[mu], ev{in, "unlock"})
						}
					}
				}
				switch x := in.(type) {
				case *ssa.Call:
					sc := x.Call.StaticCallee()
					if isMutexMethod(sc, "Lock", "RLock") && len(x.Call.Args) > 0 {
						events[exprStr(x.Call.Args[0])] = append(events[exprStr(x.Call.Args[0])], ev{in, "lock"})
					}
					if isMutexMethod(sc, "Unlock", "RUnlock") && len(x.Call.Args) > 0 {
						events[exprStr(x.Call.Args[0])] = append(events[exprStr(x.Call.Args[0])], ev{in, "unlock"})
					}
				case *ssa.Defer:
					sc := x.Call.StaticCallee()
					if isMutexMethod(sc, "Unlock", "RUnlock") && len(x.Call.Args) > 0 {
						events[exprStr(x.Call.Args[0])] = append(events[exprStr(x.Call.Args[0])], ev{in, "defer-unlock"})
					}
					// defer func() { ...; mu.Unlock() }()
					var closure *ssa.Function
					if mc, ok := x.Call.Value.(*ssa.MakeClosure); ok {
						closure, _ = mc.Fn.(*ssa.Function)
					} else if f, ok := x.Call.Value.(*ssa.Function); ok && f.Parent() != nil {
						closure = f
					}
					if closure != nil {
						instrsOf(closure, func(in2 ssa.Instruction) {
							if c2, ok := in2.(*ssa.Call); ok && isMutexMethod(c2.Call.StaticCallee(), "Unlock", "RUnlock") && len(c2.Call.Args) > 0 {
								key := exprStr(c2.Call.Args[0])
								if _, known := events[key]; !known {
									// a captured mutex renders differently inside the closure: attribute it to the only mutex locked here
									for k := range events {
										key = k
									}
								}
								events[key] = append(events[key], ev{in, "defer-unlock"})
							}
						})
					}
				}
			})
			for _, mu := range sortedKeys(events) {
				evs := events[mu]
				hasLock := false
				evAt := map[ssa.Instruction]string{}
				relevant := map[ssa.Value]bool{}
				for _, e := range evs {
					if e.kind == "lock" {
						hasLock = true
					}
					evAt[e.in] = e.kind
					for _, l := range domConds(fn, e.in.Block()) {
						relevant[l.Cond] = true
					}
				}
				if !hasLock {
					continue
				}
				n++
				ob := r.Ob(rule, fnName(fn)+": "+mu+" is released on every path out of the function", c.pos(fn.Pos()))
				type st struct {
					held, deferred bool
					assume         string // sorted "cond=bool;" list
				}
				assumeOf := func(s string) map[string]bool {
					m := map[string]bool{}
					for _, kv := range strings.Split(s, ";") {
						if kv == "" {
							continue
						}
						i := strings.LastIndex(kv, "=")
						m[kv[:i]] = kv[i+1:] == "true"
					}
					return m
				}
				render := func(m map[string]bool) string {
					ks := sortedKeys(m)
					var sb strings.Builder
					for _, k := range ks {
						fmt.Fprintf(&sb, "%s=%t;", k, m[k])
					}
					return sb.String()
				}
				in := map[*ssa.BasicBlock]map[st]bool{fn.Blocks[0]: {st{}: true}}
				work := []*ssa.BasicBlock{fn.Blocks[0]}
				var bad []string
				steps := 0
				for len(work) > 0 && steps < 20000 {
					steps++
					b := work[len(work)-1]
					work = work[:len(work)-1]
					for s := range in[b] {
						cur := s
						for _, x := range b.Instrs {
							switch evAt[x] {
							case "lock":
								if cur.held {
									bad = append(bad, "locked again while held at "+c.pos(x.Pos()))
								}
								cur.held = true
							case "unlock":
								cur.held = false
							case "defer-unlock":
								cur.deferred = true
							}
							switch x.(type) {
							case *ssa.Return:
								if cur.held && !cur.deferred {
									p := c.pos(x.Pos())
									if p == "" {
										p = "the end of " + fn.Name()
									}
									bad = append(bad, "returns at "+p+" with the mutex held")
								}
							}
						}
						for si, succ := range b.Succs {
							nx := cur
							if iff, ok := b.Instrs[len(b.Instrs)-1].(*ssa.If); ok && relevant[iff.Cond] {
								m := assumeOf(cur.assume)
								key := fmt.Sprintf("%p", iff.Cond)
								if v, ok := m[key]; ok && v != (si == 0) {
									continue // infeasible: the same condition was decided the other way on this path
								}
								m[key] = si == 0
								nx.assume = render(m)
							}
							if in[succ] == nil {
								in[succ] = map[st]bool{}
							}
							if !in[succ][nx] {
								in[succ][nx] = true
								work = append(work, succ)
							}
						}
					}
				}
				if len(bad) == 0 {
					ob.OKnt(fmt.Sprintf("%d lock/unlock events; no return is reached with the mutex held and no deferred unlock", len(evs)))
				} else {
					sort.Strings(bad)
					ob.Bad(mu + ": " + strings.Join(uniq(bad), "; ") + " — every later call that needs the mutex blocks for ever")
				}
			}
		}
	}
	r.Floor(rule, "functions that lock a mutex", n, 1)
}

// ---------------------------------------------------------------------------------------------
// C13.R10: the address of a variable that a loop reassigns on every iteration is not kept.
//
// The modules are `go 1.19`: a range/for variable is one variable for the whole loop (go/ssa allocates it outside the loop for these
// files). Keeping `&v` (appending it, storing it in a struct, map or slice, capturing it in a goroutine or deferred closure) keeps N
// pointers to the same variable, which holds the last element when the loop is over.
func ruleLoopVarAddressNotKept(c *Ctx, rule string, pkgs []string) {
	r := c.R
	nvars := 0
	for _, pk := range pkgs {
		for _, fn := range c.SrcFuncs(pk) {
			instrsOf(fn, func(in ssa.Instruction) {
				a, ok := in.(*ssa.Alloc)
				if !ok || !a.Heap {
					return
				}
				// assigned inside a loop that does not contain the allocation
				var loop map[*ssa.BasicBlock]bool
				for _, ref := range *a.Referrers() {
					if st, ok := ref.(*ssa.Store); ok && st.Addr == ssa.Value(a) {
						if l := innermostLoop(fn, st.Block()); l != nil && !l[a.Block()] {
							loop = l
						}
					}
				}
				if loop == nil {
					return
				}
				nvars++
				how := c.pointerKept(a, loop, 0, map[ssa.Value]bool{})
				if how == "" {
					return
				}
				ob := r.Ob(rule, fnName(fn)+": the address of loop variable "+a.Comment+" is not kept", c.pos(a.Pos()))
				ob.Bad("&" + a.Comment + " " + how + ": the variable is one variable for the whole loop (go < 1.22), so every kept pointer ends up pointing at the last element")
			})
		}
	}
	ob := r.Ob(rule, "no address of a per-loop variable is kept across iterations", "")
	ob.OKnt(fmt.Sprintf("%d variables that a loop reassigns were followed through calls, closures and stores", nvars))
	r.Floor(rule, "variables reassigned by a loop whose address is taken", nvars, 10)
}

// pointerKept: v is (or contains) a pointer to a loop variable; "" when no use keeps it beyond the iteration.
func (c *Ctx) pointerKept(v ssa.Value, loop map[*ssa.BasicBlock]bool, depth int, seen map[ssa.Value]bool) string {
	if depth > 5 || seen[v] {
		return ""
	}
	seen[v] = true
	refs := v.Referrers()
	if refs == nil {
		return ""
	}
	for _, ref := range *refs {
		if loop != nil && !loop[ref.Block()] {
			continue
		}
		switch u := ref.(type) {
		case *ssa.Store:
			if u.Val != v {
				continue
			}
			if a, ok := traceAddr(u.Addr).Root.(*ssa.Alloc); ok && !a.Heap && u.Addr == ssa.Value(a) {
				// a plain local pointer variable: follow its loads
				for _, r2 := range *a.Referrers() {
					if ld, ok := r2.(*ssa.UnOp); ok && ld.Op == token.MUL {
						if how := c.pointerKept(ld, loop, depth+1, seen); how != "" {
							return how
						}
					}
				}
				continue
			}
			return "is stored into " + exprStr(u.Addr) + " at " + c.pos(u.Pos())
		case *ssa.MapUpdate:
			if u.Value == v || u.Key == v {
				return "is stored into a map at " + c.pos(u.Pos())
			}
		case *ssa.MakeInterface, *ssa.ChangeType, *ssa.Convert, *ssa.Phi, *ssa.FieldAddr, *ssa.IndexAddr, *ssa.ChangeInterface:
			if val, ok := ref.(ssa.Value); ok {
				if how := c.pointerKept(val, loop, depth+1, seen); how != "" {
					return how
				}
			}
		case *ssa.MakeClosure:
			for _, r2 := range *u.Referrers() {
				switch r2.(type) {
				case *ssa.Go:
					return "is captured by a goroutine started at " + c.pos(r2.Pos())
				case *ssa.Defer:
					return "is captured by a closure deferred at " + c.pos(r2.Pos())
				case *ssa.Store, *ssa.MapUpdate:
					return "is captured by a closure that is stored at " + c.pos(r2.Pos())
				}
			}
		case *ssa.Go:
			return "is handed to a goroutine at " + c.pos(u.Pos())
		case *ssa.Call:
			if b, ok := u.Call.Value.(*ssa.Builtin); ok {
				if b.Name() == "append" {
					return "is appended to a slice at " + c.pos(u.Pos())
				}
				continue
			}
			sc := u.Call.StaticCallee()
			if sc == nil || !c.isRepoFn(sc) || len(sc.Blocks) == 0 {
				continue
			}
			for i, a := range u.Call.Args {
				if a == v && i < len(sc.Params) {
					if how := c.pointerKept(sc.Params[i], nil, depth+1, seen); how != "" {
						return "is handed to " + fnName(sc) + " at " + c.pos(u.Pos()) + ", where it " + how
					}
				}
			}
		}
	}
	return ""
}

// ---------------------------------------------------------------------------------------------
// C20.R4: a parsed Path is not modified by asking it for its files.
func rulePathImmutable(c *Ctx, rule string) {
	r := c.R
	pT := c.NamedType("files", "Path")
	if pT == nil {
		r.Ob(rule, "anchor files.Path", "").Und("not found")
		return
	}
	n := 0
	for _, fn := range c.SrcFuncs("files") {
		instrsOf(fn, func(in ssa.Instruction) {
			st, ok := in.(*ssa.Store)
			if !ok {
				return
			}
			ch := traceAddr(st.Addr)
			if len(ch.Steps) == 0 || ch.Steps[0].Kind != "field" || ch.Steps[0].Struct == nil || !types.Identical(ch.Steps[0].Struct, pT) {
				return
			}
			n++
			ob := r.Ob(rule, fnName(fn)+": field "+ch.Steps[0].Field+" of a Path is written only while the Path is being built", c.pos(st.Pos()))
			if a, ok := ch.Root.(*ssa.Alloc); ok {
				_ = a
				ob.OKnt("the Path is a value under construction in this function")
				return
			}
			ob.Bad("the store goes through " + exprStr(ch.Root) + ", a Path the function was given: the second GetFileList on the same parsed pattern sees a different pattern")
		})
	}
	ob := r.Ob(rule, "files.Path is immutable after ParsePath", "")
	ob.OKnt(fmt.Sprintf("%d stores to Path fields, all into a Path under construction", n))
}

// C20.R5 (also C16): no byte is converted to a string as if it were a code point.
func ruleNoByteToStringConversion(c *Ctx, rule string, pkgs []string) {
	r := c.R
	n := 0
	for _, pk := range pkgs {
		for _, fn := range c.SrcFuncs(pk) {
			instrsOf(fn, func(in ssa.Instruction) {
				cv, ok := in.(*ssa.Convert)
				if !ok {
					return
				}
				fb, ok1 := cv.X.Type().Underlying().(*types.Basic)
				tb, ok2 := cv.Type().Underlying().(*types.Basic)
				if !ok1 || !ok2 || tb.Info()&types.IsString == 0 || fb.Kind() != types.Uint8 {
					return
				}
				n++
				ob := r.Ob(rule, fnName(fn)+": string(byte) conversion", c.pos(cv.Pos()))
				if k, ok := constInt(cv.X); ok && k < 0x80 {
					ob.OKnt("constant below 0x80")
					return
				}
				// guarded by a comparison with a bound <= 0x80
				for _, l := range domConds(fn, cv.Block()) {
					if b, ok := l.Cond.(*ssa.BinOp); ok && (b.X == cv.X || exprStr(b.X) == exprStr(cv.X)) {
						if k, ok := constInt(b.Y); ok && ((b.Op == token.LSS && l.Pol && k <= 0x80) || (b.Op == token.LEQ && l.Pol && k < 0x80) || (b.Op == token.GEQ && !l.Pol && k <= 0x80) || (b.Op == token.GTR && !l.Pol && k < 0x80)) {
							ob.OKnt("guarded: the byte is ASCII")
							return
						}
					}
				}
				ob.Bad("string(" + exprStr(cv.X) + ") encodes the byte as a code point: every byte >= 0x80 of a multi-byte character becomes two bytes, so non-ASCII names and texts no longer compare equal to the originals")
			})
		}
	}
	ob := r.Ob(rule, "no byte is turned into a string as a code point", "")
	ob.OKnt(fmt.Sprintf("%d string(byte) conversions examined", n))
}

// ---------------------------------------------------------------------------------------------
// C16.R8: what a string literal denotes does not depend on package-level state.
//
// The functions that build the AST node and the instruction of a literal read no package-level variable that code reachable from
// Compile writes (a parser mode left over from an earlier, failed Compile would change the meaning of later literals).
func ruleLiteralIndependentOfGlobals(c *Ctx, rule string) {
	r := c.R
	roots := c.compileRoots()
	if anyNil(roots) {
		r.Ob(rule, "anchor:Compile", "").Und("libvore.Compile/CompileFile not found")
		return
	}
	reach := c.Reachable(roots...)
	written := map[*ssa.Global]string{}
	for _, fn := range sortedFns(reach) {
		if !c.isRepoFn(fn) || fn.Name() == "init" {
			continue
		}
		instrsOf(fn, func(in ssa.Instruction) {
			switch x := in.(type) {
			case *ssa.Store:
				if g, ok := traceAddr(x.Addr).Root.(*ssa.Global); ok && c.isRepoPkg(g.Pkg.Pkg) {
					written[g] = fnName(fn)
				}
			case *ssa.MapUpdate:
				if g, ok := traceAddr(x.Map).Root.(*ssa.Global); ok && c.isRepoPkg(g.Pkg.Pkg) {
					written[g] = fnName(fn)
				}
			}
		})
	}
	litTypes := []types.Type{}
	if t := c.NamedType("ast", "AstString"); t != nil {
		litTypes = append(litTypes, t)
	}
	if t := c.NamedType("bytecode", "MatchLiteral"); t != nil {
		litTypes = append(litTypes, t)
	}
	if len(litTypes) == 0 {
		r.Ob(rule, "anchor ast.AstString / bytecode.MatchLiteral", "").Und("not found")
		return
	}
	n := 0
	for _, pk := range []string{"ast", "bytecode"} {
		for _, fn := range c.SrcFuncs(pk) {
			builds := false
			instrsOf(fn, func(in ssa.Instruction) {
				if a, ok := in.(*ssa.Alloc); ok {
					for _, t := range litTypes {
						if types.Identical(deref(a.Type()), t) {
							builds = true
						}
					}
				}
			})
			if !builds {
				continue
			}
			n++
			ob := r.Ob(rule, fnName(fn)+": builds a string literal without reading package-level state", c.pos(fn.Pos()))
			var bad []string
			instrsOf(fn, func(in ssa.Instruction) {
				if u, ok := in.(*ssa.UnOp); ok && u.Op == token.MUL {
					if g, ok := traceAddr(u.X).Root.(*ssa.Global); ok {
						if w, isW := written[g]; isW {
							bad = append(bad, fmt.Sprintf("%s (written by %s) read at %s", g.Name(), w, c.pos(u.Pos())))
						}
					}
				}
			})
			if len(bad) == 0 {
				ob.OKnt("no package-level variable that Compile writes is read here")
			} else {
				sort.Strings(bad)
				ob.Bad("the literal's node depends on " + strings.Join(uniq(bad), "; ") + ": what a literal denotes then depends on earlier Compile calls")
			}
		}
	}
	r.Floor(rule, "functions that build a string literal node", n, 2)
}

// ---------------------------------------------------------------------------------------------
// C02.R7: backtracking restores every field of the VM state that matching writes.
//
// The restore (the method BACKTRACK hands the popped checkpoint to) must assign, from the same field of the checkpoint, every field
// of the state that any other function stores to after construction. A field that Copy carries but the restore forgets keeps the
// value of the abandoned path.
func ruleRestoreComplete(c *Ctx, rule string) {
	r := c.R
	stT := c.NamedType("engine", "SearchEngineState")
	bt := c.stateMethod("BACKTRACK")
	if stT == nil || bt == nil {
		r.Ob(rule, "anchor engine.SearchEngineState / BACKTRACK", "").Und("not found")
		return
	}
	// the restore: a method of the state called by BACKTRACK with a *SearchEngineState argument
	var restore *ssa.Function
	instrsOf(bt, func(in ssa.Instruction) {
		call, ok := in.(*ssa.Call)
		if !ok {
			return
		}
		sc := call.Call.StaticCallee()
		if sc == nil || sc.Signature.Recv() == nil || len(call.Call.Args) != 2 {
			return
		}
		if types.Identical(deref(call.Call.Args[1].Type()), stT) && types.Identical(deref(call.Call.Args[0].Type()), stT) {
			restore = sc
		}
	})
	if restore == nil {
		r.Ob(rule, "anchor: the restore called by BACKTRACK", c.pos(bt.Pos())).Und("BACKTRACK hands the popped checkpoint to no method of the state")
		return
	}
	st := stT.Underlying().(*types.Struct)
	restored := map[int]string{}
	instrsOf(restore, func(in ssa.Instruction) {
		s, ok := in.(*ssa.Store)
		if !ok {
			return
		}
		if s.Addr == ssa.Value(restore.Params[0]) {
			if ld, ok := s.Val.(*ssa.UnOp); ok && ld.Op == token.MUL && ld.X == ssa.Value(restore.Params[1]) {
				for i := 0; i < st.NumFields(); i++ {
					restored[i] = "same" // *es = *checkpoint
				}
			}
			return
		}
		fa, ok := s.Addr.(*ssa.FieldAddr)
		if !ok || fa.X != ssa.Value(restore.Params[0]) {
			return
		}
		src := "other"
		if ld, ok := s.Val.(*ssa.UnOp); ok && ld.Op == token.MUL {
			if fb, ok := ld.X.(*ssa.FieldAddr); ok && fb.X == ssa.Value(restore.Params[1]) && fb.Field == fa.Field {
				src = "same"
			}
		}
		restored[fa.Field] = src
	})
	// fields written elsewhere (through a pointer to a state that is not a struct under construction)
	writers := map[int][]string{}
	for _, fn := range c.SrcFuncs("engine") {
		if fn == restore {
			continue
		}
		instrsOf(fn, func(in ssa.Instruction) {
			s, ok := in.(*ssa.Store)
			if !ok {
				return
			}
			ch := traceAddr(s.Addr)
			if len(ch.Steps) == 0 || ch.Steps[0].Kind != "field" || ch.Steps[0].Struct == nil || !types.Identical(ch.Steps[0].Struct, stT) {
				return
			}
			if _, isAlloc := ch.Root.(*ssa.Alloc); isAlloc {
				return // a state being built (CreateState, Copy)
			}
			for i := 0; i < st.NumFields(); i++ {
				if st.Field(i).Name() == ch.Steps[0].Field {
					writers[i] = append(writers[i], fnName(fn))
				}
			}
		})
	}
	n := 0
	for i := 0; i < st.NumFields(); i++ {
		if len(writers[i]) == 0 {
			continue
		}
		n++
		ob := r.Ob(rule, fnName(restore)+": restores field "+st.Field(i).Name(), c.pos(restore.Pos()))
		switch restored[i] {
		case "same":
			ob.OKnt("assigned from the checkpoint's " + st.Field(i).Name() + "; written by " + strings.Join(uniq(writers[i]), ", "))
		case "other":
			ob.Bad("the field is assigned, but not from the same field of the checkpoint")
		default:
			ob.Bad("the field is written during matching (" + strings.Join(uniq(writers[i]), ", ") + ") but the restore used by BACKTRACK does not assign it: after backtracking the state keeps the value of the abandoned path")
		}
	}
	r.Floor(rule, "fields of the VM state written during matching", n, 5)
}

// C02.R8: a loop record's table of per-iteration bindings is indexed with that record's own iteration counter.
func ruleIterationKeyFromSameRecord(c *Ctx, rule string) {
	r := c.R
	lsT := c.NamedType("engine", "LoopState")
	if lsT == nil {
		r.Ob(rule, "anchor engine.LoopState", "").Und("not found")
		return
	}
	// base record of an expression `R.variables` / `R.iterationStep`
	recordOf := func(v ssa.Value, field string) ssa.Value {
		// v is a load of (or the address of) field `field` of a LoopState
		if u, ok := v.(*ssa.UnOp); ok && u.Op == token.MUL {
			v = u.X
		}
		if fa, ok := v.(*ssa.FieldAddr); ok && types.Identical(deref(fa.X.Type()), lsT) && fieldName(deref(fa.X.Type()), fa.Field) == field {
			return fa.X
		}
		if f, ok := v.(*ssa.Field); ok && types.Identical(f.X.Type(), lsT) && fieldName(f.X.Type(), f.Field) == field {
			return f.X
		}
		return nil
	}
	same := func(a, b ssa.Value) bool {
		if a == b {
			return true
		}
		// two calls of the same accessor on the same stack (Peek(), Peek())
		ca, ok1 := a.(*ssa.Call)
		cb, ok2 := b.(*ssa.Call)
		return ok1 && ok2 && ca.Call.StaticCallee() != nil && ca.Call.StaticCallee() == cb.Call.StaticCallee() && exprStr(a) == exprStr(b)
	}
	n := 0
	for _, fn := range c.SrcFuncs("engine") {
		instrsOf(fn, func(in ssa.Instruction) {
			call, ok := in.(*ssa.Call)
			if !ok || len(call.Call.Args) < 2 {
				return
			}
			sc := call.Call.StaticCallee()
			if sc == nil || sc.Signature.Recv() == nil || (sc.Name() != "Add" && sc.Name() != "Get") {
				return
			}
			rec := recordOf(call.Call.Args[0], "variables")
			if rec == nil {
				return
			}
			key := call.Call.Args[1]
			if _, isConst := key.(*ssa.Const); isConst {
				return // the table of a record under construction ("0")
			}
			n++
			ob := r.Ob(rule, fmt.Sprintf("%s: %s on a loop record's bindings uses that record's iteration counter", fnName(fn), sc.Name()), c.pos(call.Pos()))
			// a helper that receives record and key: the obligation is its callers'
			if kp, isParam := key.(*ssa.Parameter); isParam {
				if rp, isRecParam := rec.(*ssa.Parameter); isRecParam {
					ki, ri := -1, -1
					for i, p := range fn.Params {
						if p == kp {
							ki = i
						}
						if p == rp {
							ri = i
						}
					}
					var bad []string
					sites := 0
					for _, g := range c.SrcFuncs("engine") {
						for _, cs := range callsTo(g, fn) {
							sites++
							karg, rarg := cs.Call.Args[ki], cs.Call.Args[ri]
							conv, ok := karg.(*ssa.Call)
							if !ok || conv.Call.StaticCallee() == nil || conv.Call.StaticCallee().Name() != "Itoa" || len(conv.Call.Args) != 1 {
								bad = append(bad, "?"+c.pos(cs.Pos()))
								continue
							}
							krec := recordOf(conv.Call.Args[0], "iterationStep")
							if krec == nil || !same(krec, rarg) {
								bad = append(bad, c.pos(cs.Pos()))
							}
						}
					}
					switch {
					case sites == 0:
						ob.Und("record and key are parameters and no call site was found")
					case len(bad) == 0:
						ob.OKnt(fmt.Sprintf("record and key are parameters; at each of the %d call sites the key is the record's own counter", sites))
					default:
						undecided := false
						for _, b := range bad {
							if strings.HasPrefix(b, "?") {
								undecided = true
							}
						}
						if undecided {
							ob.Und("record and key are parameters; a call site passes a key that is not strconv.Itoa(<counter>): " + strings.Join(bad, ", "))
						} else {
							ob.Bad("record and key are parameters; the call site(s) " + strings.Join(bad, ", ") + " pass the counter of another record")
						}
					}
					return
				}
			}
			conv, ok := key.(*ssa.Call)
			if !ok || conv.Call.StaticCallee() == nil || conv.Call.StaticCallee().Name() != "Itoa" || len(conv.Call.Args) != 1 {
				ob.Und("the key is not strconv.Itoa(<counter>): " + exprStr(key))
				return
			}
			k := conv.Call.Args[0]
			krec := recordOf(k, "iterationStep")
			switch {
			case krec != nil && same(krec, rec):
				ob.OKnt("key and table belong to the same record " + exprStr(rec))
			case krec != nil:
				ob.Bad("the table of " + exprStr(rec) + " is indexed with the iteration counter of another record (" + exprStr(krec) + ")")
			default:
				if kc, ok := k.(*ssa.Call); ok && kc.Call.StaticCallee() != nil && c.isRepoFn(kc.Call.StaticCallee()) {
					ob.Bad("the table of " + exprStr(rec) + " is indexed with " + exprStr(k) + ", the counter of whatever record " + kc.Call.StaticCallee().Name() + " looks at (the top of the loop stack), not the record's own: bindings made while an inner loop runs are filed under the inner loop's iteration")
				} else {
					ob.Und("the counter is not a field of a loop record: " + exprStr(k))
				}
			}
		})
	}
	r.Floor(rule, "keyed accesses to a loop record's bindings", n, 3)
}

// ---------------------------------------------------------------------------------------------
// C08.R12 / C09.R15: an index into a fixed-size table is bounded by the table's length.
func ruleArrayIndexBounded(c *Ctx, rule string, pkgs []string) {
	r := c.R
	n := 0
	for _, pk := range pkgs {
		for _, fn := range c.SrcFuncs(pk) {
			instrsOf(fn, func(in ssa.Instruction) {
				var arr types.Type
				var idx ssa.Value
				switch x := in.(type) {
				case *ssa.IndexAddr:
					arr, idx = deref(x.X.Type()), x.Index
				case *ssa.Index:
					arr, idx = x.X.Type(), x.Index
				default:
					return
				}
				at, ok := arr.Underlying().(*types.Array)
				if !ok {
					return
				}
				if _, isConst := constInt(idx); isConst {
					return // checked by the compiler
				}
				n++
				ob := r.Ob(rule, fmt.Sprintf("%s: index into a [%d] table is below %d", fnName(fn), at.Len(), at.Len()), c.pos(in.Pos()))
				// the index type cannot exceed the table
				base := idx
				if cv, ok := base.(*ssa.Convert); ok {
					base = cv.X
				}
				if bt, ok := base.Type().Underlying().(*types.Basic); ok {
					if (bt.Kind() == types.Uint8 && at.Len() >= 256) || (bt.Kind() == types.Uint16 && at.Len() >= 65536) {
						ob.OKnt("the index type cannot reach the length")
						return
					}
				}
				if b, ok := base.(*ssa.BinOp); ok && b.Op == token.AND {
					if k, ok := constInt(b.Y); ok && k >= 0 && k < at.Len() {
						ob.OKnt("masked below the length")
						return
					}
				}
				if b, ok := base.(*ssa.BinOp); ok && b.Op == token.REM {
					if k, ok := constInt(b.Y); ok && k > 0 && k <= at.Len() {
						if ub, ok := b.X.Type().Underlying().(*types.Basic); ok && ub.Info()&types.IsUnsigned != 0 {
							ob.OKnt("reduced modulo the length")
							return
						}
					}
				}
				var seenBound []string
				okB := false
				for _, l := range domConds(fn, in.Block()) {
					bo, ok := l.Cond.(*ssa.BinOp)
					if !ok {
						continue
					}
					for _, pair := range [][3]interface{}{{bo.X, bo.Y, false}, {bo.Y, bo.X, true}} {
						x, y, flipped := pair[0].(ssa.Value), pair[1].(ssa.Value), pair[2].(bool)
						if !(x == idx || x == base || exprStr(x) == exprStr(base)) {
							continue
						}
						k, isK := constInt(y)
						if !isK {
							continue
						}
						op := bo.Op
						if flipped {
							op = map[token.Token]token.Token{token.LSS: token.GTR, token.GTR: token.LSS, token.LEQ: token.GEQ, token.GEQ: token.LEQ}[op]
						}
						if !l.Pol {
							op = map[token.Token]token.Token{token.LSS: token.GEQ, token.GEQ: token.LSS, token.GTR: token.LEQ, token.LEQ: token.GTR}[op]
						}
						switch op {
						case token.LSS:
							seenBound = append(seenBound, fmt.Sprintf("< %d", k))
							if k <= at.Len() {
								okB = true
							}
						case token.LEQ:
							seenBound = append(seenBound, fmt.Sprintf("<= %d", k))
							if k < at.Len() {
								okB = true
							}
						}
					}
				}
				switch {
				case okB:
					ob.OKnt("guarded: " + strings.Join(seenBound, ", "))
				case len(seenBound) > 0:
					ob.Bad(fmt.Sprintf("the index %s is only known to be %s but the table has %d entries: the largest admitted value indexes past the end and the program panics instead of returning an error", exprStr(idx), strings.Join(seenBound, ", "), at.Len()))
				default:
					ob.Und("no constant bound on the index " + exprStr(idx) + " dominates the access")
				}
			})
		}
	}
	ob := r.Ob(rule, "indexes into fixed-size tables are bounded", "")
	ob.OKnt(fmt.Sprintf("%d variable indexes into arrays examined", n))
}

// ---------------------------------------------------------------------------------------------
// C09.R16: every character class that the list parser accepts has a size.
//
// Three tables in three places must agree: the predicate under which parse_listable hands a token to parse_character_class, the
// token-to-class table inside parse_character_class, and AstCharacterClass.GetMaxSize, which answers -1 for the classes whose width
// is not known. A `not in` list consumes GetMaxSize bytes (EndNotIn.MaxSize); a negative amount reaches make([]byte, n) in the reader
// and panics. Each table is extracted by conditional constant propagation with the token kind (or class) fixed.
func ruleListedClassesHaveSize(c *Ctx, rule string) {
	r := c.R
	pl, pcc := c.Fn("ast", "parse_listable"), c.Fn("ast", "parse_character_class")
	gms := c.Method("ast", "AstCharacterClass", "GetMaxSize")
	ttT, ctT := c.NamedType("ast", "TokenType"), c.NamedType("ast", "AstCharacterClassType")
	if pl == nil || pcc == nil || gms == nil || ttT == nil {
		r.Ob(rule, "anchor ast.parse_listable / parse_character_class / AstCharacterClass.GetMaxSize / TokenType", "").Und("not found")
		return
	}
	ttNames, ctNames := map[string]string{}, map[string]string{}
	var ttVals []constant.Value
	if p := c.Pkgs["ast"]; p != nil {
		for _, name := range p.Types.Scope().Names() {
			if cst, ok := p.Types.Scope().Lookup(name).(*types.Const); ok {
				if types.Identical(cst.Type(), ttT) {
					ttNames[cst.Val().ExactString()] = cst.Name()
					ttVals = append(ttVals, cst.Val())
				}
				if ctT != nil && types.Identical(cst.Type(), ctT) {
					ctNames[cst.Val().ExactString()] = cst.Name()
				}
			}
		}
	}
	interp := func(fn *ssa.Function) bool {
		return fn.Pkg != nil && fn.Pkg.Pkg.Path() == modRoot+"/libvore/ast" && pureFunc(fn, 0)
	}
	// table 1: the admitting predicate
	var pred *ssa.Function
	for _, cs := range callsTo(pl, pcc) {
		for _, l := range domConds(pl, cs.Block()) {
			if call, ok := l.Cond.(*ssa.Call); ok && l.Pol {
				if sc := call.Call.StaticCallee(); sc != nil && c.isRepoFn(sc) && len(sc.Params) == 1 && types.Identical(sc.Params[0].Type(), ttT) {
					pred = sc
				}
			}
		}
	}
	ob := r.Ob(rule, "every class a list may contain has a non-negative size", c.pos(pl.Pos()))
	if pred == nil {
		ob.Und("the call to parse_character_class in parse_listable is not guarded by a predicate over the token kind")
		return
	}
	admitted := map[string]bool{}
	for _, k := range ttVals {
		w := &World{Fn: pred, Interp: interp}
		w.Run(wConst(k))
		res := wLat{}
		for _, b := range pred.Blocks {
			if !w.Reach[b] {
				continue
			}
			if ret, ok := b.Instrs[len(b.Instrs)-1].(*ssa.Return); ok && len(ret.Results) == 1 {
				l := w.get(ret.Results[0])
				if l.k == 0 {
					l = wTop
				}
				res = res.join(l)
			}
		}
		if res.k == 1 && res.v.Kind() == constant.Bool && !constant.BoolVal(res.v) {
			continue
		}
		admitted[k.ExactString()] = true
	}
	// table 2: kind of the current token -> the classes parse_character_class can answer with (further tests look at the next token)
	isCurrentKind := func(v ssa.Value) bool {
		ld, ok := v.(*ssa.UnOp)
		if !ok || ld.Op != token.MUL {
			return false
		}
		fa, ok := ld.X.(*ssa.FieldAddr)
		if !ok || fieldName(deref(fa.X.Type()), fa.Field) != "TokenType" {
			return false
		}
		tok, ok := fa.X.(*ssa.UnOp)
		if !ok {
			return false
		}
		ia, ok := tok.X.(*ssa.IndexAddr)
		return ok && len(pcc.Params) >= 2 && ia.Index == ssa.Value(pcc.Params[1])
	}
	// with the current token's kind fixed to K, the classes that a reachable store puts into the node (further tests look at the
	// next token and stay open)
	sawKind := false
	instrsOf(pcc, func(in ssa.Instruction) {
		if v, ok := in.(ssa.Value); ok && isCurrentKind(v) {
			sawKind = true
		}
	})
	if !sawKind {
		ob.Und("parse_character_class does not read the kind of tokens[token_index] directly (a cursor object?): the kind cannot be fixed")
		return
	}
	t2c := map[string]map[string]bool{}
	unknownClass := map[string]bool{}
	for _, k := range ttVals {
		kv := k
		if !admitted[kv.ExactString()] {
			continue
		}
		w := &World{Fn: pcc, Interp: interp, Seed: func(v ssa.Value) (constant.Value, bool) {
			if isCurrentKind(v) {
				return kv, true
			}
			return nil, false
		}}
		w.Run()
		for _, b := range pcc.Blocks {
			if !w.Reach[b] {
				continue
			}
			for _, in := range b.Instrs {
				st, ok := in.(*ssa.Store)
				if !ok {
					continue
				}
				fa, ok := st.Addr.(*ssa.FieldAddr)
				if !ok || fieldName(deref(fa.X.Type()), fa.Field) != "ClassType" {
					continue
				}
				l := w.get(st.Val)
				if l.k == 1 {
					if t2c[kv.ExactString()] == nil {
						t2c[kv.ExactString()] = map[string]bool{}
					}
					t2c[kv.ExactString()][l.v.ExactString()] = true
				} else {
					unknownClass[kv.ExactString()] = true
				}
			}
			// the node may also be built by a callee this function returns the result of
			if ret, ok := b.Instrs[len(b.Instrs)-1].(*ssa.Return); ok && len(ret.Results) > 0 {
				if ex, ok := ret.Results[0].(*ssa.Extract); ok {
					if call, ok := ex.Tuple.(*ssa.Call); ok && call.Call.StaticCallee() != nil && c.isRepoFn(call.Call.StaticCallee()) && !strings.Contains(call.Call.StaticCallee().Name(), "Error") {
						unknownClass[kv.ExactString()] = true
					}
				}
			}
		}
	}
	// table 3: class -> size
	sizeOf := func(class string) wLat {
		cv := constant.MakeFromLiteral(class, token.INT, 0)
		w := &World{Fn: gms, Interp: interp, Seed: func(v ssa.Value) (constant.Value, bool) {
			if f, ok := v.(*ssa.Field); ok && fieldName(f.X.Type(), f.Field) == "ClassType" {
				return cv, true
			}
			if u, ok := v.(*ssa.UnOp); ok && u.Op == token.MUL {
				if fa, ok := u.X.(*ssa.FieldAddr); ok && fieldName(deref(fa.X.Type()), fa.Field) == "ClassType" {
					return cv, true
				}
			}
			return nil, false
		}}
		w.Run()
		res := wLat{}
		for _, b := range gms.Blocks {
			if !w.Reach[b] {
				continue
			}
			if ret, ok := b.Instrs[len(b.Instrs)-1].(*ssa.Return); ok && len(ret.Results) == 1 {
				l := w.get(ret.Results[0])
				if l.k == 0 {
					l = wTop
				}
				res = res.join(l)
			}
		}
		return res
	}
	var bad, und []string
	n := 0
	for _, k := range sortedKeys(admitted) {
		if unknownClass[k] {
			und = append(und, ttNames[k]+" (class not a constant)")
		}
		classes, ok := t2c[k]
		if !ok {
			continue // parse_character_class answers this kind with an error
		}
		n++
		for _, class := range sortedKeys(classes) {
			sz := sizeOf(class)
			switch {
			case sz.k == 1 && sz.v.Kind() == constant.Int && constant.Sign(sz.v) >= 0:
			case sz.k == 1 && sz.v.Kind() == constant.Int:
				bad = append(bad, fmt.Sprintf("%s (%s, size %s)", ttNames[k], ctNames[class], sz.v.ExactString()))
			default:
				und = append(und, ttNames[k])
			}
		}
	}
	switch {
	case len(bad) > 0:
		ob.Bad(fmt.Sprintf("%s admits %s as list members, but GetMaxSize answers a negative size for them: a `not in` list made of them compiles to EndNotIn{MaxSize: -1}, the engine consumes -1 bytes and the reader's make([]byte, -1) panics", fnName(pred), strings.Join(bad, ", ")))
	case len(und) > 0:
		ob.Und("GetMaxSize does not fold to a constant for " + strings.Join(und, ", "))
	case n < 4:
		ob.Und(fmt.Sprintf("only %d admitted kinds have a class", n))
	default:
		ob.OKnt(fmt.Sprintf("%s admits %d token kinds that parse_character_class turns into a class; GetMaxSize is >= 0 for each", fnName(pred), n))
	}
}

// ---------------------------------------------------------------------------------------------
// C07.R9 / C06.R7: the readers behind files.Reader deliver full reads.
//
// files.Reader.Read/ReadAt answer "" (end of input) when the contents' Read delivers fewer bytes than asked for, after having checked
// that enough bytes exist. A short count - legal for an io.Reader - therefore silently drops text. Every implementation of
// Read([]byte) (int, error) in package files must, on each return with a nil error, return len(p): literally, under a dominating
// comparison that says so, as the result of a copy whose source is sliced to len(p) bytes, or by forwarding a library reader.
func ruleFullReads(c *Ctx, rule string) {
	r := c.R
	n := 0
	for _, fn := range c.SrcFuncs("files") {
		sig := fn.Signature
		if fn.Name() != "Read" || sig.Recv() == nil || sig.Params().Len() != 1 || sig.Results().Len() != 2 {
			continue
		}
		if sl, ok := sig.Params().At(0).Type().Underlying().(*types.Slice); !ok || !types.Identical(sl.Elem(), types.Typ[types.Byte]) {
			continue
		}
		p := fn.Params[1]
		isLenP := func(v ssa.Value) bool {
			call, ok := v.(*ssa.Call)
			if !ok {
				return false
			}
			b, ok := call.Call.Value.(*ssa.Builtin)
			return ok && b.Name() == "len" && len(call.Call.Args) == 1 && call.Call.Args[0] == ssa.Value(p)
		}
		n++
		ob := r.Ob(rule, fnName(fn)+": a read without error delivers len(p) bytes", c.pos(fn.Pos()))
		var und []string
		nret := 0
		instrsOf(fn, func(in ssa.Instruction) {
			ret, ok := in.(*ssa.Return)
			if !ok || len(ret.Results) != 2 {
				return
			}
			if k, ok := ret.Results[1].(*ssa.Const); !ok || !k.IsNil() {
				// an error value: either a failure return, or both results of a forwarded call
				if ex, ok := ret.Results[1].(*ssa.Extract); ok {
					if ex0, ok := ret.Results[0].(*ssa.Extract); ok && ex0.Tuple == ex.Tuple {
						if call, ok := ex.Tuple.(*ssa.Call); ok {
							if sc := call.Call.StaticCallee(); sc != nil && !c.isRepoFn(sc) {
								nret++
								return // forwards a library reader (strings.Reader, os.File): trusted together with the size check of files.Reader
							}
						}
					}
				}
				return
			}
			nret++
			cnt := ret.Results[0]
			if isLenP(cnt) {
				return
			}
			for _, l := range domConds(fn, ret.Block()) {
				b, ok := l.Cond.(*ssa.BinOp)
				if !ok {
					continue
				}
				isCnt := func(v ssa.Value) bool { return v == cnt || exprStr(v) == exprStr(cnt) }
				isLen := func(v ssa.Value) bool { return isLenP(v) || exprStr(v) == "len("+p.Name()+")" }
				if b.Op == token.EQL && l.Pol || b.Op == token.NEQ && !l.Pol {
					if isCnt(b.X) && isLen(b.Y) || isCnt(b.Y) && isLen(b.X) {
						return
					}
				}
				// count >= len(p) (the exit of `for count < len(p)`): the count cannot exceed what p holds
				if isCnt(b.X) && isLen(b.Y) && (b.Op == token.GEQ && l.Pol || b.Op == token.LSS && !l.Pol) {
					return
				}
				if isCnt(b.Y) && isLen(b.X) && (b.Op == token.LEQ && l.Pol || b.Op == token.GTR && !l.Pol) {
					return
				}
			}
			if call, ok := cnt.(*ssa.Call); ok {
				if b, ok := call.Call.Value.(*ssa.Builtin); ok && b.Name() == "copy" && len(call.Call.Args) == 2 && call.Call.Args[0] == ssa.Value(p) {
					if sl, ok := call.Call.Args[1].(*ssa.Slice); ok && sl.High != nil {
						hi, hk := linearOver(sl.High)
						lo, lk := map[ssa.Value]int64{}, int64(0)
						if sl.Low != nil {
							lo, lk = linearOver(sl.Low)
						}
						for v, cf := range lo {
							hi[v] -= cf
						}
						rest := 0
						lenTerm := int64(0)
						for v, cf := range hi {
							if cf == 0 {
								continue
							}
							if isLenP(v) {
								lenTerm += cf
							} else {
								rest++
							}
						}
						if rest == 0 && lenTerm == 1 && hk-lk == 0 {
							return // copy(p, src[a : a+len(p)])
						}
					}
				}
			}
			pos := c.pos(ret.Pos())
			if pos == "" {
				pos = "end of " + fn.Name()
			}
			und = append(und, fmt.Sprintf("%s returns %s", pos, exprStr(cnt)))
		})
		switch {
		case nret == 0:
			ob.Und("no return without error found")
		case len(und) == 0:
			ob.OKnt(fmt.Sprintf("%d return(s) without error, each delivering len(p) bytes (or forwarding a library reader)", nret))
		default:
			ob.Und("cannot show that the count equals len(p): " + strings.Join(und, "; ") + " — files.Reader takes a short count for the end of the input and drops the text")
		}
	}
	r.Floor(rule, "Read implementations in package files", n, 2)
}

// ---------------------------------------------------------------------------------------------
// C01.R10 / C13.R11: a subroutine activation is identified by a program position.
//
// The VM decides "was I called, or did control fall into this subroutine" by comparing a field of the top call record with a value
// the StartSubroutine handler passes. Two subroutines can carry the same name (a stored pattern that is inlined brings its own), but
// not the same position: the value compared must come from an instruction field that the generator fills from its offset (the set P
// of C01.R2).
func ruleActivationIdentity(c *Ctx, rule string) {
	r := c.R
	csT := c.NamedType("engine", "CallState")
	if csT == nil {
		r.Ob(rule, "anchor engine.CallState", "").Und("not found")
		return
	}
	P, _ := c.pcFields()
	isCallField := func(v ssa.Value) bool {
		switch x := v.(type) {
		case *ssa.Field:
			return types.Identical(x.X.Type(), csT)
		case *ssa.UnOp:
			if fa, ok := x.X.(*ssa.FieldAddr); ok && x.Op == token.MUL {
				return types.Identical(deref(fa.X.Type()), csT)
			}
		}
		return false
	}
	n := 0
	for _, fn := range c.SrcFuncs("engine") {
		instrsOf(fn, func(in ssa.Instruction) {
			b, ok := in.(*ssa.BinOp)
			if !ok || (b.Op != token.EQL && b.Op != token.NEQ) {
				return
			}
			var param *ssa.Parameter
			for _, pair := range [][2]ssa.Value{{b.X, b.Y}, {b.Y, b.X}} {
				if p, ok := pair[1].(*ssa.Parameter); ok && isCallField(pair[0]) {
					param = p
				}
			}
			if param == nil {
				return
			}
			pi := -1
			for i, p := range fn.Params {
				if p == param {
					pi = i
				}
			}
			for _, g := range c.SrcFuncs("engine") {
				for _, cs := range callsTo(g, fn) {
					if pi < 0 || pi >= len(cs.Call.Args) {
						continue
					}
					n++
					arg := cs.Call.Args[pi]
					ob := r.Ob(rule, fmt.Sprintf("%s: the activation handed to %s is identified by a program position", fnName(g), fn.Name()), c.pos(cs.Pos()))
					var owner types.Type
					fname := ""
					switch x := arg.(type) {
					case *ssa.Field:
						owner, fname = x.X.Type(), fieldName(x.X.Type(), x.Field)
					case *ssa.UnOp:
						if fa, ok := x.X.(*ssa.FieldAddr); ok {
							owner, fname = deref(fa.X.Type()), fieldName(deref(fa.X.Type()), fa.Field)
						}
					case *ssa.Parameter:
						ob.Und("the identity is a parameter of " + fnName(g) + "; its call sites are not followed")
						continue
					}
					nt, _ := owner.(*types.Named)
					if nt == nil {
						ob.Und("the identity is not a field of an instruction: " + exprStr(arg))
						continue
					}
					key := nt.Obj().Name() + "." + fname
					if _, ok := P[key]; ok {
						ob.OKnt(key + " is filled from the generator's offset (and relocated with the instruction)")
					} else {
						ob.Bad(key + " is not derived from the generator's offset: two subroutines can carry the same value (a stored pattern that is inlined brings its own names), so falling into one of them while the other is active is taken for a call that already happened and its end returns to the wrong place")
					}
				}
			}
		})
	}
	r.Floor(rule, "call sites that identify an activation", n, 1)
}

// ---------------------------------------------------------------------------------------------
// C04.R8: `skip s` skips, whatever else the clause sets.
//
// The parser encodes a plain `skip s` as (all = true, skip = s, take = 0). World: `all` is true. In that world the place where a
// match is collected must still lie behind a decision that looks at skip (directly, or inside a predicate it is handed to): a
// membership test written as `all || (index >= skip && index < skip+take)` folds to true and reports the skipped matches too.
func ruleSkipAppliesWhenAllIsSet(c *Ctx, rule string) {
	r := c.R
	mm := c.Method("engine", "SearchEngineState", "MakeMatch")
	if mm == nil {
		r.Ob(rule, "anchor MakeMatch", "").Und("not found")
		return
	}
	named := func(v ssa.Value, want string) bool {
		lower := func(s string) string { return strings.ToLower(s) }
		switch x := v.(type) {
		case *ssa.Parameter:
			return lower(x.Name()) == want
		case *ssa.Field:
			return lower(fieldName(x.X.Type(), x.Field)) == want
		case *ssa.UnOp:
			if fa, ok := x.X.(*ssa.FieldAddr); ok && x.Op == token.MUL {
				return lower(fieldName(deref(fa.X.Type()), fa.Field)) == want
			}
		}
		return false
	}
	readsSkip := map[*ssa.Function]bool{}
	for _, f := range append(c.SrcFuncs("engine"), c.SrcFuncs("bytecode")...) {
		instrsOf(f, func(in ssa.Instruction) {
			if v, ok := in.(ssa.Value); ok && named(v, "skip") {
				readsSkip[f] = true
			}
		})
		for _, p := range f.Params {
			if named(p, "skip") {
				readsSkip[f] = true
			}
		}
	}
	var dependsOnSkip func(v ssa.Value, d int) bool
	dependsOnSkip = func(v ssa.Value, d int) bool {
		if d > 6 {
			return false
		}
		if named(v, "skip") {
			return true
		}
		switch x := v.(type) {
		case *ssa.Call:
			if sc := x.Call.StaticCallee(); sc != nil && readsSkip[sc] {
				return true
			}
			for _, a := range x.Call.Args {
				if dependsOnSkip(a, d+1) {
					return true
				}
			}
		case *ssa.BinOp:
			return dependsOnSkip(x.X, d+1) || dependsOnSkip(x.Y, d+1)
		case *ssa.UnOp:
			return dependsOnSkip(x.X, d+1)
		case *ssa.Phi:
			for _, e := range x.Edges {
				if dependsOnSkip(e, d+1) {
					return true
				}
			}
		case *ssa.Convert:
			return dependsOnSkip(x.X, d+1)
		}
		return false
	}
	n := 0
	for _, fn := range c.SrcFuncs("engine") {
		calls := callsTo(fn, mm)
		if len(calls) == 0 {
			continue
		}
		hasAll := false
		instrsOf(fn, func(in ssa.Instruction) {
			if v, ok := in.(ssa.Value); ok && named(v, "all") {
				hasAll = true
			}
		})
		for _, p := range fn.Params {
			if named(p, "all") {
				hasAll = true
			}
		}
		// or a predicate it calls reads it (window.Done(n), window.Contains(n))
		instrsOf(fn, func(in ssa.Instruction) {
			if sc := staticCallee(in); sc != nil && len(sc.Blocks) > 0 {
				instrsOf(sc, func(y ssa.Instruction) {
					if v, ok := y.(ssa.Value); ok && named(v, "all") {
						hasAll = true
					}
				})
			}
		})
		interp := func(f *ssa.Function) bool {
			return f.Pkg != nil && (f.Pkg == fn.Pkg || strings.HasSuffix(f.Pkg.Pkg.Path(), "/bytecode")) && pureFunc(f, 0)
		}
		seedAll := func(v ssa.Value) (constant.Value, bool) {
			if named(v, "all") {
				if b, ok := v.Type().Underlying().(*types.Basic); ok && b.Kind() == types.Bool {
					return constant.MakeBool(true), true
				}
			}
			return nil, false
		}
		for k, call := range calls {
			n++
			ob := r.Ob(rule, fmt.Sprintf("%s: match #%d is collected behind a test of skip even when `all` is set", fnName(fn), k+1), c.pos(call.Pos()))
			if !hasAll {
				ob.Und("no value named `all` is read in " + fnName(fn) + ": the clause reaches it in some other form")
				continue
			}
			w := &World{Fn: fn, Seed: seedAll, Interp: interp}
			// the callee worlds must see the seed as well (the predicate reads the field of its receiver)
			w.Call = func(cl *ssa.Call, get func(ssa.Value) wLat) (wLat, bool) {
				sc := cl.Call.StaticCallee()
				if sc == nil || !interp(sc) || len(sc.Blocks) == 0 {
					return wLat{}, false
				}
				var args []wLat
				for _, a := range cl.Call.Args {
					l := get(a)
					if l.k == 0 {
						l = wTop
					}
					args = append(args, l)
				}
				sub := &World{Fn: sc, Seed: seedAll, Interp: interp}
				sub.Run(args...)
				var res wLat
				for _, b := range sc.Blocks {
					if !sub.Reach[b] {
						continue
					}
					if ret, ok := b.Instrs[len(b.Instrs)-1].(*ssa.Return); ok && len(ret.Results) == 1 {
						l := sub.get(ret.Results[0])
						if l.k == 0 {
							l = wTop
						}
						res = res.join(l)
					}
				}
				if res.k == 0 {
					return wTop, true
				}
				return res, true
			}
			w.Run()
			if !w.Reach[call.Block()] {
				ob.Und("with `all` set the call is unreachable")
				continue
			}
			looks := false
			var open []string
			for _, l := range domConds(fn, call.Block()) {
				if w.get(l.Cond).k == 1 {
					continue // decided by `all` alone
				}
				open = append(open, l.String())
				if dependsOnSkip(l.Cond, 0) {
					looks = true
				}
			}
			if looks {
				ob.OKnt("with `all` set, the decisions that stay open on the way to the call include one that looks at skip: " + strings.Join(open, " && "))
			} else {
				ob.Bad("with `all` set (the parser's encoding of a plain `skip s`) no decision on the way to collecting the match looks at skip any more [open: " + strings.Join(open, " && ") + "]: the first s matches are reported as well, so `skip s` is no longer a window of the `all` sequence")
			}
		}
	}
	r.Floor(rule, "places where a match record is made", n, 1)
}

// ---------------------------------------------------------------------------------------------
// C01.R11 / C02.R9 / C14.R10: the empty text is found everywhere.
//
// A back-reference to a group that matched nothing, and the empty literal, match with zero width - also at the end of the input.
// World: the text handed to MATCH is "" and `not` is false. In that world MATCH must move on (NEXT) and must not be able to
// BACKTRACK: the test that protects non-empty literals at the end of the input (an empty read) must not catch the empty text.
func ruleEmptyTextMatches(c *Ctx, rule string) {
	r := c.R
	read := c.stateMethod("READ")
	next, bt := c.stateMethod("NEXT"), c.stateMethod("BACKTRACK")
	if read == nil || next == nil || bt == nil {
		r.Ob(rule, "anchor READ/NEXT/BACKTRACK", "").Und("not found")
		return
	}
	// by role: the method that reads len(<its string parameter>) bytes
	n := 0
	for _, fn := range c.SrcFuncs("engine") {
		if fn.Signature.Recv() == nil {
			continue
		}
		var text *ssa.Parameter
		instrsOf(fn, func(in ssa.Instruction) {
			call, ok := in.(*ssa.Call)
			if !ok || call.Call.StaticCallee() != read || len(call.Call.Args) != 2 {
				return
			}
			if lc, ok := call.Call.Args[1].(*ssa.Call); ok {
				if bi, ok := lc.Call.Value.(*ssa.Builtin); ok && bi.Name() == "len" && len(lc.Call.Args) == 1 {
					if p, ok := lc.Call.Args[0].(*ssa.Parameter); ok {
						text = p
					}
				}
			}
		})
		if text == nil {
			continue
		}
		n++
		ob := r.Ob(rule, fnName(fn)+": the empty text matches with zero width", c.pos(fn.Pos()))
		var notP *ssa.Parameter
		for _, p := range fn.Params {
			if strings.ToLower(p.Name()) == "not" {
				notP = p
			}
		}
		w := &World{Fn: fn,
			Seed: func(v ssa.Value) (constant.Value, bool) {
				if v == ssa.Value(text) {
					return constant.MakeString(""), true
				}
				if notP != nil && v == ssa.Value(notP) {
					return constant.MakeBool(false), true
				}
				if call, ok := v.(*ssa.Call); ok && call.Call.StaticCallee() == read {
					// zero bytes were asked for
					if l := len(call.Call.Args); l == 2 {
						return constant.MakeString(""), true
					}
				}
				return nil, false
			},
			Interp: func(f *ssa.Function) bool { return f.Pkg == fn.Pkg && pureFunc(f, 0) },
		}
		w.Run()
		reachNext, reachBT := false, false
		for _, b := range fn.Blocks {
			if !w.Reach[b] {
				continue
			}
			for _, in := range b.Instrs {
				switch staticCallee(in) {
				case next:
					reachNext = true
				case bt:
					reachBT = true
				}
			}
		}
		switch {
		case reachNext && !reachBT:
			ob.OKnt("with the text fixed to \"\" (and not negated) the only way through " + fn.Name() + " ends in NEXT")
		case reachBT && !reachNext:
			ob.Bad("with the text fixed to \"\" " + fn.Name() + " can only BACKTRACK: the empty read that stands for the end of the input also catches the empty text, so a back-reference to a group that matched nothing (`(a*)b\\1` on \"b\") and the empty literal never match")
		case reachBT:
			ob.Bad("with the text fixed to \"\" " + fn.Name() + " can still BACKTRACK: where the empty text matches depends on something else than the text")
		default:
			ob.Und("neither NEXT nor BACKTRACK is reachable with the text fixed to \"\"")
		}
	}
	r.Floor(rule, "methods that match a given text", n, 1)
}

// ---------------------------------------------------------------------------------------------
// C13.R12 / C14.R9: group numbering restarts with every regular-expression literal, and every capturing group takes a number.
func ruleGroupNumbering(c *Ctx, rule string, everyGroupNumbered bool) {
	r := c.R
	E := c.Fn("ast", "parse_regexp")
	decT := c.NamedType("ast", "AstDec")
	if E == nil || decT == nil {
		r.Ob(rule, "anchor ast.parse_regexp / AstDec", "").Und("not found")
		return
	}
	below := c.Reachable(E)
	// the counter(s): package-level integers written below the entry
	writers := map[*ssa.Global][]*ssa.Function{}
	for f := range below {
		if !c.isRepoFn(f) {
			continue
		}
		instrsOf(f, func(in ssa.Instruction) {
			if st, ok := in.(*ssa.Store); ok {
				if g, ok := st.Addr.(*ssa.Global); ok && c.isRepoPkg(g.Pkg.Pkg) {
					if _, isConst := st.Val.(*ssa.Const); isConst && f == E {
						return // the reset itself
					}
					writers[g] = append(writers[g], f)
				}
			}
		})
	}
	if len(writers) == 0 {
		r.Ob(rule, "the regexp sub-parser keeps no package-level counter", c.pos(E.Pos())).OKnt("nothing below parse_regexp writes a package-level variable")
		return
	}
	var gs []*ssa.Global
	for g := range writers {
		gs = append(gs, g)
	}
	sort.Slice(gs, func(i, j int) bool { return gs[i].Name() < gs[j].Name() })
	for _, g := range gs {
		ob := r.Ob(rule, "parse_regexp restarts "+g.Name()+" for every regexp literal", c.pos(E.Pos()))
		var resets []*ssa.Store
		instrsOf(E, func(in ssa.Instruction) {
			if st, ok := in.(*ssa.Store); ok && st.Addr == ssa.Value(g) {
				if _, isConst := st.Val.(*ssa.Const); isConst {
					resets = append(resets, st)
				}
			}
		})
		isWriter := map[*ssa.Function]bool{}
		for _, f := range writers[g] {
			isWriter[f] = true
		}
		okAll := len(resets) > 0
		why := "no constant store to " + g.Name() + " in parse_regexp"
		instrsOf(E, func(in ssa.Instruction) {
			call, ok := in.(ssa.CallInstruction)
			if !ok {
				return
			}
			for _, callee := range c.calleesOf(call) {
				reaches := isWriter[callee]
				for f := range isWriter {
					if c.Reachable(callee)[f] {
						reaches = true
					}
				}
				if !reaches {
					continue
				}
				dom := false
				for _, rs := range resets {
					if instrDominates(rs, in) {
						dom = true
					}
				}
				if !dom {
					okAll = false
					if len(resets) > 0 {
						why = "the call to " + fnName(callee) + " is not dominated by the reset"
					}
				}
			}
		})
		if okAll {
			ob.OKnt(g.Name() + " is stored with a constant before the literal's groups are parsed")
		} else {
			ob.Bad(why + ": the groups of the second regexp literal of a source are numbered on from the first one's, so `\\1` in a command means something else than in the same command alone (`find all @/(a)/ find all @/(b)\\1/` is rejected, `find all @/(b)\\1/` is not)")
		}
		if !everyGroupNumbered {
			continue
		}
		// every capturing group takes a number: each place below the entry that builds a declaration is dominated by a store to the counter
		k := 0
		for f := range below {
			if !c.isRepoFn(f) {
				continue
			}
			var stores []*ssa.Store
			instrsOf(f, func(in ssa.Instruction) {
				if st, ok := in.(*ssa.Store); ok && st.Addr == ssa.Value(g) {
					stores = append(stores, st)
				}
			})
			instrsOf(f, func(in ssa.Instruction) {
				a, ok := in.(*ssa.Alloc)
				if !ok || !types.Identical(deref(a.Type()), decT) {
					return
				}
				k++
				// by role: a group named by the pattern, or one that is only numbered (its name is formatted from the counter)
				kind := "a named group (?<name>...)"
				for _, ref := range *a.Referrers() {
					if fa, ok := ref.(*ssa.FieldAddr); ok && fieldName(decT, fa.Field) == "Name" {
						for _, r2 := range *fa.Referrers() {
							if st, ok := r2.(*ssa.Store); ok && st.Addr == ssa.Value(fa) {
								if cl, ok := st.Val.(*ssa.Call); ok && cl.Call.StaticCallee() != nil && cl.Call.StaticCallee().Name() == "Sprintf" {
									kind = "a plain group (...)"
								}
							}
						}
					}
				}
				ob2 := r.Ob(rule, "regexp sub-parser: "+kind+" takes a group number", c.pos(a.Pos()))
				dom := false
				for _, st := range stores {
					if instrDominates(st, a) {
						dom = true
					}
				}
				if dom {
					ob2.OKnt("the declaration is built after " + g.Name() + " was stepped")
				} else {
					ob2.Bad("a group that captures (it is built as a declaration) does not step " + g.Name() + ": named groups are left out of the numbering, so `(?<x>a)(b)\\1` takes `\\1` for the second group and `\\2` is undefined")
				}
			})
		}
	}
}

// ---------------------------------------------------------------------------------------------
// mustPrecedeReturns: on every path from the entry to a return, an instruction for which event() holds is executed
// (must-dataflow over the CFG, greatest fixpoint). Returns the position of a return that can be reached without one.
func mustPrecedeReturns(c *Ctx, fn *ssa.Function, event func(ssa.Instruction) bool) (bool, string) {
	if len(fn.Blocks) == 0 {
		return false, "no body"
	}
	dead := exhaustedEnumEdges(fn)
	in, out := map[*ssa.BasicBlock]bool{}, map[*ssa.BasicBlock]bool{}
	for _, b := range fn.Blocks {
		in[b], out[b] = true, true
	}
	in[fn.Blocks[0]] = false
	for changed := true; changed; {
		changed = false
		for _, b := range fn.Blocks {
			v := b != fn.Blocks[0]
			if v {
				for _, p := range b.Preds {
					if dead[[2]*ssa.BasicBlock{p, b}] {
						continue
					}
					if !out[p] {
						v = false
					}
				}
			}
			o := v
			for _, x := range b.Instrs {
				if event(x) {
					o = true
				}
			}
			if v != in[b] || o != out[b] {
				in[b], out[b] = v, o
				changed = true
			}
		}
	}
	for _, b := range fn.Blocks {
		if ret, ok := b.Instrs[len(b.Instrs)-1].(*ssa.Return); ok && !out[b] {
			p := c.pos(ret.Pos())
			if p == "" {
				p = "the end of " + fn.Name()
			}
			return false, p
		}
	}
	return true, ""
}

// C10.R11: every handler of a replacer instruction advances the replacer's program counter on every returning path.
// The driver runs `for pc < len(replacer)`; a handler that can return without stepping executes the same instruction for ever.
func ruleReplacerHandlersMove(c *Ctx, rule string) {
	r := c.R
	rsT := c.NamedType("engine", "ReplacerState")
	disp := c.Fn("engine", "executeReplace")
	if rsT == nil || disp == nil {
		r.Ob(rule, "anchor engine.ReplacerState / executeReplace", "").Und("not found")
		return
	}
	// the counter: the int field of the replacer state that the driver compares with the length of the replacer program
	isPcStore := func(in ssa.Instruction) bool {
		st, ok := in.(*ssa.Store)
		if !ok {
			return false
		}
		fa, ok := st.Addr.(*ssa.FieldAddr)
		if !ok || !types.Identical(deref(fa.X.Type()), rsT) {
			return false
		}
		if !strings.Contains(strings.ToLower(fieldName(rsT, fa.Field)), "counter") {
			return false
		}
		// a step: counter + constant (copying the counter into a new state is not one)
		b, ok := st.Val.(*ssa.BinOp)
		if !ok || b.Op != token.ADD {
			return false
		}
		k, isK := constInt(b.Y)
		return isK && k > 0
	}
	// movers: functions that store the counter, or call a mover, on each of their paths (greatest fixpoint)
	movers := map[*ssa.Function]bool{}
	var cands []*ssa.Function
	for _, f := range c.SrcFuncs("engine") {
		takes := false
		for _, p := range f.Params {
			if types.Identical(deref(p.Type()), rsT) {
				takes = true
			}
		}
		if takes && len(f.Blocks) > 0 && f != disp {
			cands = append(cands, f)
			movers[f] = true
		}
	}
	for changed := true; changed; {
		changed = false
		for _, f := range cands {
			if !movers[f] {
				continue
			}
			ok, _ := mustPrecedeReturns(c, f, func(in ssa.Instruction) bool {
				if isPcStore(in) {
					return true
				}
				sc := staticCallee(in)
				return sc != nil && sc != f && movers[sc]
			})
			if !ok {
				movers[f] = false
				changed = true
			}
		}
	}
	var handlers []*ssa.Function
	takesInstr := func(f *ssa.Function) bool {
		for _, p := range f.Params {
			if nt, ok := deref(p.Type()).(*types.Named); ok && nt.Obj().Pkg() != nil && strings.HasSuffix(nt.Obj().Pkg().Path(), "/bytecode") {
				return true
			}
		}
		return false
	}
	instrsOf(disp, func(in ssa.Instruction) {
		returnsState := func(f *ssa.Function) bool {
			res := f.Signature.Results()
			return res.Len() == 1 && types.Identical(deref(res.At(0).Type()), rsT)
		}
		if sc := staticCallee(in); sc != nil && c.isRepoFn(sc) && sc.Pkg == disp.Pkg && len(sc.Blocks) > 0 && sc != disp && takesInstr(sc) && returnsState(sc) {
			for _, p := range sc.Params {
				if types.Identical(deref(p.Type()), rsT) {
					handlers = append(handlers, sc)
					return
				}
			}
		}
	})
	if len(handlers) == 0 {
		// the dispatcher executes the instructions itself
		handlers = append(handlers, disp)
		movers[disp] = false
	}
	for _, h := range handlers {
		ob := r.Ob(rule, fnName(h)+" advances the replacer's program counter on every path", c.pos(h.Pos()))
		if movers[h] {
			ob.OKnt("every return is preceded by a store to the counter or a call that always makes one (NEXT, or a write helper that ends in it)")
			continue
		}
		okH, where := mustPrecedeReturns(c, h, func(in ssa.Instruction) bool {
			if isPcStore(in) {
				return true
			}
			sc := staticCallee(in)
			return sc != nil && sc != h && movers[sc]
		})
		if okH {
			ob.OKnt("every return is preceded by a store to the counter or a call that always makes one")
			continue
		}
		ob.Bad("the return at " + where + " can be reached without the program counter having been advanced: the driver loop `for programCounter < len(replacer)` executes the same instruction again, for ever")
	}
	r.Floor(rule, "replacer instruction handlers", len(handlers), 1)
}
