package main

// C06 (replace output / modes), C07 (file reading), C20 (file selection).

import (
	"fmt"
	"go/constant"
	"go/token"
	"go/types"
	"sort"
	"strings"

	"golang.org/x/tools/go/ssa"
)

// ---------------------------------------------------------------------------------------------
// C07.R1 / C09.R6: end of input is not an error

func ruleEOFNotAnError(c *Ctx, rule string) {
	r := c.R
	n := 0
	for _, fn := range c.SrcFuncs("files") {
		k := 0
		instrsOf(fn, func(in ssa.Instruction) {
			call, ok := in.(*ssa.Call)
			if !ok {
				return
			}
			name := ""
			if call.Call.IsInvoke() {
				name = call.Call.Method.Name()
			} else if sc := call.Call.StaticCallee(); sc != nil && sc.Pkg != nil && (sc.Pkg.Pkg.Path() == "os" || sc.Pkg.Pkg.Path() == "io") && sc.Signature.Recv() != nil {
				name = sc.Name()
			}
			if name != "Read" && name != "ReadAt" {
				return
			}
			// does the error result reach a panic?
			var errVal ssa.Value
			for _, ref := range *call.Referrers() {
				if ex, ok := ref.(*ssa.Extract); ok && ex.Index == 1 {
					errVal = ex
				}
			}
			if errVal == nil {
				return
			}
			var panicIf *ssa.If
			for _, ref := range *errVal.Referrers() {
				bo, ok := ref.(*ssa.BinOp)
				if !ok || bo.Op != token.NEQ || !isNilConst(bo.Y) {
					continue
				}
				for _, r2 := range *bo.Referrers() {
					if iff, ok := r2.(*ssa.If); ok {
						// does the true branch end in a panic or return the error?
						t := iff.Block().Succs[0]
						for _, x := range t.Instrs {
							if _, ok := x.(*ssa.Panic); ok {
								panicIf = iff
							}
						}
					}
				}
			}
			// ... or is handed to a helper that panics with the error it is given when it is not nil (`check(err)`)
			var helperCall *ssa.Call
			helperExcludesEOF := false
			if panicIf == nil {
				for _, ref := range *errVal.Referrers() {
					cl, ok := ref.(*ssa.Call)
					if !ok {
						continue
					}
					g := cl.Call.StaticCallee()
					if g == nil || !c.isRepoFn(g) || len(g.Blocks) == 0 {
						continue
					}
					for i, a := range cl.Call.Args {
						if a != errVal || i >= len(g.Params) {
							continue
						}
						prm := g.Params[i]
						instrsOf(g, func(y ssa.Instruction) {
							iff, ok := y.(*ssa.If)
							if !ok {
								return
							}
							cs := exprStr(iff.Cond)
							if strings.Contains(cs, prm.Name()+" != nil") {
								reachesPanic := false
								seenB := map[*ssa.BasicBlock]bool{}
								work := []*ssa.BasicBlock{iff.Block().Succs[0]}
								for len(work) > 0 {
									b := work[len(work)-1]
									work = work[:len(work)-1]
									if seenB[b] {
										continue
									}
									seenB[b] = true
									for _, z := range b.Instrs {
										if _, ok := z.(*ssa.Panic); ok {
											reachesPanic = true
										}
										if i2, ok := z.(*ssa.If); ok && strings.Contains(exprStr(i2.Cond), "EOF") {
											helperExcludesEOF = true
										}
									}
									work = append(work, b.Succs...)
								}
								if reachesPanic {
									helperCall = cl
								}
							}
							if strings.Contains(cs, "EOF") {
								helperExcludesEOF = true
							}
						})
					}
				}
			}
			if panicIf == nil && helperCall == nil {
				return
			}
			n++
			k++
			ob := r.Ob(rule, fmt.Sprintf("%s: %s call #%d does not treat end of input as a failure", fnName(fn), name, k), c.pos(call.Pos()))
			// (a) io.EOF excluded on the way to the panic
			eofExcluded := false
			if helperCall != nil {
				eofExcluded = helperExcludesEOF
				for _, l := range domConds(fn, helperCall.Block()) {
					if b, ok := l.Cond.(*ssa.BinOp); ok && strings.Contains(exprStr(b), "EOF") {
						if (b.Op == token.NEQ && l.Pol) || (b.Op == token.EQL && !l.Pol) {
							eofExcluded = true
						}
					}
				}
				panicIf = nil
			}
			if panicIf != nil {
				t := panicIf.Block().Succs[0]
				if iff2, ok := t.Instrs[len(t.Instrs)-1].(*ssa.If); ok {
					if strings.Contains(exprStr(iff2.Cond), "EOF") {
						eofExcluded = true
					}
				}
				if strings.Contains(exprStr(panicIf.Cond), "EOF") {
					eofExcluded = true
				}
			}
			// short-circuit `err != nil && err != io.EOF` puts the EOF test in the true successor
			for _, ref := range *errVal.Referrers() {
				if bo, ok := ref.(*ssa.BinOp); ok && bo.Op == token.NEQ && strings.Contains(exprStr(bo.Y), "EOF") {
					for _, r2 := range *bo.Referrers() {
						if iff, ok := r2.(*ssa.If); ok {
							pb := iff.Block().Succs[0]
							for _, x := range pb.Instrs {
								if _, ok := x.(*ssa.Panic); ok {
									eofExcluded = true
								}
							}
						}
					}
				}
			}
			// (b) at least one byte is requested: the buffer length is tested to be positive before the call
			positive := false
			if len(call.Call.Args) > 0 {
				buf := call.Call.Args[len(call.Call.Args)-1]
				if !call.Call.IsInvoke() && len(call.Call.Args) >= 2 {
					buf = call.Call.Args[1]
				}
				// the buffer may be made by the caller and handed to a helper: decide at the helper's call sites
				if prm, isParam := buf.(*ssa.Parameter); isParam {
					idx := -1
					for i, p := range fn.Params {
						if p == prm {
							idx = i
						}
					}
					ncalls, okAll := 0, idx >= 0
					for _, caller := range c.SrcFuncs("files") {
						for _, cl := range callsTo(caller, fn) {
							ncalls++
							ms, ok := cl.Call.Args[idx].(*ssa.MakeSlice)
							if !ok || !lengthPositiveAt(caller, exprStr(ms.Len), cl) {
								okAll = false
							}
						}
					}
					if okAll && ncalls > 0 {
						positive = true
					}
				}
				if ms, ok := buf.(*ssa.MakeSlice); ok && lengthPositiveAt(fn, exprStr(ms.Len), call) {
					positive = true
				}
				if ms, ok := buf.(*ssa.MakeSlice); ok && false {
					lenStr := exprStr(ms.Len)
					for _, b := range fn.Blocks {
						iff, ok := b.Instrs[len(b.Instrs)-1].(*ssa.If)
						if !ok {
							continue
						}
						bo, ok := iff.Cond.(*ssa.BinOp)
						if !ok || exprStr(bo.X) != lenStr {
							continue
						}
						k, isC := constInt(bo.Y)
						var okSucc *ssa.BasicBlock
						switch {
						case isC && bo.Op == token.LEQ && k >= 0, isC && bo.Op == token.LSS && k >= 1, isC && bo.Op == token.EQL && k == 0:
							okSucc = b.Succs[1]
						case isC && bo.Op == token.GTR && k >= 0, isC && bo.Op == token.GEQ && k >= 1:
							okSucc = b.Succs[0]
						}
						if okSucc != nil && (okSucc == call.Block() || okSucc.Dominates(call.Block())) {
							positive = true
						}
					}
				}
			}
			switch {
			case eofExcluded:
				ob.OKnt("io.EOF is excluded before the error is treated as fatal")
			case positive:
				ob.OKnt("a dominating test guarantees that at least one byte is requested, and the bounds test guarantees it is available")
			default:
				ob.Bad("any error of this read, including io.EOF, reaches panic; a zero-length read at the end of input (empty capture in a back-reference, empty file) returns io.EOF")
			}
		})
	}
	r.Floor(rule, "read calls in package files whose error can reach a panic", n, 1)
}

// ruleSizeAgreement implements C07.R2. The relation is checked on SSA values, not on names: for every constructor of files.Reader
// (a function of package files that returns a *Reader it builds, directly or through a helper), the value stored as `size` is the
// length of what the value stored as `contents` delivers.
func ruleSizeAgreement(c *Ctx, rule string) {
	r := c.R
	rdT := c.NamedType("files", "Reader")
	if rdT == nil {
		r.Ob(rule, "anchor files.Reader", "").Und("not found")
		return
	}
	strip := func(v ssa.Value) ssa.Value {
		for {
			switch x := v.(type) {
			case *ssa.Convert:
				v = x.X
				continue
			case *ssa.ChangeType:
				v = x.X
				continue
			case *ssa.MakeInterface:
				v = x.X
				continue
			}
			return v
		}
	}
	// literal: the values stored into the fields of the Reader a function builds
	literal := func(fn *ssa.Function) map[string]ssa.Value {
		out := map[string]ssa.Value{}
		instrsOf(fn, func(in ssa.Instruction) {
			st, ok := in.(*ssa.Store)
			if !ok {
				return
			}
			fa, ok := st.Addr.(*ssa.FieldAddr)
			if !ok || !types.Identical(deref(fa.X.Type()), rdT) {
				return
			}
			if _, isAlloc := fa.X.(*ssa.Alloc); isAlloc {
				out[fieldName(rdT, fa.Field)] = st.Val
			}
		})
		return out
	}
	n := 0
	for _, fn := range c.SrcFuncs("files") {
		res := fn.Signature.Results()
		if fn.Signature.Recv() != nil || res.Len() != 1 || !types.Identical(deref(res.At(0).Type()), rdT) || !fn.Object().Exported() {
			continue
		}
		n++
		ob := r.Ob(rule, "files."+fn.Name()+": size equals the length of what the contents deliver", c.pos(fn.Pos()))
		lit := literal(fn)
		if len(lit) == 0 {
			// built by a helper: its literal in terms of its parameters, bound to the arguments of the call
			instrsOf(fn, func(in ssa.Instruction) {
				ret, ok := in.(*ssa.Return)
				if !ok || len(ret.Results) != 1 {
					return
				}
				call, ok := ret.Results[0].(*ssa.Call)
				if !ok {
					return
				}
				h := call.Call.StaticCallee()
				if h == nil || !c.isRepoFn(h) {
					return
				}
				for f, v := range literal(h) {
					if p, ok := v.(*ssa.Parameter); ok {
						for i, q := range h.Params {
							if q == p && i < len(call.Call.Args) {
								lit[f] = call.Call.Args[i]
							}
						}
					} else {
						lit[f] = v
					}
				}
			})
		}
		cv, sv := lit["contents"], lit["size"]
		if cv == nil || sv == nil {
			ob.Und("the Reader literal (fields contents and size) was not found in the constructor or in the helper it returns")
			continue
		}
		if ov := lit["offset"]; ov != nil {
			if k, ok := constInt(ov); !ok || k != 0 {
				ob.Bad("the reader does not start at offset 0: offset = " + exprStr(ov))
				continue
			}
		}
		cc, ok := strip(cv).(*ssa.Call)
		if !ok || cc.Call.StaticCallee() == nil {
			ob.Und("contents = " + exprStr(cv) + " is not a constructor call")
			continue
		}
		var delivered ssa.Value // the value whose length the contents deliver
		isLenOf := false
		switch cc.Call.StaticCallee().Name() {
		case "NewStringReadCloser":
			delivered, isLenOf = strip(cc.Call.Args[0]), true
		case "NewBufferedFile":
			if len(cc.Call.Args) == 2 {
				delivered = strip(cc.Call.Args[1])
			}
		}
		if delivered == nil {
			ob.Und("contents = " + exprStr(cv) + ": unknown kind of contents")
			continue
		}
		okSize := false
		sz := strip(sv)
		if isLenOf {
			if lc, ok := sz.(*ssa.Call); ok {
				if b, ok := lc.Call.Value.(*ssa.Builtin); ok && b.Name() == "len" && len(lc.Call.Args) == 1 && strip(lc.Call.Args[0]) == delivered {
					okSize = true
				}
			}
		} else if sameCallValue(sz, delivered, 0) {
			// the size handed to the buffered file must be the size reported by Stat() of the very file that is wrapped
			// (a helper that hands its first argument back or panics - must(f.Stat()) - is seen through)
			if sc, ok := delivered.(*ssa.Call); ok && sc.Call.IsInvoke() && sc.Call.Method.Name() == "Size" {
				if ex, ok := unwrapMust(sc.Call.Value).(*ssa.Extract); ok && ex.Index == 0 {
					if stat, ok := ex.Tuple.(*ssa.Call); ok && stat.Call.StaticCallee() != nil && stat.Call.StaticCallee().Name() == "Stat" && len(stat.Call.Args) == 1 && sameCallValue(unwrapMust(stat.Call.Args[0]), unwrapMust(strip(cc.Call.Args[0])), 0) {
						okSize = true
					}
				}
			}
		}
		if okSize {
			ob.OKnt("contents = " + exprStr(cv) + "; size = " + exprStr(sv))
		} else {
			ob.Bad(fmt.Sprintf("contents = %s but size = %s: the size is not the length of what the contents deliver, so reads near the end are cut short or run past it", exprStr(cv), exprStr(sv)))
		}
	}
	r.Floor(rule, "exported constructors of files.Reader", n, 3)
}

// ruleOneAccessPath implements C07.R3 (axiom A5) and R4 (BufferedFile never uses the OS file cursor after construction).
func ruleOneAccessPath(c *Ctx, rule string) {
	r := c.R
	rd := c.Method("files", "Reader", "Read")
	if rd == nil {
		r.Ob(rule, "anchor files.(*Reader).Read", "").Und("not found")
		return
	}
	n := 0
	for fn := range c.allFns {
		if !c.isRepoFn(fn) || fn.Pkg == nil || fn.Pkg.Pkg.Path() == modRoot+"/libvore/files" {
			continue
		}
		for _, call := range callsTo(fn, rd) {
			n++
			ob := r.Ob(rule, fmt.Sprintf("%s: Reader.Read is preceded by a seek on the same reader", fnName(fn)), c.pos(call.Pos()))
			recv := exprStr(call.Call.Args[0])
			okSeek := false
			instrsOf(fn, func(in ssa.Instruction) {
				c2, ok := in.(*ssa.Call)
				if !ok || !instrDominates(c2, call) {
					return
				}
				sc := c2.Call.StaticCallee()
				if sc == nil {
					return
				}
				if sc.Name() == "Seek" && len(c2.Call.Args) > 0 && exprStr(c2.Call.Args[0]) == recv {
					okSeek = true
				}
				// SEEK / SEEKTO wrappers: their body seeks es.reader
				if len(c2.Call.Args) > 0 && exprStr(c2.Call.Args[0])+".reader" == recv {
					instrsOf(sc, func(x ssa.Instruction) {
						if c3, ok := x.(*ssa.Call); ok {
							if s3 := c3.Call.StaticCallee(); s3 != nil && s3.Name() == "Seek" && strings.HasSuffix(exprStr(c3.Call.Args[0]), ".reader") {
								okSeek = true
							}
						}
					})
				}
			})
			if okSeek {
				ob.OKnt("a Seek on " + recv + " dominates the Read")
			} else {
				ob.Bad("Read on " + recv + " is not preceded by a Seek: the shared reader's position is whatever another state left behind")
			}
		}
	}
	r.Floor(rule, "calls to files.(*Reader).Read outside package files", n, 2)
	// BufferedFile: after construction only positioned reads of the OS file
	bfT := c.NamedType("files", "BufferedFile")
	if bfT == nil {
		r.Ob(rule, "anchor files.BufferedFile", "").Und("not found")
		return
	}
	for _, fn := range c.SrcFuncs("files") {
		if fn.Signature.Recv() == nil {
			continue
		}
		if n, ok := deref(fn.Signature.Recv().Type()).(*types.Named); !ok || n != bfT {
			continue
		}
		var bad []string
		instrsOf(fn, func(in ssa.Instruction) {
			if sc := staticCallee(in); sc != nil && sc.Pkg != nil && sc.Pkg.Pkg.Path() == "os" && sc.Signature.Recv() != nil {
				switch sc.Name() {
				case "Read", "Seek", "ReadFrom", "Write", "WriteString":
					bad = append(bad, "(*os.File)."+sc.Name()+" ["+c.pos(in.Pos())+"]")
				}
			}
		})
		ob := r.Ob(rule, fnName(fn)+" never uses the OS file cursor", c.pos(fn.Pos()))
		if len(bad) == 0 {
			ob.OK("only positioned access (ReadAt) or none")
		} else {
			ob.Bad("uses " + strings.Join(bad, ", ") + ": the window is re-centred with ReadAt, which does not move the OS cursor, so a cursor-relative read returns bytes from the wrong place")
		}
	}
}

// ---------------------------------------------------------------------------------------------
// C06

func (c *Ctx) modeLits(fn *ssa.Function, cds map[*ssa.BasicBlock][]CtrlEdge, b *ssa.BasicBlock) []string {
	var pos []string
	for _, l := range condsOf(cds, b) {
		bo, ok := l.Cond.(*ssa.BinOp)
		if !ok || bo.Op != token.EQL || !l.Pol {
			continue
		}
		if k, ok := bo.Y.(*ssa.Const); ok {
			if n, ok := k.Type().(*types.Named); ok && n.Obj().Name() == "ReplaceMode" {
				pos = append(pos, c.constNameOf("engine", "ReplaceMode", PConst{k.Value, k.Type()}))
			}
		}
	}
	sort.Strings(pos)
	return uniq(pos)
}

func ruleModeTable(c *Ctx, rule string) {
	r := c.R
	fn := c.Fn("engine", "searchReplace")
	if fn == nil {
		r.Ob(rule, "anchor engine.searchReplace", "").Und("not found")
		return
	}
	// The table is read off the code by fixing the mode: for each mode constant, the file operations that stay reachable in
	// searchReplace and in the helpers it hands the mode to (conditional constant propagation with the mode parameter fixed).
	type site struct {
		top  *ssa.Call // the instruction in searchReplace through which the operation is reached
		call *ssa.Call
		what string
	}
	var modeP *ssa.Parameter
	var modeT types.Type
	for _, p := range fn.Params {
		if n, ok := p.Type().(*types.Named); ok && n.Obj().Name() == "ReplaceMode" {
			modeP, modeT = p, n
		}
	}
	if modeP == nil {
		r.Ob(rule, "anchor: the mode parameter of searchReplace", c.pos(fn.Pos())).Und("searchReplace has no parameter of type ReplaceMode")
		return
	}
	modes := map[string]constant.Value{}
	if p := c.Pkgs["engine"]; p != nil {
		for _, name := range p.Types.Scope().Names() {
			if cst, ok := p.Types.Scope().Lookup(name).(*types.Const); ok && types.Identical(cst.Type(), modeT) {
				modes[cst.Name()] = cst.Val()
			}
		}
	}
	isFileOp := func(sc *ssa.Function) bool {
		if sc == nil || sc.Pkg == nil {
			return false
		}
		p := sc.Pkg.Pkg.Path()
		isFiles := p == modRoot+"/libvore/files" && (strings.HasPrefix(sc.Name(), "WriterFrom") || strings.HasPrefix(sc.Name(), "ReaderFrom"))
		isOS := p == "os" && sc.Signature.Recv() == nil && sc.Name() != "Getwd"
		return isFiles || isOS
	}
	var collect func(f *ssa.Function, args []wLat, top *ssa.Call, depth int) []site
	var topWorld *World
	collect = func(f *ssa.Function, args []wLat, top *ssa.Call, depth int) []site {
		w := &World{Fn: f}
		w.Run(args...)
		if depth == 0 {
			topWorld = w
		}
		var out []site
		for _, b := range f.Blocks {
			if !w.Reach[b] {
				continue
			}
			for _, in := range b.Instrs {
				var cc *ssa.CallCommon
				var call *ssa.Call
				switch x := in.(type) {
				case *ssa.Call:
					cc, call = &x.Call, x
				case *ssa.Defer:
					cc = &x.Call
				}
				if cc == nil {
					continue
				}
				sc := cc.StaticCallee()
				t := top
				if t == nil {
					t = call
				}
				if isFileOp(sc) && call != nil {
					out = append(out, site{t, call, exprStr(call)})
					continue
				}
				if sc == nil || depth >= 2 || !c.isRepoFn(sc) || sc.Pkg == nil || sc.Pkg != f.Pkg || len(sc.Blocks) == 0 {
					continue
				}
				// a helper that is handed the mode
				var sub []wLat
				gets := false
				for _, a := range cc.Args {
					l := w.get(a)
					if l.k == 0 {
						l = wTop
					}
					if l.k == 1 && types.Identical(a.Type(), modeT) {
						gets = true
					}
					sub = append(sub, l)
				}
				if gets && call != nil {
					out = append(out, collect(sc, sub, t, depth+1)...)
				}
			}
		}
		return out
	}
	expect := map[string][]string{
		"NEW":       {`WriterFromFile((filename + "<suffix>"))`},
		"OVERWRITE": {"ReaderFromFileToMemory(filename)", "WriterFromFile(filename)"},
		"NOTHING":   {"WriterFromMemory()"},
	}
	for _, mode := range []string{"NEW", "NOTHING", "OVERWRITE"} {
		ob := r.Ob(rule, "searchReplace: mode "+mode+" opens exactly the files it may", c.pos(fn.Pos()))
		mv, ok := modes[mode]
		if !ok {
			ob.Und("no constant " + mode + " of type ReplaceMode")
			continue
		}
		args := make([]wLat, len(fn.Params))
		for i, p := range fn.Params {
			args[i] = wTop
			if p == modeP {
				args[i] = wConst(mv)
			}
		}
		sites := collect(fn, args, nil, 0)
		var got []string
		for _, s := range sites {
			w := s.what
			// normalise the NEW suffix: any non-empty constant
			if mode == "NEW" && strings.HasPrefix(w, `WriterFromFile((filename + "`) && !strings.HasPrefix(w, `WriterFromFile((filename + ""`) {
				w = `WriterFromFile((filename + "<suffix>"))`
			}
			got = append(got, w)
			ob.Pos = c.pos(s.call.Pos())
		}
		sorted := append([]string{}, got...)
		sort.Strings(sorted)
		want := append([]string{}, expect[mode]...)
		sort.Strings(want)
		if strings.Join(sorted, " ; ") == strings.Join(want, " ; ") {
			// ordering for OVERWRITE: the in-memory load comes before the truncating open
			if mode == "OVERWRITE" {
				var load, open site
				for _, s := range sites {
					if strings.HasPrefix(s.what, "ReaderFromFileToMemory") {
						load = s
					} else {
						open = s
					}
				}
				before := false
				if load.top == open.top {
					before = instrDominates(load.call, open.call)
				} else {
					// in the world of this mode: no feasible path reaches the open without passing the load
					before = instrDominates(load.top, open.top) || worldDominates(topWorld, load.top, open.top)
				}
				if !before {
					ob.Bad("the file is truncated before its original contents have been loaded into memory")
					continue
				}
			}
			ob.OKnt("with the mode fixed to " + mode + " the reachable file operations are: " + strings.Join(got, " then "))
		} else if at := dynamicFilesCall(c, fn, args); at != "" {
			ob.Und(fmt.Sprintf("in mode %s a function value that returns a writer or reader of package files is called at %s (a table of openers): what it opens cannot be followed", mode, at))
		} else {
			ob.Bad(fmt.Sprintf("in mode %s searchReplace performs [%s]; expected [%s]", mode, strings.Join(got, " ; "), strings.Join(expect[mode], " ; ")))
		}
	}
	// Run passes NOTHING; RunFiles forces NOTHING for file names. The mode that reaches search() is followed from each API function
	// through helpers, with the API function's bool parameter fixed to true and to false.
	run := c.Fn("engine", "Run")
	search := c.Fn("engine", "search")
	ob := r.Ob(rule, "engine.Run searches in mode NOTHING", "")
	if run == nil || search == nil {
		ob.Und("engine.Run/search not found")
	} else {
		ob.Pos = c.pos(run.Pos())
		leaves, n := c.modesReachingSearch(run, search, nil)
		switch {
		case n == 0:
			ob.Und("no call of search is reached from engine.Run")
		case len(leaves) == 1 && leaves["NOTHING"]:
			ob.OKnt("every mode that reaches search() from Run is the constant NOTHING")
		case leaves["?"]:
			ob.Und("the mode that reaches search() from Run could not be followed: " + strings.Join(sortedKeys(leaves), ", "))
		default:
			ob.Bad("engine.Run passes mode " + strings.Join(sortedKeys(leaves), ", ") + ": running on a string would touch files")
		}
	}
	rf := c.Fn("engine", "RunFiles")
	ob2 := r.Ob(rule, "engine.RunFiles forces NOTHING when processing file names", "")
	if rf == nil || search == nil {
		ob2.Und("engine.RunFiles not found")
	} else {
		ob2.Pos = c.pos(rf.Pos())
		var flag, modeP *ssa.Parameter
		for _, p := range rf.Params {
			if b, ok := p.Type().Underlying().(*types.Basic); ok && b.Kind() == types.Bool {
				flag = p
			}
			if n, ok := p.Type().(*types.Named); ok && n.Obj().Name() == "ReplaceMode" {
				modeP = p
			}
		}
		if flag == nil || modeP == nil {
			ob2.Und("RunFiles has no (mode, bool) parameters")
		} else {
			on, n1 := c.modesReachingSearch(rf, search, map[*ssa.Parameter]bool{flag: true})
			off, n2 := c.modesReachingSearch(rf, search, map[*ssa.Parameter]bool{flag: false})
			want := "param " + modeP.Name()
			switch {
			case n1 == 0 || n2 == 0:
				ob2.Und("no call of search is reached from engine.RunFiles")
			case len(on) == 1 && on["NOTHING"] && len(off) == 1 && off[want]:
				ob2.OKnt("search receives NOTHING when " + flag.Name() + " is set, else the caller's mode")
			case on["?"] || off["?"]:
				ob2.Und(fmt.Sprintf("the mode that reaches search() could not be followed (with %s set: %v, otherwise %v)", flag.Name(), sortedKeys(on), sortedKeys(off)))
			default:
				ob2.Bad(fmt.Sprintf("with %s set the mode passed to search is %v, otherwise %v; expected NOTHING, otherwise the caller's mode", flag.Name(), sortedKeys(on), sortedKeys(off)))
			}
		}
		ob2.Nontrivial = true
	}
}

// modesReachingSearch follows ReplaceMode values from the API function `root` to the calls of search(), through helper functions
// of package engine, with some bool parameters of root fixed. Leaves are constant names, "param <name>" (a parameter of root) or "?".
func (c *Ctx) modesReachingSearch(root, search *ssa.Function, fixed map[*ssa.Parameter]bool) (map[string]bool, int) {
	leaves := map[string]bool{}
	ncalls := 0
	type binding map[*ssa.Parameter]map[string]bool // parameter -> leaves
	type bools map[*ssa.Parameter]*bool
	var evalBool func(v ssa.Value, bs bools) *bool
	evalBool = func(v ssa.Value, bs bools) *bool {
		switch x := v.(type) {
		case *ssa.Parameter:
			return bs[x]
		case *ssa.Const:
			if x.Value != nil && x.Value.Kind() == constant.Bool {
				b := constant.BoolVal(x.Value)
				return &b
			}
		case *ssa.UnOp:
			if x.Op == token.NOT {
				if b := evalBool(x.X, bs); b != nil {
					nb := !*b
					return &nb
				}
			}
		}
		return nil
	}
	// feasible blocks of fn under the known bools
	feasible := func(fn *ssa.Function, bs bools) (map[*ssa.BasicBlock]bool, map[[2]*ssa.BasicBlock]bool) {
		blocks := map[*ssa.BasicBlock]bool{}
		edges := map[[2]*ssa.BasicBlock]bool{}
		work := []*ssa.BasicBlock{fn.Blocks[0]}
		for len(work) > 0 {
			b := work[len(work)-1]
			work = work[:len(work)-1]
			if blocks[b] {
				continue
			}
			blocks[b] = true
			succs := b.Succs
			if iff, ok := b.Instrs[len(b.Instrs)-1].(*ssa.If); ok {
				if k := evalBool(iff.Cond, bs); k != nil {
					if *k {
						succs = b.Succs[:1]
					} else {
						succs = b.Succs[1:]
					}
				}
			}
			for _, s := range succs {
				edges[[2]*ssa.BasicBlock{b, s}] = true
				work = append(work, s)
			}
		}
		return blocks, edges
	}
	var visit func(fn *ssa.Function, bind binding, bs bools, depth int)
	var evalMode func(v ssa.Value, fn *ssa.Function, bind binding, bs bools, edges map[[2]*ssa.BasicBlock]bool, depth int) map[string]bool
	evalMode = func(v ssa.Value, fn *ssa.Function, bind binding, bs bools, edges map[[2]*ssa.BasicBlock]bool, depth int) map[string]bool {
		out := map[string]bool{}
		switch x := v.(type) {
		case *ssa.Const:
			out[c.constNameOf("engine", "ReplaceMode", PConst{x.Value, x.Type()})] = true
		case *ssa.Parameter:
			if l, ok := bind[x]; ok {
				for k := range l {
					out[k] = true
				}
			} else {
				out["param "+x.Name()] = true
			}
		case *ssa.Phi:
			for i, e := range x.Edges {
				if !edges[[2]*ssa.BasicBlock{x.Block().Preds[i], x.Block()}] {
					continue
				}
				for k := range evalMode(e, fn, bind, bs, edges, depth) {
					out[k] = true
				}
			}
		case *ssa.Call:
			h := x.Call.StaticCallee()
			if h == nil || !c.isRepoFn(h) || len(h.Blocks) == 0 || depth > 3 {
				out["?"] = true
				break
			}
			hb, hbs := binding{}, bools{}
			for i, p := range h.Params {
				if i >= len(x.Call.Args) {
					continue
				}
				if k := evalBool(x.Call.Args[i], bs); k != nil {
					hbs[p] = k
				}
				if n, ok := p.Type().(*types.Named); ok && n.Obj().Name() == "ReplaceMode" {
					hb[p] = evalMode(x.Call.Args[i], fn, bind, bs, edges, depth)
				}
			}
			hblocks, hedges := feasible(h, hbs)
			for _, blk := range h.Blocks {
				if !hblocks[blk] {
					continue
				}
				if ret, ok := blk.Instrs[len(blk.Instrs)-1].(*ssa.Return); ok && len(ret.Results) > 0 {
					for k := range evalMode(ret.Results[0], h, hb, hbs, hedges, depth+1) {
						out[k] = true
					}
				}
			}
		default:
			out["?"] = true
		}
		return out
	}
	seen := map[*ssa.Function]int{}
	visit = func(fn *ssa.Function, bind binding, bs bools, depth int) {
		if depth > 4 || seen[fn] > 8 {
			return
		}
		seen[fn]++
		blocks, edges := feasible(fn, bs)
		for _, blk := range fn.Blocks {
			if !blocks[blk] {
				continue
			}
			for _, in := range blk.Instrs {
				call, ok := in.(*ssa.Call)
				if !ok {
					continue
				}
				callee := call.Call.StaticCallee()
				if callee == nil || !c.isRepoFn(callee) || callee.Pkg != root.Pkg {
					continue
				}
				if callee == search {
					ncalls++
					for i, p := range search.Params {
						if n, ok := p.Type().(*types.Named); ok && n.Obj().Name() == "ReplaceMode" && i < len(call.Call.Args) {
							for k := range evalMode(call.Call.Args[i], fn, bind, bs, edges, depth) {
								leaves[k] = true
							}
						}
					}
					continue
				}
				if !c.Reachable(callee)[search] {
					continue
				}
				nb, nbs := binding{}, bools{}
				for i, p := range callee.Params {
					if i >= len(call.Call.Args) {
						continue
					}
					if k := evalBool(call.Call.Args[i], bs); k != nil {
						nbs[p] = k
					}
					if n, ok := p.Type().(*types.Named); ok && n.Obj().Name() == "ReplaceMode" {
						nb[p] = evalMode(call.Call.Args[i], fn, bind, bs, edges, depth)
					}
				}
				visit(callee, nb, nbs, depth+1)
			}
		}
	}
	bs := bools{}
	for p, v := range fixed {
		vv := v
		bs[p] = &vv
	}
	visit(root, binding{}, bs, 0)
	return leaves, ncalls
}

// ruleWhoWritesFiles implements C06.R2 / R3.
func ruleWhoWritesFiles(c *Ctx, rule string) {
	r := c.R
	mutators := map[string]bool{"OpenFile": true, "Create": true, "WriteFile": true, "Rename": true, "Remove": true, "RemoveAll": true, "Truncate": true, "Mkdir": true, "MkdirAll": true, "Chmod": true, "Symlink": true, "Link": true}
	writerT := c.NamedType("files", "Writer")
	rf0 := c.Fn("engine", "RunFiles")
	// underFilenamesFlag: the instruction, or every call chain from RunFiles that reaches its function, is control-dependent on the
	// bool parameter of RunFiles (processFilenames)
	// struct fields that hold RunFiles' bool parameter (a run description built by RunFiles): a test of such a field is a test of the flag
	type fkey struct {
		t   string
		idx int
	}
	flagFields := map[fkey]bool{}
	if rf0 != nil {
		isFlagParam := func(v ssa.Value) bool {
			p, ok := v.(*ssa.Parameter)
			if !ok || p.Parent() != rf0 {
				return false
			}
			b, ok := p.Type().Underlying().(*types.Basic)
			return ok && b.Kind() == types.Bool
		}
		rfCds := NewPostDom(rf0).ControlDeps()
		instrsOf(rf0, func(in ssa.Instruction) {
			st, ok := in.(*ssa.Store)
			if !ok {
				return
			}
			fa, ok := st.Addr.(*ssa.FieldAddr)
			if !ok {
				return
			}
			if isFlagParam(st.Val) {
				flagFields[fkey{types.TypeString(deref(fa.X.Type()), nil), fa.Field}] = true
				return
			}
			// the flag translated into a setting: `if processFilenames { run = fileRun{renameFiles: true, ...} }`
			if k, ok := st.Val.(*ssa.Const); ok && k.Value != nil && k.Value.Kind() == constant.Bool && constant.BoolVal(k.Value) {
				for _, l := range condsOf(rfCds, st.Block()) {
					if isFlagParam(l.Cond) && l.Pol {
						flagFields[fkey{types.TypeString(deref(fa.X.Type()), nil), fa.Field}] = true
					}
				}
			}
		})
	}
	isFlagFieldRead := func(v ssa.Value) bool {
		switch x := v.(type) {
		case *ssa.Field:
			return flagFields[fkey{types.TypeString(x.X.Type(), nil), x.Field}]
		case *ssa.UnOp:
			if fa, ok := x.X.(*ssa.FieldAddr); ok && x.Op == token.MUL {
				return flagFields[fkey{types.TypeString(deref(fa.X.Type()), nil), fa.Field}]
			}
		}
		return false
	}
	var underFlag func(in ssa.Instruction, depth int) bool
	underFlag = func(in ssa.Instruction, depth int) bool {
		fn := in.Parent()
		if len(flagFields) > 0 && rf0 != nil && (fn == rf0 || c.onlyThrough(c.runRoots(), rf0, fn)) {
			for _, l := range condsOf(NewPostDom(fn).ControlDeps(), in.Block()) {
				if isFlagFieldRead(l.Cond) && l.Pol {
					return true
				}
			}
		}
		isClosureOfRF := false
		for p := fn.Parent(); p != nil; p = p.Parent() {
			if p == rf0 {
				isClosureOfRF = true
			}
		}
		if fn == rf0 || isClosureOfRF {
			for _, l := range condsOf(NewPostDom(fn).ControlDeps(), in.Block()) {
				if !l.Pol {
					continue
				}
				v := l.Cond
				if u, ok := v.(*ssa.UnOp); ok && u.Op == token.MUL {
					v = u.X
				}
				switch x := v.(type) {
				case *ssa.Parameter:
					if b, ok := x.Type().Underlying().(*types.Basic); ok && b.Kind() == types.Bool && x.Parent() == rf0 {
						return true
					}
				case *ssa.FreeVar:
					// a closure of RunFiles reads the flag it captured
					for _, p := range rf0.Params {
						if b, ok := p.Type().Underlying().(*types.Basic); ok && b.Kind() == types.Bool && p.Name() == x.Name() {
							return true
						}
					}
				}
			}
			return false
		}
		if depth > 3 {
			return false
		}
		n := 0
		for _, caller := range c.callersIn("engine", fn) {
			for _, cl := range callsTo(caller, fn) {
				n++
				if !underFlag(cl, depth+1) {
					return false
				}
			}
		}
		return n > 0
	}
	seen := map[string]bool{}
	for fn := range c.allFns {
		if !c.isRepoFn(fn) || fn.Pkg == nil || fn.Pkg.Pkg.Path() == modRoot {
			continue // package main is the CLI (C18)
		}
		if strings.HasSuffix(fn.Pkg.Pkg.Path(), "/testutils") {
			continue
		}
		instrsOf(fn, func(in ssa.Instruction) {
			sc := staticCallee(in)
			if sc == nil || sc.Pkg == nil || sc.Pkg.Pkg.Path() != "os" || sc.Signature.Recv() != nil || !mutators[sc.Name()] {
				return
			}
			key := fnName(fn) + "/" + sc.Name()
			if seen[key] {
				return
			}
			seen[key] = true
			ob := r.Ob(rule, "library call os."+sc.Name()+" in "+fnName(fn), c.pos(in.Pos()))
			res := fn.Signature.Results()
			isWriterCtor := res.Len() == 1 && writerT != nil && types.Identical(deref(res.At(0).Type()), writerT) && fn.Pkg.Pkg.Path() == modRoot+"/libvore/files"
			switch {
			case sc.Name() == "OpenFile" && isWriterCtor:
				ob.OKnt("the writer constructor of package files: the one place that opens a file for writing")
			case sc.Name() == "Rename" && rf0 != nil && underFlag(in, 0):
				ob.OKnt("renaming under -filenames: control-dependent on RunFiles' processFilenames parameter")
			default:
				ob.Bad("the library modifies the file system here; only the writer constructor of package files (open for writing) and the rename under RunFiles' -filenames flag may")
			}
		})
	}
	// WriterFromFile is called only from searchReplace
	wff := c.Fn("files", "WriterFromFile")
	if wff != nil {
		ob := r.Ob(rule, "files.WriterFromFile is called only by engine.searchReplace", c.pos(wff.Pos()))
		var callers []string
		for fn := range c.allFns {
			if c.isRepoFn(fn) && len(callsTo(fn, wff)) > 0 {
				callers = append(callers, fnName(fn))
			}
		}
		sort.Strings(callers)
		srF := c.Fn("engine", "searchReplace")
		okCallers := len(callers) > 0
		for fn := range c.allFns {
			if c.isRepoFn(fn) && len(callsTo(fn, wff)) > 0 && fn != srF {
				if srF == nil || !c.onlyThrough(append(c.runRoots(), c.compileRoots()...), srF, fn) {
					okCallers = false
				}
			}
		}
		ob.Check(okCallers, "called only by engine.searchReplace (or helpers only it reaches): "+strings.Join(callers, ", "), "callers: "+strings.Join(callers, ", "))
		ob.Nontrivial = true
		// flags
		ob3 := r.Ob(rule, "files.WriterFromFile opens with create, truncate and write access", c.pos(wff.Pos()))
		flags := int64(-1)
		instrsOf(wff, func(in ssa.Instruction) {
			if isCallTo(in, "os", "OpenFile") {
				if k, ok := constInt(in.(ssa.CallInstruction).Common().Args[1]); ok {
					flags = k
				}
			}
		})
		const oWRONLY, oRDWR, oCREATE, oTRUNC = 0x1, 0x2, 0x40, 0x200
		ob3.Check(flags >= 0 && flags&(oWRONLY|oRDWR) != 0 && flags&oCREATE != 0 && flags&oTRUNC != 0,
			fmt.Sprintf("flags %#x", flags), fmt.Sprintf("flags %#x lack O_TRUNC, O_CREATE or a write access mode: a stale longer output file keeps its tail", flags))
		ob3.Nontrivial = true
	}
	// nothing reachable from searchFind can write
	sf := c.Fn("engine", "searchFind")
	if sf != nil {
		ob := r.Ob(rule, "nothing reachable from engine.searchFind writes files", c.pos(sf.Pos()))
		var bad []string
		for fn := range c.Reachable(sf) {
			if fn == wff || (fn.Pkg != nil && fn.Pkg.Pkg.Path() == modRoot+"/libvore/files" && fn.Signature.Recv() != nil && strings.Contains(fnName(fn), "Writer")) {
				bad = append(bad, fnName(fn))
			}
			if fn.Pkg != nil && fn.Pkg.Pkg.Path() == "os" && fn.Signature.Recv() == nil && mutators[fn.Name()] {
				bad = append(bad, "os."+fn.Name())
			}
		}
		sort.Strings(bad)
		ob.Check(len(bad) == 0, "the call graph from searchFind contains no writer construction, Writer method or os mutator", "find commands can reach "+strings.Join(bad, ", "))
		ob.Nontrivial = true
	}
}

// ruleSpliceLoop implements C06.R4.
func ruleSpliceLoop(c *Ctx, rule string) {
	defer withForwarders()()
	r := c.R
	wa := c.Method("files", "Writer", "WriteAt")
	if wa == nil {
		r.Ob(rule, "anchor files.(*Writer).WriteAt", "").Und("not found")
		return
	}
	// by role: the function of package engine that writes the output (calls WriteAt)
	var fn *ssa.Function
	for _, f := range c.callersIn("engine", wa) {
		fn = f
	}
	if fn == nil {
		r.Ob(rule, "anchor: the function that writes the replaced text", "").Und("no function of package engine calls Writer.WriteAt")
		return
	}
	writes := callsTo(fn, wa)
	// the splice loop: the loop containing two WriteAt calls
	var inLoop []*ssa.Call
	var loop map[*ssa.BasicBlock]bool
	for _, w := range writes {
		if l := loopBlocks(fn, w.Block()); l != nil {
			inLoop = append(inLoop, w)
			loop = l
		}
	}
	ob := r.Ob(rule, "searchReplace: the splice loop writes the gap and then the replacement at consecutive positions", c.pos(fn.Pos()))
	if len(inLoop) != 2 {
		ob.Und(fmt.Sprintf("expected two WriteAt calls inside the splice loop, found %d", len(inLoop)))
		return
	}
	sort.Slice(inLoop, func(i, j int) bool { return instrDominates(inLoop[i], inLoop[j]) })
	w1, w2 := inLoop[0], inLoop[1]
	// loop-carried cursors: the write cursor is the offset of the first WriteAt, the read cursor is the position of the ReadAt
	cw, okcw := w1.Call.Args[1].(*ssa.Phi)
	if !okcw {
		ob.Bad("the first WriteAt does not write at the loop-carried write cursor but at " + exprStr(w1.Call.Args[1]))
		return
	}
	rdCall, okrd := w1.Call.Args[2].(*ssa.Call)
	if !okrd || len(rdCall.Call.Args) != 3 || !strings.HasPrefix(rdCall.Call.StaticCallee().Name(), "ReadAt") {
		ob.Bad("the gap written first is not ReadAt(length, read cursor) of the reader: " + exprStr(w1.Call.Args[2]))
		return
	}
	lr, oklr := rdCall.Call.Args[2].(*ssa.Phi)
	if !oklr {
		ob.Bad("the gap is not read at the loop-carried read cursor but at " + exprStr(rdCall.Call.Args[2]))
		return
	}
	CW, LR := "φ"+cw.Comment, "φ"+lr.Comment
	// the current element E: the gap length must be E.Offset.Start - LR
	gapTerms, gapK := linear(rdCall.Call.Args[1], nil)
	elem := ""
	for t, k := range gapTerms {
		if k == 1 && strings.HasSuffix(t, ".Offset.Start") {
			elem = strings.TrimSuffix(t, ".Offset.Start")
		}
	}
	rrName := exprStr(rdCall.Call.Args[0])
	rename := func(x string) string {
		x = strings.ReplaceAll(x, rrName, "RR")
		x = strings.ReplaceAll(x, "φreplaceReader", "RR")
		x = strings.ReplaceAll(x, "replaceReader", "RR")
		if elem != "" {
			x = strings.ReplaceAll(x, elem, "ELEM")
		}
		x = strings.ReplaceAll(x, CW, "CW")
		x = strings.ReplaceAll(x, LR, "LR")
		return x
	}
	norm := rename
	var problems []string
	if elem == "" || gapK != 0 || linearString(rdCall.Call.Args[1], rename) != "+ELEM.Offset.Start -LR" {
		problems = append(problems, "the gap length is ["+linearString(rdCall.Call.Args[1], rename)+"], expected the match's Offset.Start minus the read cursor")
	}
	if got := linearString(w2.Call.Args[1], rename); got != "+CW +ELEM.Offset.Start -LR" {
		problems = append(problems, "the replacement is written at ["+got+"], expected write cursor + gap length")
	}
	repl := rename(exprStr(w2.Call.Args[2]))
	if repl != `ELEM.Replacement.GetValueOrDefault("")` {
		problems = append(problems, "the text written for a match is "+repl+", expected its Replacement")
	}
	backVals := func(p *ssa.Phi) []string {
		var out []string
		for i, e := range p.Edges {
			if loop[p.Block().Preds[i]] {
				seen := map[ssa.Value]bool{}
				var walk func(v ssa.Value)
				walk = func(v ssa.Value) {
					if seen[v] {
						return
					}
					seen[v] = true
					if q, ok := v.(*ssa.Phi); ok && q != p && loop[q.Block()] && q.Block() != p.Block() {
						for _, e2 := range q.Edges {
							walk(e2)
						}
						return
					}
					out = append(out, linearString(v, rename))
				}
				walk(e)
			}
		}
		sort.Strings(out)
		return uniq(out)
	}
	wantCW := `+CW +ELEM.Offset.Start -LR +len(` + repl + `)`
	wantLR := "+ELEM.Offset.Start +len(ELEM.Value)"
	sortTerms := func(x string) string { f := strings.Fields(x); sort.Strings(f); return strings.Join(f, " ") }
	if got := backVals(cw); len(got) != 1 || sortTerms(got[0]) != sortTerms(wantCW) {
		problems = append(problems, fmt.Sprintf("the write cursor becomes %v on the back edge, expected [%s] (gap plus the very text that was written)", got, wantCW))
	}
	if got := backVals(lr); len(got) != 1 || sortTerms(got[0]) != sortTerms(wantLR) {
		problems = append(problems, fmt.Sprintf("the read cursor becomes %v on the back edge, expected [%s] (the end of the matched text)", got, wantLR))
	}
	off2 := linearString(w2.Call.Args[1], rename)
	if len(problems) == 0 {
		ob.OKnt(fmt.Sprintf("WriteAt(CW, gap); WriteAt([%s], replacement); on every path around the loop the write cursor advances by gap+len(replacement) and the read cursor moves to the end of the match", off2))
	} else {
		ob.Bad(strings.Join(problems, "; "))
	}
	// tail copy and closing
	ob2 := r.Ob(rule, "searchReplace: the tail after the last match is copied", c.pos(fn.Pos()))
	var tail *ssa.Call
	for _, w := range writes {
		if w != w1 && w != w2 {
			tail = w
		}
	}
	if tail == nil {
		ob2.Bad("no WriteAt after the splice loop: the text after the last match is lost")
	} else {
		ob2.Pos = c.pos(tail.Pos())
		cds := NewPostDom(fn).ControlDeps()
		var conds []string
		for _, l := range condsOf(cds, tail.Block()) {
			if !loop[l.If.Block()] {
				conds = append(conds, norm(l.String()))
			}
		}
		d := norm(exprStr(tail.Call.Args[2]))
		okData := false
		if trd, ok := tail.Call.Args[2].(*ssa.Call); ok && len(trd.Call.Args) == 3 && norm(exprStr(trd.Call.Args[0])) == "RR" && norm(exprStr(trd.Call.Args[2])) == "LR" {
			// the length: (total size) - read cursor, where the total size is a Size() call on a reader or a parameter that callers fill with one
			terms, k := linear(trd.Call.Args[1], norm)
			if k == 0 && len(terms) == 2 && terms["LR"] == -1 {
				for t, coef := range terms {
					if t == "LR" || coef != 1 {
						continue
					}
					if strings.HasSuffix(t, ".Size()") {
						okData = true
					}
					for i, p := range fn.Params {
						if p.Name() == t {
							okData = true
							for _, caller := range c.callersIn("engine", fn) {
								for _, cl := range callsTo(caller, fn) {
									if i < len(cl.Call.Args) && !strings.HasSuffix(exprStr(cl.Call.Args[i]), ".Size()") {
										okData = false
									}
								}
							}
						}
					}
				}
			}
		}
		okTail := len(conds) == 1 && conds[0] == "(LR < RR.Size())" && norm(exprStr(tail.Call.Args[1])) == "CW" && okData
		ob2.Check(okTail, "WriteAt(CW, "+d+") under "+strings.Join(conds, " && "), fmt.Sprintf("tail copy is WriteAt(%s, %s) under %v; expected the rest of the input from the read cursor, written at the write cursor, when the read cursor is short of the size", norm(exprStr(tail.Call.Args[1])), d, conds))
		ob2.Nontrivial = true
	}
	ob3 := r.Ob(rule, "searchReplace: the writer is closed on every path", c.pos(fn.Pos()))
	wc := c.Method("files", "Writer", "Close")
	closedAfter := func(f *ssa.Function, after ssa.Instruction, writer ssa.Value) bool {
		pd := NewPostDom(f)
		for _, call := range callsTo(f, wc) {
			if pd.PostDominates(call.Block(), after.Block()) && traceAddr(call.Call.Args[0]).Root == traceAddr(writer).Root {
				return true
			}
			// the writer variable may be a phi of the mode arms: compare rendered names
			if pd.PostDominates(call.Block(), after.Block()) && exprStr(call.Call.Args[0]) == exprStr(writer) {
				return true
			}
		}
		return false
	}
	okClose := false
	wv := w1.Call.Args[0]
	if prm, isParam := wv.(*ssa.Parameter); isParam {
		// the splice helper received the writer: its caller must close it after the call
		idx := -1
		for i, p := range fn.Params {
			if p == prm {
				idx = i
			}
		}
		okClose = idx >= 0
		ncall := 0
		for _, caller := range c.callersIn("engine", fn) {
			for _, cl := range callsTo(caller, fn) {
				ncall++
				if !closedAfter(caller, cl, cl.Call.Args[idx]) {
					okClose = false
				}
			}
		}
		if ncall == 0 {
			okClose = false
		}
	} else if idx, suffix := fieldOfParam(fn, wv); idx >= 0 {
		// the splice helper received a record that holds the writer (o.writer): its caller closes that field of what it passed
		okClose = true
		ncall := 0
		for _, caller := range c.callersIn("engine", fn) {
			pd := NewPostDom(caller)
			for _, cl := range callsTo(caller, fn) {
				ncall++
				want := exprStr(cl.Call.Args[idx]) + suffix
				found := false
				for _, call := range callsTo(caller, wc) {
					if pd.PostDominates(call.Block(), cl.Block()) && exprStr(call.Call.Args[0]) == want {
						found = true
					}
				}
				if !found {
					okClose = false
				}
			}
		}
		if ncall == 0 {
			okClose = false
		}
	} else {
		okClose = closedAfter(fn, w1, wv)
	}
	ob3.Check(okClose, "writer.Close() post-dominates the splice", "writer.Close() does not post-dominate the writes: output may never be flushed or the descriptor leaks")
	ob3.Nontrivial = true
}

// ---------------------------------------------------------------------------------------------
// C20.R1

func ruleFileListGuards(c *Ctx, rule string) {
	r := c.R
	fn := c.Method("files", "Path", "GetFileList")
	if fn == nil {
		r.Ob(rule, "anchor files.(*Path).GetFileList", "").Und("not found")
		return
	}
	// every string that enters a result slice here (not coming from a recursive call); helpers that only GetFileList reaches and
	// that return a list of names are part of it
	type entry struct {
		in  ssa.Instruction
		val ssa.Value
	}
	var entries []entry
	unit := []*ssa.Function{fn}
	for f := range c.Reachable(fn) {
		if f == fn || !c.isRepoFn(f) || f.Pkg != fn.Pkg || len(f.Blocks) == 0 {
			continue
		}
		res := f.Signature.Results()
		if res.Len() != 1 {
			continue
		}
		if sl, ok := res.At(0).Type().Underlying().(*types.Slice); !ok || !types.Identical(sl.Elem(), types.Typ[types.String]) {
			continue
		}
		callers := 0
		foreign := false
		for g := range c.allFns {
			if c.isRepoFn(g) && len(callsTo(g, f)) > 0 {
				callers++
				if g != fn {
					foreign = true
				}
			}
		}
		if callers > 0 && !foreign {
			unit = append(unit, f)
		}
	}
	cdsOf := map[*ssa.Function]map[*ssa.BasicBlock][]CtrlEdge{}
	for _, f := range unit {
		cdsOf[f] = NewPostDom(f).ControlDeps()
	}
	addFromSliceLit := func(sl ssa.Value, at ssa.Instruction) {
		s, ok := sl.(*ssa.Slice)
		if !ok {
			return
		}
		a, ok := s.X.(*ssa.Alloc)
		if !ok {
			return
		}
		for _, ref := range *a.Referrers() {
			if ia, ok := ref.(*ssa.IndexAddr); ok {
				for _, r2 := range *ia.Referrers() {
					if st, ok := r2.(*ssa.Store); ok {
						if b, ok := st.Val.Type().Underlying().(*types.Basic); ok && b.Info()&types.IsString != 0 {
							entries = append(entries, entry{at, st.Val})
						}
					}
				}
			}
		}
	}
	for _, f := range unit {
		instrsOf(f, func(in ssa.Instruction) {
			switch x := in.(type) {
			case *ssa.Call:
				if b, ok := x.Call.Value.(*ssa.Builtin); ok && b.Name() == "append" && len(x.Call.Args) == 2 {
					addFromSliceLit(x.Call.Args[1], in)
				}
			case *ssa.Return:
				for _, rv := range x.Results {
					addFromSliceLit(rv, in)
				}
			}
		})
	}
	r.Floor(rule, "places where GetFileList adds a path of its own to the result", len(entries), 1)
	for i, e := range entries {
		ob := r.Ob(rule, fmt.Sprintf("GetFileList: listed path #%d is a regular file that matched", i+1), c.pos(e.in.Pos()))
		var notDir, matched bool
		var lits []string
		for _, l := range condsOf(cdsOf[e.in.Parent()], e.in.Block()) {
			s := l.String()
			lits = append(lits, s)
			if (strings.Contains(s, ".IsDir()") && !l.Pol) || (strings.Contains(s, ".IsRegular()") && l.Pol) {
				notDir = true
			}
			if strings.Contains(s, "pathMatches(") && l.Pol {
				matched = true
			}
		}
		// `!e.IsDir() && pathMatches(...)`: the IsDir test has negative polarity on the path to the append
		path := exprStr(e.val)
		switch {
		case !notDir:
			ob.Bad("the path " + path + " is added without a test that the entry is not a directory (conditions: " + strings.Join(lits, " && ") + "): directories can be listed as files")
		case !matched:
			ob.Bad("the path " + path + " is added without pathMatches against the pattern segment (conditions: " + strings.Join(lits, " && ") + ")")
		default:
			ob.OKnt("added under !IsDir() and pathMatches(...): " + path)
		}
	}
	// recursion always shrinks the pattern: every call inside a cycle of the call graph below GetFileList passes something that is
	// strictly smaller than what the caller received - path.shrink(), a slice entries[k:] with k >= 1, or an index stepped forward
	shrink := c.Method("files", "Path", "shrink")
	ob := r.Ob(rule, "GetFileList recurses only on the shrunk pattern", c.pos(fn.Pos()))
	below := c.Reachable(fn)
	inCycle := func(f, g *ssa.Function) bool { // g is called by f; does g reach f again?
		return g == f || c.Reachable(g)[f]
	}
	var same, unknown []string
	nrec := 0
	for f := range below {
		if !c.isRepoFn(f) || f.Pkg != fn.Pkg {
			continue
		}
		instrsOf(f, func(in ssa.Instruction) {
			call, ok := in.(*ssa.Call)
			if !ok {
				return
			}
			g := call.Call.StaticCallee()
			if g == nil || !below[g] && g != fn || !c.isRepoFn(g) || g.Pkg != fn.Pkg || !inCycle(f, g) {
				return
			}
			// only calls that hand a pattern on are of interest (a closure that is given a directory name is control flow)
			pathT := c.NamedType("files", "Path")
			takesPattern := false
			for _, a := range call.Call.Args {
				t := deref(a.Type())
				if pathT != nil && types.Identical(t, pathT) {
					takesPattern = true
				}
				if sl, ok := a.Type().Underlying().(*types.Slice); ok {
					if nt, ok := sl.Elem().(*types.Named); ok && nt.Obj().Name() == "PathEntry" {
						takesPattern = true
					}
				}
			}
			if !takesPattern {
				return
			}
			nrec++
			smaller, unchanged := false, true
			for _, a := range call.Call.Args {
				// only the arguments that carry the pattern decide
				isPattern := pathT != nil && types.Identical(deref(a.Type()), pathT)
				if sl, ok := a.Type().Underlying().(*types.Slice); ok {
					if nt, ok := sl.Elem().(*types.Named); ok && nt.Obj().Name() == "PathEntry" {
						isPattern = true
					}
				}
				if bt, ok := a.Type().Underlying().(*types.Basic); ok && bt.Info()&types.IsInteger != 0 {
					isPattern = true // an index into the segments
				}
				if !isPattern {
					continue
				}
				a = resolveCaptured(f, a)
				switch x := a.(type) {
				case *ssa.Call:
					if x.Call.StaticCallee() == shrink && shrink != nil {
						smaller = true
					}
					unchanged = false
				case *ssa.Slice:
					if k, ok := constInt(x.Low); x.Low != nil && ok && k >= 1 {
						smaller = true
					}
					unchanged = false
				case *ssa.BinOp:
					if k, ok := constInt(x.Y); ok && x.Op == token.ADD && k >= 1 {
						if _, isParam := x.X.(*ssa.Parameter); isParam {
							smaller = true
						}
					}
					unchanged = false
				case *ssa.Parameter, *ssa.Const:
				default:
					unchanged = false
				}
			}
			switch {
			case smaller:
			case unchanged:
				same = append(same, c.pos(call.Pos()))
			default:
				unknown = append(unknown, c.pos(call.Pos()))
			}
		})
	}
	switch {
	case len(same) > 0:
		ob.Bad(fmt.Sprintf("the recursive call(s) at %s pass on exactly what the function received: the recursion depth is not bounded by the number of segments", strings.Join(same, ", ")))
	case nrec == 0:
		ob.Und("no recursive call found below GetFileList: the pattern is walked in some other way")
	case len(unknown) > 0:
		ob.Und(fmt.Sprintf("%d recursive call(s); at %s it is not evident that the pattern handed on is shorter", nrec, strings.Join(unknown, ", ")))
	default:
		ob.OKnt(fmt.Sprintf("%d recursive call(s), each on path.shrink(), a tail slice of the segments or an index stepped forward", nrec))
	}
	ob.Nontrivial = true
}

// lengthPositiveAt: a branch that dominates `at` in fn establishes that the value rendered as lenStr is at least 1 (the non-positive
// case returned early).
func lengthPositiveAt(fn *ssa.Function, lenStr string, at ssa.Instruction) bool {
	for _, b := range fn.Blocks {
		iff, ok := b.Instrs[len(b.Instrs)-1].(*ssa.If)
		if !ok {
			continue
		}
		// a predicate helper that answers false for a zero argument: `if !fits(length, ...) { return }`
		{
			cv, pol := iff.Cond, true
			if u, ok := cv.(*ssa.UnOp); ok && u.Op == token.NOT {
				cv, pol = u.X, false
			}
			if call, ok := cv.(*ssa.Call); ok {
				if g := call.Call.StaticCallee(); g != nil && len(g.Blocks) > 0 {
					for i, a := range call.Call.Args {
						if exprStr(a) != lenStr || i >= len(g.Params) {
							continue
						}
						if falseForZero(g, g.Params[i]) {
							okSucc := b.Succs[0]
							if !pol {
								okSucc = b.Succs[1]
							}
							if okSucc == at.Block() || okSucc.Dominates(at.Block()) {
								return true
							}
						}
					}
				}
			}
		}
		bo, ok := iff.Cond.(*ssa.BinOp)
		if !ok || exprStr(bo.X) != lenStr {
			continue
		}
		k, isC := constInt(bo.Y)
		var okSucc *ssa.BasicBlock
		switch {
		case isC && bo.Op == token.LEQ && k >= 0, isC && bo.Op == token.LSS && k >= 1, isC && bo.Op == token.EQL && k == 0:
			okSucc = b.Succs[1]
		case isC && bo.Op == token.GTR && k >= 0, isC && bo.Op == token.GEQ && k >= 1, isC && bo.Op == token.NEQ && k == 0:
			okSucc = b.Succs[0]
		}
		if okSucc != nil && (okSucc == at.Block() || okSucc.Dominates(at.Block())) {
			return true
		}
	}
	return false
}

// ruleCutsetNotPrefix implements C20.R2 / C18.R6: strings.Trim/TrimLeft/TrimRight take a *set of characters*, not a prefix. On a file
// pattern or a file name, a set with two or more different characters, one of which can occur in a name ('.', a letter, ...),
// removes leading name characters as well: TrimLeft(".cfg/x", "./") is "cfg/x". Removing a prefix is TrimPrefix/TrimSuffix.
func ruleCutsetNotPrefix(c *Ctx, rule string, pkgs []string) {
	r := c.R
	n := 0
	var bad []string
	var first string
	for _, pkg := range pkgs {
		for _, fn := range c.SrcFuncs(pkg) {
			instrsOf(fn, func(in ssa.Instruction) {
				call, ok := in.(*ssa.Call)
				if !ok {
					return
				}
				sc := call.Call.StaticCallee()
				if sc == nil || sc.Pkg == nil || (sc.Pkg.Pkg.Path() != "strings" && sc.Pkg.Pkg.Path() != "bytes") || len(call.Call.Args) != 2 {
					return
				}
				switch sc.Name() {
				case "Trim", "TrimLeft", "TrimRight":
				default:
					return
				}
				n++
				k, ok := call.Call.Args[1].(*ssa.Const)
				if !ok || k.Value == nil || k.Value.Kind() != constant.String {
					return
				}
				set := constant.StringVal(k.Value)
				distinct := map[rune]bool{}
				nameChar := false
				for _, ch := range set {
					distinct[ch] = true
					if ch != ' ' && ch != '\t' && ch != '\n' && ch != '\r' && ch != '/' && ch != '\\' {
						nameChar = true
					}
				}
				if len(distinct) >= 2 && nameChar {
					bad = append(bad, fmt.Sprintf("%s: %s.%s(%s, %q) [%s]", fnName(fn), sc.Pkg.Pkg.Name(), sc.Name(), exprStr(call.Call.Args[0]), set, c.pos(call.Pos())))
					if first == "" {
						first = c.pos(call.Pos())
					}
				}
			})
		}
	}
	r.Stats["trim_cutset_calls"] = n
	ob := r.Ob(rule, "no path or file name is cut with a multi-character cutset", first)
	if len(bad) == 0 {
		ob.OKnt(fmt.Sprintf("%d Trim/TrimLeft/TrimRight call(s) in %v; none uses a set of two or more different characters that includes a file-name character", n, pkgs))
	} else {
		ob.Bad(strings.Join(bad, "; ") + ": the second argument is a set of characters, so every leading (trailing) character of the set is removed, including the first characters of names such as `.cfg` or `..data`; the selected files are no longer those the pattern describes")
	}
}

// ruleAffixOverlap implements C20.R3: a name is accepted on `HasPrefix(name, p) && HasSuffix(name, s)` only together with a length
// test, because without it the two may overlap inside a short name (`ab*ba` accepts `aba`).
func ruleAffixOverlap(c *Ctx, rule string, pkgs []string) {
	r := c.R
	npairs := 0
	var bad []string
	first := ""
	for _, pkg := range pkgs {
		for _, fn := range c.SrcFuncs(pkg) {
			type use struct {
				call  *ssa.Call
				t, a  string
				isPre bool
			}
			var uses []use
			instrsOf(fn, func(in ssa.Instruction) {
				call, ok := in.(*ssa.Call)
				if !ok {
					return
				}
				sc := call.Call.StaticCallee()
				if sc == nil || sc.Pkg == nil || sc.Pkg.Pkg.Path() != "strings" || len(call.Call.Args) != 2 {
					return
				}
				if sc.Name() != "HasPrefix" && sc.Name() != "HasSuffix" {
					return
				}
				if _, isConst := call.Call.Args[1].(*ssa.Const); isConst {
					return
				}
				uses = append(uses, use{call, exprStr(call.Call.Args[0]), exprStr(call.Call.Args[1]), sc.Name() == "HasPrefix"})
			})
			for _, p := range uses {
				if !p.isPre {
					continue
				}
				for _, s := range uses {
					if s.isPre || s.t != p.t {
						continue
					}
					// a conjunction: the suffix test is evaluated only when the prefix test held, or the other way round
					conj := false
					for _, pair := range [][2]*ssa.Call{{p.call, s.call}, {s.call, p.call}} {
						for _, ref := range *pair[0].Referrers() {
							if iff, ok := ref.(*ssa.If); ok {
								t := iff.Block().Succs[0]
								if len(t.Preds) == 1 && (t == pair[1].Block() || t.Dominates(pair[1].Block())) {
									conj = true
								}
							}
						}
					}
					if !conj {
						continue
					}
					npairs++
					// a length test mentioning the name and an affix
					guarded := false
					instrsOf(fn, func(in ssa.Instruction) {
						b, ok := in.(*ssa.BinOp)
						if !ok {
							return
						}
						switch b.Op {
						case token.LSS, token.LEQ, token.GTR, token.GEQ:
							str := exprStr(b)
							if strings.Contains(str, "len("+p.t+")") && (strings.Contains(str, "len("+p.a+")") || strings.Contains(str, "len("+s.a+")")) {
								guarded = true
							}
						}
					})
					if !guarded {
						bad = append(bad, fmt.Sprintf("%s: HasPrefix(%s, %s) && HasSuffix(%s, %s) [%s]", fnName(fn), p.t, p.a, s.t, s.a, c.pos(p.call.Pos())))
						if first == "" {
							first = c.pos(p.call.Pos())
						}
					}
				}
			}
		}
	}
	r.Stats["prefix_and_suffix_conjunctions"] = npairs
	ob := r.Ob(rule, "a prefix test and a suffix test on one name come with a length test", first)
	if len(bad) == 0 {
		ob.OKnt(fmt.Sprintf("%d conjunction(s) of HasPrefix and HasSuffix on the same string in %v, all with a comparison of the lengths", npairs, pkgs))
	} else {
		ob.Bad(strings.Join(bad, "; ") + ": without comparing len(name) with the lengths of the affixes the prefix and the suffix may overlap, so a name shorter than prefix+suffix is selected (`ab*ba` selects `aba`)")
	}
}

// sameCallValue: the two values are the same SSA value, or calls of the same getter on the same values (a getter called twice).
func sameCallValue(a, b ssa.Value, depth int) bool {
	if a == b {
		return true
	}
	if depth > 3 {
		return false
	}
	ca, ok1 := a.(*ssa.Call)
	cb, ok2 := b.(*ssa.Call)
	if !ok1 || !ok2 || len(ca.Call.Args) != len(cb.Call.Args) {
		return false
	}
	if ca.Call.IsInvoke() != cb.Call.IsInvoke() {
		return false
	}
	if ca.Call.IsInvoke() {
		if ca.Call.Method != cb.Call.Method || !sameCallValue(ca.Call.Value, cb.Call.Value, depth+1) {
			return false
		}
		if ca.Call.Method.Name() != "Size" && ca.Call.Method.Name() != "Len" {
			return false
		}
	} else if ca.Call.StaticCallee() == nil || ca.Call.StaticCallee() != cb.Call.StaticCallee() {
		return false
	}
	for i := range ca.Call.Args {
		if !sameCallValue(ca.Call.Args[i], cb.Call.Args[i], depth+1) {
			return false
		}
	}
	return true
}

// ruleReaderOffsetsAreFileOffsets implements C03.R6 / C07.R6: a files.Reader addresses the input by byte offsets of the input
// itself. Its size is fixed by the constructor (nobody else writes the field) and Seek positions the contents at exactly the offset
// it is given (no hidden base), so offsets reported in matches index the text the caller handed in.
func ruleReaderOffsetsAreFileOffsets(c *Ctx, rule string) {
	r := c.R
	rdT := c.NamedType("files", "Reader")
	seek := c.Method("files", "Reader", "Seek")
	if rdT == nil || seek == nil {
		r.Ob(rule, "anchor files.Reader / Seek", "").Und("not found")
		return
	}
	// who writes size
	ob := r.Ob(rule, "files.Reader.size is fixed by the constructor", c.pos(rdT.Obj().Pos()))
	var writers []string
	nlit := 0
	for _, fn := range c.SrcFuncs("files") {
		instrsOf(fn, func(in ssa.Instruction) {
			st, ok := in.(*ssa.Store)
			if !ok {
				return
			}
			fa, ok := st.Addr.(*ssa.FieldAddr)
			if !ok || !types.Identical(deref(fa.X.Type()), rdT) || fieldName(rdT, fa.Field) != "size" {
				return
			}
			if a, isAlloc := fa.X.(*ssa.Alloc); isAlloc {
				// a composite literal being filled in: the only store to that field of that object in the function
				cnt := 0
				for _, ref := range *a.Referrers() {
					if fa2, ok := ref.(*ssa.FieldAddr); ok && fa2.Field == fa.Field {
						for _, r2 := range *fa2.Referrers() {
							if _, ok := r2.(*ssa.Store); ok {
								cnt++
							}
						}
					}
				}
				if cnt == 1 {
					nlit++
					return
				}
			}
			writers = append(writers, fnName(fn)+" ["+c.pos(st.Pos())+"]")
		})
	}
	if len(writers) == 0 && nlit > 0 {
		ob.OKnt(fmt.Sprintf("set in %d constructor literal(s) and nowhere else", nlit))
	} else if len(writers) > 0 {
		ob.Bad("the size is changed after construction in " + strings.Join(writers, ", ") + ": Size() no longer is the length of the input, and offsets near the end are cut off")
	} else {
		ob.Und("no store to the size field found")
	}
	// Seek passes the offset through
	ob2 := r.Ob(rule, "files.Reader.Seek positions the contents at the requested offset", c.pos(seek.Pos()))
	if len(seek.Params) < 2 {
		ob2.Und("unexpected signature")
		return
	}
	off := seek.Params[1]
	verdict := ""
	var examine func(fn *ssa.Function, offVal ssa.Value, depth int)
	examine = func(fn *ssa.Function, offVal ssa.Value, depth int) {
		instrsOf(fn, func(in ssa.Instruction) {
			call, ok := in.(*ssa.Call)
			if !ok {
				return
			}
			if call.Call.IsInvoke() && call.Call.Method.Name() == "Seek" && len(call.Call.Args) >= 1 {
				terms, k := linearOver(call.Call.Args[0])
				if len(terms) == 1 && terms[offVal] == 1 && k == 0 {
					if verdict == "" {
						verdict = "ok"
					}
				} else {
					verdict = "the contents are positioned at " + exprStr(call.Call.Args[0]) + " instead of the requested offset"
				}
				return
			}
			if g := call.Call.StaticCallee(); g != nil && c.isRepoFn(g) && depth == 0 {
				for i, a := range call.Call.Args {
					terms, k := linearOver(a)
					if len(terms) == 1 && terms[offVal] == 1 && k == 0 && i < len(g.Params) {
						examine(g, g.Params[i], depth+1)
					} else if _, dep := terms[offVal]; dep {
						verdict = "the offset handed to " + g.Name() + " is " + exprStr(a) + " instead of the requested offset"
					}
				}
			}
		})
	}
	examine(seek, off, 0)
	switch verdict {
	case "ok":
		ob2.OKnt("contents.Seek(offset, io.SeekStart) with the parameter unchanged")
	case "":
		ob2.Und("no Seek on the contents found")
	default:
		ob2.Bad(verdict + ": every offset the engine reports is shifted against the input the caller supplied")
	}
}

// ruleNoSharedBuffers implements C07.R7: assigning one buffer-holding field of an object to another field of the same object copies
// the slice header, not the bytes. If the source field's buffer is then refilled before the source field itself is replaced, the copy
// silently changes with it while its bookkeeping (offsets) still describes the old bytes.
func ruleNoSharedBuffers(c *Ctx, rule string) {
	r := c.R
	hasSlice := func(t types.Type) bool {
		var w func(t types.Type, d int) bool
		w = func(t types.Type, d int) bool {
			if d > 4 {
				return false
			}
			switch u := t.Underlying().(type) {
			case *types.Slice:
				return true
			case *types.Struct:
				for i := 0; i < u.NumFields(); i++ {
					if w(u.Field(i).Type(), d+1) {
						return true
					}
				}
			}
			return false
		}
		return w(t, 0)
	}
	// field path of an address relative to its root: "window.buffer"
	pathOf := func(addr ssa.Value) (ssa.Value, string) {
		ch := traceAddrOpt(addr, false) // layout paths: an embedded struct is a field like any other here
		var parts []string
		for i := len(ch.Steps) - 1; i >= 0; i-- {
			if ch.Steps[i].Kind == "field" {
				parts = append(parts, ch.Steps[i].Field)
			}
		}
		return ch.Root, strings.Join(parts, ".")
	}
	n := 0
	var problems []string
	first := ""
	for _, fn := range c.SrcFuncs("files") {
		instrsOf(fn, func(in ssa.Instruction) {
			st, ok := in.(*ssa.Store)
			if !ok || !hasSlice(st.Val.Type()) {
				return
			}
			ld, ok := st.Val.(*ssa.UnOp)
			if !ok || ld.Op != token.MUL {
				return
			}
			srcRoot, srcPath := pathOf(ld.X)
			dstRoot, dstPath := pathOf(st.Addr)
			if srcRoot != dstRoot || srcPath == "" || dstPath == "" || srcPath == dstPath {
				return
			}
			if _, isParam := srcRoot.(*ssa.Parameter); !isParam {
				return
			}
			// a swap: the source field was already given another value between the load and this store
			replaced := false
			instrsOf(fn, func(y ssa.Instruction) {
				if s2, ok := y.(*ssa.Store); ok && s2 != st {
					if rt, p := pathOf(s2.Addr); rt == srcRoot && p == srcPath && instrDominates(ld, s2) && instrDominates(s2, st) {
						replaced = true
					}
				}
			})
			if replaced {
				return
			}
			n++
			// forward: is the source field's buffer written before the source field is replaced?
			seen := map[*ssa.BasicBlock]bool{}
			problem := ""
			var walk func(b *ssa.BasicBlock, from int)
			walk = func(b *ssa.BasicBlock, from int) {
				for i := from; i < len(b.Instrs) && problem == ""; i++ {
					switch x := b.Instrs[i].(type) {
					case *ssa.Store:
						rt, p := pathOf(x.Addr)
						if rt == srcRoot && p == srcPath {
							return // the source field now holds something else
						}
						if ia, ok := x.Addr.(*ssa.IndexAddr); ok {
							rt2, p2 := pathOf(ia.X)
							if rt2 == srcRoot && strings.HasPrefix(p2, srcPath) {
								problem = "an element of " + srcPath + " is stored at " + c.pos(x.Pos())
							}
						}
					case *ssa.Call:
						sc := x.Call.StaticCallee()
						name := ""
						if sc != nil {
							name = sc.Name()
						} else if x.Call.IsInvoke() {
							name = x.Call.Method.Name()
						} else if bi, ok := x.Call.Value.(*ssa.Builtin); ok {
							name = bi.Name()
						}
						if name != "ReadAt" && name != "Read" && name != "ReadFull" && name != "copy" {
							continue
						}
						for ai, a := range x.Call.Args {
							if name == "copy" && ai != 0 {
								continue
							}
							if _, isSl := a.Type().Underlying().(*types.Slice); !isSl {
								continue
							}
							v := a
							if sl, ok := v.(*ssa.Slice); ok {
								v = sl.X
							}
							rt2, p2 := pathOf(v)
							if rt2 == srcRoot && (p2 == srcPath || strings.HasPrefix(p2, srcPath+".")) {
								problem = name + " fills " + p2 + " at " + c.pos(x.Pos())
							}
						}
					}
				}
				if problem != "" {
					return
				}
				for _, s := range b.Succs {
					if !seen[s] {
						seen[s] = true
						walk(s, 0)
					}
				}
			}
			idx := 0
			for i, x := range st.Block().Instrs {
				if x == ssa.Instruction(st) {
					idx = i + 1
				}
			}
			walk(st.Block(), idx)
			if problem != "" {
				problems = append(problems, fmt.Sprintf("%s: %s = %s [%s] shares the buffer, and then %s", fnName(fn), dstPath, srcPath, c.pos(st.Pos()), problem))
				if first == "" {
					first = c.pos(st.Pos())
				}
			}
		})
	}
	r.Stats["buffer_holding_fields_copied_to_sibling_fields"] = n
	ob := r.Ob(rule, "package files: no two fields of one object share a buffer that is refilled", first)
	if len(problems) == 0 {
		ob.OKnt(fmt.Sprintf("%d assignment(s) of a buffer-holding field to a sibling field; none is followed by a refill of the source before the source is replaced", n))
	} else {
		ob.Bad(strings.Join(problems, "; ") + ": the bytes change under the copy while its offsets still describe the old contents, so a later read from the copy returns bytes of another part of the file")
	}
}

// falseForZero: the bool function g returns false whenever its integer parameter p is zero (a test `p == 0` / `p <= 0` / `p < 1`
// in its entry block leads to `return false`).
func falseForZero(g *ssa.Function, p *ssa.Parameter) bool {
	if len(g.Blocks) == 0 {
		return false
	}
	b := g.Blocks[0]
	iff, ok := b.Instrs[len(b.Instrs)-1].(*ssa.If)
	if !ok {
		return false
	}
	bo, ok := iff.Cond.(*ssa.BinOp)
	if !ok || bo.X != ssa.Value(p) {
		return false
	}
	k, isC := constInt(bo.Y)
	if !isC {
		return false
	}
	var zeroSucc *ssa.BasicBlock
	switch {
	case bo.Op == token.EQL && k == 0, bo.Op == token.LEQ && k == 0, bo.Op == token.LSS && k == 1:
		zeroSucc = b.Succs[0]
	case bo.Op == token.NEQ && k == 0, bo.Op == token.GTR && k == 0, bo.Op == token.GEQ && k == 1:
		zeroSucc = b.Succs[1]
	}
	if zeroSucc == nil {
		return false
	}
	if ret, ok := zeroSucc.Instrs[len(zeroSucc.Instrs)-1].(*ssa.Return); ok && len(ret.Results) == 1 {
		if kc, ok := ret.Results[0].(*ssa.Const); ok && kc.Value != nil && kc.Value.Kind() == constant.Bool && !constant.BoolVal(kc.Value) {
			return true
		}
	}
	return false
}

// ruleReadOffsetsNonNegative implements C09.R14 / C07.R8: a sign analysis with branch refinement over SSA. Every offset handed to
// (*os.File).ReadAt in package files is shown to be non-negative: constants, sums of non-negative values, lengths, and values that
// reach the use only over the edge of a comparison that excludes the negative case (`if x < 0 { x = 0 }` makes both inputs of the
// merge non-negative). os.File.ReadAt fails with "negative offset" otherwise, and the reader turns that error into a panic.
func ruleReadOffsetsNonNegative(c *Ctx, rule string) {
	r := c.R
	n := 0
	for _, fn := range c.SrcFuncs("files") {
		k := 0
		instrsOf(fn, func(in ssa.Instruction) {
			call, ok := in.(*ssa.Call)
			if !ok {
				return
			}
			sc := call.Call.StaticCallee()
			if sc == nil || sc.Pkg == nil || sc.Pkg.Pkg.Path() != "os" || sc.Name() != "ReadAt" || len(call.Call.Args) != 3 {
				return
			}
			n++
			k++
			off := call.Call.Args[2]
			ob := r.Ob(rule, fmt.Sprintf("%s: ReadAt #%d is given a non-negative offset", fnName(fn), k), c.pos(call.Pos()))
			if ok, why := c.nonNegAt(fn, off, call.Block(), 0, map[ssa.Value]bool{}); ok {
				ob.OKnt("sign analysis: " + exprStr(off) + " is non-negative on every path to the call")
			} else if strings.Contains(why, "WITNESS ") {
				ob.Bad("the offset " + exprStr(off) + " can be negative: " + strings.Replace(why, "WITNESS ", "", 1) + "; os.File.ReadAt then fails with `negative offset` and the reader panics on that error")
			} else {
				ob.Und("the sign analysis could not show that " + exprStr(off) + " is non-negative (" + why + ")")
			}
		})
	}
	r.Floor(rule, "positioned reads of an os.File in package files", n, 1)
}

// nonNegAt: v is >= 0 whenever block `at` executes.
func (c *Ctx) nonNegAt(fn *ssa.Function, v ssa.Value, at *ssa.BasicBlock, depth int, seen map[ssa.Value]bool) (bool, string) {
	if depth > 12 {
		return false, "too deep"
	}
	// a dominating comparison establishes v >= 0 at this block
	for _, l := range domConds(fn, at) {
		if b, ok := l.Cond.(*ssa.BinOp); ok && b.X == v {
			if k, isC := constInt(b.Y); isC {
				switch {
				case b.Op == token.LSS && k <= 0 && !l.Pol, b.Op == token.GEQ && k >= 0 && l.Pol, b.Op == token.GTR && k >= -1 && l.Pol, b.Op == token.LEQ && k <= -1 && !l.Pol, b.Op == token.EQL && k >= 0 && l.Pol:
					return true, ""
				}
			}
		}
	}
	if k, ok := constInt(v); ok {
		if k >= 0 {
			return true, ""
		}
		return false, fmt.Sprintf("constant %d", k)
	}
	switch x := v.(type) {
	case *ssa.Convert:
		return c.nonNegAt(fn, x.X, at, depth+1, seen)
	case *ssa.Call:
		if b, ok := x.Call.Value.(*ssa.Builtin); ok && (b.Name() == "len" || b.Name() == "cap") {
			return true, ""
		}
		// a helper of the repository all of whose returns are non-negative (`atLeastZero`)
		if g := x.Call.StaticCallee(); g != nil && len(g.Blocks) > 0 && g.Pkg == fn.Pkg && g.Signature.Results().Len() == 1 {
			all, nret := true, 0
			why := ""
			instrsOf(g, func(in ssa.Instruction) {
				if ret, ok := in.(*ssa.Return); ok && len(ret.Results) == 1 {
					nret++
					if ok, w := c.nonNegAt(g, ret.Results[0], ret.Block(), depth+1, map[ssa.Value]bool{}); !ok {
						all, why = false, w
					}
				}
			})
			if all && nret > 0 {
				return true, ""
			}
			return false, "result of " + g.Name() + ": " + why
		}
		return false, "result of " + callName(&x.Call)
	case *ssa.BinOp:
		switch x.Op {
		case token.ADD, token.MUL, token.QUO:
			if ok, why := c.nonNegAt(fn, x.X, at, depth+1, seen); !ok {
				return false, why
			}
			return c.nonNegAt(fn, x.Y, at, depth+1, seen)
		case token.REM, token.AND:
			return c.nonNegAt(fn, x.X, at, depth+1, seen)
		case token.SUB:
			// a - b with a dominating comparison b < a / b <= a (operands compared by value or, for reloaded fields, by rendering)
			same := func(p, q ssa.Value) bool { return p == q || exprStr(p) == exprStr(q) }
			for _, l := range domConds(fn, at) {
				b, ok := l.Cond.(*ssa.BinOp)
				if !ok {
					continue
				}
				op := b.Op
				if !l.Pol {
					op = map[token.Token]token.Token{token.LSS: token.GEQ, token.GEQ: token.LSS, token.GTR: token.LEQ, token.LEQ: token.GTR}[op]
				}
				switch {
				case (op == token.LSS || op == token.LEQ) && same(b.X, x.Y) && same(b.Y, x.X):
					return true, ""
				case (op == token.GTR || op == token.GEQ) && same(b.X, x.X) && same(b.Y, x.Y):
					return true, ""
				}
			}
			return false, "WITNESS " + exprStr(x) + " is a difference whose operands no dominating comparison relates"
		}
		return false, exprStr(x) + " is not bounded below"
	case *ssa.Phi:
		if seen[v] {
			return true, "" // a loop-carried value: decided by its other inputs
		}
		seen[v] = true
		for i, e := range x.Edges {
			pred := x.Block().Preds[i]
			// the edge pred -> phi block may itself be the excluding edge of a comparison on e
			if iff, ok := pred.Instrs[len(pred.Instrs)-1].(*ssa.If); ok {
				if b, ok := iff.Cond.(*ssa.BinOp); ok && b.X == e {
					if k, isC := constInt(b.Y); isC {
						onTrue := pred.Succs[0] == x.Block()
						if (b.Op == token.LSS && k <= 0 && !onTrue) || (b.Op == token.GEQ && k >= 0 && onTrue) || (b.Op == token.GTR && k >= -1 && onTrue) || (b.Op == token.LEQ && k <= -1 && !onTrue) {
							continue
						}
					}
				}
			}
			if ok, why := c.nonNegAt(fn, e, pred, depth+1, seen); !ok {
				return false, why
			}
		}
		return true, ""
	case *ssa.Parameter:
		// decided at the call sites (within the package)
		idx := -1
		for i, p := range fn.Params {
			if p == x {
				idx = i
			}
		}
		ncalls := 0
		if idx >= 0 && depth < 6 && fn.Pkg != nil {
			for _, caller := range c.SrcFuncs(fn.Pkg.Pkg.Name()) {
				for _, cl := range callsTo(caller, fn) {
					ncalls++
					if idx >= len(cl.Call.Args) {
						return false, "call with unexpected arity"
					}
					if ok, why := c.nonNegAt(caller, cl.Call.Args[idx], cl.Block(), depth+1, map[ssa.Value]bool{}); !ok {
						return false, "argument of " + caller.Name() + ": " + why
					}
				}
			}
			if ncalls > 0 {
				return true, ""
			}
		}
		return false, "parameter " + x.Name() + " is not tested"
	case *ssa.UnOp:
		return false, exprStr(x) + " is not tested"
	}
	return false, exprStr(v)
}

// resolveCaptured: a value that a closure reads from a variable of the enclosing function is replaced by the one value that variable
// is given there (when there is exactly one).
func resolveCaptured(f *ssa.Function, v ssa.Value) ssa.Value {
	var fv *ssa.FreeVar
	switch x := v.(type) {
	case *ssa.FreeVar:
		fv = x
	case *ssa.UnOp:
		if x.Op == token.MUL {
			fv, _ = x.X.(*ssa.FreeVar)
		}
	}
	if fv == nil || f.Parent() == nil {
		return v
	}
	idx := -1
	for i, q := range f.FreeVars {
		if q == fv {
			idx = i
		}
	}
	var bound ssa.Value
	instrsOf(f.Parent(), func(in ssa.Instruction) {
		if mc, ok := in.(*ssa.MakeClosure); ok && mc.Fn == ssa.Value(f) && idx >= 0 && idx < len(mc.Bindings) {
			bound = mc.Bindings[idx]
		}
	})
	if bound == nil {
		return v
	}
	if a, ok := bound.(*ssa.Alloc); ok {
		var val ssa.Value
		n := 0
		for _, ref := range *a.Referrers() {
			if st, ok := ref.(*ssa.Store); ok && st.Addr == ssa.Value(a) {
				val = st.Val
				n++
			}
		}
		if n == 1 {
			return val
		}
		return v
	}
	return bound
}

// worldDominates: in the part of the function that stays feasible in world w, every path from the entry to b passes a.
func worldDominates(w *World, a, b ssa.Instruction) bool {
	if w == nil || a == nil || b == nil {
		return false
	}
	if a.Block() == b.Block() {
		return instrIndex(a) < instrIndex(b)
	}
	seen := map[*ssa.BasicBlock]bool{}
	work := []*ssa.BasicBlock{w.Fn.Blocks[0]}
	for len(work) > 0 {
		x := work[len(work)-1]
		work = work[:len(work)-1]
		if seen[x] || !w.Reach[x] || x == a.Block() {
			continue
		}
		seen[x] = true
		if x == b.Block() {
			return false
		}
		for _, s := range x.Succs {
			if w.Edge[[2]*ssa.BasicBlock{x, s}] {
				work = append(work, s)
			}
		}
	}
	return true
}

// fieldOfParam: when v reads a field (path) of one of fn's parameters, the parameter's index and the path as printed (".writer").
func fieldOfParam(fn *ssa.Function, v ssa.Value) (int, string) {
	s := exprStr(v)
	for i, p := range fn.Params {
		if strings.HasPrefix(s, p.Name()+".") && !strings.ContainsAny(s[len(p.Name()):], "()[ ") {
			return i, s[len(p.Name()):]
		}
	}
	return -1, ""
}

// unwrapMust sees through a helper of the repository that hands its first argument back on every return (and panics otherwise):
// must(value, err) is value.
func unwrapMust(v ssa.Value) ssa.Value {
	for i := 0; i < 4; i++ {
		call, ok := v.(*ssa.Call)
		if !ok || len(call.Call.Args) == 0 {
			return v
		}
		sc := call.Call.StaticCallee()
		if sc == nil || len(sc.Blocks) == 0 || len(sc.Params) == 0 || sc.Pkg == nil && sc.Origin() == nil {
			return v
		}
		pkg := sc.Pkg
		if pkg == nil && sc.Origin() != nil {
			pkg = sc.Origin().Pkg
		}
		if pkg == nil || !strings.HasPrefix(pkg.Pkg.Path(), modRoot) {
			return v
		}
		identity, nret := true, 0
		instrsOf(sc, func(in ssa.Instruction) {
			if ret, ok := in.(*ssa.Return); ok {
				nret++
				if len(ret.Results) != 1 || ret.Results[0] != ssa.Value(sc.Params[0]) {
					identity = false
				}
			}
		})
		if !identity || nret == 0 {
			return v
		}
		v = call.Call.Args[0]
	}
	return v
}
