package main

// C15.R1: the hand-written token parser decides only at positions that have been skipped over whitespace and comments.
// Typestate over SSA values with function summaries (greatest fixpoint).

import (
	"fmt"
	"go/constant"
	"go/token"
	"go/types"
	"path/filepath"
	"sort"
	"strings"

	"golang.org/x/tools/go/ssa"
)

type skState int

const (
	skS skState = iota // result of consumeIgnoreableTokens
	skP                // the function's own index parameter, unchanged
	skR                // raw: derived by arithmetic or returned raw by a callee
)

func (s skState) String() string { return [...]string{"skipped", "parameter", "raw"}[s] }

func skJoin(a, b skState) skState {
	if a > b {
		return a
	}
	return b
}

type skFn struct {
	fn        *ssa.Function
	tokens    *ssa.Parameter
	index     *ssa.Parameter
	requiresS bool
	ret       skState // state of the index returned on success
	retIdx    int     // which result is the index
}

type skDecision struct {
	in    ssa.Instruction
	state skState
	idx   ssa.Value // the index value the token was loaded from
	kind  string
}

type skAnalysis struct {
	c       *Ctx
	fns     map[*ssa.Function]*skFn
	consume *ssa.Function
	tokT    types.Type
	wsVals  map[string]bool
}

func (a *skAnalysis) isTokenSlice(t types.Type) bool {
	sl, ok := t.Underlying().(*types.Slice)
	if !ok {
		return false
	}
	p, ok := sl.Elem().(*types.Pointer)
	if !ok {
		return false
	}
	n, ok := p.Elem().(*types.Named)
	return ok && n.Obj().Name() == "Token"
}

// evalFn computes index states, decisions and the return state of one function under the current summaries.
func (a *skAnalysis) evalFn(f *skFn) (decisions []skDecision, callArgs map[*ssa.Call]skState, ret skState) {
	fn := f.fn
	idxState := map[ssa.Value]skState{}
	var stateOf func(v ssa.Value, depth int) skState
	stateOf = func(v ssa.Value, depth int) skState {
		if s, ok := idxState[v]; ok {
			return s
		}
		if depth > 30 {
			return skR
		}
		idxState[v] = skS // optimistic for cycles through phis
		var s skState
		switch x := v.(type) {
		case *ssa.Parameter:
			if x == f.index {
				s = skP
			} else {
				s = skR
			}
		case *ssa.Call:
			if x.Call.StaticCallee() == a.consume {
				s = skS
			} else {
				s = skR
			}
		case *ssa.Extract:
			s = skR
			if call, ok := x.Tuple.(*ssa.Call); ok {
				if g := a.fns[call.Call.StaticCallee()]; g != nil && x.Index == g.retIdx {
					s = g.ret
					if s == skP {
						s = skR
					}
				}
			}
		case *ssa.Phi:
			s = skS
			first := true
			for _, e := range x.Edges {
				if e == ssa.Value(x) {
					continue
				}
				es := stateOf(e, depth+1)
				if first {
					s, first = es, false
				} else {
					s = skJoin(s, es)
					if es != s && (es == skP || s == skP) {
						s = skJoin(s, skR) // mixing the parameter with something else loses its identity
					}
				}
			}
		default:
			s = skR
		}
		idxState[v] = s
		return s
	}
	// iterate phis to a fixpoint (states only grow)
	for iter := 0; iter < 10; iter++ {
		before := len(idxState)
		changed := false
		instrsOf(fn, func(in ssa.Instruction) {
			if phi, ok := in.(*ssa.Phi); ok && types.Identical(phi.Type(), types.Typ[types.Int]) {
				old, had := idxState[phi]
				delete(idxState, phi)
				ns := stateOf(phi, 0)
				if had && ns < old {
					idxState[phi] = old
				} else if !had || ns != old {
					changed = true
				}
			}
		})
		if !changed && len(idxState) == before {
			break
		}
	}
	// token values: loads of tokens[i]
	tokIdx := map[ssa.Value]ssa.Value{} // token pointer value -> index value
	var tokState func(v ssa.Value, depth int) (skState, ssa.Value, bool)
	tokState = func(v ssa.Value, depth int) (skState, ssa.Value, bool) {
		if depth > 20 {
			return skR, nil, false
		}
		switch x := v.(type) {
		case *ssa.UnOp:
			if x.Op == token.MUL {
				if ia, ok := x.X.(*ssa.IndexAddr); ok && a.isTokenSlice(ia.X.Type()) {
					return stateOf(ia.Index, 0), ia.Index, true
				}
			}
		case *ssa.Phi:
			s := skS
			var idx ssa.Value
			any := false
			for _, e := range x.Edges {
				if e == ssa.Value(x) {
					continue
				}
				es, ei, ok := tokState(e, depth+1)
				if !ok {
					continue
				}
				if !any {
					s, idx, any = es, ei, true
				} else {
					if es > s {
						idx = ei
					}
					s = skJoin(s, es)
				}
			}
			return s, idx, any
		}
		return skR, nil, false
	}
	_ = tokIdx
	callArgs = map[*ssa.Call]skState{}
	instrsOf(fn, func(in ssa.Instruction) {
		switch x := in.(type) {
		case *ssa.BinOp:
			if x.Op != token.EQL && x.Op != token.NEQ {
				return
			}
			for _, pair := range [][2]ssa.Value{{x.X, x.Y}, {x.Y, x.X}} {
				k, ok := pair[1].(*ssa.Const)
				if !ok || k.Value == nil || !types.Identical(k.Type(), a.tokT) {
					continue
				}
				if a.wsVals[k.Value.ExactString()] {
					continue
				}
				if s, idx, ok := a.kindSource(pair[0], tokState); ok {
					decisions = append(decisions, skDecision{in, s, idx, "comparison with " + a.c.constNameOf("ast", "TokenType", PConst{k.Value, k.Type()})})
				}
			}
		case *ssa.Call:
			callee := x.Call.StaticCallee()
			if callee == nil {
				return
			}
			if g := a.fns[callee]; g != nil {
				// argument bound to the callee's index parameter
				for i, p := range callee.Params {
					if p == g.index && i < len(x.Call.Args) {
						callArgs[x] = stateOf(x.Call.Args[i], 0)
					}
				}
				return
			}
			// a token kind handed to a predicate helper is a decision too
			if callee.Pkg == fn.Pkg && callee != a.consume {
				for _, arg := range x.Call.Args {
					if types.Identical(arg.Type(), a.tokT) {
						if s, idx, ok := a.kindSource(arg, tokState); ok {
							decisions = append(decisions, skDecision{in, s, idx, "predicate " + callee.Name()})
						}
					}
				}
			}
		}
	})
	// return state
	ret = skS
	nret := 0
	instrsOf(fn, func(in ssa.Instruction) {
		r, ok := in.(*ssa.Return)
		if !ok || f.retIdx < 0 || f.retIdx >= len(r.Results) {
			return
		}
		last := r.Results[len(r.Results)-1]
		if types.Identical(last.Type(), types.Universe.Lookup("error").Type()) {
			// a return whose error operand is a freshly constructed error, or an error that a dominating test has shown to be non-nil,
			// is a failure return; everything else may be a success
			if _, constructed := last.(*ssa.MakeInterface); constructed {
				return
			}
			if provenNonNil(last, r) {
				return
			}
		}
		nret++
		ret = skJoin(ret, stateOf(r.Results[f.retIdx], 0))
	})
	if nret == 0 {
		ret = skR
	}
	return
}

// kindSource: v is the TokenType of a token loaded from tokens[i]; returns the state of i.
func (a *skAnalysis) kindSource(v ssa.Value, tokState func(ssa.Value, int) (skState, ssa.Value, bool)) (skState, ssa.Value, bool) {
	u, ok := v.(*ssa.UnOp)
	if !ok || u.Op != token.MUL {
		return skR, nil, false
	}
	fa, ok := u.X.(*ssa.FieldAddr)
	if !ok || fieldName(deref(fa.X.Type()), fa.Field) != "TokenType" {
		return skR, nil, false
	}
	return tokState(fa.X, 0)
}

func ruleSkipDiscipline(c *Ctx, rule string, exceptions map[string]string) {
	r := c.R
	a := &skAnalysis{c: c, fns: map[*ssa.Function]*skFn{}, consume: c.Fn("ast", "consumeIgnoreableTokens"), wsVals: map[string]bool{}}
	tokT := c.NamedType("ast", "TokenType")
	if a.consume == nil || tokT == nil {
		r.Ob(rule, "anchor ast.consumeIgnoreableTokens / TokenType", "").Und("not found")
		return
	}
	a.tokT = tokT
	for _, n := range []string{"WS", "COMMENT"} {
		if k := c.constByName("ast", n); k != nil {
			a.wsVals[k.Val().ExactString()] = true
		}
	}
	exemptFns := map[string]string{
		"consumeIgnoreableTokens":    "its job is to look at ignorable tokens",
		"getProcessExpressionTokens": "its job is to filter ignorable tokens (C15.R2)",
		"parse_expr_pratt":           "works on the filtered token slice (C15.R2)",
	}
	// helpers that are reachable only through parse_expr_pratt work on the filtered slice as well
	if pratt := c.Fn("ast", "parse_expr_pratt"); pratt != nil {
		roots := []*ssa.Function{c.Fn("ast", "ParseReader")}
		for f := range c.Reachable(pratt) {
			if f != pratt && c.isRepoFn(f) && f.Pkg == pratt.Pkg && roots[0] != nil && c.onlyThrough(roots, pratt, f) {
				exemptFns[f.Name()] = "helper reachable only through parse_expr_pratt: works on the filtered token slice (C15.R2)"
			}
		}
	}
	for _, fn := range c.SrcFuncs("ast") {
		if filepath.Base(c.Fset.Position(fn.Pos()).Filename) != "parser.go" {
			continue
		}
		if _, ex := exemptFns[fn.Name()]; ex {
			continue
		}
		f := &skFn{fn: fn, retIdx: -1, ret: skS}
		for _, p := range fn.Params {
			if f.tokens == nil && a.isTokenSlice(p.Type()) {
				f.tokens = p
			} else if f.tokens != nil && f.index == nil && types.Identical(p.Type(), types.Typ[types.Int]) {
				f.index = p
			}
		}
		if f.tokens == nil {
			continue
		}
		res := fn.Signature.Results()
		// the returned index: the last int result before the error
		for i := 0; i < res.Len(); i++ {
			if types.Identical(res.At(i).Type(), types.Typ[types.Int]) {
				f.retIdx = i
			}
		}
		a.fns[fn] = f
	}
	// skip call sites
	nskip := 0
	for f := range a.fns {
		instrsOf(f, func(in ssa.Instruction) {
			if staticCallee(in) == a.consume {
				nskip++
			}
		})
	}
	r.Floor(rule, "call sites of consumeIgnoreableTokens in parser.go", nskip, 40)
	// greatest fixpoint
	var order []*skFn
	for _, f := range a.fns {
		order = append(order, f)
	}
	sort.Slice(order, func(i, j int) bool { return order[i].fn.Pos() < order[j].fn.Pos() })
	for iter := 0; iter < 50; iter++ {
		changed := false
		for _, f := range order {
			decs, cargs, ret := a.evalFn(f)
			for _, d := range decs {
				if d.state == skP && !f.requiresS {
					f.requiresS = true
					changed = true
				}
			}
			// passing the own parameter on to a callee that needs a skipped index makes it a requirement of this function too
			for call, st := range cargs {
				if g := a.fns[call.Call.StaticCallee()]; g != nil && g.requiresS && st == skP && !f.requiresS {
					f.requiresS = true
					changed = true
				}
			}
			if ret == skP {
				if f.requiresS {
					ret = skS
				} else {
					ret = skR
				}
			}
			if ret > f.ret {
				f.ret = ret
				changed = true
			}
		}
		if !changed {
			break
		}
	}
	// obligations
	ndec, nfn := 0, 0
	summ := map[string]string{}
	for _, f := range order {
		decs, callArgs, _ := a.evalFn(f)
		summ[f.fn.Name()] = fmt.Sprintf("requires-skipped-index=%t returns=%s", f.requiresS, f.ret)
		if len(decs) > 0 {
			nfn++
		}
		ndec += len(decs)
		// group decisions by the raw index definition
		type grp struct {
			state skState
			pos   token.Pos
			kinds []string
			n     int
			mem   bool // the index is read from a variable that closures share
		}
		groups := map[string]*grp{}
		var keys []string
		for _, d := range decs {
			key := "skipped index"
			switch d.state {
			case skP:
				key = "index parameter"
			case skR:
				key = "raw index " + describeIndex(d.idx)
			}
			g := groups[key]
			if g == nil {
				g = &grp{state: d.state, pos: d.in.Pos()}
				groups[key] = g
				keys = append(keys, key)
			}
			g.n++
			g.kinds = append(g.kinds, d.kind)
			if sharedVariableLoad(d.idx) {
				g.mem = true
			}
		}
		sort.Strings(keys)
		for _, key := range keys {
			g := groups[key]
			ob := r.Ob(rule, fmt.Sprintf("%s: %d decision(s) on %s", fnName(f.fn), g.n, key), c.pos(g.pos))
			ob.Construct = fmt.Sprintf("%s: decisions on %s", fnName(f.fn), key)
			switch g.state {
			case skS:
				ob.OKnt(fmt.Sprintf("%d token-kind tests, all on an index produced by consumeIgnoreableTokens", g.n))
			case skP:
				ob.OKnt(fmt.Sprintf("%d token-kind tests on the function's own index parameter: callers must pass a skipped index (checked at every call site)", g.n))
			default:
				why, ok := exceptions[f.fn.Name()+": "+key]
				if !ok {
					why, ok = exceptions["*: "+key]
				}
				if ok {
					ob.Exc(why)
				} else if g.mem {
					ob.Und("the position is kept in a variable that a closure of the function updates (a captured index): whether it was skipped over layout before these tests is not followed")
				} else {
					ob.Bad(fmt.Sprintf("%d token-kind test(s) (%s) look at a position that was not skipped over whitespace and comments: inserting a blank or a comment there changes which branch the parser takes",
						g.n, strings.Join(uniq(g.kinds), ", ")))
				}
			}
		}
		// call sites of callees that need a skipped index
		var calls []*ssa.Call
		for call := range callArgs {
			calls = append(calls, call)
		}
		sort.Slice(calls, func(i, j int) bool { return calls[i].Pos() < calls[j].Pos() })
		perCallee := map[string]int{}
		for _, call := range calls {
			g := a.fns[call.Call.StaticCallee()]
			if !g.requiresS {
				continue
			}
			perCallee[g.fn.Name()]++
			st := callArgs[call]
			ob := r.Ob(rule, fmt.Sprintf("%s: call #%d of %s gets a skipped index", fnName(f.fn), perCallee[g.fn.Name()], g.fn.Name()), c.pos(call.Pos()))
			switch st {
			case skS:
				ob.OKnt("argument is a result of consumeIgnoreableTokens")
			case skP:
				if f.requiresS {
					ob.OKnt("passes its own index parameter, which its callers must have skipped")
				} else {
					// the parameter flows into a callee that needs S: this function now requires S as well
					ob.Bad(g.fn.Name() + " decides on its index argument before skipping, and this function passes its own unskipped parameter")
				}
			default:
				idxArg := ssa.Value(nil)
				for _, av := range call.Call.Args {
					if bt, ok := av.Type().Underlying().(*types.Basic); ok && bt.Kind() == types.Int {
						idxArg = av
					}
				}
				if why, ok := exceptions[f.fn.Name()+": call of "+g.fn.Name()]; ok {
					ob.Exc(why)
				} else if u, isLoad := idxArg.(*ssa.UnOp); isLoad && u.Op == token.MUL {
					if _, isField := u.X.(*ssa.FieldAddr); isField {
						// a cursor object: the position lives in a field that its methods (skip, advance) update
						ob.Und("the index handed to " + g.fn.Name() + " is read from a field of a cursor object (" + exprStr(idxArg) + "); whether its methods have skipped layout before this call is not followed")
					} else {
						ob.Bad(fmt.Sprintf("%s looks at tokens[index] before skipping, but this call passes a raw index: whitespace or a comment at this position changes the parse", g.fn.Name()))
					}
				} else {
					ob.Bad(fmt.Sprintf("%s looks at tokens[index] before skipping, but this call passes a raw index: whitespace or a comment at this position changes the parse", g.fn.Name()))
				}
			}
		}
	}
	r.Tables["skip_summaries"] = summ
	r.Floor(rule, "token-kind decisions in parser.go", ndec, 80)
	r.Floor(rule, "parse functions with decisions", nfn, 15)
	for n, why := range exemptFns {
		r.Note("C15.R1 exempt function %s: %s", n, why)
	}
}

func describeIndex(v ssa.Value) string { return describeIndexD(v, 0) }

func describeIndexD(v ssa.Value, depth int) string {
	if depth > 6 {
		return "..."
	}
	describeIndex := func(v ssa.Value) string { return describeIndexD(v, depth+1) }
	switch x := v.(type) {
	case nil:
		return "?"
	case *ssa.BinOp:
		return "(" + describeIndex(x.X) + " " + x.Op.String() + " " + describeIndex(x.Y) + ")"
	case *ssa.Parameter:
		return x.Name()
	case *ssa.Const:
		if x.Value != nil && x.Value.Kind() == constant.Int {
			return x.Value.ExactString()
		}
	case *ssa.Extract:
		if call, ok := x.Tuple.(*ssa.Call); ok {
			return "returned by " + callName(&call.Call)
		}
	case *ssa.Phi:
		var parts []string
		for _, e := range x.Edges {
			if e != ssa.Value(x) {
				if p, ok := e.(*ssa.Phi); ok && p != x {
					parts = append(parts, "...")
					continue
				}
				parts = append(parts, describeIndex(e))
			}
		}
		sort.Strings(parts)
		return "merge of {" + strings.Join(uniq(parts), ", ") + "}"
	case *ssa.Call:
		return "result of " + callName(&x.Call)
	}
	return v.Name()
}

// ruleIgnorableSiblings implements C15.R2: what getProcessExpressionTokens drops equals what consumeIgnoreableTokens skips.
func ruleIgnorableSiblings(c *Ctx, rule string) {
	r := c.R
	kinds := func(fnName string) (map[string]bool, *ssa.Function) {
		fn := c.Fn("ast", fnName)
		if fn == nil {
			return nil, nil
		}
		tokT := c.NamedType("ast", "TokenType")
		out := map[string]bool{}
		instrsOf(fn, func(in ssa.Instruction) {
			b, ok := in.(*ssa.BinOp)
			if !ok || (b.Op != token.EQL && b.Op != token.NEQ) {
				// `kind == WS || kind == COMMENT` (skip) and `kind != WS && kind != COMMENT` (keep) name the same kinds
				return
			}
			if k, ok := b.Y.(*ssa.Const); ok && k.Value != nil && types.Identical(k.Type(), tokT) {
				out[c.constNameOf("ast", "TokenType", PConst{k.Value, k.Type()})] = true
			}
		})
		return out, fn
	}
	skip, f1 := kinds("consumeIgnoreableTokens")
	drop, f2 := kinds("getProcessExpressionTokens")
	if f1 == nil || f2 == nil {
		r.Ob(rule, "anchors", "").Und("consumeIgnoreableTokens or getProcessExpressionTokens not found")
		return
	}
	ob := r.Ob(rule, "getProcessExpressionTokens drops exactly the kinds consumeIgnoreableTokens skips", c.pos(f2.Pos()))
	var missing []string
	for k := range skip {
		if !drop[k] {
			missing = append(missing, k)
		}
	}
	sort.Strings(missing)
	var extra []string
	for k := range drop {
		if !skip[k] {
			extra = append(extra, k)
		}
	}
	sort.Strings(extra)
	if len(missing) == 0 && len(extra) == 0 {
		ob.OKnt(fmt.Sprintf("both treat %v as ignorable", sortedKeys(skip)))
	} else if len(missing) > 0 {
		ob.Bad(fmt.Sprintf("the statement parser skips %v but the expression-token filter does not drop %v: a comment inside a process expression is rejected", sortedKeys(skip), missing))
	} else {
		ob.Bad(fmt.Sprintf("the expression-token filter tests kinds %v that the skipper does not treat as ignorable", extra))
	}
}

// provenNonNil: `at` is dominated by the edge of a test `v != nil` / `v == nil` on which v is not nil.
func provenNonNil(v ssa.Value, at ssa.Instruction) bool {
	fn := at.Parent()
	ok := false
	instrsOf(fn, func(in ssa.Instruction) {
		iff, is := in.(*ssa.If)
		if !is {
			return
		}
		bo, is := iff.Cond.(*ssa.BinOp)
		if !is || bo.X != v || !isNilConst(bo.Y) {
			return
		}
		var succ *ssa.BasicBlock
		if bo.Op == token.NEQ {
			succ = iff.Block().Succs[0]
		} else if bo.Op == token.EQL {
			succ = iff.Block().Succs[1]
		}
		if succ != nil && len(succ.Preds) == 1 && (succ == at.Block() || succ.Dominates(at.Block())) {
			ok = true
		}
	})
	return ok
}

// sharedVariableLoad: v is read from a local that a closure captures (or from the captured variable inside the closure): its
// value at this point depends on what the closures did to it.
func sharedVariableLoad(v ssa.Value) bool {
	u, ok := v.(*ssa.UnOp)
	if !ok || u.Op != token.MUL {
		return false
	}
	switch x := u.X.(type) {
	case *ssa.FreeVar:
		return true
	case *ssa.Alloc:
		for _, ref := range *x.Referrers() {
			if _, ok := ref.(*ssa.MakeClosure); ok {
				return true
			}
		}
	}
	return false
}
