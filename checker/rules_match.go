package main

// C03 (single writer, coherent consumption step, match record) and C05 (replacement accumulation, per-match state, item kinds).

import (
	"fmt"
	"go/types"
	"sort"
	"strings"

	"golang.org/x/tools/go/ssa"
)

// fieldWriters lists, for a named struct type of package engine, which functions store to which field (composite literal
// initialisation included, marked "(literal)").
func (c *Ctx) fieldWriters(typeName string) map[string]map[string]bool {
	out := map[string]map[string]bool{}
	t := c.NamedType("engine", typeName)
	if t == nil {
		return out
	}
	for fn := range c.allFns {
		if !c.isRepoFn(fn) {
			continue
		}
		instrsOf(fn, func(in ssa.Instruction) {
			st, ok := in.(*ssa.Store)
			if !ok {
				return
			}
			ch := traceAddr(st.Addr)
			for i, s := range ch.Steps {
				if s.Kind == "field" && s.Struct != nil && types.Identical(s.Struct, t) && i == 0 {
					if out[s.Field] == nil {
						out[s.Field] = map[string]bool{}
					}
					out[s.Field][fnName(fn)] = true
				}
			}
		})
	}
	return out
}

func ruleSingleWriter(c *Ctx, rule string) {
	r := c.R
	w := c.fieldWriters("SearchEngineState")
	if len(w) == 0 {
		r.Ob(rule, "anchor engine.SearchEngineState", "").Und("no field writers found")
		return
	}
	allowed := map[string][]string{}
	for _, f := range []string{"currentFileOffset", "currentMatch", "currentLineNum", "currentColumnNum"} {
		allowed[f] = []string{"(*engine.SearchEngineState).CONSUME", "(*engine.SearchEngineState).Set", "engine.CreateState", "(*engine.SearchEngineState).Copy"}
	}
	for _, f := range []string{"startFileOffset", "startLineNum", "startColumnNum"} {
		allowed[f] = []string{"(*engine.SearchEngineState).Set", "engine.CreateState", "(*engine.SearchEngineState).Copy"}
	}
	for _, f := range sortedKeys(allowed) {
		ob := r.Ob(rule, "writers of SearchEngineState."+f, "")
		var extra []string
		for fn := range w[f] {
			if !contains(allowed[f], fn) {
				extra = append(extra, fn)
			}
		}
		sort.Strings(extra)
		var ws []string
		for fn := range w[f] {
			ws = append(ws, fn)
		}
		sort.Strings(ws)
		if len(extra) == 0 {
			ob.OKnt("stored only in " + strings.Join(ws, ", "))
		} else {
			ob.Bad("also stored in " + strings.Join(extra, ", ") + ": text, offset, line and column are no longer advanced by the single consumption primitive and can fall out of step")
		}
	}
}

func ruleCoherentStep(c *Ctx, rule string) {
	r := c.R
	fn := c.Method("engine", "SearchEngineState", "CONSUME")
	if fn == nil {
		r.Ob(rule, "anchor engine.(*SearchEngineState).CONSUME", "").Und("not found")
		return
	}
	stores := map[string][]string{}
	var rng *ssa.Range
	instrsOf(fn, func(in ssa.Instruction) {
		if st, ok := in.(*ssa.Store); ok {
			if fa, ok := st.Addr.(*ssa.FieldAddr); ok {
				f := fieldName(deref(fa.X.Type()), fa.Field)
				stores[f] = append(stores[f], exprStr(st.Val))
			}
		}
		if rg, ok := in.(*ssa.Range); ok {
			rng = rg
		}
	})
	V := "es.READ(amount)"
	ob := r.Ob(rule, "CONSUME appends exactly what it read and advances the offset by its length", c.pos(fn.Pos()))
	okM := len(stores["currentMatch"]) == 1 && stores["currentMatch"][0] == "(es.currentMatch + "+V+")"
	okO := len(stores["currentFileOffset"]) == 1 && stores["currentFileOffset"][0] == "(es.currentFileOffset + len("+V+"))"
	if okM && okO {
		ob.OKnt("currentMatch += v; currentFileOffset += len(v) for the same v = " + V)
	} else {
		ob.Bad(fmt.Sprintf("currentMatch <- %v; currentFileOffset <- %v; expected currentMatch + v and currentFileOffset + len(v) for one and the same v = %s (READ returns \"\" at end of input, so advancing by the requested amount is wrong)", stores["currentMatch"], stores["currentFileOffset"], V))
	}
	ob2 := r.Ob(rule, "CONSUME derives the line and column updates from the text it read", c.pos(fn.Pos()))
	// every value stored to the line/column counters must be data-dependent on v (or be the constant that restarts the column)
	var readCall ssa.Value
	instrsOf(fn, func(in ssa.Instruction) {
		if call, ok := in.(*ssa.Call); ok && exprStr(call) == V {
			readCall = call
		}
	})
	if readCall == nil {
		ob2.Bad("CONSUME does not call " + V)
		return
	}
	deps := dataDeps(fn, map[ssa.Value]bool{readCall: true})
	cds := NewPostDom(fn).ControlDeps()
	var bad []string
	n := 0
	instrsOf(fn, func(in ssa.Instruction) {
		st, ok := in.(*ssa.Store)
		if !ok {
			return
		}
		fa, ok := st.Addr.(*ssa.FieldAddr)
		if !ok {
			return
		}
		f := fieldName(deref(fa.X.Type()), fa.Field)
		if f != "currentLineNum" && f != "currentColumnNum" {
			return
		}
		n++
		if deps[st.Val] {
			return
		}
		// not data-dependent: then the store must be controlled by a condition that is (e.g. inside the range over v)
		for _, l := range condsOf(cds, st.Block()) {
			if deps[l.Cond] {
				return
			}
		}
		bad = append(bad, fmt.Sprintf("%s <- %s [%s]", f, exprStr(st.Val), c.pos(st.Pos())))
	})
	_ = rng
	if n < 2 {
		ob2.Bad("CONSUME does not update both the line and the column counter")
	} else if len(bad) > 0 {
		ob2.Bad("line/column are updated independently of the consumed text: " + strings.Join(bad, "; "))
	} else {
		ob2.OKnt(fmt.Sprintf("%d stores to the line/column counters, each data- or control-dependent on v = %s", n, V))
	}
}

func literalFields(fn *ssa.Function, typeName string) map[string]string {
	out := map[string]string{}
	instrsOf(fn, func(in ssa.Instruction) {
		st, ok := in.(*ssa.Store)
		if !ok {
			return
		}
		fa, ok := st.Addr.(*ssa.FieldAddr)
		if !ok {
			return
		}
		if n, ok := deref(fa.X.Type()).(*types.Named); ok && n.Obj().Name() == typeName {
			out[fieldName(n, fa.Field)] = exprStr(st.Val)
		}
	})
	return out
}

func ruleRecordConstruction(c *Ctx, rule string) {
	r := c.R
	mm := c.Method("engine", "SearchEngineState", "MakeMatch")
	if mm == nil {
		r.Ob(rule, "anchor MakeMatch", "").Und("not found")
	} else {
		got := literalFields(mm, "Match")
		want := map[string]string{
			"Filename": "es.filename", "MatchNumber": "matchNumber",
			"Offset": "NewRange(es.startFileOffset, es.currentFileOffset)", "Line": "NewRange(es.startLineNum, es.currentLineNum)",
			"Column": "NewRange(es.startColumnNum, es.currentColumnNum)", "Value": "es.currentMatch", "Variables": "es.environment",
		}
		for _, f := range sortedKeys(want) {
			ob := r.Ob(rule, "MakeMatch: field "+f, c.pos(mm.Pos()))
			ob.Check(got[f] == want[f], f+" <- "+got[f], fmt.Sprintf("%s is built from %q, expected %q", f, got[f], want[f]))
			ob.Nontrivial = true
		}
	}
	cs := c.Fn("engine", "CreateState")
	if cs == nil {
		r.Ob(rule, "anchor CreateState", "").Und("not found")
	} else {
		got := literalFields(cs, "SearchEngineState")
		pairs := [][3]string{{"currentFileOffset", "startFileOffset", "fileOffset"}, {"currentLineNum", "startLineNum", "lineNumber"}, {"currentColumnNum", "startColumnNum", "columnNumber"}}
		for _, p := range pairs {
			ob := r.Ob(rule, "CreateState: "+p[0]+" and "+p[1]+" start from the same parameter", c.pos(cs.Pos()))
			ob.Check(got[p[0]] == got[p[1]] && got[p[0]] != "" && isParamName(cs, got[p[0]]), p[0]+" = "+p[1]+" = "+got[p[0]],
				fmt.Sprintf("%s <- %q but %s <- %q", p[0], got[p[0]], p[1], got[p[1]]))
			ob.Nontrivial = true
		}
		ob := r.Ob(rule, "CreateState: the match text starts empty", c.pos(cs.Pos()))
		ob.Check(got["currentMatch"] == "" || got["currentMatch"] == `""`, "currentMatch left at its zero value", "currentMatch is initialised with "+got["currentMatch"])
	}
}

func isParamName(fn *ssa.Function, s string) bool {
	for _, p := range fn.Params {
		if p.Name() == s {
			return true
		}
	}
	return false
}

// ---------------------------------------------------------------------------------------------
// C05

func ruleReplacementAccumulates(c *Ctx, rule string) {
	r := c.R
	rsT := c.NamedType("engine", "ReplacerState")
	if rsT == nil {
		r.Ob(rule, "anchor engine.ReplacerState", "").Und("not found")
		return
	}
	n := 0
	for _, fn := range c.SrcFuncs("engine") {
		instrsOf(fn, func(in ssa.Instruction) {
			st, ok := in.(*ssa.Store)
			if !ok {
				return
			}
			s := exprStr(st.Addr)
			if !strings.HasSuffix(s, ".match.Replacement") {
				return
			}
			n++
			ob := r.Ob(rule, fmt.Sprintf("%s: store #%d to match.Replacement appends to the previous text", fnName(fn), n), c.pos(st.Pos()))
			v := exprStr(st.Val)
			prefix := "Some((" + s + ".GetValueOrDefault(\"\") + "
			if strings.HasPrefix(v, prefix) && strings.HasSuffix(v, "))") {
				ob.OKnt("Replacement = " + v)
			} else {
				ob.Bad("Replacement is overwritten with " + v + " instead of Some(previous + item): earlier `with` items are lost")
			}
		})
	}
	r.Floor(rule, "stores to ReplacerState.match.Replacement", n, 1)
	// who writes Match fields at all
	w := c.fieldWriters("Match")
	for _, f := range sortedKeys(w) {
		ob := r.Ob(rule, "writers of engine.Match."+f, "")
		var ws []string
		for fn := range w[f] {
			ws = append(ws, fn)
		}
		sort.Strings(ws)
		var bad []string
		for _, fn := range ws {
			okW := fn == "(*engine.SearchEngineState).MakeMatch"
			if f == "Replacement" && (fn == "(*engine.ReplacerState).WRITESTRING" || fn == "(*engine.ReplacerState).WRITEVAR") {
				okW = true
			}
			if !okW {
				bad = append(bad, fn)
			}
		}
		if len(bad) == 0 {
			ob.OKnt("written only by " + strings.Join(ws, ", "))
		} else {
			ob.Bad("a match record is modified after MakeMatch built it, in " + strings.Join(bad, ", ") + ": the matches of a replace command no longer equal those of the find command with the same body")
		}
	}
}

// rulePerMatchReplacer implements C05.R3/R4.
func rulePerMatchReplacer(c *Ctx, rule string) {
	r := c.R
	init := c.Fn("engine", "InitReplacerState")
	ex := c.Fn("engine", "executeReplace")
	if init == nil || ex == nil {
		r.Ob(rule, "anchor engine.InitReplacerState/executeReplace", "").Und("not found")
		return
	}
	// by role: the function that runs the replacer program (calls executeReplace)
	var sr *ssa.Function
	for _, f := range c.callersIn("engine", ex) {
		sr = f
	}
	if sr == nil {
		r.Ob(rule, "anchor: the function that runs the replacer program", "").Und("no function of package engine calls executeReplace")
		return
	}
	ob := r.Ob(rule, "replace: every match gets its own replacer state", c.pos(sr.Pos()))
	var inits []*ssa.Call
	var exec *ssa.Call
	instrsOf(sr, func(in ssa.Instruction) {
		if call, ok := in.(*ssa.Call); ok {
			if call.Call.StaticCallee() == init {
				inits = append(inits, call)
			}
			if call.Call.StaticCallee() == ex {
				exec = call
			}
		}
	})
	switch {
	case exec == nil:
		ob.Und("no call to executeReplace")
	case len(inits) != 1:
		ob.Bad(fmt.Sprintf("InitReplacerState is called %d time(s) in %s; expected once per match", len(inits), fnName(sr)))
	default:
		ini := inits[0]
		ob.Pos = c.pos(ini.Pos())
		loop := loopBlocks(sr, ini.Block())
		st := exec.Call.Args[1]
		okState, detail := false, ""
		if p, ok := st.(*ssa.Phi); ok {
			for _, e := range p.Edges {
				if e == ssa.Value(ini) {
					okState = true
				} else if e != ssa.Value(exec) {
					detail = "the replacer state also comes from " + exprStr(e)
				}
			}
		} else if st == ssa.Value(ini) {
			okState = true
		}
		arg0 := exprStr(ini.Call.Args[0])
		switch {
		case loop == nil || !loop[exec.Block()]:
			ob.Bad("InitReplacerState is not called inside the loop over the matches: one replacer state (variables, replacement text) is shared by all matches of the command")
		case !okState || detail != "":
			ob.Bad("executeReplace does not start from the state initialised for the current match: " + detail)
		case !strings.Contains(arg0, "findMatches(") && !strings.Contains(arg0, "foundMatches") && !strings.Contains(arg0, "match"):
			ob.Bad("InitReplacerState is given " + arg0 + ", not the current match")
		default:
			ob.OKnt("InitReplacerState(" + arg0 + ", ...) per iteration; the replacer program runs on it and on executeReplace results only")
		}
	}
	// what is appended is the state's match
	ob2 := r.Ob(rule, "replace: the result of a match is the replacer state's match", c.pos(sr.Pos()))
	okApp := false
	instrsOf(sr, func(in ssa.Instruction) {
		if call, ok := in.(*ssa.Call); ok {
			if b, ok := call.Call.Value.(*ssa.Builtin); ok && b.Name() == "append" && len(call.Call.Args) == 2 {
				// the variadic argument is a slice of a fresh array: look at what was stored into it
				if sl, ok := call.Call.Args[1].(*ssa.Slice); ok {
					if a, ok := sl.X.(*ssa.Alloc); ok {
						for _, ref := range *a.Referrers() {
							if ia, ok := ref.(*ssa.IndexAddr); ok {
								for _, r2 := range *ia.Referrers() {
									if st, ok := r2.(*ssa.Store); ok && strings.HasSuffix(exprStr(st.Val), ".match") {
										okApp = true
									}
								}
							}
						}
					}
				}
			}
		}
	})
	ob2.Check(okApp, "append(replacedMatches, current_state.match)", "the value appended to the result is not the replacer state's match")
	// InitReplacerState adds the built-ins to a copy of the match's variables
	ob3 := r.Ob(rule, "InitReplacerState adds built-ins to a deep copy of the match's variables", c.pos(init.Pos()))
	var bad []string
	nAdd := 0
	instrsOf(init, func(in ssa.Instruction) {
		call, ok := in.(*ssa.Call)
		if !ok {
			return
		}
		if sc := call.Call.StaticCallee(); sc != nil && sc.Name() == "Add" && len(call.Call.Args) >= 1 {
			nAdd++
			if fresh, why := c.deepFresh(call.Call.Args[0], 0); !fresh {
				bad = append(bad, why)
			}
		}
	})
	if nAdd == 0 {
		ob3.Und("no Add calls found")
	} else if len(bad) == 0 {
		ob3.OKnt(fmt.Sprintf("%d Add calls, all on match.Variables.Copy().Hashmap()", nAdd))
	} else {
		ob3.Bad("built-in variables are added to " + strings.Join(uniq(bad), ", ") + ", which aliases the reported match's Variables: built-ins such as totalMatches leak into the match")
	}
}

// ruleItemKinds implements C05.R6 by partial evaluation of generateReplaceVariable and WRITEVAR.
func ruleItemKinds(c *Ctx, rule string) {
	r := c.R
	fn := c.Fn("bytecode", "generateReplaceVariable")
	varT := c.NamedType("ast", "AstVariable")
	if fn == nil || varT == nil {
		r.Ob(rule, "anchor bytecode.generateReplaceVariable", "").Und("not found")
		return
	}
	ob := r.Ob(rule, "generateReplaceVariable: transform name -> ReplaceProcess, anything else -> ReplaceVariable", c.pos(fn.Pos()))
	mk := func() *PEval { return &PEval{Interpret: c.repoInterp} }
	mkArgs := func() []PVal {
		v := pwith(pzero(varT), "Name", PSym{"NAME"})
		return []PVal{PPtr{&PObj{v}, nil}, PSym{"offset"}, PSym{"state"}}
	}
	paths, perr := RunPaths(mk, fn, mkArgs, 8)
	if perr != "" {
		ob.Und(perr)
	} else {
		var descs []string
		for _, p := range paths {
			if p.Res.Err != "" {
				ob.Und(p.Res.Err)
				return
			}
			var conds []string
			for _, d := range p.Decisions {
				cs := pstring(d.Cond)
				if !d.Taken {
					cs = "!" + cs
				}
				conds = append(conds, cs)
			}
			res := "?"
			if len(p.Res.Results) == 2 {
				res = pstring(p.Res.Results[0]) + " err=" + pstring(p.Res.Results[1])
			}
			descs = append(descs, "["+strings.Join(conds, " && ")+"] -> "+res)
		}
		sort.Strings(descs)
		got := strings.Join(descs, " ; ")
		// the instruction kinds that can come out
		hasProc := strings.Contains(got, "ReplaceProcess{")
		hasVar := strings.Contains(got, "ReplaceVariable{NAME}")
		two := len(paths) == 2
		onlyLookup := true
		for _, p := range paths {
			for _, d := range p.Decisions {
				if !strings.Contains(pstring(d.Cond), "globalTransformations") {
					onlyLookup = false
				}
			}
		}
		if hasProc && hasVar && two && onlyLookup {
			ob.OKnt("two outcomes, selected only by the lookup in globalTransformations: " + got)
		} else {
			ob.Bad("the kind of a `with` item must depend only on whether the name is a transform (ReplaceProcess) or not (ReplaceVariable, resolved at run time against captures and built-ins); found: " + got)
		}
	}
	wv := c.Method("engine", "ReplacerState", "WRITEVAR")
	ob2 := r.Ob(rule, "WRITEVAR appends the variable's text exactly when it is bound to a string", "")
	if wv == nil {
		ob2.Und("WRITEVAR not found")
		return
	}
	ob2.Pos = c.pos(wv.Pos())
	cds := NewPostDom(wv).ControlDeps()
	var conds []string
	n := 0
	writers := c.fieldWriters("Match")["Replacement"]
	instrsOf(wv, func(in ssa.Instruction) {
		appendSite := false
		if st, ok := in.(*ssa.Store); ok && strings.HasSuffix(exprStr(st.Addr), ".match.Replacement") {
			appendSite = true
		}
		// or a call, on the same replacer state, of a primitive that appends to the replacement (WRITESTRING)
		if call, ok := in.(*ssa.Call); ok {
			if sc := call.Call.StaticCallee(); sc != nil && writers[fnName(sc)] && len(call.Call.Args) > 0 && call.Call.Args[0] == ssa.Value(wv.Params[0]) {
				appendSite = true
			}
		}
		if appendSite {
			n++
			for _, l := range condsOf(cds, in.Block()) {
				conds = append(conds, l.String())
			}
		}
	})
	sort.Strings(conds)
	got := strings.Join(uniq(conds), " && ")
	want := "(rs.variables.Get(name)#0.getType() == 0) && rs.variables.Get(name)#1"
	ob2.Check(n == 1 && got == want, "one append under ["+got+"]", fmt.Sprintf("%d append(s) to the replacement under [%s]; expected one under [%s] (found && string-typed)", n, got, want))
	ob2.Nontrivial = true
}
