package main

// C03 (single writer, coherent consumption step, match record) and C05 (replacement accumulation, per-match state, item kinds).

import (
	"fmt"
	"go/token"
	"go/types"
	"sort"
	"strings"

	"golang.org/x/tools/go/ssa"
)

// fieldWriters lists, for a named struct type of package engine, which functions store to which field (composite literal
// initialisation included, marked "(literal)").
func (c *Ctx) fieldWriters(typeName string) map[string]map[string]bool {
	out := map[string]map[string]bool{}
	t := c.NamedType("engine", typeName)
	if t == nil {
		return out
	}
	for fn := range c.allFns {
		if !c.isRepoFn(fn) {
			continue
		}
		instrsOf(fn, func(in ssa.Instruction) {
			st, ok := in.(*ssa.Store)
			if !ok {
				return
			}
			ch := traceAddr(st.Addr)
			for i, s := range ch.Steps {
				if s.Kind == "field" && s.Struct != nil && types.Identical(s.Struct, t) && i == 0 {
					if out[s.Field] == nil {
						out[s.Field] = map[string]bool{}
					}
					out[s.Field][fnName(fn)] = true
				}
			}
		})
	}
	return out
}

// exclusiveHelpers: the functions of package engine that are reachable from Run/RunFiles only through `through`.
func (c *Ctx) exclusiveHelpers(through *ssa.Function) map[*ssa.Function]bool {
	out := map[*ssa.Function]bool{}
	if through == nil {
		return out
	}
	roots := c.runRoots()
	for f := range c.Reachable(through) {
		if f != through && c.isRepoFn(f) && f.Pkg == through.Pkg && c.onlyThrough(roots, through, f) {
			out[f] = true
		}
	}
	return out
}

func ruleSingleWriter(c *Ctx, rule string) {
	r := c.R
	w := c.fieldWriters("SearchEngineState")
	if len(w) == 0 {
		r.Ob(rule, "anchor engine.SearchEngineState", "").Und("no field writers found")
		return
	}
	consume := c.stateMethod("CONSUME")
	helperNames := map[string]bool{}
	for f := range c.exclusiveHelpers(consume) {
		helperNames[fnName(f)] = true
	}
	allowed := map[string][]string{}
	for _, f := range []string{"currentFileOffset", "currentMatch", "currentLineNum", "currentColumnNum"} {
		allowed[f] = []string{"(*engine.SearchEngineState).CONSUME", "(*engine.SearchEngineState).Set", "engine.CreateState", "(*engine.SearchEngineState).Copy"}
	}
	for _, f := range []string{"startFileOffset", "startLineNum", "startColumnNum"} {
		allowed[f] = []string{"(*engine.SearchEngineState).Set", "engine.CreateState", "(*engine.SearchEngineState).Copy"}
	}
	for _, f := range sortedKeys(allowed) {
		ob := r.Ob(rule, "writers of SearchEngineState."+f, "")
		var extra []string
		for fn := range w[f] {
			if contains(allowed[f], fn) {
				continue
			}
			if helperNames[fn] && contains(allowed[f], "(*engine.SearchEngineState).CONSUME") {
				continue // a helper that only CONSUME can reach is part of the consumption primitive
			}
			extra = append(extra, fn)
		}
		sort.Strings(extra)
		var ws []string
		for fn := range w[f] {
			ws = append(ws, fn)
		}
		sort.Strings(ws)
		if len(extra) == 0 {
			ob.OKnt("stored only in " + strings.Join(ws, ", "))
		} else {
			ob.Bad("also stored in " + strings.Join(extra, ", ") + ": text, offset, line and column are no longer advanced by the single consumption primitive and can fall out of step")
		}
	}
}

func ruleCoherentStep(c *Ctx, rule string) {
	r := c.R
	fn := c.stateMethod("CONSUME")
	readF := c.stateMethod("READ")
	if fn == nil || readF == nil {
		r.Ob(rule, "anchor engine.(*SearchEngineState).CONSUME / READ", "").Und("not found")
		return
	}
	// by role: v is what CONSUME reads through READ
	var readCall *ssa.Call
	nread := 0
	instrsOf(fn, func(in ssa.Instruction) {
		if call, ok := in.(*ssa.Call); ok && call.Call.StaticCallee() == readF {
			readCall = call
			nread++
		}
	})
	ob := r.Ob(rule, "CONSUME appends exactly what it read and advances the offset by its length", c.pos(fn.Pos()))
	if nread != 1 {
		ob.Und(fmt.Sprintf("CONSUME calls READ %d time(s); expected exactly one read", nread))
		return
	}
	V := exprStr(readCall)
	isFieldLoad := func(v ssa.Value, field string) bool {
		u, ok := v.(*ssa.UnOp)
		if !ok {
			return false
		}
		fa, ok := u.X.(*ssa.FieldAddr)
		return ok && fieldName(deref(fa.X.Type()), fa.Field) == field
	}
	isLenOfV := func(v ssa.Value) bool {
		call, ok := v.(*ssa.Call)
		if !ok {
			return false
		}
		b, ok := call.Call.Value.(*ssa.Builtin)
		return ok && b.Name() == "len" && len(call.Call.Args) == 1 && call.Call.Args[0] == ssa.Value(readCall)
	}
	stores := map[string][]ssa.Value{}
	instrsOf(fn, func(in ssa.Instruction) {
		if st, ok := in.(*ssa.Store); ok {
			if fa, ok := st.Addr.(*ssa.FieldAddr); ok {
				f := fieldName(deref(fa.X.Type()), fa.Field)
				stores[f] = append(stores[f], st.Val)
			}
		}
	})
	okM, okO := false, false
	if len(stores["currentMatch"]) == 1 {
		if b, ok := stores["currentMatch"][0].(*ssa.BinOp); ok && b.Op == token.ADD && isFieldLoad(b.X, "currentMatch") && b.Y == ssa.Value(readCall) {
			okM = true
		}
	}
	if len(stores["currentFileOffset"]) == 1 {
		if b, ok := stores["currentFileOffset"][0].(*ssa.BinOp); ok && b.Op == token.ADD {
			if (isFieldLoad(b.X, "currentFileOffset") && isLenOfV(b.Y)) || (isFieldLoad(b.Y, "currentFileOffset") && isLenOfV(b.X)) {
				okO = true
			}
		}
	}
	render := func(vs []ssa.Value) []string {
		var out []string
		for _, v := range vs {
			out = append(out, exprStr(v))
		}
		return out
	}
	if okM && okO {
		ob.OKnt("currentMatch += v; currentFileOffset += len(v) for the same v = " + V)
	} else {
		ob.Bad(fmt.Sprintf("currentMatch <- %v; currentFileOffset <- %v; expected currentMatch + v and currentFileOffset + len(v) for one and the same v = %s (READ returns \"\" at end of input, so advancing by the requested amount is wrong)", render(stores["currentMatch"]), render(stores["currentFileOffset"]), V))
	}
	ob2 := r.Ob(rule, "CONSUME derives the line and column updates from the text it read", c.pos(fn.Pos()))
	// every value stored to the line/column counters must be data- or control-dependent on v; helpers that only CONSUME reaches
	// are examined with the parameters that receive v-dependent arguments as sources
	var bad []string
	n := 0
	var examine func(f *ssa.Function, src map[ssa.Value]bool, depth int)
	helpers := c.exclusiveHelpers(fn)
	examine = func(f *ssa.Function, src map[ssa.Value]bool, depth int) {
		deps := dataDeps(f, src)
		cds := NewPostDom(f).ControlDeps()
		instrsOf(f, func(in ssa.Instruction) {
			switch x := in.(type) {
			case *ssa.Store:
				fa, ok := x.Addr.(*ssa.FieldAddr)
				if !ok {
					return
				}
				fld := fieldName(deref(fa.X.Type()), fa.Field)
				if fld != "currentLineNum" && fld != "currentColumnNum" {
					return
				}
				n++
				if deps[x.Val] {
					return
				}
				for _, l := range condsOf(cds, x.Block()) {
					if deps[l.Cond] {
						return
					}
				}
				bad = append(bad, fmt.Sprintf("%s <- %s [%s]", fld, exprStr(x.Val), c.pos(x.Pos())))
			case *ssa.Call:
				sc := x.Call.StaticCallee()
				if sc == nil || !helpers[sc] || depth >= 2 {
					return
				}
				psrc := map[ssa.Value]bool{}
				for i, a := range x.Call.Args {
					if deps[a] && i < len(sc.Params) {
						psrc[sc.Params[i]] = true
					}
				}
				if len(psrc) > 0 {
					examine(sc, psrc, depth+1)
				}
			}
		})
	}
	examine(fn, map[ssa.Value]bool{readCall: true}, 0)
	if n < 2 {
		ob2.Bad("CONSUME does not update both the line and the column counter")
	} else if len(bad) > 0 {
		ob2.Bad("line/column are updated independently of the consumed text: " + strings.Join(bad, "; "))
	} else {
		ob2.OKnt(fmt.Sprintf("%d stores to the line/column counters, each data- or control-dependent on v = %s", n, V))
	}
}

func literalFields(fn *ssa.Function, typeName string) map[string]string {
	out := map[string]string{}
	instrsOf(fn, func(in ssa.Instruction) {
		st, ok := in.(*ssa.Store)
		if !ok {
			return
		}
		fa, ok := st.Addr.(*ssa.FieldAddr)
		if !ok {
			return
		}
		n, ok := deref(fa.X.Type()).(*types.Named)
		if ok && n.Obj().Name() != typeName && fn.Pkg != nil {
			// a struct embedded in the type: its fields are the type's (promoted) fields
			if outer := fn.Pkg.Pkg.Scope().Lookup(typeName); outer != nil {
				if ost, isStruct := outer.Type().Underlying().(*types.Struct); isStruct {
					emb := false
					for i := 0; i < ost.NumFields(); i++ {
						if ost.Field(i).Embedded() && types.Identical(deref(ost.Field(i).Type()), n) {
							emb = true
						}
					}
					if !emb {
						ok = false
					}
				} else {
					ok = false
				}
			} else {
				ok = false
			}
		} else if ok && n.Obj().Name() != typeName {
			ok = false
		}
		if ok {
			out[fieldName(n, fa.Field)] = exprStr(st.Val)
			// a Range, however it is made (*ds.NewRange(a, b), ds.Range{Start: a, End: b}, a by-value constructor): name its two parts
			if a, b, ok := rangeParts(st.Val, 0); ok {
				out[fieldName(n, fa.Field)] = "NewRange(" + exprStr(a) + ", " + exprStr(b) + ")"
			}
		}
	})
	return out
}

func ruleRecordConstruction(c *Ctx, rule string) {
	r := c.R
	mm := c.Method("engine", "SearchEngineState", "MakeMatch")
	if mm == nil {
		r.Ob(rule, "anchor MakeMatch", "").Und("not found")
	} else {
		got := literalFields(mm, "Match")
		want := map[string]string{
			"Filename": "es.filename", "MatchNumber": "matchNumber",
			"Offset": "NewRange(es.startFileOffset, es.currentFileOffset)", "Line": "NewRange(es.startLineNum, es.currentLineNum)",
			"Column": "NewRange(es.startColumnNum, es.currentColumnNum)", "Value": "es.currentMatch", "Variables": "es.environment",
		}
		for _, f := range sortedKeys(want) {
			ob := r.Ob(rule, "MakeMatch: field "+f, c.pos(mm.Pos()))
			ob.Check(got[f] == want[f], f+" <- "+got[f], fmt.Sprintf("%s is built from %q, expected %q", f, got[f], want[f]))
			ob.Nontrivial = true
		}
	}
	cs := c.Fn("engine", "CreateState")
	if cs == nil {
		r.Ob(rule, "anchor CreateState", "").Und("not found")
	} else {
		got := literalFields(cs, "SearchEngineState")
		pairs := [][3]string{{"currentFileOffset", "startFileOffset", "fileOffset"}, {"currentLineNum", "startLineNum", "lineNumber"}, {"currentColumnNum", "startColumnNum", "columnNumber"}}
		for _, p := range pairs {
			ob := r.Ob(rule, "CreateState: "+p[0]+" and "+p[1]+" start from the same parameter", c.pos(cs.Pos()))
			ob.Check(got[p[0]] == got[p[1]] && got[p[0]] != "" && isParamName(cs, got[p[0]]), p[0]+" = "+p[1]+" = "+got[p[0]],
				fmt.Sprintf("%s <- %q but %s <- %q", p[0], got[p[0]], p[1], got[p[1]]))
			ob.Nontrivial = true
		}
		ob := r.Ob(rule, "CreateState: the match text starts empty", c.pos(cs.Pos()))
		ob.Check(got["currentMatch"] == "" || got["currentMatch"] == `""`, "currentMatch left at its zero value", "currentMatch is initialised with "+got["currentMatch"])
	}
}

func isParamName(fn *ssa.Function, s string) bool {
	for _, p := range fn.Params {
		if p.Name() == s {
			return true
		}
	}
	return false
}

// ---------------------------------------------------------------------------------------------
// C05

func ruleReplacementAccumulates(c *Ctx, rule string) {
	defer withForwarders()()
	r := c.R
	rsT := c.NamedType("engine", "ReplacerState")
	if rsT == nil {
		r.Ob(rule, "anchor engine.ReplacerState", "").Und("not found")
		return
	}
	n := 0
	for _, fn := range c.SrcFuncs("engine") {
		instrsOf(fn, func(in ssa.Instruction) {
			st, ok := in.(*ssa.Store)
			if !ok {
				return
			}
			s := exprStr(st.Addr)
			if !strings.HasSuffix(s, ".match.Replacement") {
				return
			}
			n++
			ob := r.Ob(rule, fmt.Sprintf("%s: store #%d to match.Replacement appends to the previous text", fnName(fn), n), c.pos(st.Pos()))
			v := exprStr(st.Val)
			prefix := "Some((" + s + ".GetValueOrDefault(\"\") + "
			if strings.HasPrefix(v, prefix) && strings.HasSuffix(v, "))") {
				ob.OKnt("Replacement = " + v)
				return
			}
			// a witness is needed: the previous text is not used at all, or it is not the left end of the concatenation
			prev := s + ".GetValueOrDefault(\"\")"
			usesPrev, opaque := false, false
			seen := map[ssa.Value]bool{}
			var walk func(x ssa.Value, d int)
			walk = func(x ssa.Value, d int) {
				if x == nil || seen[x] || d > 20 {
					return
				}
				seen[x] = true
				if strings.HasSuffix(exprStr(x), ".match.Replacement") {
					usesPrev = true
					return
				}
				switch y := x.(type) {
				case *ssa.MakeClosure, *ssa.Function:
					opaque = true
					return
				case *ssa.Phi:
					for _, e := range y.Edges {
						walk(e, d+1)
					}
					return
				case *ssa.Call:
					if sc := y.Call.StaticCallee(); sc == nil {
						opaque = true
					}
					// the arguments only: the callee of a static call is not a function value that is handed around
					for _, a := range y.Call.Args {
						walk(a, d+1)
					}
					return
				}
				if in, ok := x.(ssa.Instruction); ok {
					for _, op := range in.Operands(nil) {
						if *op != nil {
							walk(*op, d+1)
						}
					}
				}
			}
			walk(st.Val, 0)
			leftmost := ""
			if call, ok := st.Val.(*ssa.Call); ok && len(call.Call.Args) == 1 && strings.HasPrefix(v, "Some(") {
				a := call.Call.Args[0]
				for {
					b, ok := a.(*ssa.BinOp)
					if !ok || b.Op != token.ADD {
						break
					}
					a = b.X
				}
				leftmost = exprStr(a)
				// `written := ""; if has { written = previous }`: every alternative is the previous text or the empty default
				if _, isPhi := a.(*ssa.Phi); isPhi {
					all := true
					for _, leaf := range phiLeaves(a, nil) {
						ls := exprStr(leaf)
						if ls != `""` && !strings.Contains(ls, ".match.Replacement") {
							all = false
						}
					}
					if all {
						leftmost = prev
					}
				}
			}
			switch {
			case opaque || (usesPrev && leftmost == ""):
				ob.Und("Replacement = " + v + ": the new text is computed from the previous one in a form this rule cannot read (a helper, a closure)")
			case !usesPrev:
				ob.Bad("Replacement is overwritten with " + v + " instead of Some(previous + item): earlier `with` items are lost")
			case leftmost != prev:
				ob.Bad("Replacement becomes " + v + ": the previous text is not the left end of the new one, so the `with` items come out in the wrong order")
			default:
				ob.Und("Replacement = " + v + ": not of the form Some(previous + item)")
			}
		})
	}
	r.Floor(rule, "stores to ReplacerState.match.Replacement", n, 1)
	ruleWhoWritesMatch(c, rule, true)
}

// ruleWhoWritesMatch: a match record is written by MakeMatch only (and its Replacement by the replacer's write primitives): what a
// command reports for a match - number, offsets, text, variables - is what the scan produced, whatever window or command uses it.
func ruleWhoWritesMatch(c *Ctx, rule string, withReplacement bool) {
	r := c.R
	w := c.fieldWriters("Match")
	rsT := c.NamedType("engine", "ReplacerState")
	for _, f := range sortedKeys(w) {
		if f == "Replacement" && !withReplacement {
			continue
		}
		ob := r.Ob(rule, "writers of engine.Match."+f, "")
		var ws []string
		for fn := range w[f] {
			ws = append(ws, fn)
		}
		sort.Strings(ws)
		var bad []string
		for _, fn := range ws {
			okW := fn == "(*engine.SearchEngineState).MakeMatch"
			if f == "Replacement" && rsT != nil && strings.HasPrefix(fn, "(*engine.ReplacerState).") {
				okW = true // the replacer's own write primitives (appending is checked per store above)
			}
			if !okW {
				bad = append(bad, fn)
			}
		}
		if len(bad) == 0 {
			ob.OKnt("written only by " + strings.Join(ws, ", "))
		} else {
			ob.Bad("a match record is modified after MakeMatch built it, in " + strings.Join(bad, ", ") + ": the matches of a replace command, or of a window, no longer equal those of the find command with the same body")
		}
	}
}

// rulePerMatchReplacer implements C05.R3/R4.
func rulePerMatchReplacer(c *Ctx, rule string) {
	r := c.R
	ex := c.Fn("engine", "executeReplace")
	if ex == nil {
		r.Ob(rule, "anchor engine.executeReplace", "").Und("not found")
		return
	}
	// by role: the function that runs the replacer program (calls executeReplace)
	var sr *ssa.Function
	for _, f := range c.callersIn("engine", ex) {
		sr = f
	}
	if sr == nil {
		r.Ob(rule, "anchor: the function that runs the replacer program", "").Und("no function of package engine calls executeReplace")
		return
	}
	ob := r.Ob(rule, "replace: every match gets its own replacer state", c.pos(sr.Pos()))
	var exec *ssa.Call
	instrsOf(sr, func(in ssa.Instruction) {
		if call, ok := in.(*ssa.Call); ok && call.Call.StaticCallee() == ex {
			exec = call
		}
	})
	// by role: the initial replacer state of a match is whatever the replacer program starts from
	var init *ssa.Function
	var ini *ssa.Call
	if exec == nil {
		ob.Und("no call to executeReplace")
	} else {
		st := exec.Call.Args[1]
		var starts []ssa.Value
		seen := map[ssa.Value]bool{}
		var walk func(v ssa.Value)
		walk = func(v ssa.Value) {
			if seen[v] {
				return
			}
			seen[v] = true
			if p, ok := v.(*ssa.Phi); ok {
				for _, e := range p.Edges {
					walk(e)
				}
				return
			}
			if v != ssa.Value(exec) {
				starts = append(starts, v)
			}
		}
		walk(st)
		loop := loopBlocks(sr, exec.Block())
		// the loop over the matches is the loop around the replacer-program loop
		var outer map[*ssa.BasicBlock]bool
		for _, comp := range sccs(sr, func(a, b *ssa.BasicBlock) bool { return true }) {
			in := map[*ssa.BasicBlock]bool{}
			for _, x := range comp {
				in[x] = true
			}
			if in[exec.Block()] && len(comp) > 1 {
				outer = in
			}
		}
		_ = loop
		switch {
		case len(starts) != 1:
			var ss []string
			for _, s := range starts {
				ss = append(ss, exprStr(s))
			}
			ob.Bad(fmt.Sprintf("the replacer program of a match starts from %d different states (%s); expected exactly one state initialised for the current match", len(starts), strings.Join(ss, ", ")))
		default:
			call, isCall := starts[0].(*ssa.Call)
			if !isCall || call.Call.StaticCallee() == nil || !c.isRepoFn(call.Call.StaticCallee()) {
				ob.Und("the initial replacer state is " + exprStr(starts[0]) + ", not the result of a function of this repository")
				break
			}
			ini, init = call, call.Call.StaticCallee()
			ob.Pos = c.pos(ini.Pos())
			fromMatch := false
			for _, a := range ini.Call.Args {
				s := exprStr(a)
				if strings.Contains(s, "findMatches(") || strings.Contains(strings.ToLower(s), "match") {
					fromMatch = true
				}
			}
			// a helper that runs the replacer program for the one match it is handed: the state is created per call
			perCall := false
			if outer == nil || !outer[ini.Block()] {
				mT := c.NamedType("engine", "Match")
				for _, a := range ini.Call.Args {
					if prm, ok := a.(*ssa.Parameter); ok && mT != nil && types.Identical(prm.Type(), mT) {
						perCall = true
					}
				}
			}
			switch {
			case perCall:
				ob.OKnt(exprStr(ini) + " on the match handed to " + sr.Name() + ": one state per call; the replacer program runs on it and on executeReplace results only")
			case outer == nil || !outer[ini.Block()]:
				ob.Bad(init.Name() + " is not called inside the loop over the matches: one replacer state (variables, replacement text) is shared by all matches of the command")
			case !fromMatch:
				ob.Bad(init.Name() + " is not given the current match")
			default:
				ob.OKnt(exprStr(ini) + " per iteration; the replacer program runs on it and on executeReplace results only")
			}
		}
	}
	// what is appended is the state's match
	ob2 := r.Ob(rule, "replace: the result of a match is the replacer state's match", c.pos(sr.Pos()))
	okApp := false
	instrsOf(sr, func(in ssa.Instruction) {
		if call, ok := in.(*ssa.Call); ok {
			if b, ok := call.Call.Value.(*ssa.Builtin); ok && b.Name() == "append" && len(call.Call.Args) == 2 {
				// the variadic argument is a slice of a fresh array: look at what was stored into it
				if sl, ok := call.Call.Args[1].(*ssa.Slice); ok {
					if a, ok := sl.X.(*ssa.Alloc); ok {
						for _, ref := range *a.Referrers() {
							if ia, ok := ref.(*ssa.IndexAddr); ok {
								for _, r2 := range *ia.Referrers() {
									if st, ok := r2.(*ssa.Store); ok && strings.HasSuffix(exprStr(st.Val), ".match") {
										okApp = true
									}
								}
							}
						}
					}
				}
			}
		}
	})
	if !okApp {
		// the helper returns the state's match and a caller appends that result
		retMatch := false
		instrsOf(sr, func(in ssa.Instruction) {
			if ret, ok := in.(*ssa.Return); ok && len(ret.Results) == 1 && strings.HasSuffix(exprStr(ret.Results[0]), ".match") {
				retMatch = true
			}
		})
		if retMatch {
			for _, caller := range c.callersIn("engine", sr) {
				instrsOf(caller, func(in ssa.Instruction) {
					call, ok := in.(*ssa.Call)
					if !ok {
						return
					}
					if b, ok := call.Call.Value.(*ssa.Builtin); !ok || b.Name() != "append" || len(call.Call.Args) != 2 {
						return
					}
					if sl, ok := call.Call.Args[1].(*ssa.Slice); ok {
						if a, ok := sl.X.(*ssa.Alloc); ok {
							for _, ref := range *a.Referrers() {
								if ia, ok := ref.(*ssa.IndexAddr); ok {
									for _, r2 := range *ia.Referrers() {
										if st, ok := r2.(*ssa.Store); ok {
											if cv, ok := st.Val.(*ssa.Call); ok && cv.Call.StaticCallee() == sr {
												okApp = true
											}
										}
									}
								}
							}
						}
					}
				})
			}
		}
	}
	// result[n] = state.match
	var others []string
	if !okApp {
		mT := c.NamedType("engine", "Match")
		instrsOf(sr, func(in ssa.Instruction) {
			st, ok := in.(*ssa.Store)
			if !ok || mT == nil || !types.Identical(st.Val.Type(), mT) {
				return
			}
			ia, ok := st.Addr.(*ssa.IndexAddr)
			if !ok {
				return
			}
			if _, isLit := ia.X.(*ssa.Alloc); isLit {
				others = append(others, exprStr(st.Val)) // the variadic argument of an append, examined above
				return
			}
			if strings.HasSuffix(exprStr(st.Val), ".match") {
				okApp = true
			} else {
				others = append(others, exprStr(st.Val))
			}
		})
	}
	switch {
	case okApp:
		ob2.OKnt("the replacer state's match is what goes into the result")
	case len(others) > 0:
		ob2.Bad("the value put into the result (" + strings.Join(uniq(others), ", ") + ") is not the replacer state's match")
	default:
		ob2.Und("no place was found where " + sr.Name() + " puts a match into its result")
	}
	// the initial state's variables are a deep copy of the match's variables plus the built-ins: nothing is carried over from another match
	if init == nil {
		return
	}
	ob3 := r.Ob(rule, "the initial replacer state of a match shares no variable table with the match or with another match", c.pos(init.Pos()))
	var bad []string
	nAdd, nVars := 0, 0
	stT := c.NamedType("engine", "ReplacerState")
	instrsOf(init, func(in ssa.Instruction) {
		switch x := in.(type) {
		case *ssa.Call:
			if sc := x.Call.StaticCallee(); sc != nil && sc.Name() == "Add" && len(x.Call.Args) >= 1 {
				nAdd++
				if fresh, why := c.deepFresh(x.Call.Args[0], 0); !fresh {
					bad = append(bad, why)
				}
			}
		case *ssa.Store:
			if fa, ok := x.Addr.(*ssa.FieldAddr); ok && stT != nil && types.Identical(deref(fa.X.Type()), stT) {
				ft := stT.Underlying().(*types.Struct).Field(fa.Field).Type()
				if _, isAlloc := fa.X.(*ssa.Alloc); isAlloc && (isRefType(ft) || hasRefField(ft)) && fieldName(stT, fa.Field) != "match" {
					nVars++
					if fresh, why := c.deepFresh(x.Val, 0); !fresh {
						bad = append(bad, "field "+fieldName(stT, fa.Field)+" <- "+why)
					}
				}
			}
		}
	})
	if nAdd == 0 || nVars == 0 {
		ob3.Und(fmt.Sprintf("%s: %d Add calls and %d reference fields of the new state found", init.Name(), nAdd, nVars))
	} else if len(bad) == 0 {
		ob3.OKnt(fmt.Sprintf("%s: %d Add calls and %d reference field(s) of the new state, all on a fresh deep copy", init.Name(), nAdd, nVars))
	} else {
		ob3.Bad(init.Name() + " builds the state from " + strings.Join(uniq(bad), ", ") + ", which is not a fresh copy: variables leak between the reported match and the replacer or from one match to the next")
	}
}

// ruleItemKinds implements C05.R6 by partial evaluation of generateReplaceVariable and WRITEVAR.
func ruleItemKinds(c *Ctx, rule string) {
	r := c.R
	fn := c.Fn("bytecode", "generateReplaceVariable")
	varT := c.NamedType("ast", "AstVariable")
	if fn == nil || varT == nil {
		r.Ob(rule, "anchor bytecode.generateReplaceVariable", "").Und("not found")
		return
	}
	ob := r.Ob(rule, "generateReplaceVariable: transform name -> ReplaceProcess, anything else -> ReplaceVariable", c.pos(fn.Pos()))
	mk := func() *PEval { return &PEval{Interpret: c.repoInterp} }
	// arguments by parameter type, so that a changed parameter list (a dropped offset) does not matter
	mkArgs := func() []PVal {
		var args []PVal
		for _, p := range fn.Params {
			switch {
			case types.Identical(deref(p.Type()), varT):
				v := pwith(pzero(varT), "Name", PSym{"NAME"})
				if _, isPtr := p.Type().(*types.Pointer); isPtr {
					args = append(args, PPtr{&PObj{v}, nil})
				} else {
					args = append(args, v)
				}
			case types.Identical(p.Type(), types.Typ[types.Int]):
				args = append(args, PSym{"offset"})
			default:
				args = append(args, PSym{"state"})
			}
		}
		return args
	}
	paths, perr := RunPaths(mk, fn, mkArgs, 8)
	if perr != "" {
		ob.Und(perr)
	} else {
		var descs []string
		for _, p := range paths {
			if p.Res.Err != "" {
				ob.Und(p.Res.Err)
				return
			}
			var conds []string
			for _, d := range p.Decisions {
				cs := pstring(d.Cond)
				if !d.Taken {
					cs = "!" + cs
				}
				conds = append(conds, cs)
			}
			res := "?"
			if len(p.Res.Results) == 2 {
				res = pstring(p.Res.Results[0]) + " err=" + pstring(p.Res.Results[1])
			} else if len(p.Res.Results) == 1 {
				res = pstring(p.Res.Results[0])
			}
			descs = append(descs, "["+strings.Join(conds, " && ")+"] -> "+res)
		}
		sort.Strings(descs)
		got := strings.Join(descs, " ; ")
		// the instruction kinds that can come out
		hasProc := strings.Contains(got, "ReplaceProcess{")
		hasVar := strings.Contains(got, "ReplaceVariable{NAME}")
		two := len(paths) == 2
		onlyLookup := true
		for _, p := range paths {
			for _, d := range p.Decisions {
				if !strings.Contains(pstring(d.Cond), "globalTransformations") {
					onlyLookup = false
				}
			}
		}
		if hasProc && hasVar && two && onlyLookup {
			ob.OKnt("two outcomes, selected only by the lookup in globalTransformations: " + got)
		} else {
			ob.Bad("the kind of a `with` item must depend only on whether the name is a transform (ReplaceProcess) or not (ReplaceVariable, resolved at run time against captures and built-ins); found: " + got)
		}
	}
	wv := c.Method("engine", "ReplacerState", "WRITEVAR")
	ob2 := r.Ob(rule, "WRITEVAR appends the variable's text exactly when it is bound to a string", "")
	if wv == nil {
		ob2.Und("WRITEVAR not found")
		return
	}
	ob2.Pos = c.pos(wv.Pos())
	cds := NewPostDom(wv).ControlDeps()
	var conds, opaque []string
	n := 0
	writers := c.fieldWriters("Match")["Replacement"]
	instrsOf(wv, func(in ssa.Instruction) {
		appendSite := false
		if st, ok := in.(*ssa.Store); ok && strings.HasSuffix(exprStr(st.Addr), ".match.Replacement") {
			appendSite = true
		}
		// or a call, on the same replacer state, of a primitive that appends to the replacement (WRITESTRING)
		if call, ok := in.(*ssa.Call); ok {
			if sc := call.Call.StaticCallee(); sc != nil && writers[fnName(sc)] && len(call.Call.Args) > 0 && call.Call.Args[0] == ssa.Value(wv.Params[0]) {
				appendSite = true
			}
		}
		if appendSite {
			n++
			for _, l := range condsOf(cds, in.Block()) {
				conds = append(conds, l.String())
				// a test made by a helper of the repository (rs.textOf(name)) is not read here
				seen := map[ssa.Value]bool{}
				var walk func(v ssa.Value, d int)
				walk = func(v ssa.Value, d int) {
					if v == nil || seen[v] || d > 12 {
						return
					}
					seen[v] = true
					if call, ok := v.(*ssa.Call); ok {
						if sc := call.Call.StaticCallee(); sc != nil && c.isRepoFn(sc) && sc.Name() != "Get" && sc.Name() != "getType" {
							opaque = append(opaque, fnName(sc))
						}
					}
					if x, ok := v.(ssa.Instruction); ok {
						for _, op := range x.Operands(nil) {
							if *op != nil {
								walk(*op, d+1)
							}
						}
					}
				}
				walk(l.Cond, 0)
			}
		}
	})
	sort.Strings(conds)
	got := strings.Join(uniq(conds), " && ")
	want := "(rs.variables.Get(name)#0.getType() == 0) && rs.variables.Get(name)#1"
	if (n != 1 || got != want) && len(opaque) > 0 {
		ob2.Und("the append is guarded by [" + got + "], a test made in " + strings.Join(uniq(opaque), ", ") + " that this rule does not read")
		return
	}
	ob2.Check(n == 1 && got == want, "one append under ["+got+"]", fmt.Sprintf("%d append(s) to the replacement under [%s]; expected one under [%s] (found && string-typed)", n, got, want))
	ob2.Nontrivial = true
}

// ruleProcessEnvFresh implements C05.R7 (also used by C02): every run of process statements (a transform, a predicate) gets an
// environment map built for that run; `set` statements write into it, so a map that outlives the run leaks between runs.
func ruleProcessEnvFresh(c *Ctx, rule string) {
	ruleEnvFresh(c, rule, "engine", "ProcessState", "what one transform or predicate `set`s is visible to the next one")
}

// ruleCheckerEnvFresh is the same rule for the type checker's environment (C12.R7).
func ruleCheckerEnvFresh(c *Ctx, rule string) {
	ruleEnvFresh(c, rule, "bytecode", "ProcessTypeInfo", "the variable types recorded while checking one `set` body are still there when the next body is checked, so the verdict on a body depends on the definitions before it")
}

func ruleEnvFresh(c *Ctx, rule, pkg, typ, consequence string) {
	r := c.R
	psT := c.NamedType(pkg, typ)
	if psT == nil {
		r.Ob(rule, "anchor "+pkg+"."+typ, "").Und("not found")
		return
	}
	st := psT.Underlying().(*types.Struct)
	n := 0
	for _, fn := range c.SrcFuncs(pkg) {
		// construction sites: a local ProcessState whose reference fields are stored in this function, outside the statement
		// executors themselves (they thread the state they are given)
		if len(fn.Params) > 0 {
			threads := false
			for _, p := range fn.Params {
				if types.Identical(p.Type(), psT) || types.Identical(deref(p.Type()), psT) {
					threads = true
				}
			}
			if threads {
				continue
			}
		}
		k := 0
		instrsOf(fn, func(in ssa.Instruction) {
			s, ok := in.(*ssa.Store)
			if !ok {
				return
			}
			fa, ok := s.Addr.(*ssa.FieldAddr)
			if !ok || !types.Identical(deref(fa.X.Type()), psT) {
				return
			}
			if _, isAlloc := fa.X.(*ssa.Alloc); !isAlloc {
				return
			}
			ft := st.Field(fa.Field).Type()
			if _, isMap := ft.Underlying().(*types.Map); !isMap {
				return
			}
			n++
			k++
			ob := r.Ob(rule, fmt.Sprintf("%s: process run #%d gets an environment of its own (field %s)", fnName(fn), k, st.Field(fa.Field).Name()), c.pos(s.Pos()))
			if prm, isParam := s.Val.(*ssa.Parameter); isParam {
				// a helper that runs the statements on an environment it is handed: every caller must hand it a fresh one
				idx := -1
				for i, p := range fn.Params {
					if p == prm {
						idx = i
					}
				}
				ncall, problem := 0, ""
				// (a caller that hands on a parameter of its own moves the obligation to its callers in turn)
				var visit func(callee *ssa.Function, idx int, depth int)
				visit = func(callee *ssa.Function, idx int, depth int) {
					for _, caller := range c.SrcFuncs(pkg) {
						for _, cl := range callsTo(caller, callee) {
							ncall++
							if idx < 0 || idx >= len(cl.Call.Args) {
								problem = "call with unexpected arity"
								continue
							}
							if p2, ok := cl.Call.Args[idx].(*ssa.Parameter); ok && depth < 3 {
								j := -1
								for i, p := range caller.Params {
									if p == p2 {
										j = i
									}
								}
								if j >= 0 && len(c.callersIn(pkg, caller)) > 0 {
									visit(caller, j, depth+1)
									continue
								}
							}
							if fresh, why := c.deepFresh(cl.Call.Args[idx], 0); !fresh {
								problem = fnName(caller) + " passes " + why
							}
						}
					}
				}
				visit(fn, idx, 0)
				switch {
				case ncall == 0:
					ob.Und("the environment is a parameter and no caller was found")
				case problem != "":
					ob.Bad("the environment of the run is a parameter and " + problem + ", a map that outlives the run: " + consequence)
				default:
					ob.OKnt(fmt.Sprintf("the environment is a parameter; all %d caller(s) create the map for the run", ncall))
				}
				return
			}
			if fresh, why := c.deepFresh(s.Val, 0); fresh {
				ob.OKnt("the map is created in this function for this run")
			} else {
				ob.Bad("the environment of the run is " + why + ", a map that outlives the run: " + consequence)
			}
		})
	}
	r.Floor(rule, "process-run construction sites", n, 1)
}

// ruleReplacerOwnsItsTables extends C05.R3: no table that is written while one match is being replaced is carried to the next match.
func ruleReplacerOwnsItsTables(c *Ctx, rule string) {
	r := c.R
	ex := c.Fn("engine", "executeReplace")
	stT := c.NamedType("engine", "ReplacerState")
	if ex == nil || stT == nil {
		r.Ob(rule, "anchor engine.executeReplace / ReplacerState", "").Und("not found")
		return
	}
	var sr *ssa.Function
	for _, f := range c.callersIn("engine", ex) {
		sr = f
	}
	if sr == nil {
		return // reported by rulePerMatchReplacer
	}
	var exec *ssa.Call
	instrsOf(sr, func(in ssa.Instruction) {
		if call, ok := in.(*ssa.Call); ok && call.Call.StaticCallee() == ex {
			exec = call
		}
	})
	if exec == nil {
		return
	}
	var outer map[*ssa.BasicBlock]bool
	for _, comp := range sccs(sr, func(a, b *ssa.BasicBlock) bool { return true }) {
		in := map[*ssa.BasicBlock]bool{}
		for _, x := range comp {
			in[x] = true
		}
		if in[exec.Block()] && len(comp) > 1 {
			outer = in
		}
	}
	sst := stT.Underlying().(*types.Struct)
	// fields of the replacer state that are mutated in place somewhere under executeReplace
	mut := c.mutatingMethods()
	mutated := map[string]string{}
	for fn := range c.Reachable(ex) {
		if !c.isRepoFn(fn) {
			continue
		}
		instrsOf(fn, func(in ssa.Instruction) {
			fieldOf := func(v ssa.Value) string {
				ch := traceAddr(v)
				for _, s := range ch.Steps {
					if s.Kind == "field" && s.Struct != nil && types.Identical(s.Struct, stT) {
						return s.Field
					}
				}
				return ""
			}
			switch x := in.(type) {
			case *ssa.MapUpdate:
				if f := fieldOf(x.Map); f != "" {
					mutated[f] = "map update in " + fnName(fn)
				}
			case *ssa.Store:
				if ia, ok := x.Addr.(*ssa.IndexAddr); ok {
					if f := fieldOf(ia.X); f != "" {
						mutated[f] = "element store in " + fnName(fn)
					}
				}
			case *ssa.Call:
				if sc := x.Call.StaticCallee(); sc != nil && mut[sc] != "" && len(x.Call.Args) > 0 {
					if f := fieldOf(x.Call.Args[0]); f != "" {
						mutated[f] = "call of " + fnName(sc) + " in " + fnName(fn)
					}
				}
			}
		})
	}
	ob := r.Ob(rule, "replace: no table written while replacing one match is carried to the next match", c.pos(sr.Pos()))
	var bad []string
	nstores := 0
	instrsOf(sr, func(in ssa.Instruction) {
		s, ok := in.(*ssa.Store)
		if !ok || outer == nil || !outer[s.Block()] {
			return
		}
		fa, ok := s.Addr.(*ssa.FieldAddr)
		if !ok || !types.Identical(deref(fa.X.Type()), stT) {
			return
		}
		ft := sst.Field(fa.Field).Type()
		if !isRefType(ft) && !hasRefField(ft) {
			return
		}
		nstores++
		name := sst.Field(fa.Field).Name()
		definedOutside := false
		if vi, ok := s.Val.(ssa.Instruction); ok && vi.Block() != nil && !outer[vi.Block()] {
			definedOutside = true
		}
		if _, isParam := s.Val.(*ssa.Parameter); isParam {
			definedOutside = true
		}
		if definedOutside && mutated[name] != "" {
			bad = append(bad, fmt.Sprintf("field %s of the per-match state is set to %s, which is created once for all matches and written during a match (%s)", name, exprStr(s.Val), mutated[name]))
		}
	})
	r.Tables["replacer_fields_mutated_in_place"] = mutated
	if len(bad) == 0 {
		ob.OKnt(fmt.Sprintf("%d store(s) into reference fields of the per-match state inside the loop over the matches; none installs a table that outlives the match and is written during it", nstores))
	} else {
		ob.Bad(strings.Join(bad, "; ") + ": what is computed for one match can change the replacement of a later match")
	}
}

// ruleBuiltinsWin implements C05.R8 / C12.R8: the names the engine provides to process code (match, matchLength, matchNumber, typed
// as the checker assumes) are written into the environment after the captured variables are copied in, never before: a capture that
// happens to carry such a name must not replace the typed built-in. Structurally: no update of the environment with a computed key
// may execute after an update with a constant key.
func ruleBuiltinsWin(c *Ctx, rule string) {
	r := c.R
	pvT := c.NamedType("engine", "ProcessValue")
	if pvT == nil {
		r.Ob(rule, "anchor engine.ProcessValue", "").Und("not found")
		return
	}
	isEnv := func(t types.Type) bool {
		m, ok := t.Underlying().(*types.Map)
		return ok && types.Identical(m.Elem(), pvT)
	}
	// helpers that return an environment they filled with constant keys
	constFillers := map[*ssa.Function]bool{}
	for _, fn := range c.SrcFuncs("engine") {
		res := fn.Signature.Results()
		psT := c.NamedType("engine", "ProcessState")
		if res.Len() != 1 || !(isEnv(res.At(0).Type()) || (psT != nil && types.Identical(deref(res.At(0).Type()), psT))) {
			continue
		}
		// not the statement executors, which thread a state they are given
		threads := false
		for _, p := range fn.Params {
			if psT != nil && types.Identical(deref(p.Type()), psT) {
				threads = true
			}
		}
		if threads {
			continue
		}
		instrsOf(fn, func(in ssa.Instruction) {
			if mu, ok := in.(*ssa.MapUpdate); ok && isEnv(mu.Map.Type()) {
				if _, isConst := mu.Key.(*ssa.Const); isConst {
					constFillers[fn] = true
				}
			}
		})
	}
	// base of an environment expression: the map value itself, or the struct value/variable whose field it is
	baseOf := func(m ssa.Value) ssa.Value {
		switch x := m.(type) {
		case *ssa.Field:
			return x.X
		case *ssa.UnOp:
			if fa, ok := x.X.(*ssa.FieldAddr); ok {
				return fa.X
			}
		}
		return m
	}
	// what a base was made from: a call, a parameter, or unknown
	originOf := func(b ssa.Value) ssa.Value {
		if a, ok := b.(*ssa.Alloc); ok {
			for _, ref := range *a.Referrers() {
				if st, ok := ref.(*ssa.Store); ok && st.Addr == ssa.Value(a) {
					return st.Val
				}
			}
		}
		return b
	}
	n := 0
	psT0 := c.NamedType("engine", "ProcessState")
	for _, fn := range c.SrcFuncs("engine") {
		// statement and expression executors thread the state they are given; what they write are the variables a `set` names
		threads := false
		for _, p := range fn.Params {
			if psT0 != nil && types.Identical(deref(p.Type()), psT0) {
				threads = true
			}
		}
		if threads {
			continue
		}
		k := 0
		instrsOf(fn, func(in ssa.Instruction) {
			d, ok := in.(*ssa.MapUpdate)
			if !ok || !isEnv(d.Map.Type()) {
				return
			}
			if _, isConst := d.Key.(*ssa.Const); isConst {
				return
			}
			// statement executors write the variables a `set` names into the state they are handed: not a copy of captured variables
			base := baseOf(d.Map)
			origin := originOf(base)
			if _, isParam := origin.(*ssa.Parameter); isParam {
				return
			}
			n++
			k++
			ob := r.Ob(rule, fmt.Sprintf("%s: captured variables (#%d) are copied into the environment before the built-ins are set", fnName(fn), k), c.pos(d.Pos()))
			problem := ""
			if call, ok := origin.(*ssa.Call); ok && constFillers[call.Call.StaticCallee()] {
				problem = "the environment comes from " + call.Call.StaticCallee().Name() + ", which has already set the built-in names"
			}
			if problem == "" {
				live := newLiveCFG(fn)
				instrsOf(fn, func(y ssa.Instruction) {
					kk, ok := y.(*ssa.MapUpdate)
					if !ok || baseOf(kk.Map) != base || kk == d {
						return
					}
					if kc, isConst := kk.Key.(*ssa.Const); isConst && live.after(kk, d) {
						problem = "the built-in " + exprStr(kc) + " is set at " + c.pos(kk.Pos()) + ", before this copy"
					}
				})
			}
			if problem == "" {
				ob.OKnt("no constant-key update of the same environment can execute before this copy")
			} else {
				ob.Bad(problem + ": a captured variable named like a built-in overwrites it (with a string where the checker promised a number, or with another text than the match)")
			}
		})
	}
	r.Stats["environment_copies_of_captured_variables"] = n
	if n == 0 {
		r.Ob(rule, "no environment is filled with computed keys", "").OK("only constant names are ever written into a process environment")
	}
}

// ruleTransformBoundAtCompileTime implements C05.R9: the statements a transform item runs are the ones the generator stored in the
// instruction when the replace command was compiled. A handler that fetches them from a table by name at run time sees whatever
// definition of that name came last in the source.
func ruleTransformBoundAtCompileTime(c *Ctx, rule string) {
	r := c.R
	rpT := c.NamedType("bytecode", "ReplaceProcess")
	exS := c.Fn("engine", "executeStatement")
	exR := c.Fn("engine", "executeReplace")
	if rpT == nil || exS == nil || exR == nil {
		r.Ob(rule, "anchor bytecode.ReplaceProcess / engine.executeStatement / executeReplace", "").Und("not found")
		return
	}
	// resolve where a statement (list) comes from: "instr" (a field of a ReplaceProcess instruction), "lookup <expr>", or "?<expr>"
	var origin func(v ssa.Value, fn *ssa.Function, depth int) string
	origin = func(v ssa.Value, fn *ssa.Function, depth int) string {
		if depth > 6 {
			return "?" + exprStr(v)
		}
		root := traceAddr(v).Root
		// a local: follow what is stored into it (range variable, copy of the instruction)
		if a, ok := root.(*ssa.Alloc); ok {
			res := ""
			for _, ref := range *a.Referrers() {
				st, ok := ref.(*ssa.Store)
				if !ok || st.Addr != ssa.Value(a) {
					continue
				}
				val := st.Val
				if u, ok := val.(*ssa.UnOp); ok {
					if ia, ok := u.X.(*ssa.IndexAddr); ok {
						val = ia.X // element of a slice: the slice
					}
				}
				o := origin(val, fn, depth+1)
				if res == "" || o != "instr" {
					res = o
				}
			}
			if res != "" {
				return res
			}
			return "?" + exprStr(v)
		}
		isInstrType := func(t types.Type) bool {
			n, ok := t.(*types.Named)
			if !ok || n.Obj().Pkg() == nil || n.Obj().Pkg().Name() != "bytecode" {
				return false
			}
			_, isStruct := n.Underlying().(*types.Struct)
			return isStruct
		}
		switch x := root.(type) {
		case *ssa.TypeAssert:
			if isInstrType(x.AssertedType) {
				return "instr"
			}
		case *ssa.Extract:
			if ta, ok := x.Tuple.(*ssa.TypeAssert); ok && isInstrType(ta.AssertedType) {
				return "instr"
			}
			if lk, ok := x.Tuple.(*ssa.Lookup); ok {
				return "lookup " + exprStr(lk)
			}
		case *ssa.Lookup:
			return "lookup " + exprStr(x)
		case *ssa.Parameter:
			if isInstrType(x.Type()) {
				return "instr"
			}
			idx := -1
			for i, p := range fn.Params {
				if p == x {
					idx = i
				}
			}
			res := ""
			for _, caller := range c.SrcFuncs("engine") {
				for _, cl := range callsTo(caller, fn) {
					if idx < 0 || idx >= len(cl.Call.Args) {
						continue
					}
					o := origin(cl.Call.Args[idx], caller, depth+1)
					if res == "" || o != "instr" {
						res = o
					}
				}
			}
			if res != "" {
				return res
			}
		case *ssa.FreeVar:
			// a variable captured by a closure: what the enclosing function bound to it
			if parent := fn.Parent(); parent != nil {
				idx := -1
				for i, fv := range fn.FreeVars {
					if fv == x {
						idx = i
					}
				}
				res := ""
				instrsOf(parent, func(in ssa.Instruction) {
					mc, ok := in.(*ssa.MakeClosure)
					if !ok || mc.Fn != ssa.Value(fn) || idx < 0 || idx >= len(mc.Bindings) {
						return
					}
					o := origin(mc.Bindings[idx], parent, depth+1)
					if res == "" || o != "instr" {
						res = o
					}
				})
				if res != "" {
					return res
				}
			}
		case *ssa.Phi:
			res := ""
			for _, e := range x.Edges {
				o := origin(e, fn, depth+1)
				if res == "" || o != "instr" {
					res = o
				}
			}
			return res
		}
		return "?" + exprStr(v)
	}
	ob := r.Ob(rule, "replace: a transform item runs the statements stored in its instruction", c.pos(exR.Pos()))
	found := 0
	var bad, unknown []string
	for fn := range c.Reachable(exR) {
		if !c.isRepoFn(fn) || fn.Pkg != exR.Pkg || fn == exS || c.Reachable(exS)[fn] {
			continue
		}
		for _, call := range callsTo(fn, exS) {
			found++
			o := origin(call.Call.Args[0], fn, 0)
			switch {
			case o == "instr":
			case strings.HasPrefix(o, "lookup "):
				bad = append(bad, strings.TrimPrefix(o, "lookup ")+" (used in "+fn.Name()+")")
			default:
				unknown = append(unknown, strings.TrimPrefix(o, "?"))
			}
		}
	}
	switch {
	case len(bad) > 0:
		ob.Bad("the statements are fetched by a table lookup, " + strings.Join(uniq(bad), ", ") + ", when the replacer runs: a later `set ... to transform` with the same name changes what an earlier replace command does")
	case found == 0 || len(unknown) > 0:
		ob.Und(fmt.Sprintf("%d executeStatement call(s) under executeReplace; origin not followed: %v", found, uniq(unknown)))
	default:
		ob.OKnt(fmt.Sprintf("%d executeStatement call(s) under executeReplace, each on an element of the statement list inside the ReplaceProcess instruction", found))
	}
}

// rangeParts names the two values a ds.Range (or *ds.Range) value is made from, seen through composite literals, copies and
// the constructor functions (a callee whose single return is itself such a value made from its parameters).
func rangeParts(v ssa.Value, depth int) (ssa.Value, ssa.Value, bool) {
	if depth > 4 || v == nil {
		return nil, nil, false
	}
	if n, ok := deref(v.Type()).(*types.Named); !ok || n.Obj().Name() != "Range" {
		return nil, nil, false
	}
	switch x := v.(type) {
	case *ssa.UnOp:
		if x.Op == token.MUL {
			return rangeParts(x.X, depth)
		}
	case *ssa.Alloc:
		var s, e, whole []ssa.Value
		for _, ref := range *x.Referrers() {
			switch y := ref.(type) {
			case *ssa.FieldAddr:
				for _, r2 := range *y.Referrers() {
					if st, ok := r2.(*ssa.Store); ok && st.Addr == ssa.Value(y) {
						switch fieldName(deref(x.Type()), y.Field) {
						case "Start":
							s = append(s, st.Val)
						case "End":
							e = append(e, st.Val)
						}
					}
				}
			case *ssa.Store:
				if y.Addr == ssa.Value(x) {
					whole = append(whole, y.Val)
				}
			}
		}
		if len(whole) == 1 && len(s) == 0 && len(e) == 0 {
			return rangeParts(whole[0], depth+1)
		}
		if len(whole) == 0 && len(s) == 1 && len(e) == 1 {
			return s[0], e[0], true
		}
	case *ssa.Call:
		sc := x.Call.StaticCallee()
		if sc == nil || len(sc.Blocks) == 0 || x.Call.IsInvoke() {
			return nil, nil, false
		}
		var rets []*ssa.Return
		instrsOf(sc, func(in ssa.Instruction) {
			if ret, ok := in.(*ssa.Return); ok {
				rets = append(rets, ret)
			}
		})
		if len(rets) != 1 || len(rets[0].Results) != 1 {
			return nil, nil, false
		}
		a, b, ok := rangeParts(rets[0].Results[0], depth+1)
		if !ok {
			return nil, nil, false
		}
		back := func(v ssa.Value) ssa.Value {
			if _, isConst := v.(*ssa.Const); isConst {
				return v
			}
			for i, p := range sc.Params {
				if v == ssa.Value(p) && i < len(x.Call.Args) {
					return x.Call.Args[i]
				}
			}
			return nil
		}
		if a, b = back(a), back(b); a != nil && b != nil {
			return a, b, true
		}
	}
	return nil, nil, false
}
