package main

// C02: snapshot isolation of the VM state (R1), binding provenance (R2), handlers work on their own copy (R3).

import (
	"fmt"
	"go/token"
	"go/types"
	"regexp"
	"sort"
	"strings"

	"golang.org/x/tools/go/ssa"
)

// mutatingMethods: methods (of repository types) that write through their receiver, directly or through calls on it.
func (c *Ctx) mutatingMethods() map[*ssa.Function]string {
	out := map[*ssa.Function]string{}
	var cands []*ssa.Function
	for fn := range c.allFns {
		if c.isRepoFn(fn) && fn.Signature.Recv() != nil && len(fn.Blocks) > 0 && len(fn.Params) > 0 {
			cands = append(cands, fn)
		}
	}
	sort.Slice(cands, func(i, j int) bool { return fnName(cands[i]) < fnName(cands[j]) })
	derivesFromRecv := func(fn *ssa.Function, v ssa.Value) bool {
		ch := traceAddr(v)
		if ch.Root == ssa.Value(fn.Params[0]) {
			return true
		}
		// spilled value receiver
		if a, ok := ch.Root.(*ssa.Alloc); ok {
			for _, ref := range *a.Referrers() {
				if st, ok := ref.(*ssa.Store); ok && st.Addr == a && st.Val == ssa.Value(fn.Params[0]) {
					return true
				}
			}
		}
		return false
	}
	changed := true
	for changed {
		changed = false
		for _, fn := range cands {
			if _, done := out[fn]; done {
				continue
			}
			instrsOf(fn, func(in ssa.Instruction) {
				if _, done := out[fn]; done {
					return
				}
				switch x := in.(type) {
				case *ssa.Store:
					ch := traceAddr(x.Addr)
					if derivesFromRecv(fn, x.Addr) && !ch.local() {
						out[fn] = "stores through its receiver [" + c.pos(x.Pos()) + "]"
						changed = true
					}
				case *ssa.MapUpdate:
					if derivesFromRecv(fn, x.Map) {
						out[fn] = "updates a map reached from its receiver [" + c.pos(x.Pos()) + "]"
						changed = true
					}
				case *ssa.Call:
					if sc := x.Call.StaticCallee(); sc != nil && len(x.Call.Args) > 0 {
						if why, mut := out[sc]; mut && sc.Signature.Recv() != nil && derivesFromRecv(fn, x.Call.Args[0]) {
							out[fn] = "calls " + sc.Name() + ", which " + why
							changed = true
						}
					}
				}
			})
		}
	}
	return out
}

// mutatedFields: (struct type, field) pairs of package engine whose content is mutated in place somewhere in the package:
// a mutating method is called on a receiver loaded from (or addressing) that field.
func (c *Ctx) mutatedFields(mut map[*ssa.Function]string) map[string]string {
	out := map[string]string{}
	for _, fn := range c.SrcFuncs("engine") {
		instrsOf(fn, func(in ssa.Instruction) {
			// direct updates of a map or a slice element reached through a struct field
			mark := func(ref ssa.Value, what string, pos token.Pos) {
				ch := traceAddr(ref)
				for _, s := range ch.Steps {
					if s.Kind == "field" && s.Struct != nil {
						if n, ok := s.Struct.(*types.Named); ok {
							key := n.Obj().Name() + "." + s.Field
							if _, dup := out[key]; !dup {
								out[key] = fmt.Sprintf("%s %s [%s]", fnName(fn), what, c.pos(pos))
							}
						}
					}
				}
			}
			switch x := in.(type) {
			case *ssa.MapUpdate:
				if _, fresh := x.Map.(*ssa.MakeMap); !fresh {
					mark(x.Map, "updates the map", x.Pos())
				}
				return
			case *ssa.Store:
				if ia, ok := x.Addr.(*ssa.IndexAddr); ok {
					if _, isSlice := ia.X.Type().Underlying().(*types.Slice); isSlice {
						mark(ia.X, "stores into an element of the slice", x.Pos())
					}
				}
				return
			}
			call, ok := in.(*ssa.Call)
			if !ok || len(call.Call.Args) == 0 {
				return
			}
			sc := call.Call.StaticCallee()
			if sc == nil {
				return
			}
			if _, isMut := mut[sc]; !isMut {
				return
			}
			ch := traceAddr(call.Call.Args[0])
			for _, s := range ch.Steps {
				if s.Kind == "field" && s.Struct != nil {
					if n, ok := s.Struct.(*types.Named); ok {
						key := n.Obj().Name() + "." + s.Field
						if _, dup := out[key]; !dup {
							out[key] = fmt.Sprintf("%s calls %s on it [%s]", fnName(fn), sc.Name(), c.pos(call.Pos()))
						}
					}
				}
			}
		})
	}
	return out
}

// refLeaves lists the (struct, field) pairs with reference-typed content reachable by value inside t.
func refLeaves(t types.Type, seen map[string]bool) []string {
	var out []string
	n, _ := t.(*types.Named)
	s, ok := t.Underlying().(*types.Struct)
	if !ok {
		return nil
	}
	name := "struct"
	if n != nil {
		name = n.Obj().Name()
		if seen[name] {
			return nil
		}
		seen[name] = true
	}
	for i := 0; i < s.NumFields(); i++ {
		f := s.Field(i)
		if isRefType(f.Type()) {
			out = append(out, name+"."+f.Name())
		} else if hasRefField(f.Type()) {
			out = append(out, name+"."+f.Name())
			out = append(out, refLeaves(f.Type(), seen)...)
		}
	}
	return out
}

// deepFresh: the value shares no reference with memory that existed before this call.
func (c *Ctx) deepFresh(v ssa.Value, depth int) (bool, string) {
	if depth > 14 {
		return false, "too deep"
	}
	switch x := v.(type) {
	case *ssa.MakeMap, *ssa.MakeSlice:
		return true, ""
	case *ssa.Const:
		return true, ""
	case *ssa.Alloc:
		// a struct built in place: the references stored into its fields must be fresh as well
		if st, isStruct := deref(x.Type()).Underlying().(*types.Struct); isStruct {
			for _, ref := range *x.Referrers() {
				fa, ok := ref.(*ssa.FieldAddr)
				if !ok {
					continue
				}
				ft := st.Field(fa.Field).Type()
				if !isRefType(ft) && !hasRefField(ft) {
					continue
				}
				for _, r2 := range *fa.Referrers() {
					if s, ok := r2.(*ssa.Store); ok && s.Addr == ssa.Value(fa) {
						if ok, w := c.deepFresh(s.Val, depth+1); !ok {
							return false, "field " + st.Field(fa.Field).Name() + " <- " + w
						}
					}
				}
			}
		}
		return true, ""
	case *ssa.Slice:
		// a slice of something shares its backing array
		return false, "a slice of " + exprStr(x.X) + " (shares its backing array)"
	case *ssa.MakeInterface:
		return c.deepFresh(x.X, depth+1)
	case *ssa.ChangeType:
		return c.deepFresh(x.X, depth+1)
	case *ssa.Call:
		if x.Call.IsInvoke() {
			// a method on an interface value: fresh when the receiver is fresh and every implementation returns its receiver or a fresh value
			if ok, why := c.deepFresh(x.Call.Value, depth+1); !ok {
				return false, why
			}
			return true, ""
		}
		sc := x.Call.StaticCallee()
		if sc == nil || !c.isRepoFn(sc) || len(sc.Blocks) == 0 {
			return false, "result of " + callName(&x.Call)
		}
		// a method that returns its (fresh) receiver
		allFresh := true
		why := ""
		instrsOf(sc, func(in ssa.Instruction) {
			ret, ok := in.(*ssa.Return)
			if !ok || len(ret.Results) == 0 {
				return
			}
			rv := ret.Results[0]
			if mi, ok := rv.(*ssa.MakeInterface); ok {
				rv = mi.X
			}
			if len(sc.Params) > 0 && rv == ssa.Value(sc.Params[0]) && len(x.Call.Args) > 0 {
				if ok, w := c.deepFresh(x.Call.Args[0], depth+1); !ok {
					allFresh, why = false, w
				}
				return
			}
			if ok, w := c.deepFreshIn(sc, rv, depth+1); !ok {
				allFresh, why = false, sc.Name()+" returns "+w
			}
		})
		return allFresh, why
	case *ssa.UnOp:
		if x.Op == token.MUL {
			return c.deepFreshIn(x.Parent(), v, depth)
		}
	}
	return false, exprStr(v)
}

// deepFreshIn handles values inside a function: a struct loaded from a local literal is fresh when each reference field stored is.
func (c *Ctx) deepFreshIn(fn *ssa.Function, v ssa.Value, depth int) (bool, string) {
	if u, ok := v.(*ssa.UnOp); ok && u.Op == token.MUL {
		if a, ok := u.X.(*ssa.Alloc); ok {
			st, isStruct := deref(a.Type()).Underlying().(*types.Struct)
			if !isStruct {
				return false, "load of local " + allocName(a)
			}
			for _, ref := range *a.Referrers() {
				switch r := ref.(type) {
				case *ssa.Store:
					if r.Addr == ssa.Value(a) {
						// whole-struct store: the stored struct must itself be fresh - or every reference field of it is given a fresh
						// value afterwards (a by-value copy of the receiver whose owned members are then replaced)
						if ok, w := c.deepFresh(r.Val, depth+1); !ok {
							var shared []string
							for fi := 0; fi < st.NumFields(); fi++ {
								ft := st.Field(fi).Type()
								if !isRefType(ft) && !hasRefField(ft) {
									continue
								}
								replaced := false
								for _, ref2 := range *a.Referrers() {
									if fa, ok := ref2.(*ssa.FieldAddr); ok && fa.Field == fi {
										for _, r3 := range *fa.Referrers() {
											if s2, ok := r3.(*ssa.Store); ok && s2.Addr == ssa.Value(fa) {
												replaced = true
											}
										}
									}
								}
								if !replaced {
									shared = append(shared, st.Field(fi).Name())
								}
							}
							if len(shared) > 0 {
								return false, w + " (struct copy; field(s) " + strings.Join(shared, ", ") + " stay shared)"
							}
						}
					}
				case *ssa.FieldAddr:
					ft := st.Field(r.Field).Type()
					for _, r2 := range *r.Referrers() {
						if s, ok := r2.(*ssa.Store); ok && (isRefType(ft) || hasRefField(ft)) {
							if ok, w := c.deepFresh(s.Val, depth+1); !ok {
								return false, "field " + st.Field(r.Field).Name() + " <- " + w
							}
						}
					}
				}
			}
			return true, ""
		}
		// a field of a struct that is being built in this function: what was stored into it
		if fa, ok := u.X.(*ssa.FieldAddr); ok {
			if a, ok := fa.X.(*ssa.Alloc); ok {
				var stored []ssa.Value
				for _, ref := range *a.Referrers() {
					if f2, ok := ref.(*ssa.FieldAddr); ok && f2.Field == fa.Field {
						for _, r2 := range *f2.Referrers() {
							if st, ok := r2.(*ssa.Store); ok && st.Addr == ssa.Value(f2) {
								stored = append(stored, st.Val)
							}
						}
					}
				}
				if len(stored) > 0 {
					for _, sv := range stored {
						if ok, w := c.deepFresh(sv, depth+1); !ok {
							return false, w
						}
					}
					return true, ""
				}
			}
		}
		return false, "load of " + exprStr(u.X)
	}
	return c.deepFresh(v, depth)
}

func ruleSnapshotIsolation(c *Ctx, rule string) {
	r := c.R
	cp := c.Method("engine", "SearchEngineState", "Copy")
	stT := c.NamedType("engine", "SearchEngineState")
	if cp == nil || stT == nil {
		r.Ob(rule, "anchor engine.(*SearchEngineState).Copy", "").Und("not found")
		return
	}
	mut := c.mutatingMethods()
	M := c.mutatedFields(mut)
	r.Tables["fields_mutated_in_place"] = M
	r.Stats["mutating_methods"] = len(mut)
	st := stT.Underlying().(*types.Struct)
	stored := map[string]ssa.Value{}
	instrsOf(cp, func(in ssa.Instruction) {
		if s, ok := in.(*ssa.Store); ok {
			if fa, ok := s.Addr.(*ssa.FieldAddr); ok && types.Identical(deref(fa.X.Type()), stT) {
				if _, isAlloc := fa.X.(*ssa.Alloc); isAlloc {
					stored[fieldName(stT, fa.Field)] = s.Val
				}
			}
		}
	})
	// `result := *es` copies every field shallowly; fields that are not re-assigned afterwards are shared with the receiver
	structCopied := false
	instrsOf(cp, func(in ssa.Instruction) {
		if s, ok := in.(*ssa.Store); ok {
			if a, isAlloc := s.Addr.(*ssa.Alloc); isAlloc && types.Identical(deref(a.Type()), stT) {
				if u, ok := s.Val.(*ssa.UnOp); ok && u.Op == token.MUL && len(cp.Params) > 0 && u.X == ssa.Value(cp.Params[0]) {
					structCopied = true
				}
			}
		}
	})
	ninit := len(stored)
	if structCopied {
		ninit = st.NumFields()
	}
	r.Floor(rule, "fields initialised by Copy", ninit, 8)
	for i := 0; i < st.NumFields(); i++ {
		f := st.Field(i)
		if !isRefType(f.Type()) && !hasRefField(f.Type()) {
			continue
		}
		ob := r.Ob(rule, "engine.(*SearchEngineState).Copy:field "+f.Name(), c.pos(cp.Pos()))
		if f.Name() == "reader" {
			ob.Exc("shared by design (*files.Reader); safe because every read is preceded by a seek on the same reader (axiom A5, checked by C07.R3)")
			continue
		}
		v, ok := stored[f.Name()]
		if !ok && structCopied {
			// shared with the receiver through the struct copy
			key := "SearchEngineState." + f.Name()
			var sharedMut []string
			if w, isM := M[key]; isM {
				sharedMut = append(sharedMut, key+" ("+w+")")
			}
			for _, lf := range refLeaves(f.Type(), map[string]bool{}) {
				if w, isM := M[lf]; isM {
					sharedMut = append(sharedMut, lf+" ("+w+")")
				}
			}
			if _, isStack := f.Type().(*types.Pointer); isStack || len(sharedMut) > 0 {
				ob.Bad("the struct copy leaves this field shared between snapshot and live state and it is mutated in place: " + strings.Join(sharedMut, "; "))
			} else {
				ob.OKnt("copied by the struct assignment; shared but never mutated in place in package engine")
			}
			continue
		}
		if !ok {
			ob.Bad("Copy does not initialise this reference field: the snapshot loses it")
			continue
		}
		// stack-typed fields
		if pt, ok := f.Type().(*types.Pointer); ok {
			elemLeaves := []string{}
			if n, ok := pt.Elem().(*types.Named); ok && n.Obj().Name() == "Stack" && n.TypeArgs().Len() == 1 {
				elemLeaves = refLeaves(n.TypeArgs().At(0), map[string]bool{})
			}
			// shallow copy through (*Stack).Copy of the receiver's field
			if call, ok := v.(*ssa.Call); ok {
				if sc := call.Call.StaticCallee(); sc != nil && strings.HasPrefix(sc.Name(), "Copy") && strings.Contains(fnName(sc), "Stack") {
					if fresh, why := c.returnsFresh(sc, 0); !fresh {
						ob.Bad("the stack copy is not a fresh stack: " + why)
						continue
					}
					if f.Name() == "backtrack" {
						ob.OKnt("fresh stack object; its elements are the saved snapshots themselves, which become mutable only after Set has made one of them the live state (LIFO argument, stated, not checked)")
						continue
					}
					var sharedMut []string
					for _, lf := range elemLeaves {
						if why, isM := M[lf]; isM {
							sharedMut = append(sharedMut, lf+" ("+why+")")
						}
					}
					if len(sharedMut) == 0 {
						ob.OKnt(fmt.Sprintf("fresh stack, elements copied by value; element reference fields %v are not mutated in place anywhere in package engine", elemLeaves))
					} else {
						ob.Bad("the stack is copied element by element by value, so snapshot and live state share " + strings.Join(sharedMut, "; ") + " — a binding made after the checkpoint is visible through the saved state")
					}
					continue
				}
			}
			// a stack built locally: every Push argument must be deeply fresh
			if fresh, why := c.freshValue(v, 0); fresh {
				bad := ""
				n := 0
				instrsOf(cp, func(in ssa.Instruction) {
					call, ok := in.(*ssa.Call)
					if !ok || len(call.Call.Args) < 2 || call.Call.Args[0] != v {
						return
					}
					if sc := call.Call.StaticCallee(); sc != nil && strings.HasPrefix(sc.Name(), "Push") {
						n++
						if len(elemLeaves) > 0 {
							if ok, w := c.deepFresh(call.Call.Args[1], 0); !ok {
								bad = "a pushed element is not a deep copy: " + w
							}
						}
					}
				})
				if bad != "" {
					ob.Bad(bad)
				} else {
					ob.OKnt(fmt.Sprintf("fresh stack filled by %d Push call(s) with deep copies of the elements", n))
				}
				continue
			} else {
				ob.Bad("not a fresh object: " + why)
				continue
			}
		}
		// struct-with-references fields (ValueHashMap)
		leaves := refLeaves(f.Type(), map[string]bool{})
		if fresh, why := c.deepFresh(v, 0); fresh {
			ob.OKnt("deep copy: " + exprStr(v))
		} else {
			key := "SearchEngineState." + f.Name()
			var sharedMut []string
			if w, isM := M[key]; isM {
				sharedMut = append(sharedMut, key+" ("+w+")")
			}
			for _, lf := range leaves {
				if w, isM := M[lf]; isM {
					sharedMut = append(sharedMut, lf+" ("+w+")")
				}
			}
			if len(sharedMut) == 0 {
				ob.OKnt("shared (" + why + ") but never mutated in place in package engine")
			} else {
				ob.Bad("snapshot and live state share " + why + ", which is mutated in place: " + strings.Join(sharedMut, "; ") + " — bindings made on a path that is later abandoned stay visible (`('a' = x 'b') or ('a' 'c')` on `ac` reports x)")
			}
		}
	}
	// CHECKPOINT pushes a Copy, BACKTRACK restores by Set(pop)
	ck := c.Method("engine", "SearchEngineState", "CHECKPOINT")
	ob := r.Ob(rule, "CHECKPOINT saves a Copy of the state", "")
	if ck == nil {
		ob.Und("CHECKPOINT not found")
	} else {
		ob.Pos = c.pos(ck.Pos())
		okc := false
		instrsOf(ck, func(in ssa.Instruction) {
			if call, ok := in.(*ssa.Call); ok {
				if sc := call.Call.StaticCallee(); sc != nil && strings.HasPrefix(sc.Name(), "Push") && len(call.Call.Args) == 2 {
					s := exprStr(call.Call.Args[1])
					if s == "es.Copy()" {
						okc = true
					}
				}
			}
		})
		ob.Check(okc, "es.backtrack.Push(*es.Copy())", "CHECKPOINT does not push a copy made by Copy(): the choice point aliases the live state")
		ob.Nontrivial = true
	}
}

// ruleBindingProvenance implements C02.R2.
func ruleBindingProvenance(c *Ctx, rule string) {
	defer withForwarders()()
	r := c.R
	find := func(name string) *ssa.Function { return c.Method("engine", "SearchEngineState", name) }
	// STARTVAR records len(currentMatch)
	if fn := find("STARTVAR"); fn == nil {
		r.Ob(rule, "STARTVAR", "").Und("not found")
	} else {
		ob := r.Ob(rule, "STARTVAR records the current match length as the capture's start", c.pos(fn.Pos()))
		okS := false
		got := ""
		instrsOf(fn, func(in ssa.Instruction) {
			if st, ok := in.(*ssa.Store); ok {
				if fa, ok := st.Addr.(*ssa.FieldAddr); ok && fieldName(deref(fa.X.Type()), fa.Field) == "startOffset" {
					got = exprStr(st.Val)
					if got == "len(es.currentMatch)" {
						okS = true
					}
				}
			}
		})
		ob.Check(okS, "startOffset = len(es.currentMatch)", "startOffset is set from "+got+", expected len(es.currentMatch)")
		ob.Nontrivial = true
	}
	// ENDVAR inserts currentMatch[startOffset:] on every normal path
	if fn := find("ENDVAR"); fn == nil {
		r.Ob(rule, "ENDVAR", "").Und("not found")
	} else {
		ins := find("INSERTVARIABLE")
		ob := r.Ob(rule, "ENDVAR binds the name to the suffix of the match on every path", c.pos(fn.Pos()))
		var call *ssa.Call
		instrsOf(fn, func(in ssa.Instruction) {
			if cl, ok := in.(*ssa.Call); ok && cl.Call.StaticCallee() == ins && ins != nil {
				call = cl
			}
		})
		if call == nil {
			ob.Bad("ENDVAR never calls INSERTVARIABLE")
		} else {
			// every Return must be dominated by the call (paths that end in panic are exempt)
			allDom := true
			instrsOf(fn, func(in ssa.Instruction) {
				if ret, ok := in.(*ssa.Return); ok && !instrDominates(call, ret) {
					allDom = false
				}
			})
			val := exprStr(call.Call.Args[2])
			name := exprStr(call.Call.Args[1])
			wantVal := "NewValueString(es.currentMatch[es.variableStack.Pop().startOffset:])"
			switch {
			case !allDom:
				ob.Bad("some path through ENDVAR returns without binding the variable: a completed `= name` capture (for instance an empty one) does not replace the earlier value")
			case val != wantVal:
				ob.Bad("the bound value is " + val + ", expected " + wantVal)
			case name != "name":
				ob.Bad("the binding is made under " + name + ", expected the instruction's name")
			default:
				ob.OKnt("INSERTVARIABLE(name, " + val + ") dominates every return")
			}
		}
	}
	// MATCHVAR compares against the bound text unchanged
	if fn := find("MATCHVAR"); fn == nil {
		r.Ob(rule, "MATCHVAR", "").Und("not found")
	} else {
		m := find("MATCH")
		ob := r.Ob(rule, "MATCHVAR matches exactly the text bound to the name", c.pos(fn.Pos()))
		got := ""
		instrsOf(fn, func(in ssa.Instruction) {
			if cl, ok := in.(*ssa.Call); ok && cl.Call.StaticCallee() == m && m != nil {
				var as []string
				for _, a := range cl.Call.Args[1:] {
					as = append(as, exprStr(a))
				}
				got = strings.Join(as, ", ")
			}
		})
		want := "es.environment.Get(name)#0.String().Value, false, false"
		// the bound value is looked up by name - in the environment, or by a method of the state that knows the tables a capture
		// may have gone to (which tables: C02.R12) - and matched as it is, not negated, case as bound
		okForm := got == want
		if m2 := regexp.MustCompile(`^es\.[A-Za-z_]+\(name\)#0\.String\(\)\.Value, false, false$`); m2.MatchString(got) {
			okForm = true
		}
		ob.Check(okForm, "MATCH("+got+")", "MATCHVAR calls MATCH("+got+"), expected MATCH("+want+") or the same through a lookup method of the state")
		ob.Nontrivial = true
	}
}

// ruleHandlersOwnCopy implements C02.R3 (axiom A4).
func ruleHandlersOwnCopy(c *Ctx, rule string) {
	r := c.R
	mi := c.Fn("engine", "matchInstruction")
	cp := c.Method("engine", "SearchEngineState", "Copy")
	if mi == nil || cp == nil {
		r.Ob(rule, "anchor engine.matchInstruction / Copy", "").Und("not found")
		return
	}
	mut := c.mutatingMethods()
	var handlers []*ssa.Function
	instrsOf(mi, func(in ssa.Instruction) {
		if sc := staticCallee(in); sc != nil && c.isRepoFn(sc) && sc.Pkg == mi.Pkg && len(sc.Params) == 2 {
			handlers = append(handlers, sc)
		}
	})
	r.Floor(rule, "instruction handlers called by matchInstruction", len(handlers), 10)
	stT := c.NamedType("engine", "SearchEngineState")
	isStatePtr := func(t types.Type) bool {
		p, ok := t.(*types.Pointer)
		return ok && stT != nil && types.Identical(p.Elem(), stT)
	}
	// ownCopy examines how fn treats the state it receives as parameter cur: it may read it, Copy it, or hand it to a helper that is
	// held to the same rule; what it returns must be such a copy.
	var ownCopy func(fn *ssa.Function, cur *ssa.Parameter, depth int) []string
	ownCopy = func(fn *ssa.Function, cur *ssa.Parameter, depth int) []string {
		var bad []string
		copies := map[ssa.Value]bool{}
		instrsOf(fn, func(in ssa.Instruction) {
			switch x := in.(type) {
			case *ssa.Store:
				if traceAddr(x.Addr).Root == ssa.Value(cur) {
					bad = append(bad, "stores through the incoming state ["+c.pos(x.Pos())+"]")
				}
			case *ssa.MapUpdate:
				if traceAddr(x.Map).Root == ssa.Value(cur) {
					bad = append(bad, "updates a map of the incoming state ["+c.pos(x.Pos())+"]")
				}
			case *ssa.Call:
				sc := x.Call.StaticCallee()
				if sc == cp && len(x.Call.Args) == 1 && (x.Call.Args[0] == ssa.Value(cur) || spilledParam(x.Call.Args[0]) == cur) {
					copies[x] = true
					return
				}
				if sc != nil && len(x.Call.Args) > 0 && traceAddr(x.Call.Args[0]).Root == ssa.Value(cur) {
					if why, isMut := mut[sc]; isMut {
						bad = append(bad, fmt.Sprintf("calls %s on the incoming state, which %s", sc.Name(), why))
						return
					}
				}
				// handed to a helper of the package that returns a state: the helper's result counts as the copy if the helper obeys the rule
				if sc != nil && c.isRepoFn(sc) && sc.Pkg == fn.Pkg && sc.Signature.Recv() == nil && depth < 2 && sc.Signature.Results().Len() == 1 && isStatePtr(sc.Signature.Results().At(0).Type()) {
					for i, a := range x.Call.Args {
						if a == ssa.Value(cur) && i < len(sc.Params) {
							if sub := ownCopy(sc, sc.Params[i], depth+1); len(sub) == 0 {
								copies[x] = true
							} else {
								bad = append(bad, "hands the incoming state to "+sc.Name()+", which "+strings.Join(uniq(sub), "; "))
							}
						}
					}
				}
			}
		})
		if len(copies) == 0 {
			bad = append(bad, "never takes current_state.Copy()")
		} else {
			var isCopy func(v ssa.Value, d int) bool
			isCopy = func(v ssa.Value, d int) bool {
				if copies[v] {
					return true
				}
				if p, ok := v.(*ssa.Phi); ok && d < 4 {
					for _, e := range p.Edges {
						if !isCopy(e, d+1) {
							return false
						}
					}
					return len(p.Edges) > 0
				}
				// the variable that holds the copy lives in memory because a closure of the handler captures it
				if u, ok := v.(*ssa.UnOp); ok && u.Op == token.MUL && d < 4 {
					if a, ok := u.X.(*ssa.Alloc); ok {
						n := 0
						for _, ref := range *a.Referrers() {
							if st, ok := ref.(*ssa.Store); ok && st.Addr == ssa.Value(a) {
								if !isCopy(st.Val, d+1) {
									return false
								}
								n++
							}
						}
						return n > 0
					}
				}
				return false
			}
			instrsOf(fn, func(in ssa.Instruction) {
				if ret, ok := in.(*ssa.Return); ok && len(ret.Results) == 1 && !isCopy(ret.Results[0], 0) {
					bad = append(bad, "returns "+exprStr(ret.Results[0])+" instead of the copy")
				}
			})
		}
		return bad
	}
	for _, h := range handlers {
		ob := r.Ob(rule, fnName(h)+" works on its own copy of the state", c.pos(h.Pos()))
		bad := ownCopy(h, h.Params[1], 0)
		if len(bad) == 0 {
			ob.OKnt("no store or mutating call on the incoming state; returns current_state.Copy() (possibly made by a helper held to the same rule)")
		} else {
			ob.Bad(strings.Join(uniq(bad), "; ") + " — the state saved by an earlier CHECKPOINT or held by the caller is modified behind its back")
		}
	}
}

// ruleValueCopyDeep implements C02.R5: the Copy of a table of values copies the values too. A table holds nested tables (the
// per-iteration scopes of a named loop) that are updated in place, so a one-level copy leaves snapshot and live state sharing them.
func ruleValueCopyDeep(c *Ctx, rule string) {
	r := c.R
	n := 0
	for _, fn := range c.SrcFuncs("engine") {
		if fn.Name() != "Copy" || fn.Signature.Recv() == nil || len(fn.Params) == 0 {
			continue
		}
		rt, ok := deref(fn.Signature.Recv().Type()).Underlying().(*types.Struct)
		if !ok {
			continue
		}
		// receivers that hold a map or slice whose elements can themselves hold references
		holds := false
		for i := 0; i < rt.NumFields(); i++ {
			switch u := rt.Field(i).Type().Underlying().(type) {
			case *types.Map:
				if types.IsInterface(u.Elem()) || hasRefField(u.Elem()) || isRefType(u.Elem()) {
					holds = true
				}
			case *types.Slice:
				if types.IsInterface(u.Elem()) || hasRefField(u.Elem()) || isRefType(u.Elem()) {
					holds = true
				}
			}
		}
		if !holds {
			continue
		}
		// only tables of values (element type is an interface of this package with a Copy method)
		n++
		ob := r.Ob(rule, fnName(fn)+": every element of the copy is itself a copy", c.pos(fn.Pos()))
		recv := fn.Params[0]
		var bad []string
		inserted := 0
		isElemCopy := func(v ssa.Value) bool {
			call, ok := v.(*ssa.Call)
			if !ok {
				return false
			}
			if call.Call.IsInvoke() {
				return call.Call.Method.Name() == "Copy"
			}
			if sc := call.Call.StaticCallee(); sc != nil {
				if strings.HasPrefix(sc.Name(), "Copy") {
					return true
				}
				f, _ := c.deepFresh(v, 0)
				return f
			}
			return false
		}
		derivesFromRecv := func(v ssa.Value) bool {
			seen := map[ssa.Value]bool{}
			var w func(v ssa.Value, d int) bool
			w = func(v ssa.Value, d int) bool {
				if v == ssa.Value(recv) {
					return true
				}
				// the parameters of a closure defined here receive what the receiver's iteration helper hands them
				if p, ok := v.(*ssa.Parameter); ok && p.Parent() != fn && p.Parent().Parent() == fn {
					return true
				}
				if d > 8 || seen[v] {
					return false
				}
				seen[v] = true
				if a, ok := v.(*ssa.Alloc); ok {
					// a spilled value receiver
					for _, ref := range *a.Referrers() {
						if st, ok := ref.(*ssa.Store); ok && st.Addr == ssa.Value(a) && st.Val == ssa.Value(recv) {
							return true
						}
					}
				}
				if in, ok := v.(ssa.Instruction); ok {
					for _, op := range in.Operands(nil) {
						if *op != nil && w(*op, d+1) {
							return true
						}
					}
				}
				return false
			}
			return w(v, 0)
		}
		// isRecvStorage: the map/table being written is the receiver's own (reached from the receiver by loads and field selection)
		isRecvStorage := func(v ssa.Value) bool {
			root := traceAddr(v).Root
			if root == ssa.Value(recv) {
				return true
			}
			if a, ok := root.(*ssa.Alloc); ok {
				for _, ref := range *a.Referrers() {
					if st, ok := ref.(*ssa.Store); ok && st.Addr == ssa.Value(a) && st.Val == ssa.Value(recv) {
						return true
					}
				}
			}
			return false
		}
		scanWithClosures := func(f *ssa.Function, visit func(ssa.Instruction)) {
			instrsOf(f, visit)
			for _, af := range f.AnonFuncs {
				instrsOf(af, visit)
			}
		}
		scanWithClosures(fn, func(in ssa.Instruction) {
			switch x := in.(type) {
			case *ssa.MapUpdate:
				if isRecvStorage(x.Map) {
					return // writes into the receiver are not part of building the copy
				}
				inserted++
				if derivesFromRecv(x.Value) && !isElemCopy(x.Value) {
					bad = append(bad, "map element <- "+exprStr(x.Value)+" ["+c.pos(x.Pos())+"]")
				}
			case *ssa.Call:
				sc := x.Call.StaticCallee()
				if sc == nil || sc.Signature.Recv() == nil || (sc.Name() != "Add" && sc.Name() != "Push" && sc.Name() != "Set") || len(x.Call.Args) < 2 {
					return
				}
				if isRecvStorage(x.Call.Args[0]) {
					return
				}
				inserted++
				val := x.Call.Args[len(x.Call.Args)-1]
				if derivesFromRecv(val) && !isElemCopy(val) {
					bad = append(bad, sc.Name()+"(..., "+exprStr(val)+") ["+c.pos(x.Pos())+"]")
				}
			}
		})
		switch {
		case len(bad) > 0:
			ob.Bad("the copy takes over elements of the receiver as they are: " + strings.Join(bad, "; ") + " — nested tables are then shared between a checkpoint and the live state, and a binding made on an abandoned path stays visible")
		case inserted == 0:
			ob.Und("no element insertion into the copy was found")
		default:
			ob.OKnt(fmt.Sprintf("%d insertion(s), each of an element's own Copy()", inserted))
		}
	}
	r.Floor(rule, "Copy methods of value tables", n, 1)
}

// ruleBoundTextIsConsumedText extends C02.R2: whatever is bound to a name is a slice of the text the attempt has consumed, or the
// variable table of a finished named loop - never text taken from the pattern.
func ruleBoundTextIsConsumedText(c *Ctx, rule string) {
	defer withForwarders()()
	r := c.R
	ins := c.stateMethod("INSERTVARIABLE")
	if ins == nil {
		r.Ob(rule, "anchor INSERTVARIABLE", "").Und("not found")
		return
	}
	n := 0
	for _, fn := range c.SrcFuncs("engine") {
		if fn == ins {
			continue
		}
		k := 0
		for _, call := range callsTo(fn, ins) {
			if len(call.Call.Args) < 3 {
				continue
			}
			n++
			k++
			ob := r.Ob(rule, fmt.Sprintf("%s: binding #%d binds consumed text", fnName(fn), k), c.pos(call.Pos()))
			v := call.Call.Args[2]
			if mi, ok := v.(*ssa.MakeInterface); ok {
				v = mi.X
			}
			s := exprStr(v)
			switch {
			case strings.Contains(s, ".currentMatch["):
				ob.OKnt("the bound value is " + s + ": a slice of the text consumed so far")
			case strings.HasSuffix(s, ".variables"):
				ob.OKnt("the bound value is the variable table of the loop that just finished")
			default:
				ob.Bad("the bound value is " + s + ", which is not a slice of currentMatch: the variable reports text that was not matched (for instance the pattern's spelling of a caseless literal)")
			}
		}
	}
	r.Floor(rule, "call sites of INSERTVARIABLE", n, 2)
}

// spilledParam: v is a load of the local that a parameter was spilled to (because a closure of the function captures it); the
// parameter, or nil.
func spilledParam(v ssa.Value) *ssa.Parameter {
	u, ok := v.(*ssa.UnOp)
	if !ok || u.Op != token.MUL {
		return nil
	}
	a, ok := u.X.(*ssa.Alloc)
	if !ok {
		return nil
	}
	var p *ssa.Parameter
	n := 0
	for _, ref := range *a.Referrers() {
		if st, ok := ref.(*ssa.Store); ok && st.Addr == ssa.Value(a) {
			n++
			p, _ = st.Val.(*ssa.Parameter)
		}
	}
	if n == 1 {
		return p
	}
	return nil
}
