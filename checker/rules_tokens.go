package main

// C08.R5: no token index passes the end-of-input token. A typestate over the token parser with function summaries: an index is
// "in bounds" or "may be len(tokens)". The only sources of the second state are loop counters whose loop can run up to len(tokens)
// without first stopping at the EOF token (the token list always ends in EOF, axiom A1); the state travels through returns and
// merges; it is an error to index tokens with such a value, or to hand it to a function that does, without a dominating bound test.

import (
	"fmt"
	"go/constant"
	"go/token"
	"go/types"
	"path/filepath"
	"sort"
	"strings"

	"golang.org/x/tools/go/ssa"
)

type tkFn struct {
	fn      *ssa.Function
	tokens  *ssa.Parameter
	index   *ssa.Parameter
	retIdx  int
	retPE   bool
	needsIB bool
}

func ruleTokenIndexInBounds(c *Ctx, rule string) {
	r := c.R
	eof := c.constByName("ast", "EOF")
	tokT := c.NamedType("ast", "TokenType")
	if eof == nil || tokT == nil {
		r.Ob(rule, "anchor ast.EOF / TokenType", "").Und("not found")
		return
	}
	sk := &skAnalysis{c: c}
	fns := map[*ssa.Function]*tkFn{}
	exempt := map[*ssa.Function]bool{}
	if pratt := c.Fn("ast", "parse_expr_pratt"); pratt != nil {
		exempt[pratt] = true // works on the filtered expression slice; its own index guards are C08.R4
		if root := c.Fn("ast", "ParseReader"); root != nil {
			for f := range c.Reachable(pratt) {
				if f != pratt && c.isRepoFn(f) && f.Pkg == pratt.Pkg && c.onlyThrough([]*ssa.Function{root}, pratt, f) {
					exempt[f] = true
				}
			}
		}
	}
	for _, fn := range c.SrcFuncs("ast") {
		if filepath.Base(c.Fset.Position(fn.Pos()).Filename) != "parser.go" || exempt[fn] {
			continue
		}
		f := &tkFn{fn: fn, retIdx: -1}
		for _, p := range fn.Params {
			if f.tokens == nil && sk.isTokenSlice(p.Type()) {
				f.tokens = p
			} else if f.tokens != nil && f.index == nil && types.Identical(p.Type(), types.Typ[types.Int]) {
				f.index = p
			}
		}
		if f.tokens == nil {
			continue
		}
		res := fn.Signature.Results()
		for i := 0; i < res.Len(); i++ {
			if types.Identical(res.At(i).Type(), types.Typ[types.Int]) {
				f.retIdx = i
			}
		}
		fns[fn] = f
	}
	var order []*tkFn
	for _, f := range fns {
		order = append(order, f)
	}
	sort.Slice(order, func(i, j int) bool { return order[i].fn.Pos() < order[j].fn.Pos() })

	// predicate helpers folded on the EOF kind: pred(EOF) == true
	eofTrue := map[*ssa.Function]bool{}
	predKnown := map[*ssa.Function]bool{}
	isEOFPred := func(g *ssa.Function) bool {
		if g == nil || !c.isRepoFn(g) || len(g.Params) != 1 || !types.Identical(g.Params[0].Type(), tokT) {
			return false
		}
		if predKnown[g] {
			return eofTrue[g]
		}
		predKnown[g] = true
		pe := &PEval{Interpret: c.repoInterp}
		res := pe.Run(g, []PVal{PConst{eof.Val(), tokT}})
		if res.Err == "" && len(res.Results) == 1 {
			if k, ok := res.Results[0].(PConst); ok && k.V != nil && k.V.Kind() == constant.Bool && constant.BoolVal(k.V) {
				eofTrue[g] = true
			}
		}
		return eofTrue[g]
	}
	isLenTokens := func(v ssa.Value, f *tkFn) bool {
		call, ok := v.(*ssa.Call)
		if !ok {
			return false
		}
		b, ok := call.Call.Value.(*ssa.Builtin)
		return ok && b.Name() == "len" && len(call.Call.Args) == 1 && call.Call.Args[0] == ssa.Value(f.tokens)
	}
	// bound comparison: v (possibly +const) compared with len(tokens) (+const). Returns the slack k such that the true/false edge
	// establishes v <= len(tokens)-1+... ; we only need: does `cond` on edge `pol` establish v < len(tokens)?
	establishesInBounds := func(cond ssa.Value, pol bool, v ssa.Value, f *tkFn) bool {
		b, ok := cond.(*ssa.BinOp)
		if !ok {
			return false
		}
		// normalise to  L op R
		lt, lk := linearOver(b.X)
		rt, rk := linearOver(b.Y)
		var lenTerm ssa.Value
		side := 0 // 1: v on the left, len on the right; -1: the reverse
		if len(lt) == 1 && lt[v] == 1 {
			for t, cf := range rt {
				if cf == 1 && isLenTokens(t, f) && len(rt) == 1 {
					lenTerm, side = t, 1
				}
			}
		}
		if len(rt) == 1 && rt[v] == 1 {
			for t, cf := range lt {
				if cf == 1 && isLenTokens(t, f) && len(lt) == 1 {
					lenTerm, side = t, -1
				}
			}
		}
		if lenTerm == nil {
			return false
		}
		// v + lk  op  len + rk   (side 1)   or   len + lk  op  v + rk  (side -1)
		op := b.Op
		if !pol {
			op = map[token.Token]token.Token{token.LSS: token.GEQ, token.GEQ: token.LSS, token.GTR: token.LEQ, token.LEQ: token.GTR, token.EQL: token.NEQ, token.NEQ: token.EQL}[op]
		}
		var d int64 // v - len <= ? derived
		switch {
		case side == 1 && op == token.LSS: // v + lk < len + rk  =>  v <= len + rk - lk - 1
			d = rk - lk - 1
		case side == 1 && op == token.LEQ:
			d = rk - lk
		case side == -1 && op == token.GTR: // len + lk > v + rk => v <= len + lk - rk - 1
			d = lk - rk - 1
		case side == -1 && op == token.GEQ:
			d = lk - rk
		default:
			return false
		}
		return d <= -1
	}
	guarded := func(f *tkFn, v ssa.Value, at *ssa.BasicBlock) bool {
		for _, l := range domConds(f.fn, at) {
			if establishesInBounds(l.Cond, l.Pol, v, f) {
				return true
			}
		}
		return false
	}
	kindOfIndex := func(v ssa.Value, f *tkFn) ssa.Value {
		// v is tokens[i].TokenType: returns i
		u, ok := v.(*ssa.UnOp)
		if !ok {
			return nil
		}
		fa, ok := u.X.(*ssa.FieldAddr)
		if !ok || fieldName(deref(fa.X.Type()), fa.Field) != "TokenType" {
			return nil
		}
		ld, ok := fa.X.(*ssa.UnOp)
		if !ok {
			return nil
		}
		ia, ok := ld.X.(*ssa.IndexAddr)
		if !ok || ia.X != ssa.Value(f.tokens) {
			return nil
		}
		return ia.Index
	}

	// evaluate one function: PE values, sink violations, return state
	type violation struct {
		at  ssa.Instruction
		why string
	}
	eval := func(f *tkFn) (viol []violation, retPE bool, needsIB bool) {
		fn := f.fn
		pe := map[ssa.Value]bool{}
		// sources: loop counters that can reach len(tokens)
		for _, comp := range sccs(fn, func(a, b *ssa.BasicBlock) bool { return true }) {
			in := map[*ssa.BasicBlock]bool{}
			for _, b := range comp {
				in[b] = true
			}
			if len(comp) == 1 {
				self := false
				for _, s := range comp[0].Succs {
					if s == comp[0] {
						self = true
					}
				}
				if !self {
					continue
				}
			}
			for _, b := range comp {
				iff, ok := b.Instrs[len(b.Instrs)-1].(*ssa.If)
				if !ok {
					continue
				}
				exitOnFalse := in[b.Succs[0]] && !in[b.Succs[1]]
				if !exitOnFalse {
					continue
				}
				bo, ok := iff.Cond.(*ssa.BinOp)
				if !ok || bo.Op != token.LSS {
					continue
				}
				phi, ok := bo.X.(*ssa.Phi)
				if !ok || !in[phi.Block()] {
					continue
				}
				rt, rk := linearOver(bo.Y)
				isLen := false
				for t, cf := range rt {
					if cf == 1 && isLenTokens(t, f) && len(rt) == 1 {
						isLen = true
					}
				}
				if !isLen || rk < 0 {
					continue // bounded by len(tokens)-1 or less: stops at the EOF token at the latest
				}
				// does the loop stop on the EOF token before the counter can pass it? an exit of the loop whose condition is a kind
				// test of tokens[phi] that is true for EOF
				stops := false
				for _, b2 := range comp {
					i2, ok := b2.Instrs[len(b2.Instrs)-1].(*ssa.If)
					if !ok {
						continue
					}
					var exitEdgeTrue bool
					switch {
					case !in[b2.Succs[0]]:
						exitEdgeTrue = true
					case !in[b2.Succs[1]]:
						exitEdgeTrue = false
					default:
						continue
					}
					cv, pol := i2.Cond, exitEdgeTrue
					if u, ok := cv.(*ssa.UnOp); ok && u.Op == token.NOT {
						cv, pol = u.X, !pol
					}
					switch x := cv.(type) {
					case *ssa.Call:
						if g := x.Call.StaticCallee(); g != nil && len(x.Call.Args) == 1 && kindOfIndex(x.Call.Args[0], f) == ssa.Value(phi) && isEOFPred(g) && pol {
							stops = true
						}
					case *ssa.BinOp:
						if k, ok := x.Y.(*ssa.Const); ok && k.Value != nil && types.Identical(k.Type(), tokT) && kindOfIndex(x.X, f) == ssa.Value(phi) {
							isE := constant.Compare(k.Value, token.EQL, eof.Val())
							if (x.Op == token.EQL && isE && pol) || (x.Op == token.NEQ && isE && !pol) {
								stops = true
							}
						}
					}
				}
				if !stops {
					pe[phi] = true
				}
			}
		}
		// propagate through calls and merges
		for changed := true; changed; {
			changed = false
			instrsOf(fn, func(in ssa.Instruction) {
				v, ok := in.(ssa.Value)
				if !ok || pe[v] {
					return
				}
				switch x := v.(type) {
				case *ssa.Extract:
					if call, ok := x.Tuple.(*ssa.Call); ok {
						if g := fns[call.Call.StaticCallee()]; g != nil && g.retPE && x.Index == g.retIdx {
							pe[v] = true
							changed = true
						}
					}
				case *ssa.Phi:
					for _, e := range x.Edges {
						if pe[e] {
							pe[v] = true
							changed = true
						}
					}
				}
			})
		}
		// sinks
		var paramVals = map[ssa.Value]bool{}
		if f.index != nil {
			paramVals[f.index] = true
			for changed := true; changed; {
				changed = false
				instrsOf(fn, func(in ssa.Instruction) {
					if p, ok := in.(*ssa.Phi); ok && !paramVals[p] {
						for _, e := range p.Edges {
							if paramVals[e] {
								paramVals[p] = true
								changed = true
							}
						}
					}
				})
			}
		}
		instrsOf(fn, func(in ssa.Instruction) {
			switch x := in.(type) {
			case *ssa.IndexAddr:
				if x.X != ssa.Value(f.tokens) {
					return
				}
				if pe[x.Index] && !guarded(f, x.Index, x.Block()) {
					viol = append(viol, violation{in, "tokens[" + exprStr(x.Index) + "]"})
				}
				if paramVals[x.Index] && !guarded(f, x.Index, x.Block()) {
					needsIB = true
				}
			case *ssa.Call:
				g := fns[x.Call.StaticCallee()]
				if g == nil || g.index == nil {
					return
				}
				for i, p := range x.Call.StaticCallee().Params {
					if p != g.index || i >= len(x.Call.Args) {
						continue
					}
					a := x.Call.Args[i]
					if g.needsIB && pe[a] && !guarded(f, a, x.Block()) {
						viol = append(viol, violation{in, g.fn.Name() + "(tokens, " + exprStr(a) + ")"})
					}
					if g.needsIB && paramVals[a] && !guarded(f, a, x.Block()) {
						needsIB = true
					}
				}
			case *ssa.Return:
				if f.retIdx >= 0 && f.retIdx < len(x.Results) {
					last := x.Results[len(x.Results)-1]
					failure := false
					if types.Identical(last.Type(), types.Universe.Lookup("error").Type()) {
						if _, constructed := last.(*ssa.MakeInterface); constructed || provenNonNil(last, x) {
							failure = true
						}
					}
					if !failure && pe[x.Results[f.retIdx]] && !guarded(f, x.Results[f.retIdx], x.Block()) {
						retPE = true
					}
				}
			}
		})
		return
	}
	// fixpoint over the summaries (both only grow)
	for iter := 0; iter < 30; iter++ {
		changed := false
		for _, f := range order {
			_, rp, nb := eval(f)
			if rp && !f.retPE {
				f.retPE, changed = true, true
			}
			if nb && !f.needsIB {
				f.needsIB, changed = true, true
			}
		}
		if !changed {
			break
		}
	}
	nfn, nidx := 0, 0
	summ := map[string]string{}
	for _, f := range order {
		viol, _, _ := eval(f)
		nfn++
		instrsOf(f.fn, func(in ssa.Instruction) {
			if ia, ok := in.(*ssa.IndexAddr); ok && ia.X == ssa.Value(f.tokens) {
				nidx++
			}
		})
		summ[f.fn.Name()] = fmt.Sprintf("may-return-past-EOF=%t indexes-its-parameter=%t", f.retPE, f.needsIB)
		ob := r.Ob(rule, fnName(f.fn)+": no token index can be len(tokens)", c.pos(f.fn.Pos()))
		if len(viol) == 0 {
			ob.OKnt("every index that may equal len(tokens) is tested against it before it is used")
			continue
		}
		var parts []string
		for _, v := range viol {
			parts = append(parts, v.why+" ["+c.pos(v.at.Pos())+"]")
		}
		ob.Pos = c.pos(viol[0].at.Pos())
		ob.Bad("an index that can be len(tokens) (a scan that may run past the EOF token without stopping on it, or the index such a scan returned) is used without a bound test: " + strings.Join(uniq(parts), "; ") + " - some source text makes Compile panic with index out of range")
	}
	r.Tables["token_index_summaries"] = summ
	r.Floor(rule, "parser functions over the token list", nfn, 20)
	r.Floor(rule, "indexings of the token list", nidx, 60)
}
