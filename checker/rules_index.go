package main

// C08.R4: index safety of the parsers that work without a sentinel (the regex sub-parser indexing the pattern string,
// parse_expr_pratt indexing the filtered token slice). GUARD family: dominance of `e < len(s)`.

import (
	"fmt"
	"go/token"
	"go/types"
	"path/filepath"
	"sort"
	"strings"

	"golang.org/x/tools/go/ssa"
)

type normIdx struct {
	base ssa.Value
	off  int64
}

func normalise(v ssa.Value) normIdx {
	if b, ok := v.(*ssa.BinOp); ok {
		if k, ok := constInt(b.Y); ok {
			if b.Op == token.ADD {
				n := normalise(b.X)
				return normIdx{n.base, n.off + k}
			}
			if b.Op == token.SUB {
				n := normalise(b.X)
				return normIdx{n.base, n.off - k}
			}
		}
		if k, ok := constInt(b.X); ok && b.Op == token.ADD {
			n := normalise(b.Y)
			return normIdx{n.base, n.off + k}
		}
	}
	return normIdx{v, 0}
}

func isLenOf(v ssa.Value, coll ssa.Value) bool {
	call, ok := v.(*ssa.Call)
	if !ok {
		return false
	}
	b, ok := call.Call.Value.(*ssa.Builtin)
	return ok && b.Name() == "len" && len(call.Call.Args) == 1 && call.Call.Args[0] == coll
}

// guardedBy reports whether `idx < len(coll)` holds at instruction `at` because of a dominating branch.
func guardedBy(fn *ssa.Function, coll ssa.Value, idx normIdx, at ssa.Instruction) bool {
	found := false
	for _, b := range fn.Blocks {
		if len(b.Instrs) == 0 {
			continue
		}
		iff, ok := b.Instrs[len(b.Instrs)-1].(*ssa.If)
		if !ok {
			continue
		}
		bo, ok := iff.Cond.(*ssa.BinOp)
		if !ok {
			continue
		}
		var x ssa.Value
		op := bo.Op
		if isLenOf(bo.Y, coll) {
			x = bo.X
		} else if isLenOf(bo.X, coll) {
			x = bo.Y
			switch op {
			case token.LSS:
				op = token.GTR
			case token.GTR:
				op = token.LSS
			case token.LEQ:
				op = token.GEQ
			case token.GEQ:
				op = token.LEQ
			}
		} else {
			continue
		}
		g := normalise(x)
		var okSucc *ssa.BasicBlock
		extra := int64(0)
		switch op {
		case token.LSS: // x < len on the true edge
			okSucc = b.Succs[0]
		case token.GEQ: // x >= len: false edge
			okSucc = b.Succs[1]
		case token.LEQ: // x <= len true edge gives x-1 < len only
			okSucc, extra = b.Succs[0], -1
		case token.GTR: // x > len false edge gives x <= len
			okSucc, extra = b.Succs[1], -1
		case token.NEQ: // x != len (false edge gives x == len: nothing); not a bound
			continue
		case token.EQL:
			continue
		}
		if okSucc == nil || g.base != idx.base {
			continue
		}
		if idx.off < 0 || idx.off > g.off+extra {
			continue
		}
		// the success edge must dominate the use: okSucc has this block as its only predecessor, or the use is in okSucc's dominance region
		if len(okSucc.Preds) != 1 {
			continue
		}
		if okSucc == at.Block() || okSucc.Dominates(at.Block()) {
			found = true
		}
	}
	return found
}

// accessedBefore: an access coll[base+off'] with off' >= idx.off dominates `at`: if that access did not panic this one cannot.
func accessedBefore(sites []indexSite, coll ssa.Value, idx normIdx, at ssa.Instruction) bool {
	for _, s := range sites {
		if s.in == at || s.coll != coll {
			continue
		}
		n := normalise(s.idx)
		if n.base == idx.base && n.off >= idx.off && idx.off >= 0 && instrDominates(s.in, at) {
			return true
		}
	}
	return false
}

type indexSite struct {
	fn   *ssa.Function
	in   ssa.Instruction
	coll ssa.Value
	idx  ssa.Value
}

func indexSites(fn *ssa.Function) []indexSite {
	var out []indexSite
	instrsOf(fn, func(in ssa.Instruction) {
		switch x := in.(type) {
		case *ssa.Lookup:
			if b, ok := x.X.Type().Underlying().(*types.Basic); ok && b.Info()&types.IsString != 0 {
				out = append(out, indexSite{fn, in, x.X, x.Index})
			}
		case *ssa.IndexAddr:
			if _, ok := x.X.Type().Underlying().(*types.Slice); ok {
				out = append(out, indexSite{fn, in, x.X, x.Index})
			}
		case *ssa.Index:
			out = append(out, indexSite{fn, in, x.X, x.Index})
		}
	})
	return out
}

func ruleIndexGuards(c *Ctx, rule string) {
	r := c.R
	var fns []*ssa.Function
	for _, fn := range c.SrcFuncs("ast") {
		file := filepath.Base(c.Fset.Position(fn.Pos()).Filename)
		if file == "parser_regexp.go" || fn.Name() == "parse_expr_pratt" {
			fns = append(fns, fn)
		}
	}
	r.Floor(rule, "functions of the unsentinelled parsers", len(fns), 6)
	// preconditions: function -> (collection param index, index param index) it indexes first thing without a guard
	type pre struct{ collParam, idxParam int }
	pres := map[*ssa.Function]pre{}
	paramIndex := func(fn *ssa.Function, v ssa.Value) int {
		for i, p := range fn.Params {
			if ssa.Value(p) == v {
				return i
			}
		}
		return -1
	}
	nsites := 0
	type pending struct {
		site indexSite
		ob   *Obligation
	}
	counter := map[*ssa.Function]int{}
	for _, fn := range fns {
		sites := indexSites(fn)
		for _, s := range sites {
			// the token slice of the sentinelled token parser is out of this rule's scope (C08.R5)
			if _, isSlice := s.coll.Type().Underlying().(*types.Slice); isSlice && fn.Name() != "parse_expr_pratt" {
				continue
			}
			nsites++
			counter[fn]++
			n := normalise(s.idx)
			ob := r.Ob(rule, fmt.Sprintf("%s: index #%d `%s[%s]` is within bounds", fnName(fn), counter[fn], valName(s.coll), idxName(n)), c.pos(s.in.Pos()))
			if guardedBy(fn, s.coll, n, s.in) {
				ob.OKnt("dominated by a comparison with len(" + valName(s.coll) + ") that bounds this index")
				continue
			}
			if isLenOf(n.base, s.coll) && n.off < 0 && nonEmptyBy(fn, s.coll, -n.off, s.in) {
				ob.OKnt(fmt.Sprintf("index len(%s)%d under a dominating test that the collection has at least %d element(s)", valName(s.coll), n.off, -n.off))
				continue
			}
			// range loops: index produced by the range-over-slice lowering is always in bounds
			if isRangeIndex(s.idx, s.coll) {
				ob.OKnt("index variable of a range loop over the same collection")
				continue
			}
			ci, ii := paramIndex(fn, s.coll), paramIndex(fn, n.base)
			if n.off == 0 && ci >= 0 && ii >= 0 && s.in.Block().Index == 0 {
				if _, dup := pres[fn]; !dup {
					pres[fn] = pre{ci, ii}
				}
				ob.OKnt("first act of the function on its own index parameter: the bound is the callers' obligation (checked at every call site)")
				continue
			}
			if accessedBefore(sites, s.coll, n, s.in) {
				ob.OKnt("dominated by an earlier access to the same (or a later) element of " + valName(s.coll) + ": if that access is in bounds so is this one")
				continue
			}
			// a cursor object: position and text live in fields behind a pointer, tests are made by its predicate methods and every call
			// may move the position - the dominance argument over SSA values does not apply
			if fieldThroughPointer(n.base) || fieldThroughPointer(s.coll) {
				ob.Und(fmt.Sprintf("the index %s and/or the text %s are fields of an object behind a pointer (a cursor); bounds established through its predicate methods are not followed", exprStr(n.base), exprStr(s.coll)))
				continue
			}
			ob.Bad(fmt.Sprintf("no dominating test of %s against len(%s): input that ends here indexes past the end (index out of range panic inside Compile)", idxName(n), valName(s.coll)))
		}
	}
	r.Floor(rule, "index sites in the unsentinelled parsers", nsites, 20)
	// call-site obligations for preconditions (propagated through entry-block pass-through of the bare parameters)
	var pfs []*ssa.Function
	for f := range pres {
		pfs = append(pfs, f)
	}
	sort.Slice(pfs, func(i, j int) bool { return fnName(pfs[i]) < fnName(pfs[j]) })
	done := map[*ssa.Function]bool{}
	for len(pfs) > 0 {
		callee := pfs[0]
		pfs = pfs[1:]
		if done[callee] {
			continue
		}
		done[callee] = true
		p := pres[callee]
		for _, caller := range c.SrcFuncs("ast") {
			k := 0
			instrsOf(caller, func(in ssa.Instruction) {
				call, ok := in.(*ssa.Call)
				if !ok || call.Call.StaticCallee() != callee {
					return
				}
				k++
				args := call.Call.Args
				if p.collParam >= len(args) || p.idxParam >= len(args) {
					return
				}
				coll, n := args[p.collParam], normalise(args[p.idxParam])
				ob := r.Ob(rule, fmt.Sprintf("%s: call #%d of %s passes an index below len(%s)", fnName(caller), k, callee.Name(), valName(coll)), c.pos(call.Pos()))
				if guardedBy(caller, coll, n, call) {
					ob.OKnt("the argument " + idxName(n) + " is bounded by a dominating comparison with len(" + valName(coll) + ")")
					return
				}
				if accessedBefore(indexSites(caller), coll, n, call) {
					ob.OKnt("the caller has already accessed " + valName(coll) + "[" + idxName(n) + "] (or a later element) on every path to this call")
					return
				}
				ci, ii := paramIndex(caller, coll), paramIndex(caller, n.base)
				if n.off == 0 && ci >= 0 && ii >= 0 && call.Block().Index == 0 {
					if _, has := pres[caller]; !has {
						pres[caller] = pre{ci, ii}
						pfs = append(pfs, caller)
					}
					ob.OKnt("passes its own index parameter straight through in its entry block: obligation moves to the callers of " + caller.Name())
					return
				}
				ob.Bad(fmt.Sprintf("%s indexes %s[%s] unconditionally on entry, and this call passes %s without a dominating test against len(%s)", callee.Name(), callee.Params[p.collParam].Name(), callee.Params[p.idxParam].Name(), idxName(n), valName(coll)))
			})
		}
	}
}

func valName(v ssa.Value) string {
	switch x := v.(type) {
	case *ssa.Parameter:
		return x.Name()
	case *ssa.Phi:
		if x.Comment != "" {
			return x.Comment
		}
	case *ssa.Extract:
		return fmt.Sprintf("result#%d of %s", x.Index, strings.TrimPrefix(x.Tuple.String(), "t"))
	case *ssa.Const:
		return x.Value.String()
	}
	return v.Name()
}

func idxName(n normIdx) string {
	if n.off == 0 {
		return valName(n.base)
	}
	return fmt.Sprintf("%s+%d", valName(n.base), n.off)
}

// isRangeIndex: the index is the induction variable of the lowering of `for i := range coll` (phi stepped by 1 and tested against len(coll)).
func isRangeIndex(idx ssa.Value, coll ssa.Value) bool {
	b, ok := idx.(*ssa.BinOp)
	if ok && b.Op == token.ADD {
		if k, ok := constInt(b.Y); ok && k == 1 {
			if phi, ok := b.X.(*ssa.Phi); ok {
				for _, ref := range *b.Referrers() {
					if cmp, ok := ref.(*ssa.BinOp); ok && cmp.Op == token.LSS && cmp.X == ssa.Value(b) {
						if isLenOf(cmp.Y, coll) {
							_ = phi
							return true
						}
					}
				}
			}
		}
	}
	return false
}

// nonEmptyBy: a dominating branch establishes len(coll) >= k at `at`.
func nonEmptyBy(fn *ssa.Function, coll ssa.Value, k int64, at ssa.Instruction) bool {
	for _, b := range fn.Blocks {
		if len(b.Instrs) == 0 {
			continue
		}
		iff, ok := b.Instrs[len(b.Instrs)-1].(*ssa.If)
		if !ok {
			continue
		}
		bo, ok := iff.Cond.(*ssa.BinOp)
		if !ok || !isLenOf(bo.X, coll) {
			continue
		}
		c, ok := constInt(bo.Y)
		if !ok {
			continue
		}
		var okSucc *ssa.BasicBlock
		switch bo.Op {
		case token.NEQ:
			if c == 0 && k <= 1 {
				okSucc = b.Succs[0]
			}
		case token.EQL:
			if c == 0 && k <= 1 {
				okSucc = b.Succs[1]
			}
		case token.GTR:
			if c+1 >= k {
				okSucc = b.Succs[0]
			}
		case token.GEQ:
			if c >= k {
				okSucc = b.Succs[0]
			}
		case token.LSS:
			if c >= k {
				okSucc = b.Succs[1]
			}
		case token.LEQ:
			if c+1 >= k {
				okSucc = b.Succs[1]
			}
		}
		if okSucc != nil && len(okSucc.Preds) == 1 && (okSucc == at.Block() || okSucc.Dominates(at.Block())) {
			return true
		}
	}
	return false
}

// fieldThroughPointer: v is loaded from a field of a struct reached through a pointer that is not a local allocation.
func fieldThroughPointer(v ssa.Value) bool {
	u, ok := v.(*ssa.UnOp)
	if !ok || u.Op != token.MUL {
		return false
	}
	fa, ok := u.X.(*ssa.FieldAddr)
	if !ok {
		return false
	}
	_, isAlloc := fa.X.(*ssa.Alloc)
	return !isAlloc
}
