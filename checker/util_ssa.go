package main

// SSA helpers shared by the rules: address chains ("where does this store write?"), post-dominators and
// control dependence, simple guards.

import (
	"go/constant"
	"go/token"
	"go/types"
	"strings"

	"golang.org/x/tools/go/ssa"
)

// ---------------------------------------------------------------------------------------------
// Address chains

type Step struct {
	Kind   string     // "field", "index", "deref" (a reference loaded from memory is followed), "slice"
	Struct types.Type // for "field": the struct type that declares the field
	Field  string
	Elem   types.Type // for "index": the element type
	RefVal ssa.Value  // for "index" on a slice / "deref": the reference value that is crossed
}

type Chain struct {
	Steps []Step    // from the written/read address back towards the root
	Root  ssa.Value // Alloc, Parameter, FreeVar, Global, Call, Phi, ... (whatever the walk ends in)
}

func deref(t types.Type) types.Type {
	if p, ok := t.Underlying().(*types.Pointer); ok {
		return p.Elem()
	}
	return t
}

// traceAddr walks an address (or a reference-typed value) back to its root.
func traceAddr(v ssa.Value) Chain { return traceAddrOpt(v, true) }

// traceAddrOpt: with promote, a field reached through embedded structs is reported as a field of the embedding struct (the way the
// source names it); without, every step is reported as it is laid out.
func traceAddrOpt(v ssa.Value, promote bool) Chain {
	var ch Chain
	seen := map[ssa.Value]bool{}
	for v != nil && !seen[v] {
		seen[v] = true
		switch x := v.(type) {
		case *ssa.FieldAddr:
			st := deref(x.X.Type())
			name := ""
			if s, ok := st.Underlying().(*types.Struct); ok && x.Field < s.NumFields() {
				name = s.Field(x.Field).Name()
			}
			// a field promoted from an embedded struct counts as a field of the struct that embeds it
			next := x.X
			for {
				outer, ok := next.(*ssa.FieldAddr)
				if !promote || !ok || !embeddedField(deref(outer.X.Type()), outer.Field) {
					break
				}
				st = deref(outer.X.Type())
				next = outer.X
			}
			ch.Steps = append(ch.Steps, Step{Kind: "field", Struct: st, Field: name})
			v = next
		case *ssa.Field:
			st := x.X.Type()
			name := ""
			if s, ok := st.Underlying().(*types.Struct); ok && x.Field < s.NumFields() {
				name = s.Field(x.Field).Name()
			}
			ch.Steps = append(ch.Steps, Step{Kind: "field", Struct: st, Field: name})
			v = x.X
		case *ssa.IndexAddr:
			xt := x.X.Type().Underlying()
			if sl, ok := xt.(*types.Slice); ok {
				ch.Steps = append(ch.Steps, Step{Kind: "index", Elem: sl.Elem(), RefVal: x.X})
			} else if p, ok := xt.(*types.Pointer); ok {
				if a, ok := p.Elem().Underlying().(*types.Array); ok {
					ch.Steps = append(ch.Steps, Step{Kind: "index", Elem: a.Elem()})
				}
			}
			v = x.X
		case *ssa.Index:
			v = x.X
		case *ssa.Slice:
			ch.Steps = append(ch.Steps, Step{Kind: "slice"})
			v = x.X
		case *ssa.UnOp:
			if x.Op == token.MUL {
				// a value loaded from memory; if it is a reference the chain continues into the memory it was loaded from
				ch.Steps = append(ch.Steps, Step{Kind: "deref", RefVal: x})
				v = x.X
			} else {
				ch.Root = v
				return ch
			}
		case *ssa.ChangeType:
			v = x.X
		case *ssa.Convert:
			v = x.X
		default:
			ch.Root = v
			return ch
		}
	}
	ch.Root = v
	return ch
}

// freshRef reports whether a reference-typed value is certainly freshly allocated in this function.
func freshRef(v ssa.Value, depth int) bool {
	if depth > 8 {
		return false
	}
	switch x := v.(type) {
	case *ssa.Alloc, *ssa.MakeSlice, *ssa.MakeMap, *ssa.MakeChan:
		return true
	case *ssa.Const:
		return x.IsNil()
	case *ssa.Slice:
		return freshRef(x.X, depth+1)
	case *ssa.ChangeType:
		return freshRef(x.X, depth+1)
	case *ssa.Phi:
		for _, e := range x.Edges {
			if e == v {
				continue
			}
			if !freshRefPhi(e, x, depth+1) {
				return false
			}
		}
		return true
	case *ssa.Call:
		if b, ok := x.Call.Value.(*ssa.Builtin); ok && b.Name() == "append" && len(x.Call.Args) > 0 {
			return freshRefPhi(x.Call.Args[0], nil, depth+1)
		}
	case *ssa.UnOp:
		if x.Op == token.MUL {
			// loaded from a local variable: fresh if every store into that variable is fresh
			if a, ok := x.X.(*ssa.Alloc); ok {
				n := 0
				for _, ref := range *a.Referrers() {
					if st, ok := ref.(*ssa.Store); ok && st.Addr == a {
						n++
						if !freshRef(st.Val, depth+1) {
							return false
						}
					} else if _, ok := ref.(*ssa.UnOp); ok {
						// loads are fine
					} else if _, ok := ref.(*ssa.DebugRef); ok {
					} else {
						return false // address escapes
					}
				}
				return n > 0
			}
		}
	}
	return false
}

func freshRefPhi(v ssa.Value, phi *ssa.Phi, depth int) bool {
	// append(x, ...) in a loop: x is a phi of (fresh, the append result). Accept cycles through the phi.
	if depth > 8 {
		return false
	}
	if p, ok := v.(*ssa.Phi); ok {
		for _, e := range p.Edges {
			if c, ok := e.(*ssa.Call); ok {
				if b, ok := c.Call.Value.(*ssa.Builtin); ok && b.Name() == "append" && len(c.Call.Args) > 0 && c.Call.Args[0] == p {
					continue
				}
			}
			if e == ssa.Value(phi) || e == v {
				continue
			}
			if !freshRef(e, depth+1) {
				return false
			}
		}
		return true
	}
	return freshRef(v, depth)
}

// NonLocalWrite classifies the memory an address designates. It returns local=true when the memory certainly
// belongs to an object allocated by this very function invocation (a local variable, or a slice/map/array made
// here); otherwise the memory is reachable by the caller or by other holders.
func (ch Chain) local() bool {
	// walk from the root towards the access
	switch r := ch.Root.(type) {
	case *ssa.Alloc:
		_ = r
	case *ssa.MakeSlice, *ssa.MakeMap:
	default:
		if c, ok := ch.Root.(*ssa.Call); ok {
			if b, ok := c.Call.Value.(*ssa.Builtin); ok && b.Name() == "append" && freshRef(c, 0) {
				break
			}
		}
		if p, ok := ch.Root.(*ssa.Phi); ok && freshRef(p, 0) {
			break
		}
		return false
	}
	// every crossed reference must be fresh
	for i := len(ch.Steps) - 1; i >= 0; i-- {
		s := ch.Steps[i]
		switch s.Kind {
		case "deref":
			if isRefType(s.RefVal.Type()) && !freshRef(s.RefVal, 0) {
				return false
			}
		case "index":
			if s.RefVal != nil && !freshRef(s.RefVal, 0) {
				return false
			}
		}
	}
	return true
}

func isRefType(t types.Type) bool {
	switch t.Underlying().(type) {
	case *types.Pointer, *types.Slice, *types.Map, *types.Chan, *types.Interface, *types.Signature:
		return true
	}
	return false
}

// typesOnChain lists the named types met on the chain: declaring structs of fields, slice element types, root pointee.
func (ch Chain) typesOnChain() []types.Type {
	var out []types.Type
	for _, s := range ch.Steps {
		if s.Struct != nil {
			out = append(out, s.Struct)
		}
		if s.Elem != nil {
			out = append(out, s.Elem)
		}
		if s.RefVal != nil {
			out = append(out, elemTypes(s.RefVal.Type())...)
		}
	}
	if ch.Root != nil {
		out = append(out, elemTypes(ch.Root.Type())...)
	}
	return out
}

func elemTypes(t types.Type) []types.Type {
	var out []types.Type
	for i := 0; i < 4; i++ {
		out = append(out, t)
		switch u := t.Underlying().(type) {
		case *types.Pointer:
			t = u.Elem()
		case *types.Slice:
			t = u.Elem()
		case *types.Array:
			t = u.Elem()
		case *types.Map:
			out = append(out, u.Key())
			t = u.Elem()
		default:
			return out
		}
	}
	return out
}

func (ch Chain) String() string {
	var parts []string
	for i := len(ch.Steps) - 1; i >= 0; i-- {
		s := ch.Steps[i]
		switch s.Kind {
		case "field":
			parts = append(parts, "."+s.Field)
		case "index":
			parts = append(parts, "[i]")
		case "deref":
			parts = append(parts, "*")
		case "slice":
			parts = append(parts, "[:]")
		}
	}
	root := "?"
	if ch.Root != nil {
		root = ch.Root.Name()
		switch r := ch.Root.(type) {
		case *ssa.Parameter:
			root = "param " + r.Name()
		case *ssa.Alloc:
			root = "local " + allocName(r)
		case *ssa.Global:
			root = "global " + r.Name()
		case *ssa.Call:
			root = "result of " + callName(r.Common())
		}
	}
	return root + strings.Join(parts, "")
}

func allocName(a *ssa.Alloc) string {
	if a.Comment != "" {
		return a.Comment
	}
	return a.Name()
}

func callName(c *ssa.CallCommon) string {
	if c.IsInvoke() {
		return "(" + c.Value.Type().String() + ")." + c.Method.Name()
	}
	if f := c.StaticCallee(); f != nil {
		return fnName(f)
	}
	if b, ok := c.Value.(*ssa.Builtin); ok {
		return b.Name()
	}
	return c.Value.Name()
}

func declaredIn(t types.Type, pkgs ...string) bool {
	if n, ok := t.(*types.Named); ok && n.Obj() != nil && n.Obj().Pkg() != nil {
		for _, p := range pkgs {
			if n.Obj().Pkg().Path() == p {
				return true
			}
		}
	}
	return false
}

// ---------------------------------------------------------------------------------------------
// Post-dominators and control dependence (go/ssa provides dominators only)

type PostDom struct {
	fn    *ssa.Function
	ipdom map[*ssa.BasicBlock]*ssa.BasicBlock // nil = virtual exit
	order []*ssa.BasicBlock
	pdset map[*ssa.BasicBlock]map[*ssa.BasicBlock]bool
}

// NewPostDom computes post-dominator sets by the classic iterative dataflow (functions here are small).
func NewPostDom(fn *ssa.Function) *PostDom {
	pd := &PostDom{fn: fn, pdset: map[*ssa.BasicBlock]map[*ssa.BasicBlock]bool{}}
	all := map[*ssa.BasicBlock]bool{}
	for _, b := range fn.Blocks {
		all[b] = true
	}
	isExit := func(b *ssa.BasicBlock) bool { return len(b.Succs) == 0 }
	for _, b := range fn.Blocks {
		if isExit(b) {
			pd.pdset[b] = map[*ssa.BasicBlock]bool{b: true}
		} else {
			m := map[*ssa.BasicBlock]bool{}
			for k := range all {
				m[k] = true
			}
			pd.pdset[b] = m
		}
	}
	changed := true
	for changed {
		changed = false
		for i := len(fn.Blocks) - 1; i >= 0; i-- {
			b := fn.Blocks[i]
			if isExit(b) {
				continue
			}
			var inter map[*ssa.BasicBlock]bool
			for _, s := range b.Succs {
				if inter == nil {
					inter = map[*ssa.BasicBlock]bool{}
					for k := range pd.pdset[s] {
						inter[k] = true
					}
				} else {
					for k := range inter {
						if !pd.pdset[s][k] {
							delete(inter, k)
						}
					}
				}
			}
			if inter == nil {
				inter = map[*ssa.BasicBlock]bool{}
			}
			inter[b] = true
			if len(inter) != len(pd.pdset[b]) {
				pd.pdset[b] = inter
				changed = true
			}
		}
	}
	return pd
}

// PostDominates reports whether a post-dominates b (every path from b to an exit passes through a).
func (pd *PostDom) PostDominates(a, b *ssa.BasicBlock) bool { return pd.pdset[b][a] }

// ControlDeps returns, for each block, the set of (branch block, successor index) pairs it is control-dependent on.
type CtrlEdge struct {
	Branch *ssa.BasicBlock
	Succ   int
}

func (pd *PostDom) ControlDeps() map[*ssa.BasicBlock][]CtrlEdge {
	out := map[*ssa.BasicBlock][]CtrlEdge{}
	for _, a := range pd.fn.Blocks {
		if len(a.Succs) < 2 {
			continue
		}
		for si, s := range a.Succs {
			// blocks that post-dominate s (including s) but do not strictly post-dominate a
			for _, x := range pd.fn.Blocks {
				if pd.PostDominates(x, s) && !(x != a && pd.PostDominates(x, a)) {
					out[x] = append(out[x], CtrlEdge{a, si})
				}
			}
		}
	}
	return out
}

// ---------------------------------------------------------------------------------------------
// Small helpers

func constInt(v ssa.Value) (int64, bool) {
	if c, ok := v.(*ssa.Const); ok && c.Value != nil && c.Value.Kind() == constant.Int {
		n, ok := constant.Int64Val(c.Value)
		return n, ok
	}
	return 0, false
}

func instrsOf(fn *ssa.Function, f func(ssa.Instruction)) {
	for _, b := range fn.Blocks {
		for _, in := range b.Instrs {
			f(in)
		}
	}
}

func staticCallee(in ssa.Instruction) *ssa.Function {
	if c, ok := in.(ssa.CallInstruction); ok {
		return c.Common().StaticCallee()
	}
	return nil
}

// isPanicCall reports whether an instruction is an explicit panic.
func isPanic(in ssa.Instruction) bool {
	_, ok := in.(*ssa.Panic)
	return ok
}

// blockReaches reports whether `to` is reachable from `from` (including from==to) in the CFG.
func blockReaches(from, to *ssa.BasicBlock) bool {
	seen := map[*ssa.BasicBlock]bool{}
	var work = []*ssa.BasicBlock{from}
	for len(work) > 0 {
		b := work[len(work)-1]
		work = work[:len(work)-1]
		if b == to {
			return true
		}
		if seen[b] {
			continue
		}
		seen[b] = true
		work = append(work, b.Succs...)
	}
	return false
}

// instrIndex returns the index of an instruction in its block.
func instrIndex(in ssa.Instruction) int {
	for i, x := range in.Block().Instrs {
		if x == in {
			return i
		}
	}
	return -1
}

// instrDominates: a executes before b on every path reaching b.
func instrDominates(a, b ssa.Instruction) bool {
	if a.Block() == b.Block() {
		return instrIndex(a) < instrIndex(b)
	}
	return a.Block().Dominates(b.Block())
}

// feasibleAvoiding answers whether some feasible path from the function's entry reaches `target` without executing any of the
// instructions in `avoid`. Feasibility is judged per acyclic path from the nil tests taken along it: each phi is resolved by the
// edge the path came in on, and a test `v == nil` / `v != nil` whose answer contradicts an earlier test of the same value on
// this path prunes the path. Returns (answer, decided); decided is false when the path budget is exhausted.
func feasibleAvoiding(fn *ssa.Function, avoid []ssa.Instruction, target ssa.Instruction) (bool, bool) {
	avoidAt := map[*ssa.BasicBlock]int{}
	for _, a := range avoid {
		i := instrIndex(a)
		if j, ok := avoidAt[a.Block()]; !ok || i < j {
			avoidAt[a.Block()] = i
		}
	}
	budget := 20000
	found := false
	onPath := map[*ssa.BasicBlock]bool{}
	var walk func(b, pred *ssa.BasicBlock, phis map[*ssa.Phi]ssa.Value, facts map[ssa.Value]bool)
	resolve := func(v ssa.Value, phis map[*ssa.Phi]ssa.Value) ssa.Value {
		for i := 0; i < 16; i++ {
			p, ok := v.(*ssa.Phi)
			if !ok {
				break
			}
			r, ok := phis[p]
			if !ok {
				break
			}
			v = r
		}
		return v
	}
	walk = func(b, pred *ssa.BasicBlock, phis map[*ssa.Phi]ssa.Value, facts map[ssa.Value]bool) {
		if found || budget <= 0 || onPath[b] {
			return
		}
		budget--
		limit := len(b.Instrs)
		if i, ok := avoidAt[b]; ok {
			limit = i
		}
		if target.Block() == b && instrIndex(target) < limit {
			found = true
			return
		}
		if limit < len(b.Instrs) {
			return
		}
		// resolve this block's phis by the incoming edge
		if pred != nil {
			idx := -1
			for i, p := range b.Preds {
				if p == pred {
					idx = i
				}
			}
			np := map[*ssa.Phi]ssa.Value{}
			for k, v := range phis {
				np[k] = v
			}
			for _, in := range b.Instrs {
				p, ok := in.(*ssa.Phi)
				if !ok {
					break
				}
				if idx >= 0 {
					np[p] = resolve(p.Edges[idx], phis)
				}
			}
			phis = np
		}
		onPath[b] = true
		defer func() { onPath[b] = false }()
		iff, ok := b.Instrs[len(b.Instrs)-1].(*ssa.If)
		if !ok {
			for _, s := range b.Succs {
				walk(s, b, phis, facts)
			}
			return
		}
		// a nil test: which value, and which successor means "is nil"
		var tested ssa.Value
		nilSucc := -1
		if bin, ok := iff.Cond.(*ssa.BinOp); ok && (bin.Op == token.EQL || bin.Op == token.NEQ) {
			x, y := bin.X, bin.Y
			if isNilConst(x) {
				x, y = y, x
			}
			if isNilConst(y) {
				tested = resolve(x, phis)
				nilSucc = 0
				if bin.Op == token.NEQ {
					nilSucc = 1
				}
			}
		}
		for i, s := range b.Succs {
			if tested == nil {
				walk(s, b, phis, facts)
				continue
			}
			isNil := i == nilSucc
			if isNilConst(tested) {
				if !isNil {
					continue
				}
				walk(s, b, phis, facts)
				continue
			}
			if known, ok := facts[tested]; ok {
				if known != isNil {
					continue // contradicts an earlier test on this path
				}
				walk(s, b, phis, facts)
				continue
			}
			nf := map[ssa.Value]bool{}
			for k, v := range facts {
				nf[k] = v
			}
			nf[tested] = isNil
			walk(s, b, phis, nf)
		}
	}
	if len(fn.Blocks) == 0 {
		return true, false
	}
	walk(fn.Blocks[0], nil, map[*ssa.Phi]ssa.Value{}, map[ssa.Value]bool{})
	if found {
		return true, true
	}
	return false, budget > 0
}
